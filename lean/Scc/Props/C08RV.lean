/-
  Scc.Props.C08RV — property C08 (RISC-V backend):

    "For every linearly well-typed, print-free AxCut program with at most 14 simultaneously live
     variables, the emitted RISC-V instruction sequence, read with 64-bit loads and stores and
     started at the first label with heap and free pointers initialised as on the other backends,
     reaches its exit point with the same result in the return register as the AxCut abstract
     machine computes, and it agrees with the other two backends on every such program."

  Objects: the backend model `Scc.RV.rvBackend` / `Scc.RV.compileRoutine` (Scc/RV/Backend.lean,
  text-equal to the real backend on the test corpus), the machine `Scc.RV.run` (Scc/RV/Machine.lean:
  `LW`/`SW` are 64-bit accesses there — on real RV64 they are 32-bit, which is why the property says
  "read with 64-bit loads and stores"), the positional AxCut machine `Scc.AxCut.Pos.run`
  (Scc/AxCut/SemPos.lean), the typing `Scc.AxCut.LinTypedProg` (Scc/AxCut/LinTyping.lean).

  Proved here (Theorem B of DESIGN.md §5 "C06, C07, C08" for RV64, the rungs B-arith / B-compare /
  B-literal / B-moves, the first rung of B-memory, and the capacity theorem): contracts of the
  instruction lists the backend emits, for ALL operand values, on the block semantics
  `Scc.RV.execList` (consecutive instructions of the machine's `exec`) and, for code with the local
  forward labels of memory.rs, `Scc.RV.execFwd` (Scc/RV/MemLemmas.lean).  B-memory: the combinators
  `skip_if_zero` / `if_zero_then_else`, `share_block_n` and `erase_block` (all three cases); NOT
  `acquire_block`, `store`, `load`.  NOT proved (kept as `def … : Prop`): the full statement `C08_statement`
  (needs Theorem A = the generic simulation, and the memory contracts of memory.rs) and the
  agreement with the other backends `C08_agreement_statement`; both are tested by
  /verif/gen/cross_backend.py (RV = A64 = positional machine on 371 generated programs × 3 inputs).
-/
import Scc.RV.Lemmas
import Scc.RV.MemLemmas
import Scc.AxCut.LinTyping

namespace Scc.RV

open Scc.AxCut Scc.Backend

/-! ## the statement -/

mutual
  /-- no `print_i64` / `println_i64` anywhere -/
  def printFreeStmt : Stmt → Bool
    | .subst _ next => printFreeStmt next
    | .call _ _ => true
    | .letS _ _ _ _ next _ => printFreeStmt next
    | .switch _ _ cs _ => printFreeClauses cs
    | .create _ _ _ cs next _ _ => printFreeClauses cs && printFreeStmt next
    | .invoke _ _ _ _ => true
    | .lit _ _ next _ => printFreeStmt next
    | .op _ _ _ _ next _ => printFreeStmt next
    | .print _ _ _ _ => false
    | .ifc _ _ _ t e => printFreeStmt t && printFreeStmt e
    | .exit _ => true
  def printFreeClauses : Clauses → Bool
    | .nil => true
    | .cons _ _ body rest => printFreeStmt body && printFreeClauses rest
end

def PrintFree (p : Prog) : Prop := ∀ d ∈ p.defs, printFreeStmt d.body = true

mutual
  /-- every environment reached from `Γ` (threaded exactly as the typing rules and the code
  generator thread it) has at most `k` variables -/
  def ctxWithinStmt (k : Nat) : Stmt → Ctx → Bool
    | .subst pairs next, Γ => decide (Γ.length ≤ k) && ctxWithinStmt k next (pairs.map (·.1))
    | .call _ _, Γ => decide (Γ.length ≤ k)
    | .letS x ty _ args next _, Γ =>
      decide (Γ.length ≤ k) &&
        ctxWithinStmt k next (Γ.take (Γ.length - args.length) ++ [⟨x, .prd, ty⟩])
    | .switch _ _ cs _, Γ => decide (Γ.length ≤ k) && ctxWithinClauses k cs Γ.dropLast []
    | .create x ty env cs next _ _, Γ =>
      let e := env.getD []
      decide (Γ.length ≤ k) && ctxWithinClauses k cs [] e &&
        ctxWithinStmt k next (Γ.take (Γ.length - e.length) ++ [⟨x, .cns, ty⟩])
    | .invoke _ _ _ _, Γ => decide (Γ.length ≤ k)
    | .lit x _ next _, Γ => decide (Γ.length ≤ k) && ctxWithinStmt k next (Γ ++ [⟨x, .ext, .i64⟩])
    | .op x _ _ _ next _, Γ => decide (Γ.length ≤ k) && ctxWithinStmt k next (Γ ++ [⟨x, .ext, .i64⟩])
    | .print _ _ next _, Γ => decide (Γ.length ≤ k) && ctxWithinStmt k next Γ
    | .ifc _ _ _ t e, Γ => decide (Γ.length ≤ k) && ctxWithinStmt k t Γ && ctxWithinStmt k e Γ
    | .exit _, Γ => decide (Γ.length ≤ k)
  def ctxWithinClauses (k : Nat) : Clauses → Ctx → Ctx → Bool
    | .nil, _, _ => true
    | .cons _ ctx body rest, pre, post =>
      ctxWithinStmt k body (pre ++ ctx ++ post) && ctxWithinClauses k rest pre post
end

/-- "at most `k` simultaneously live variables" (the environments of a linearized program are
exactly its live variables) -/
def LiveAtMost (k : Nat) (p : Prog) : Prop := ∀ d ∈ p.defs, ctxWithinStmt k d.body d.ctx = true

/-- C08, first half: the emitted text, run on the RV64 machine from the entry state (first label,
`X2 = heap base`, `X3 = X2 + 64`, arguments in the second temporaries of positions 0..), ends at
`cleanup` with the result of the AxCut positional machine in `X10` — for a heap that is large
enough.  (Faults of the positional machine — division by zero, MIN / -1 — are excluded by
`res = done v`.) -/
def C08_statement : Prop :=
  ∀ (p : Prog) (hooks : Bool) (counter nargs : Nat) (text : String) (args : List Word) (v : Word),
    LinTypedProg p → PrintFree p → LiveAtMost maxVariables p →
    compileRoutine p hooks counter = .ok (nargs, text) →
    (∃ fuel, (Pos.run p args fuel).res = .done v) →
    ∃ heapBytes fuel, ∀ cfg : MonCfg, cfg.heapBytes = heapBytes →
      (run text args fuel cfg).res = .done v

/-- the same without claiming termination of the compiler model: it does not panic on such programs -/
def C08_compiles_statement : Prop :=
  ∀ (p : Prog) (hooks : Bool) (counter : Nat),
    LinTypedProg p → PrintFree p → LiveAtMost maxVariables p → p.defs ≠ [] →
    ∃ r, compileRoutine p hooks counter = .ok r

/-- C08, second half: agreement with the other two backends.  The other backends' compilers and
machines are parameters (`compile… p = some routineText`, `run… text args fuel = some result` when
the run ends normally with that result) so that this file does not depend on their files. -/
def C08_agreement_statement
    (compileX86 compileA64 : Prog → Option String)
    (runX86 runA64 : String → List Word → Nat → Option Word) : Prop :=
  ∀ (p : Prog) (hooks : Bool) (counter nargs : Nat) (text textX textA : String) (args : List Word)
    (v : Word),
    LinTypedProg p → PrintFree p → LiveAtMost maxVariables p →
    compileRoutine p hooks counter = .ok (nargs, text) →
    compileX86 p = some textX → compileA64 p = some textA →
    (∃ fuel cfg, (run text args fuel cfg).res = .done v) →
    (∃ fuel, runX86 textX args fuel = some v) ∧ (∃ fuel, runA64 textA args fuel = some v)

/-! ## capacity: 14 variables -/

/-- `variable_temporary` succeeds iff the variable's position is at most 13 (so: 14 variables),
and then it is register `X(2·position + number + 4)`; otherwise it is the panic "Out of registers". -/
theorem C08_capacity (number : TempNum) (context : Ctx) (id pos c : Nat)
    (hpos : getPosition context id = some pos) :
    ((∃ r, (variableTemporary number context id).run c = .ok (r, c)) ↔ pos ≤ 13) ∧
    (∀ r, (variableTemporary number context id).run c = .ok (r, c) →
      r = ⟨2 * pos + number.toNat + reserved⟩) ∧
    ((variableTemporary number context id).run c = .error "Out of registers" ↔ 14 ≤ pos) := by
  have hvt : variableTemporary number context id = positionRegister number pos := by
    simp [variableTemporary, hpos]
  rw [hvt]
  refine ⟨⟨?_, ?_⟩, ?_, positionRegister_error_iff number pos c⟩
  · rintro ⟨r, hr⟩
    exact ((positionRegister_ok_iff number pos c r).mp hr).1
  · intro h
    exact ⟨_, (positionRegister_ok_iff number pos c _).mpr ⟨h, rfl⟩⟩
  · intro r hr
    exact ((positionRegister_ok_iff number pos c r).mp hr).2

/-- `fresh_temporary` succeeds iff the context has at most 13 variables (the new one is the 14th) -/
theorem C08_capacity_fresh (number : TempNum) (context : Ctx) (c : Nat) :
    ((∃ r, (freshTemporary number context).run c = .ok (r, c)) ↔ context.length ≤ 13) ∧
    ((freshTemporary number context).run c = .error "Out of registers" ↔ 14 ≤ context.length) := by
  unfold freshTemporary
  refine ⟨⟨?_, ?_⟩, positionRegister_error_iff number _ c⟩
  · rintro ⟨r, hr⟩
    exact ((positionRegister_ok_iff number _ c r).mp hr).1
  · intro h
    exact ⟨_, (positionRegister_ok_iff number _ c _).mpr ⟨h, rfl⟩⟩

/-- the registers of variables are never the reserved ones (`X0`, `TEMP`, `HEAP`, `FREE`), and
different (position, number) pairs get different registers -/
theorem C08_temporaries_disjoint (n1 n2 : TempNum) (p1 p2 : Nat) :
    (2 * p1 + n1.toNat + reserved ≥ 4) ∧
    (2 * p1 + n1.toNat + reserved = 2 * p2 + n2.toNat + reserved → p1 = p2 ∧ n1 = n2) := by
  have h1 := TempNum.toNat_le_one n1
  have h2 := TempNum.toNat_le_one n2
  refine ⟨by simp [reserved], ?_⟩
  intro h
  have hp : p1 = p2 := by omega
  refine ⟨hp, ?_⟩
  subst hp
  cases n1 <;> cases n2 <;> simp [TempNum.toNat] at h ⊢

-- non-vacuity: position 13 is the last one that works, position 14 panics
example : (variableTemporary .snd (List.replicate 13 ⟨⟨"a", 1⟩, .ext, .i64⟩ ++ [⟨⟨"x", 7⟩, .ext, .i64⟩]) 7).run 0
    = .ok (⟨31⟩, 0) := by rfl
example : (variableTemporary .fst (List.replicate 14 ⟨⟨"a", 1⟩, .ext, .i64⟩ ++ [⟨⟨"x", 7⟩, .ext, .i64⟩]) 7).run 0
    = .error "Out of registers" := by rfl

/-! ## Theorem B for RV64: contracts of the emitted instruction lists (all operand values) -/

section contracts
variable (cfg : MonCfg) (la : String → Option Nat) (pc : Nat)

/-- B-arith: every operator.  Where the AxCut machine computes `v` (`Pos.evalOp`), the emitted
instruction leaves `v` in the target (which may coincide with a source) and nothing else changes;
where the AxCut machine is stuck (x / 0, MIN / -1) the RV machine faults. -/
theorem C08_B_op (o : BinOp) (t a b : Register) (s : State) (va vb : Word)
    (ha : s.readReg a = .ok va) (hb : s.readReg b = .ok vb) :
    (∀ v, Pos.evalOp o va vb = .ok v →
      execList cfg la pc (rvBackend.binop o t a b) s = .ok (s.writeReg t v, .fall)) ∧
    (∀ w, Pos.evalOp o va vb = .error w →
      ∃ e, execList cfg la pc (rvBackend.binop o t a b) s = .error e) :=
  ⟨fun v hv => exec_binop cfg la pc o t a b s va vb v ha hb hv,
   fun w hw => exec_binop_fault cfg la pc o t a b s va vb w ha hb hw⟩

/-- B-compare: every comparison in its two-operand and its zero form: the branch to the label is
taken iff the AxCut comparison (`Pos.evalCmp`) holds; the state is unchanged.  (`<=` and `>` are
the pseudo-instructions `BLE`/`BGT` = `BGE`/`BLT` with swapped operands.) -/
theorem C08_B_compare (sort : IfSort) (a b : Register) (l : String) (s : State) (va vb : Word)
    (ha : s.readReg a = .ok va) (hb : s.readReg b = .ok vb) :
    execList cfg la pc (rvBackend.jumpLabelIf sort a b l) s =
        .ok (s, if Pos.evalCmp sort va vb then .label l else .fall) ∧
    execList cfg la pc (rvBackend.jumpLabelIfZero sort a l) s =
        .ok (s, if Pos.evalCmp sort va 0 then .label l else .fall) :=
  ⟨exec_jumpLabelIf cfg la pc sort a b l s va vb ha hb, exec_jumpLabelIfZero cfg la pc sort a l s va ha⟩

/-- B-literal: `load_immediate` puts the 64-bit value of ANY literal into the target -/
theorem C08_B_literal (t : Register) (n : Int) (s : State) (hs : s.WF) (ht : t.Usable) :
    ∃ s', execList cfg la pc (rvBackend.loadImmediate t n) s = .ok (s', .fall) ∧
      s'.readReg t = .ok (BitVec.ofInt 64 n) ∧
      (∀ r : Register, r.n ≠ t.n → s'.readReg r = s.readReg r) ∧ s'.mem = s.mem :=
  ⟨_, exec_loadImmediate cfg la pc t n s, readReg_writeReg_same hs ht _,
    fun _ hne => readReg_writeReg_other s hne _, writeReg_mem _ _ _⟩

/-- B-moves: `mov` -/
theorem C08_B_mov (t a : Register) (s : State) (hs : s.WF) (ht : t.Usable) (v : Word)
    (ha : s.readReg a = .ok v) :
    ∃ s', execList cfg la pc (rvBackend.mov t a) s = .ok (s', .fall) ∧ s'.WF ∧
      s'.readReg t = .ok v ∧ (∀ r : Register, r.n ≠ t.n → s'.readReg r = s.readReg r) ∧
      s'.mem = s.mem :=
  exec_mov_spec cfg la pc t a s hs ht v ha

/-- B-moves: a cycle is broken through `TEMP` (`store_temporary` / `restore_temporary`) -/
theorem C08_B_swap (x y : Register) (spill : Bool) (s : State) (hs : s.WF)
    (hx : x.Usable) (hy : y.Usable) (hxy : x.n ≠ y.n) (hxt : x.n ≠ TEMP.n) (hyt : y.n ≠ TEMP.n)
    (vx vy : Word) (hvx : s.readReg x = .ok vx) (hvy : s.readReg y = .ok vy) :
    ∃ s', execList cfg la pc (rvBackend.storeTemporary y spill ++ rvBackend.mov y x ++
          rvBackend.restoreTemporary x spill) s = .ok (s', .fall) ∧
      s'.readReg x = .ok vy ∧ s'.readReg y = .ok vx ∧
      (∀ r : Register, r.n ≠ x.n → r.n ≠ y.n → r.n ≠ TEMP.n → s'.readReg r = s.readReg r) ∧
      s'.mem = s.mem :=
  exec_swap_through_temp cfg la pc x y spill s hs hx hy hxy hxt hyt vx vy hvx hvy

/-- B-jumps: `load_label` then `add_and_jump (jump_length k)` reaches `address(label) + 4 k`: the
k-th entry of a table of 4-byte `JAL`s (invoke of a closure whose table address is in `t`) -/
theorem C08_B_addAndJump (t : Register) (k : Nat) (s : State) (hs : s.WF) (A : Nat)
    (ht : s.readReg t = .ok (BitVec.ofNat 64 A)) (hA : A % 2 = 0) :
    ∃ s', execList cfg la pc (rvBackend.addAndJump t (rvBackend.jumpLength k)) s =
        .ok (s', .addr (BitVec.ofNat 64 (A + 4 * k))) ∧
      (∀ r : Register, r.n ≠ TEMP.n → s'.readReg r = s.readReg r) ∧ s'.mem = s.mem :=
  exec_addAndJump cfg la pc t k s hs A ht hA

/-- B-jumps: the dispatch sequence of `switch` on the tag `jump_length k` stored by `let` -/
theorem C08_B_switch_dispatch (tag : Register) (L : String) (A k : Nat) (s : State) (hs : s.WF)
    (hl : la L = some A) (hA : A % 2 = 0) (htag : tag.n ≠ TEMP.n)
    (hv : s.readReg tag = .ok (BitVec.ofInt 64 (rvBackend.jumpLength k))) :
    ∃ s', execList cfg la pc (rvBackend.loadLabel rvBackend.temp L ++
          rvBackend.binop .sum rvBackend.temp rvBackend.temp tag ++ rvBackend.jump rvBackend.temp) s =
        .ok (s', .addr (BitVec.ofNat 64 (A + 4 * k))) ∧
      (∀ r : Register, r.n ≠ TEMP.n → s'.readReg r = s.readReg r) ∧ s'.mem = s.mem :=
  exec_switch_dispatch cfg la pc tag L A k s hs hl hA htag hv

/-- B-exit: `MV X10 t; JAL X0 cleanup` leaves the result in `X10` for EVERY operand register `t`,
including `t = X11` / `t = X10` (`RETURN1`/`RETURN2` are the temporaries of position 3). -/
theorem C08_B_exit (t : Register) (s : State) (hs : s.WF) (v : Word) (ht : s.readReg t = .ok v) :
    ∃ s', execList cfg la pc (rvBackend.mov rvBackend.return1 t ++ rvBackend.jumpLabel "cleanup") s =
        .ok (s', .label "cleanup") ∧ s'.readReg RETURN1 = .ok v :=
  exec_exit cfg la pc t s hs v ht

/-! ### B-memory, first rung (memory.rs): combinators, share_block_n, erase_block -/

/-- `skip_if_zero`: with condition 0 the code is skipped, otherwise it runs (the fresh label is
not defined inside the skipped code) -/
theorem C08_B_skipIfZero (cond : Register) (body : List Code) (c : Nat) (s : State) (v : Word)
    (hv : s.readReg cond = .ok v) (hfresh : skipTo (labName (c + 1)) body = none) :
    ∃ code, (skipIfZero cond body).run c = .ok (code, c + 1) ∧
      (v = 0 → execFwd cfg la code s = .ok (s, .fall)) ∧
      (v ≠ 0 → ∀ s', execFwd cfg la body s = .ok (s', .fall) → execFwd cfg la code s = .ok (s', .fall)) :=
  ⟨_, skipIfZero_run cond body c,
    fun h0 => execFwd_skip_zero cfg la cond body _ s (h0 ▸ hv) hfresh,
    fun hne s' hb => execFwd_skip_nonzero cfg la cond body _ s s' v hv hne hb⟩

/-- `if_zero_then_else`: exactly one branch runs (the two fresh labels are different because
`fresh_label` counts and `usize` printing is injective) -/
theorem C08_B_ifZeroThenElse (cond : Register) (thenB elseB : List Code) (c : Nat) (s : State)
    (v : Word) (hv : s.readReg cond = .ok v)
    (hf1 : skipTo (labName (c + 1)) elseB = none) (hf2 : skipTo (labName (c + 2)) thenB = none) :
    ∃ code, (ifZeroThenElse cond thenB elseB).run c = .ok (code, c + 2) ∧
      (v = 0 → ∀ s', execFwd cfg la thenB s = .ok (s', .fall) → execFwd cfg la code s = .ok (s', .fall)) ∧
      (v ≠ 0 → ∀ s', execFwd cfg la elseB s = .ok (s', .fall) → execFwd cfg la code s = .ok (s', .fall)) :=
  ⟨_, ifZeroThenElse_run cond thenB elseB c,
    fun h0 s' hb => execFwd_ite_zero cfg la cond thenB elseB _ _ s s' (h0 ▸ hv) hf1 hb,
    fun hne s' hb => execFwd_ite_nonzero cfg la cond thenB elseB _ _ s s' v hv hne
      (fun h => by have := labName_inj.mp h; omega) hf2 hb⟩

/-- `share_block_n`: `if p ≠ 0 { [p] += n }` — only `TEMP` and the count word change -/
theorem C08_B_shareBlockN (r : Register) (n c : Nat) (s : State) (hs : s.WF) (p : Word)
    (hr : s.readReg r = .ok p) (hrt : r.n ≠ TEMP.n) :
    (p = 0 → ∃ code c', (rvBackend.shareBlockN r n).run c = .ok (code, c') ∧
      execFwd cfg la code s = .ok (s, .fall)) ∧
    (p ≠ 0 → checkAddr cfg p.toNat = .ok () →
      ∃ code c' s', (rvBackend.shareBlockN r n).run c = .ok (code, c') ∧
        execFwd cfg la code s = .ok (s', .fall) ∧
        s'.mem = s.mem.insert p.toNat (s.mem.getD p.toNat 0 + BitVec.ofInt 64 n) ∧
        (∀ x : Register, x.n ≠ TEMP.n → s'.readReg x = s.readReg x) ∧ s'.WF) :=
  ⟨fun h0 => shareBlockN_null cfg la r n c s (h0 ▸ hr),
   fun hp hok => shareBlockN_spec cfg la r n c s hs p hr hp hrt hok⟩

/-- `erase_block`: null pointer — nothing; count 0 — the block becomes the head of the lazy free
list (`[p] := FREE; FREE := p`); otherwise the count is decremented -/
theorem C08_B_eraseBlock (r : Register) (c : Nat) (s : State) (hs : s.WF) (p f : Word)
    (hr : s.readReg r = .ok p) (hrt : r.n ≠ TEMP.n) (hf : s.readReg FREE = .ok f) :
    (p = 0 → ∃ code c', (rvBackend.eraseBlock r).run c = .ok (code, c') ∧
      execFwd cfg la code s = .ok (s, .fall)) ∧
    (p ≠ 0 → checkAddr cfg p.toNat = .ok () → s.mem.getD p.toNat 0 = 0 →
      ∃ code c' s', (rvBackend.eraseBlock r).run c = .ok (code, c') ∧
        execFwd cfg la code s = .ok (s', .fall) ∧
        s'.mem = s.mem.insert p.toNat f ∧ s'.readReg FREE = .ok p ∧
        (∀ x : Register, x.n ≠ TEMP.n → x.n ≠ FREE.n → s'.readReg x = s.readReg x) ∧ s'.WF) ∧
    (p ≠ 0 → checkAddr cfg p.toNat = .ok () → s.mem.getD p.toNat 0 ≠ 0 →
      ∃ code c' s', (rvBackend.eraseBlock r).run c = .ok (code, c') ∧
        execFwd cfg la code s = .ok (s', .fall) ∧
        s'.mem = s.mem.insert p.toNat (s.mem.getD p.toNat 0 + BitVec.ofInt 64 (-1)) ∧
        (∀ x : Register, x.n ≠ TEMP.n → s'.readReg x = s.readReg x) ∧ s'.WF) :=
  ⟨fun h0 => eraseBlock_null cfg la r c s (h0 ▸ hr),
   fun hp hok hc => eraseBlock_spec_zero cfg la r c s hs p f hr hp hrt hf hok hc,
   fun hp hok hc => eraseBlock_spec_nonzero cfg la r c s hs p hr hp hrt hok hc⟩

end contracts

/-! ## non-vacuity: a concrete well-formed state satisfying the hypotheses -/

/-- a state with `X5 = 7`, `X7 = -3`, everything else undefined -/
def demoState : State :=
  { regs := ((Array.replicate 32 none).setIfInBounds 5 (some 7#64)).setIfInBounds 7 (some (-3 : Word)),
    mem := ∅, pc := 0 }

example : demoState.WF := by simp [State.WF, demoState, registerNum]
example : demoState.readReg ⟨5⟩ = .ok 7#64 ∧ demoState.readReg ⟨7⟩ = .ok (-3 : Word) := by
  constructor <;> simp [State.readReg, demoState]
example : (⟨9⟩ : Register).Usable ∧ (⟨5⟩ : Register).Usable ∧ (⟨7⟩ : Register).Usable := by
  simp [Register.Usable, registerNum]
example : Pos.evalOp .div 7#64 (-3 : Word) = .ok (-2 : Word) := by
  simp [Pos.evalOp, Pos.minInt]
example : Pos.evalOp .rem (-3 : Word) 0#64 = .error .divByZero := by simp [Pos.evalOp]
-- the swap hypotheses hold for X5, X7 in `demoState`; a table address is even: codeBase + 4 n
example : (5 : Nat) ≠ 7 ∧ (5 : Nat) ≠ TEMP.n ∧ (7 : Nat) ≠ TEMP.n ∧ (codeBase + 4 * 3) % 2 = 0 := by decide

-- a heap address passes the address check of the default configuration; the code of the
-- combinators' branches in memory.rs contains no labels at all
example : checkAddr {} heapBase = .ok () := by simp [checkAddr, heapBase]
example : skipTo (labName 1) [.COMMENT "x", .LW TEMP ⟨6⟩ 0, .ADDI TEMP TEMP 1, .SW TEMP ⟨6⟩ 0] = none := by
  rfl

end Scc.RV

#print axioms Scc.RV.C08_capacity
#print axioms Scc.RV.C08_capacity_fresh
#print axioms Scc.RV.C08_temporaries_disjoint
#print axioms Scc.RV.C08_B_op
#print axioms Scc.RV.C08_B_compare
#print axioms Scc.RV.C08_B_literal
#print axioms Scc.RV.C08_B_mov
#print axioms Scc.RV.C08_B_swap
#print axioms Scc.RV.C08_B_addAndJump
#print axioms Scc.RV.C08_B_switch_dispatch
#print axioms Scc.RV.C08_B_exit
#print axioms Scc.RV.C08_B_skipIfZero
#print axioms Scc.RV.C08_B_ifZeroThenElse
#print axioms Scc.RV.C08_B_shareBlockN
#print axioms Scc.RV.C08_B_eraseBlock
