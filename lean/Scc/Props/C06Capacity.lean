/-
  Scc.Props.C06Capacity — the capacity hypothesis of Theorem A (Props/C06Generic.lean) made STATIC.

  `TheoremA_run` assumes "every context of the run is within the capacity of the numbering of temporaries"
  (`∀ st, Reachable prog st0 st → WithinCapacity st.ctx`), a statement about all states of a run.
  * `capacity_static`      THEOREM, for all programs: it follows from the DECIDABLE per-program check
                           `ProgWithinCapacity prog` (`2 * progCap prog + 2 < T_TEMP`, where `progCap` is the static
                           bound of Scc/AxCut/PosCapacity.lean on the length of every reachable context).
  * `TheoremA_run_static`  `TheoremA_run` with that check in place of the hypothesis on runs.
  `T_TEMP = 1000001`: the check fails only for programs with half a million live variables.
-/
import Scc.AxCut.PosCapacity
import Scc.Props.C06Generic

namespace Scc.Props.C06Generic

open Scc Scc.AxCut Scc.AxCut.Pos Scc.Backend Scc.Backend.Abs
open Scc.Props.C14Generic (LabelSafe)

/-- the decidable capacity check of a program: every context the positional machine can reach fits the
    numbering of temporaries of the mock backend -/
def ProgWithinCapacity (prog : Prog) : Bool := decide (2 * progCap prog + 2 < Mock.T_TEMP)

/-- the invariant `StateCap` holds in every reachable state -/
theorem reach_cap {prog : Prog} {B : Nat} (hP : ∀ d ∈ prog.defs, capStmt d.ctx.length d.body ≤ B)
    {st0 st : Pos.State} (h0 : StateCap B st0) (hr : Reachable prog st0 st) : StateCap B st := by
  induction hr with
  | refl => exact h0
  | step _ hs ih => exact step_cap hP ih hs

/-- every context reachable from the entry state of a definition on integer arguments has length
    `≤ progCap prog` -/
theorem reach_ctx_le (prog : Prog) (d0 : Def) (hd : d0 ∈ prog.defs) (args : List Word) (st : Pos.State)
    (hr : Reachable prog ⟨d0.ctx, args.map .int, d0.body⟩ st) : st.ctx.length ≤ progCap prog :=
  (reach_cap (progCap_def prog) (init_cap (progCap_def prog) hd args) hr).ctx_le

/-- **the capacity hypothesis of Theorem A from the static check** -/
theorem capacity_static (prog : Prog) (h : ProgWithinCapacity prog = true) (d0 : Def)
    (hd : d0 ∈ prog.defs) (args : List Word) :
    ∀ st, Reachable prog ⟨d0.ctx, args.map .int, d0.body⟩ st → WithinCapacity st.ctx := by
  intro st hr
  have h1 := reach_ctx_le prog d0 hd args st hr
  simp only [ProgWithinCapacity, decide_eq_true_eq] at h
  unfold WithinCapacity
  omega

/-- THEOREM A for whole runs with the STATIC capacity check: every terminating run (shorter than 2^64
    steps) of a label-safe, linearly typed program whose entry takes integers, whose code fits the
    address space and whose contexts fit the numbering of temporaries (`ProgWithinCapacity`, decidable
    on the program) is reproduced by the abstract machine on the generated code. -/
theorem TheoremA_run_static (hooks : Bool) (prog : Prog) (c : Nat) (code : List MockOp) (nargs c' : Nat)
    (d0 : Def) (args : List Word) (fuel : Nat) (out : List (Bool × Word)) (v : Word)
    (hcomp : (compile mockSym hooks prog).run c = .ok ((code, nargs), c'))
    (hsafe : LabelSafe prog = true) (htp : LinTypedProg prog) (hfit : CodeFits code)
    (hd : prog.defs.head? = some d0)
    (hentry : ∀ b ∈ d0.ctx, b.chi = .ext ∧ b.ty = .i64)
    (hcap : ProgWithinCapacity prog = true)
    (hfuel : fuel + 1 < 2 ^ 64)
    (hrun : Pos.run prog args fuel = ⟨out, .done v⟩) :
    ∃ fuel', Abs.run code (d0.name.print ++ "_") args fuel' = ⟨out, .done v⟩ := by
  have hmem : d0 ∈ prog.defs := by
    cases hdefs : prog.defs with
    | nil => rw [hdefs] at hd; simp at hd
    | cons d ds => rw [hdefs] at hd; simp at hd; subst hd; simp
  exact TheoremA_run hooks prog c code nargs c' d0 args fuel out v hcomp hsafe htp hfit hd hentry
    (capacity_static prog hcap d0 hmem args) hfuel hrun

/-! non-vacuity: a program with a closure and a data type passes the check (its bound is small) -/

private def tFun : Ty := .decl ⟨"Fun", 0⟩
private def bx (n : String) (i : Nat) : Binding := ⟨⟨n, i⟩, .ext, .i64⟩

private def capMain : Def :=
  { name := ⟨"main", 0⟩, ctx := [bx "x" 1],
    body := .create ⟨"f", 2⟩ tFun (some [bx "x" 1])
      (.cons ⟨"Ap", 0⟩ [bx "a" 3]
        (.op ⟨"s", 4⟩ ⟨"a", 3⟩ .sum ⟨"x", 1⟩ (.print true ⟨"s", 4⟩ (.exit ⟨"s", 4⟩) none) none) .nil)
      (.lit ⟨"n", 5⟩ 5
        (.subst [(bx "n" 6, ⟨"n", 5⟩), (⟨⟨"f", 7⟩, .cns, tFun⟩, ⟨"f", 2⟩)]
          (.invoke ⟨"f", 7⟩ ⟨"Ap", 0⟩ tFun [bx "n" 6])) none) none none }

private def capEx : Prog :=
  { defs := [capMain], types := [{ name := ⟨"Fun", 0⟩, xtors := [⟨⟨"Ap", 0⟩, [bx "a" 202]⟩] }],
    maxId := 202 }

example : progCap capEx = 3 ∧ ProgWithinCapacity capEx = true := by decide +kernel

#print axioms capacity_static
#print axioms TheoremA_run_static
#print axioms Scc.AxCut.Pos.step_cap

end Scc.Props.C06Generic
