/-
  Scc.Props.C06X86 — property C06 (x86-64 code generation preserves AxCut semantics): the part
  "Theorem B for x86-64" of DESIGN.md §5: per-method semantic contracts of the backend crate
  /repo/lang/axcut2x86_64 (model: Scc/X86/Backend.lean, text-identical to the crate on 488 programs)
  executed by the SPEC machine Scc/X86/Machine.lean (`execStraight` = iterated `execCode`).

  * `C06_statement` — the full property, kept as a `def : Prop` (NOT proved: it needs the generic
    simulation "Theorem A" composed with the per-method contracts below, which now include the memory
    contracts acquire_block / store / load).
  * PROVED, for ALL operand values and ALL placements (register / spill slot / aliasing; no enumeration):
      `C06_op_correct`            all five operators against `Pos.evalOp`, fresh target (the code generator's case)
      `C06_add_correct`, `C06_sub_correct`   any aliasing of target and sources
      `C06_mul_correct`           any aliasing with a register target; spilled target not aliased
      `C06_div_correct`, `C06_rem_correct`   the RETURN1/RETURN2/TEMP dance, rax and rdx restored
      `C06_mov_correct`, `C06_load_label_correct`
      `C06_load_immediate_correct`  EVERY `i64` literal into EVERY placement (register / spill slot), no
        side condition (code as REPAIRED by /repo 512f045; a literal outside i32 reaches a spill slot
        through TEMP, which `Preserved` allows to change); `C06_load_immediate_word`: the same, stated
        for an arbitrary machine word `w` (literal `w.toInt`)
      `C06_compare_correct`, `C06_compare_zero_correct`, `C06_branch_correct` (each conditional jump
        is taken exactly when `Pos.evalCmp` holds)
      `C06_invoke_jump` (`add_and_jump`), `C06_switch_jump` (register AND spilled tag)
      `C06_machine_steps`  the bridge `execStraight` ⟶ iterated `Scc.X86.step` on a program containing the list
    MEMORY COMBINATORS (memory.rs; blocks with forward local labels, `execFwd` of ProofsMem.lean):
      `C06_skip_if_zero`, `C06_if_zero_then_else`  which branch runs (condition in a register, a spill
        slot, or the heap word a register points to)
      `C06_share_block_correct`  `share_block_n` against `Scc.Heap.shareBlock`, pointer in a register or a
        spill slot: from every boundary state representing an abstract heap on which the model's
        operation succeeds, the code runs to its end and the final state represents the model's result
      `C06_erase_block_correct`  `erase_block` against `Scc.Heap.eraseBlock` (null / count 0 → lazy free
        list / count > 0 → decrement), same form
      `C06_machine_steps_fwd`  the bridge `execFwd` ⟶ iterated `Scc.X86.step` for a block whose labels
        are its own (unique in the text)
    MEMORY CONTRACTS (memory.rs; proofs in Scc/X86/MemProofs*.lean on the memory-level view `MState` /
    `mFwd` of MemProofsView.lean, transferred to the machine by `msim_fwd`), all of the same form as
    share/erase: from EVERY boundary state that represents (`HeapRel`) an abstract heap of
    Scc/Heap/Model.lean on which the model's operation succeeds, the emitted code — every operand in a
    register or in a spill slot — runs to its end without a fault; the final state is a boundary state
    with the SAME rsp, represents the model's result, holds the results in the result temporaries, and
    `FrameT` lists what may have changed (nothing else: trace, pc, stack outside the spill area, every
    other register and spill slot):
      `C06_acquire_block_correct`  `acquire_block` against `Scc.Heap.acquire`: (1) next block of the linear
        free list, (2) head of the lazy free list with deferred erasure of its three children
        (`erase_fields`, each child null / count 0 / count > 0), (3) bump of the frontier
      `C06_store_correct`  `store` against `Scc.Heap.storeObj` for ANY number of fields (one block for
        up to FIELDS_PER_BLOCK = 3 fields, otherwise a chain of linked blocks; no fields: the null
        pointer) and EVERY placement of the stored variables and of the acquired-block temporaries
        (`posTemp`: registers 4..15, then spill slots 1..255 — crossing the boundary included);
        hypothesis `2 * (|rem| + |toStore|) ≤ 267`: the capacity of utils.rs temporary_from_position
        (beyond it the generator panics "Out of temporaries")
      `C06_load_correct`  `load` against `Scc.Heap.loadObj` for ANY number of fields and EVERY placement of
        the loaded variables and of the memory-block temporaries (a spilled memory block is accessed
        through TEMPORARY_TEMP = rax, evacuated to SPILL_TEMP and restored at the end: rax IS preserved):
        unique branch (count 0: every block of the chain is released onto the linear free list, the
        children move into the environment) and shared branch (count > 0: decrement, every pointer child
        is shared); `C06_load_unique_correct` / `C06_load_shared_correct` are the two branches separately.
        Side condition of the shared branch only: the incremented counts of the model (unbounded
        naturals) fit in 64 bits (`hno`; as `hno` of `C06_share_block_correct`)
    Every conclusion includes `Preserved`: nothing but the target, the scratch register TEMP and the
    flags changes (all other registers incl. rsp/HEAP/FREE, every stack word, heap, trace).
  * REGRESSION for the repaired defect D5 (formerly `C06_load_immediate_D5_witness`: a literal outside
    i32 bound to a SPILLED variable was emitted as `mov qword [rsp + off], imm64`, which does not exist):
      `C06_load_immediate_D5_regression` — on the same input (7 live variables, the 7th
        `let x7: i64 = 4294967297`, i.e. spill slot 2 = `[rsp + 2024]`) the code is now
        `mov rcx, 4294967297; mov [rsp + 2024], rcx`, passes the operand check, and the machine ends with
        the literal in the slot (for every boundary state and every spill slot).
  * THEOREM B for x86-64, integer fragment — the REFINEMENT abstract backend machine ⟶ x86-64 machine
    (Scc/X86/Ref*.lean), and its composition with Theorem A (C06Generic):
      `RepX86` (RefDefs.lean)      the representation relation `Abs.Config ↔ X86.State`: word part of position
        i (abstract temporary 2i+1) ↔ `posTemp (2i+1)` = register 5,7,…,15 / spill slot (Consts.lean via
        utils.rs temporary_from_position); RET1 ↔ rax; scratch cell of parallel moves ↔ TEMP / SPILL_TEMP
        (`Mode`); equal traces; rsp at its boundary value, callee-save area untouched; program counters
        related by `At` (suffixes of mock code / item list related by the rendering relation `Seg`)
      `C06_rendering`  (`seg_compile`)   whenever the x86 generator succeeds on a linearly typed integer
        program with literals in i64, the mock generator succeeds from the same label counter and the x86
        body renders the mock code instruction by instruction (parametricity of Generic.lean in the
        backend, incl. parallel moves: spanning forests correspond under `posTemp`, RefPM.lean)
      `C06_init`       (`init_sim`)      rung 1: from the machine's entry state (≤ 5 integer arguments) the
        header `preamble ++ setup` (prologue, move_arguments) reaches the first item of the body in a state
        that represents the initial abstract configuration
      `C06_sim_step`, `C06_sim_halt`     rung 2: every step of the abstract machine on
        comment label jumplabel jif jifz li add/sub/mul/div/rem mov print save restore is simulated by the
        x86 machine on the rendering (stepsTo-style), `jumplabel cleanup` by jump + epilogue + `ret` with
        a successful exit check
      `C06_int_programs`                 rung 3: AxCut positional machine ⟶ x86-64 machine on the ITEMS of
        the emitted routine (any item list equal to the routine up to comment text), for LabelSafe,
        LinTyped INTEGER programs; `C06_int_programs_text`: the same for `X86.run` on the TEXT, given that
        the text loads (`TextLoads`: print → parse round trip of this routine).
    `C06_loader_statement` (print → parse round trip for every text-safe routine) IS NOW A THEOREM:
    `C14_loader` in Props/C14Loader.lean (agent loader; `String.splitOn` characterised from
    `String.splitOnAux` in Scc/StringLemmas.lean), and `C14_routine_loads`: every routine of the backend
    model loads, given `ProgInRange` and the decidable names check `C14_namesTextSafe`; hence
    `C06_int_programs_loaded` = `C06_int_programs_text` without `TextLoads`.
    NOT proved: the memory ops
    (store/load/erase/share at machine level against the abstract heap): `RepX86` has no heap clause.
  * DEFECT (genuine; confirmed with GNU as on the emitted text):
      `C06_mul_alias_witness` — `mul` with a spilled target aliasing a source emits `imul [mem], reg`
        (no such instruction).  Only reachable with non-unique variable ids.
-/
import Scc.X86.ProofsWf
import Scc.X86.ProofsStep
import Scc.X86.ProofsMem
import Scc.X86.MemProofsHeap
import Scc.X86.MemProofsStore
import Scc.X86.MemProofsLoad
import Scc.AxCut.LinTyping
import Scc.X86.RefCompose

namespace Scc.X86
open Scc.AxCut

/-! ## The full statement (not proved) -/

/-- C06: for every linearly well-typed AxCut program that the backend compiles (capacity!) and all
arguments: if the AxCut positional machine finishes with `v` after printing `out`, then executing the
emitted routine TEXT from `asm_main` with a zero-filled heap performs the same print calls and returns
`v` (given enough fuel and heap), whatever the placement of values and the size of objects. -/
def C06_statement : Prop :=
  ∀ (p : AxCut.Prog) (args : List (BitVec 64)) (hooks : Bool) (body routine : List Code) (nargs : Nat),
    LinTypedProg p → compileX86 p hooks 0 = .ok (body, nargs) → intoRoutine body nargs = .ok routine →
    ∀ fuel v, Pos.run p args fuel = ⟨(Pos.run p args fuel).out, .done v⟩ →
      ∃ fuel' heapBytes, ∀ cfg : MonCfg, cfg.mach.heapBytes = heapBytes → cfg.heap = false →
        (run (printProg routine) args fuel' cfg).out = (Pos.run p args fuel).out ∧
        (run (printProg routine) args fuel' cfg).res = .done v

/-! ## Proved contracts (Theorem B) -/

variable {c : MachCfg} {la : String → Option Nat} {st : State} {sp : Word}

/-- `add/sub/mul/div/rem` as the code generator uses them (fresh target), ∀ operand values on which
the AxCut operator is defined, ∀ placements of target and sources. -/
theorem C06_op_correct (B : Boundary c st sp) (o : BinOp) {t s1 s2 : Temporary}
    (P : DivPlacement t s1 s2) {x y r : Word} (hx : tempVal sp st s1 = some x)
    (hy : tempVal sp st s2 = some y) (hev : Pos.evalOp o x y = .ok r) :
    ∃ st', execStraight c la (x86Backend.binop o t s1 s2) st = .ok st' ∧ Boundary c st' sp ∧
      tempVal sp st' t = some r ∧ Preserved sp st st' (some t) :=
  binop_correct B o P hx hy hev

theorem C06_add_correct (B : Boundary c st sp) {t s1 s2 : Temporary} (ht : TempOK t) (h1 : TempOK s1)
    (h2 : TempOK s2) {x y : Word} (hx : tempVal sp st s1 = some x) (hy : tempVal sp st s2 = some y) :
    ∃ st', execStraight c la (add t s1 s2) st = .ok st' ∧ Boundary c st' sp ∧
      tempVal sp st' t = some (x + y) ∧ Preserved sp st st' (some t) := add_correct B ht h1 h2 hx hy

theorem C06_sub_correct (B : Boundary c st sp) {t s1 s2 : Temporary} (ht : TempOK t) (h1 : TempOK s1)
    (h2 : TempOK s2) {x y : Word} (hx : tempVal sp st s1 = some x) (hy : tempVal sp st s2 = some y) :
    ∃ st', execStraight c la (sub t s1 s2) st = .ok st' ∧ Boundary c st' sp ∧
      tempVal sp st' t = some (x - y) ∧ Preserved sp st st' (some t) := sub_correct B ht h1 h2 hx hy

theorem C06_mul_correct (B : Boundary c st sp) {t s1 s2 : Temporary} (ht : TempOK t) (h1 : TempOK s1)
    (h2 : TempOK s2) (hal : ∀ p, t = .spill p → t ≠ s1 ∧ t ≠ s2)
    {x y : Word} (hx : tempVal sp st s1 = some x) (hy : tempVal sp st s2 = some y) :
    ∃ st', execStraight c la (mul t s1 s2) st = .ok st' ∧ Boundary c st' sp ∧
      tempVal sp st' t = some (x * y) ∧ Preserved sp st st' (some t) := mul_correct B ht h1 h2 hal hx hy

theorem C06_div_correct (B : Boundary c st sp) {t s1 s2 : Temporary} (P : DivPlacement t s1 s2)
    {x y : Word} (hx : tempVal sp st s1 = some x) (hy : tempVal sp st s2 = some y) (hd : DivOK x y) :
    ∃ st', execStraight c la (div t s1 s2) st = .ok st' ∧ Boundary c st' sp ∧
      tempVal sp st' t = some (x.sdiv y) ∧ Preserved sp st st' (some t) := div_correct B P hx hy hd

theorem C06_rem_correct (B : Boundary c st sp) {t s1 s2 : Temporary} (P : DivPlacement t s1 s2)
    {x y : Word} (hx : tempVal sp st s1 = some x) (hy : tempVal sp st s2 = some y) (hd : DivOK x y) :
    ∃ st', execStraight c la (rem t s1 s2) st = .ok st' ∧ Boundary c st' sp ∧
      tempVal sp st' t = some (x.srem y) ∧ Preserved sp st st' (some t) := rem_correct B P hx hy hd

theorem C06_mov_correct (B : Boundary c st sp) {t s : Temporary} (ht : TempOK t) (hs : TempOK s) :
    ∃ st', execStraight c la (mov t s) st = .ok st' ∧ Boundary c st' sp ∧
      tempVal sp st' t = tempVal sp st s ∧ Preserved sp st st' (some t) := mov_correct B ht hs

/-- `load_immediate`: correct for EVERY `i64` literal (`fitsI64 v` is the type invariant of the Rust
`Immediate { val: i64 }`) and EVERY placement of the target.  For a spilled target and a literal outside
i32 the code goes through the scratch register TEMP, whose change `Preserved` permits. -/
theorem C06_load_immediate_correct (B : Boundary c st sp) {t : Temporary} (ht : TempOK t) {v : Int}
    (h64 : fitsI64 v = true) :
    ∃ st', execStraight c la (loadImmediate t v) st = .ok st' ∧ Boundary c st' sp ∧
      tempVal sp st' t = some (BitVec.ofInt 64 v) ∧ Preserved sp st st' (some t) :=
  loadImmediate_correct B ht h64

theorem fitsI64_toInt (w : Word) : fitsI64 w.toInt = true := by
  have h1 := BitVec.le_toInt w
  have h2 := BitVec.toInt_lt (x := w)
  simp only [fitsI64, Bool.and_eq_true, decide_eq_true_eq]
  constructor <;> omega

/-- the same for an arbitrary 64-bit word: loading the literal `w.toInt` leaves exactly `w` in the
target — no hypothesis on the value at all. -/
theorem C06_load_immediate_word (B : Boundary c st sp) {t : Temporary} (ht : TempOK t) (w : Word) :
    ∃ st', execStraight c la (loadImmediate t w.toInt) st = .ok st' ∧ Boundary c st' sp ∧
      tempVal sp st' t = some w ∧ Preserved sp st st' (some t) := by
  obtain ⟨st', h1, h2, h3, h4⟩ := C06_load_immediate_correct (la := la) B ht (fitsI64_toInt w)
  exact ⟨st', h1, h2, by rw [h3, BitVec.ofInt_toInt], h4⟩

/-- REGRESSION for D5 (repaired): the literal 4294967297 = 2^32 + 1 into a spill slot is now the
two-instruction sequence through TEMP, both instructions pass the C14 operand check, and from every
boundary state the machine ends with the literal in the slot (before the repair: a machine fault in
EVERY state, `imm-out-of-range`). -/
theorem C06_load_immediate_D5_regression (B : Boundary c st sp) {p : Nat} (hp : TempOK (.spill p)) :
    loadImmediate (.spill p) 4294967297 =
      [.MOVI TEMP 4294967297, .MOVS TEMP STACK (stackOffset p)] ∧
    (∀ code ∈ loadImmediate (.spill p) 4294967297, codeOperandError code = none) ∧
    ∃ st', execStraight c la (loadImmediate (.spill p) 4294967297) st = .ok st' ∧ Boundary c st' sp ∧
      tempVal sp st' (.spill p) = some 4294967297#64 ∧ Preserved sp st st' (some (.spill p)) :=
  ⟨loadImmediate_spill_wide p (by decide), operandsOK_loadImmediate hp.opnd (by decide),
   loadImmediate_correct B hp (by decide)⟩

/-- witness: `mul` into a spilled target that is also its first source is `imul [mem], reg` -/
theorem C06_mul_alias_witness (c : MachCfg) (la : String → Option Nat) (st : State) (p r : Nat) :
    ∃ e, execStraight c la (mul (.spill p) (.spill p) (.reg r)) st = .error e :=
  mul_alias_illegal c la st p r

theorem C06_load_label_correct (B : Boundary c st sp) {t : Temporary} (ht : TempOK t) {name : String}
    {n : Nat} (hl : la name = some n) :
    ∃ st', execStraight c la (loadLabel t name) st = .ok st' ∧ Boundary c st' sp ∧
      tempVal sp st' t = some (BitVec.ofNat 64 n) ∧ Preserved sp st st' (some t) := loadLabel_correct B ht hl

theorem C06_compare_correct (B : Boundary c st sp) {fst snd : Temporary} (h1 : TempOK fst) (h2 : TempOK snd)
    {x y : Word} (hx : tempVal sp st fst = some x) (hy : tempVal sp st snd = some y) :
    ∃ st', execStraight c la (compare fst snd) st = .ok st' ∧ Boundary c st' sp ∧
      st'.flags = some (x, y) ∧ Preserved sp st st' none := compare_correct B h1 h2 hx hy

theorem C06_compare_zero_correct (B : Boundary c st sp) {t : Temporary} (h1 : TempOK t) {x : Word}
    (hx : tempVal sp st t = some x) :
    ∃ st', execStraight c la (compareImmediate t 0) st = .ok st' ∧ Boundary c st' sp ∧
      st'.flags = some (x, 0) ∧ Preserved sp st st' none := by
  simpa using compareImmediate_correct (la := la) B h1 (i := 0) (by decide) hx

/-- `jump_label_if_*` = the comparison followed by ONE conditional jump, which goes to its label
exactly when the AxCut comparison holds on the recorded operands (all 6 × 2 forms). -/
theorem C06_branch_correct (sort : IfSort) (fst snd : Temporary) (l : String) (st : State) {a b : Word}
    (hf : st.flags = some (a, b)) :
    x86Backend.jumpLabelIf sort fst snd l = compare fst snd ++ [condJump sort l] ∧
    x86Backend.jumpLabelIfZero sort fst l = compareImmediate fst 0 ++ [condJump sort l] ∧
    execCode c la (condJump sort l) st = .ok (st, if Pos.evalCmp sort a b then .jumpLabel l else .next) := by
  refine ⟨rfl, rfl, ?_⟩
  rw [condJump_correct c la sort l st hf]
  cases sort <;> rfl

/-- invoke: `add_and_jump t imm` jumps to (contents of `t`) + imm -/
theorem C06_invoke_jump (B : Boundary c st sp) {t : Temporary} (ht : TempOK t) {imm : Int}
    (hi : fitsI32 imm = true) {x : Word} (hx : tempVal sp st t = some x) :
    addAndJump t imm = addAndJumpPre t imm ++ [.JMP (jumpReg t)] ∧
    ∃ st', execStraight c la (addAndJumpPre t imm) st = .ok st' ∧ Boundary c st' sp ∧
      Preserved sp st st' (some t) ∧
      execCode c la (.JMP (jumpReg t)) st' = .ok (st', .jumpAddr (x + BitVec.ofInt 64 imm).toNat) :=
  addAndJump_correct B ht hi hx

/-- switch: `load_label TEMP l; add TEMP TEMP tag; jump TEMP` jumps to (address of the table) + tag,
for a tag in a register and for a tag in a spill slot (the x86 `add rcx, [rsp + off]` form; compare the
AArch64 defect `C07_a64_switch_spill_witness`). -/
theorem C06_switch_jump (B : Boundary c st sp) {tag : Temporary} (ht : TempOK tag) {l : String} {n : Nat}
    (hl : la l = some n) {x : Word} (hx : tempVal sp st tag = some x) :
    x86Backend.jump x86Backend.temp = [.JMP TEMP] ∧
    ∃ st', execStraight c la (x86Backend.loadLabel x86Backend.temp l ++
        x86Backend.binop .sum x86Backend.temp x86Backend.temp tag) st = .ok st' ∧
      Boundary c st' sp ∧ Preserved sp st st' none ∧
      execCode c la (.JMP TEMP) st' = .ok (st', .jumpAddr (BitVec.ofNat 64 n + x).toNat) :=
  switchJump_correct B ht hl hx

/-- THE BRIDGE to the machine's transition function: if the program text contains the instruction list
at the program counter, `step` iterated over it performs exactly `execStraight`, with `pc` advanced past
the list and the executed instructions counted (so every contract above is a statement about `step`). -/
theorem C06_machine_steps (m : MonCfg) (p : Prog) (codes : List Code) (s s' : State)
    (hcode : ∀ i (h : i < codes.length), p.code[s.pc + i]? = some codes[i])
    (hx : execStraight m.mach p.labelAddr codes s = .ok s') :
    stepN m p codes.length s = .inl (setPS s' (s.pc + codes.length) (s.steps + realCount codes)) :=
  steps_straight m p codes s s' hcode hx

/-! ### memory combinators -/

/-- `skip_if_zero`: a zero condition skips the body; a non-zero one runs it (after the comparison,
which changes only TEMP and the flags) -/
theorem C06_skip_if_zero (B : Boundary c st sp) {cond : Temporary} (ht : TempOK cond) {x : Word}
    (hv : tempVal sp st cond = some x) (body : List Code) (k : Nat)
    (hfresh : skipTo (labName (k + 1)) body = none) :
    ∃ code, (skipIfZero cond body).run k = .ok (code, k + 1) ∧
      (x = 0 → ∃ st', execFwd c la code st = .ok (st', .next) ∧ Boundary c st' sp ∧
        Preserved sp st st' none) ∧
      (x ≠ 0 → ∃ st1, Boundary c st1 sp ∧ Preserved sp st st1 none ∧ st1.flags = some (x, 0) ∧
        ∀ st', execFwd c la body st1 = .ok (st', .next) → execFwd c la code st = .ok (st', .next)) := by
  refine ⟨_, skipIfZero_run cond body k, fun h0 => ?_, fun hne => ?_⟩
  · subst h0
    obtain ⟨_, hrun, h⟩ := skipIfZero_zero (la := la) B ht hv body k hfresh
    rw [skipIfZero_run] at hrun; cases hrun; exact h
  · obtain ⟨_, hrun, h⟩ := skipIfZero_nonzero (la := la) B ht hv hne body k
    rw [skipIfZero_run] at hrun; cases hrun; exact h

/-- `if_zero_then_else` on register `r` (`offset = none`) or on the heap word `[r + 0]`
(`offset = some 0`): exactly one branch runs, chosen by the tested word -/
theorem C06_if_zero_then_else {r : Nat} {x : Word} (hr : regIs st r x) {offset : Option Int}
    (ho : offset = none ∨ (offset = some 0 ∧ HeapAddr c x)) (tb eb : List Code) (k : Nat)
    (hf1 : skipTo (labName (k + 1)) eb = none) (hf2 : skipTo (labName (k + 2)) tb = none) :
    ∃ code, (ifZeroThenElse r offset tb eb).run k = .ok (code, k + 2) ∧
      (iteWord st x offset = 0 → ∀ st', execFwd c la tb { st with flags := some (0, 0) } = .ok (st', .next) →
        execFwd c la code st = .ok (st', .next)) ∧
      (iteWord st x offset ≠ 0 → ∀ st',
        execFwd c la eb { st with flags := some (iteWord st x offset, 0) } = .ok (st', .next) →
        execFwd c la code st = .ok (st', .next)) := by
  refine ⟨_, ifZeroThenElse_run r offset tb eb k, fun h0 => ?_, fun hne => ?_⟩
  · obtain ⟨_, hrun, h⟩ := ifZeroThenElse_zero (la := la) hr ho h0 tb eb k hf1
    rw [ifZeroThenElse_run] at hrun; cases hrun; exact h
  · obtain ⟨_, hrun, h⟩ := ifZeroThenElse_nonzero (la := la) hr ho hne tb eb k hf2
    rw [ifZeroThenElse_run] at hrun; cases hrun; exact h

/-- `share_block_n` implements `Scc.Heap.shareBlock` (pointer in a register or in a spill slot) -/
theorem C06_share_block_correct (h8 : c.heapBase % 8 = 0) (B : Boundary c st sp) {h h' : Scc.Heap.HState}
    (R : HeapRel c st h) {t : Temporary} (ht : TempOK t) {p : Word} (hv : tempVal sp st t = some p)
    {n : Nat} (hn : fitsI32 (n : Int) = true) (hop : Scc.Heap.shareBlock h p.toNat n = .ok h')
    (hno : h.mem.get p.toNat + n < 2 ^ 64) (k : Nat) :
    ∃ code, (x86Backend.shareBlockN t n).run k = .ok (code, k + 1) ∧
      ∃ st', execFwd c la code st = .ok (st', .next) ∧ Boundary c st' sp ∧ HeapRel c st' h' ∧
        FrameH st st' [TEMP] :=
  shareBlockN_contract h8 B R ht hv hn hop hno k

/-- `erase_block` implements `Scc.Heap.eraseBlock` (pointer in a register or in a spill slot) -/
theorem C06_erase_block_correct (h8 : c.heapBase % 8 = 0) (B : Boundary c st sp) {h h' : Scc.Heap.HState}
    (R : HeapRel c st h) {t : Temporary} (ht : TempOK t) {p : Word} (hv : tempVal sp st t = some p)
    (hop : Scc.Heap.eraseBlock h p.toNat = .ok h') (k : Nat) :
    ∃ code, (x86Backend.eraseBlock t).run k = .ok (code, k + 3) ∧
      ∃ st', execFwd c la code st = .ok (st', .next) ∧ Boundary c st' sp ∧ HeapRel c st' h' ∧
        FrameH st st' [TEMP, FREE] :=
  eraseBlock_contract h8 B R ht hv hop k

/-- THE BRIDGE for blocks with forward local labels: if the text contains the block at `s.pc` and
the labels the block defines resolve into the block (`BlockAt`: they are defined nowhere earlier in the
text), then whenever `execFwd` runs the block to its end, the machine's `step`, iterated, does the same
and arrives just behind the block. -/
theorem C06_machine_steps_fwd (m : MonCfg) (p : Prog) (codes : List Code) (s s' : State)
    (hb : BlockAt p s.pc codes) (hx : execFwd m.mach p.labelAddr codes s = .ok (s', .next)) :
    ∃ k steps', stepN m p k s = .inl (setPS s' (s.pc + codes.length) steps') :=
  steps_fwd m p s.pc codes hb codes.length 0 s s' (by omega) (by omega) rfl (by simpa using hx)

/-! ### memory contracts: acquire_block, store, load -/

/-- `acquire_block` implements `Scc.Heap.acquire` (target in a register or in a spill slot): the target
ends up holding the acquired block, HEAP/FREE/heap represent the model's result; besides the target
only TEMP, HEAP, FREE, the flags and the heap change; the code defines exactly fresh labels. -/
theorem C06_acquire_block_correct (h8 : c.heapBase % 8 = 0) (B : Boundary c st sp)
    {h h' : Scc.Heap.HState} (R : HeapRel c st h) {t : Temporary} (ht : TempOK t) {new : Nat}
    (hop : Scc.Heap.acquire h = .ok (h', new)) (k : Nat) :
    ∃ code, (acquireBlock t).run k = .ok (code, k + 13) ∧ LabsIn code k (k + 13) ∧
      ∃ st', execFwd c la code st = .ok (st', .next) ∧ Boundary c st' sp ∧ HeapRel c st' h' ∧
        (∃ w, tempVal sp st' t = some w ∧ w.toNat = new) ∧
        FrameT sp st st' (fun u => u = t ∨ u = .reg TEMP ∨ u = .reg HEAP ∨ u = .reg FREE) :=
  acquireBlock_contract h8 B R ht hop k

/-- `store` implements `Scc.Heap.storeObj`: the variables `toStore` at context positions `|rem| …`
(`EnvFields`: an `ext` variable holds an integer in its second temporary, any other variable a pointer
in its first and a word in its second temporary — `posTemp n` is utils.rs temporary_from_position) are
stored as one object; the first temporary of position `|rem|` ends up holding the object pointer.
Changed besides TEMP/HEAP/FREE/flags/heap: only first temporaries of the stored positions (the
`acquire_block` targets).  Preserved: every variable of `rem`, every second temporary, every temporary
beyond the stored positions, rsp, the stack outside the spill area. -/
theorem C06_store_correct (h8 : c.heapBase % 8 = 0) (B : Boundary c st sp) {h h' : Scc.Heap.HState}
    (R : HeapRel c st h) {toStore rem : Ctx} {fs : List Scc.Heap.Field}
    (hcap : 2 * (rem.length + toStore.length) ≤ 267)
    (hE : EnvFields (mview sp st) rem.length toStore fs) {ptr : Nat}
    (hop : Scc.Heap.storeObj h fs = .ok (h', ptr)) (k : Nat) :
    ∃ code k', (x86Backend.store toStore rem).run k = .ok (code, k') ∧ k ≤ k' ∧ LabsIn code k k' ∧
      ∃ st', execFwd c la code st = .ok (st', .next) ∧ Boundary c st' sp ∧ HeapRel c st' h' ∧
        (∃ w, tempVal sp st' (posTemp (2 * rem.length)) = some w ∧ w.toNat = ptr) ∧
        FrameT sp st st' (fun u => u = .reg TEMP ∨ u = .reg HEAP ∨ u = .reg FREE ∨
          ∃ j, j ≤ toStore.length - 1 ∧ u = posTemp (2 * (rem.length + j))) :=
  store_contract h8 B R hcap hE hop k

/-- `load` implements `Scc.Heap.loadObj` (`kindOf b` = the variable has a pointer part): the object
whose pointer is in the first temporary of position `|existing|` is unpacked into the variables
`toLoad`; afterwards they hold the loaded fields (`EnvFields`).  Preserved: FREE, every variable of
`existing`, rsp, the stack outside the spill area. -/
theorem C06_load_correct (h8 : c.heapBase % 8 = 0) (B : Boundary c st sp) {h h' : Scc.Heap.HState}
    (R : HeapRel c st h) {toLoad existing : Ctx} (hcap : 2 * (existing.length + toLoad.length) ≤ 267)
    {pw : Word} (hp : tempVal sp st (posTemp (2 * existing.length)) = some pw)
    {vals : List Scc.Heap.Field} (hop : Scc.Heap.loadObj h pw.toNat (toLoad.map kindOf) = .ok (h', vals))
    (hno : h.mem.get pw.toNat ≠ 0 → ∀ a, h'.mem.get a < 2 ^ 64) (k : Nat) :
    ∃ code k', (x86Backend.load toLoad existing).run k = .ok (code, k') ∧ k ≤ k' ∧ LabsIn code k k' ∧
      ∃ st', execFwd c la code st = .ok (st', .next) ∧ Boundary c st' sp ∧ HeapRel c st' h' ∧
        EnvFields (mview sp st') existing.length toLoad vals ∧
        FrameT sp st st' (fun u => u = .reg TEMP ∨ u = .reg HEAP ∨ u = .spill 0 ∨
          ∃ m, 2 * existing.length ≤ m ∧ m < 2 * (existing.length + toLoad.length) ∧ u = posTemp m) :=
  load_contract h8 B R hcap hp hop hno k

/-- the UNIQUE branch of `load` (the object's count is 0): no side condition -/
theorem C06_load_unique_correct (h8 : c.heapBase % 8 = 0) (B : Boundary c st sp) {h h' : Scc.Heap.HState}
    (R : HeapRel c st h) {toLoad existing : Ctx} (hcap : 2 * (existing.length + toLoad.length) ≤ 267)
    {pw : Word} (hp : tempVal sp st (posTemp (2 * existing.length)) = some pw)
    (hcnt : h.mem.get pw.toNat = 0)
    {vals : List Scc.Heap.Field} (hop : Scc.Heap.loadObj h pw.toNat (toLoad.map kindOf) = .ok (h', vals))
    (k : Nat) :
    ∃ code k', (x86Backend.load toLoad existing).run k = .ok (code, k') ∧ k ≤ k' ∧ LabsIn code k k' ∧
      ∃ st', execFwd c la code st = .ok (st', .next) ∧ Boundary c st' sp ∧ HeapRel c st' h' ∧
        EnvFields (mview sp st') existing.length toLoad vals ∧
        FrameT sp st st' (fun u => u = .reg TEMP ∨ u = .reg HEAP ∨ u = .spill 0 ∨
          ∃ m, 2 * existing.length ≤ m ∧ m < 2 * (existing.length + toLoad.length) ∧ u = posTemp m) :=
  load_contract h8 B R hcap hp hop (fun hne => absurd hcnt hne) k

/-- the SHARED branch of `load` (the object's count is not 0) -/
theorem C06_load_shared_correct (h8 : c.heapBase % 8 = 0) (B : Boundary c st sp) {h h' : Scc.Heap.HState}
    (R : HeapRel c st h) {toLoad existing : Ctx} (hcap : 2 * (existing.length + toLoad.length) ≤ 267)
    {pw : Word} (hp : tempVal sp st (posTemp (2 * existing.length)) = some pw)
    (hcnt : h.mem.get pw.toNat ≠ 0)
    {vals : List Scc.Heap.Field} (hop : Scc.Heap.loadObj h pw.toNat (toLoad.map kindOf) = .ok (h', vals))
    (hno : ∀ a, h'.mem.get a < 2 ^ 64) (k : Nat) :
    ∃ code k', (x86Backend.load toLoad existing).run k = .ok (code, k') ∧ k ≤ k' ∧ LabsIn code k k' ∧
      ∃ st', execFwd c la code st = .ok (st', .next) ∧ Boundary c st' sp ∧ HeapRel c st' h' ∧
        EnvFields (mview sp st') existing.length toLoad vals ∧
        FrameT sp st st' (fun u => u = .reg TEMP ∨ u = .reg HEAP ∨ u = .spill 0 ∨
          ∃ m, 2 * existing.length ≤ m ∧ m < 2 * (existing.length + toLoad.length) ∧ u = posTemp m) :=
  load_contract h8 B R hcap hp hop (fun _ => hno) k

/-- what `tempVal` means on the machine: the operand read of an instruction yields that value -/
theorem C06_tempVal_sound (B : Boundary c st sp) {t : Temporary} (ht : OpndOK t) {v : Word}
    (hv : tempVal sp st t = some v) : readLoc c st (opLoc t) = .ok v := tempVal_readLoc B ht hv

/-! ## Non-vacuity: a concrete boundary state with values in registers and spill slots -/

/-- rsp of the example: 2048 bytes of spill area fit below the top of the default stack region -/
def exSp : Word := BitVec.ofNat 64 0x7ffef000

/-- registers: rsp, rdx = 7, rdi = -3; spill slots 1, 2, 3 = 100, 7, (undefined) -/
def exState : State :=
  { regs := #[some exSp, none, some 0x10000000#64, some 0x10000040#64, none, some 7#64, none,
              some (BitVec.ofInt 64 (-3)), none, none, none, none, none, none, none, none],
    flags := none, heapMem := ∅,
    stackMem := ((∅ : Std.HashMap Nat Word).insert (slotAddr exSp 1) 100#64).insert (slotAddr exSp 2) 7#64,
    pc := 0, out := [], maxHeapWritten := 0, steps := 0 }

theorem exState_boundary : Boundary {} exState exSp :=
  ⟨rfl, rfl, ⟨cfgOK_default, by decide, by decide, by decide⟩⟩

theorem exState_slot1 : tempVal exSp exState (.spill 1) = some 100#64 := by
  simp only [tempVal, exState]
  rw [Std.HashMap.getElem?_insert, Std.HashMap.getElem?_insert]
  simp [slotAddr]

theorem exState_slot2 : tempVal exSp exState (.spill 2) = some 7#64 := by
  simp only [tempVal, exState]
  rw [Std.HashMap.getElem?_insert]
  simp

/-- 100 % 7 with target and both sources in spill slots (the dance goes through rax, rdx, rcx) -/
example : ∃ st', execStraight {} (fun _ => none) (x86Backend.binop .rem (.spill 3) (.spill 1) (.spill 2)) exState
      = .ok st' ∧ tempVal exSp st' (.spill 3) = some 2#64 := by
  obtain ⟨st', h1, _, h3, _⟩ := C06_op_correct (la := fun _ => none) exState_boundary .rem
    (t := .spill 3) (s1 := .spill 1) (s2 := .spill 2)
    ⟨⟨by decide, by decide⟩, ⟨by decide, by decide⟩, ⟨by decide, by decide⟩, by decide, by decide,
      by decide, by decide, by decide⟩
    exState_slot1 exState_slot2 (r := 2#64) (by simp [Pos.evalOp, Pos.minInt])
  exact ⟨st', h1, h3⟩

/-- rdx - rdi with a register target that is the second source (the TEMP path of `sub`) -/
example : ∃ st', execStraight {} (fun _ => none) (sub (.reg 7) (.reg 5) (.reg 7)) exState = .ok st' ∧
      tempVal exSp st' (.reg 7) = some (7#64 - BitVec.ofInt 64 (-3)) := by
  obtain ⟨st', h1, _, h3, _⟩ := C06_sub_correct (la := fun _ => none) exState_boundary
    (t := .reg 7) (s1 := .reg 5) (s2 := .reg 7) ⟨by decide, by decide⟩ ⟨by decide, by decide⟩
    ⟨by decide, by decide⟩ (x := 7#64) (y := BitVec.ofInt 64 (-3)) rfl rfl
  exact ⟨st', h1, h3⟩

/-- a 64-bit literal into a register -/
example : ∃ st', execStraight {} (fun _ => none) (loadImmediate (.reg 9) 4294967297) exState = .ok st' ∧
      tempVal exSp st' (.reg 9) = some (BitVec.ofInt 64 4294967297) := by
  obtain ⟨st', h1, _, h3, _⟩ := C06_load_immediate_correct (la := fun _ => none) exState_boundary
    (t := .reg 9) ⟨by decide, by decide⟩ (v := 4294967297) (by decide)
  exact ⟨st', h1, h3⟩

/-- the D5 input: the 7th variable (context position 6, second temporary) lives in spill slot 2,
i.e. at `[rsp + 2024]` -/
example : temporaryFromPosition (2 * 6 + 1) = .ok (.spill 2) ∧ stackOffset 2 = 2024 := ⟨rfl, by decide⟩

/-- the D5 input on the concrete state: the literal ends in slot 2; slot 1 (= 100) is untouched -/
example : ∃ st', execStraight {} (fun _ => none) (loadImmediate (.spill 2) 4294967297) exState = .ok st' ∧
      tempVal exSp st' (.spill 2) = some 4294967297#64 ∧ tempVal exSp st' (.spill 1) = some 100#64 := by
  obtain ⟨_, _, st', h1, _, h3, h4⟩ := C06_load_immediate_D5_regression (la := fun _ => none)
    exState_boundary (p := 2) ⟨by decide, by decide⟩
  refine ⟨st', h1, h3, ?_⟩
  have := h4.mem (slotAddr exSp 1) (fun q hq => by
    injection hq with hq; injection hq with hq; subst hq
    simp [slotAddr])
  simp only [tempVal]
  rw [this]
  exact exState_slot1

/-- a negative literal outside i32 into a spill slot (the new branch), as a word -/
example : ∃ st', execStraight {} (fun _ => none)
      (loadImmediate (.spill 3) (BitVec.ofInt 64 (-9223372036854775808)).toInt) exState = .ok st' ∧
      tempVal exSp st' (.spill 3) = some (BitVec.ofInt 64 (-9223372036854775808)) := by
  obtain ⟨st', h1, _, h3, _⟩ := C06_load_immediate_word (la := fun _ => none) exState_boundary
    (t := .spill 3) ⟨by decide, by decide⟩ (BitVec.ofInt 64 (-9223372036854775808))
  exact ⟨st', h1, h3⟩

/-! ### memory combinators: a concrete heap -/

/-- `exState` with a heap pointer (block 2 of the heap) in `rsi` -/
def exStateH : State := { exState with regs := exState.regs.set! 6 (some 0x10000080#64) }

theorem exStateH_boundary : Boundary {} exStateH exSp :=
  ⟨rfl, rfl, ⟨cfgOK_default, by decide, by decide, by decide⟩⟩

def exHeap : Scc.Heap.HState := Scc.Heap.init 0x10000000 (0x10000000 + 0x2000000)

theorem exStateH_heapRel : HeapRel {} exStateH exHeap :=
  ⟨rfl, rfl, fun a => by simp [exHeap, Scc.Heap.init, exStateH, exState],
   ⟨0x10000000#64, rfl, by decide⟩, ⟨0x10000040#64, rfl, by decide⟩⟩

theorem exShare : ∃ h', Scc.Heap.shareBlock exHeap (0x10000080#64).toNat 2 = .ok h' ∧
    h'.mem.get 0x10000080 = 2 := by
  simp [Scc.Heap.shareBlock, Scc.Heap.rd, Scc.Heap.wr, exHeap, Scc.Heap.init, Scc.Heap.Mem.get_set]

theorem exErase : Scc.Heap.eraseBlock exHeap (0x10000080#64).toNat =
    .ok { exHeap with mem := exHeap.mem.set 0x10000080 0x10000040, free := 0x10000080 } := by
  simp [Scc.Heap.eraseBlock, Scc.Heap.rd, Scc.Heap.wr, exHeap, Scc.Heap.init, Scc.Heap.blockSize]

example : ∃ code st' h', (shareBlockN (.reg 6) 2).run 0 = .ok (code, 1) ∧
    execFwd {} (fun _ => none) code exStateH = .ok (st', .next) ∧ HeapRel {} st' h' ∧
    h'.mem.get 0x10000080 = 2 := by
  obtain ⟨h', hop, hget⟩ := exShare
  obtain ⟨code, hrun, st', hx, _, R', _⟩ := shareBlockN_contract (la := fun _ => none) (by decide)
    exStateH_boundary exStateH_heapRel (t := .reg 6) ⟨by decide, by decide⟩ (p := 0x10000080#64) rfl
    (n := 2) (by decide) hop (by simp [exHeap, Scc.Heap.init]) 0
  exact ⟨code, st', h', hrun, hx, R', hget⟩

theorem exAcquire : Scc.Heap.acquire exHeap =
    .ok ({ exHeap with heap := 0x10000040, free := 0x10000080 }, 0x10000000) := by
  simp [Scc.Heap.acquire, Scc.Heap.rd, exHeap, Scc.Heap.init, Scc.Heap.blockSize]

/-- bump allocation into spill slot 5: the slot ends up holding the old HEAP, slot 1 (= 100) is kept -/
example : ∃ code st', (acquireBlock (.spill 5)).run 0 = .ok (code, 13) ∧
    execFwd {} (fun _ => none) code exStateH = .ok (st', .next) ∧
    tempVal exSp st' (.spill 5) = some 0x10000000#64 ∧ tempVal exSp st' (.spill 1) = some 100#64 := by
  obtain ⟨code, hrun, _, st', hx, _, _, ⟨w, hw, ew⟩, F⟩ := C06_acquire_block_correct (la := fun _ => none)
    (by decide) exStateH_boundary exStateH_heapRel (t := .spill 5) ⟨by decide, by decide⟩ exAcquire 0
  refine ⟨code, st', hrun, hx, ?_, ?_⟩
  · rw [hw]; congr 1; exact BitVec.eq_of_toNat_eq (by rw [ew]; rfl)
  · rw [F.temps (.spill 1) (show (1 : Nat) < 256 by decide) (by simp [TEMP_eq, HEAP_eq, FREE_eq])]
    exact exState_slot1

/-- `exStateH` viewed as an environment: position 0 = (rax: undefined, rdx = 7), an `ext` variable;
position 1 = (rsi = pointer 0x10000080, rdi = -3), a producer -/
def exCtx : Ctx := [⟨⟨"a", 1⟩, .ext, .i64⟩, ⟨⟨"b", 2⟩, .prd, .i64⟩]

theorem exEnv : EnvFields (mview exSp exStateH) 0 exCtx [.int 7, .ptr 0x10000080 18446744073709551613] := by
  refine ⟨?_, ?_, trivial⟩
  · exact ⟨7#64, rfl, rfl⟩
  · exact ⟨0x10000080#64, BitVec.ofInt 64 (-3), rfl, rfl, rfl⟩

theorem exStore : ∃ h', Scc.Heap.storeObj exHeap [.int 7, .ptr 0x10000080 18446744073709551613] =
    .ok (h', 0x10000000) := by
  simp [Scc.Heap.storeObj, heap_storeFields_cons, heap_storeFields_nil, Scc.Heap.restLength, Scc.Heap.storeValues,
    Scc.Heap.storeValuesRev, Scc.Heap.storeValue, Scc.Heap.storeZeros, Scc.Heap.storeZerosFrom, Scc.Heap.wr,
    Scc.Heap.acquire, Scc.Heap.rd, Scc.Heap.Mem.get_set, exHeap, Scc.Heap.init, Scc.Heap.fieldsPerBlock,
    Scc.Heap.BlockPosition.toNat, Scc.Heap.sndOff, Scc.Heap.fstOff, Scc.Heap.fieldOffset, Scc.Heap.blockSize]

/-- one block: both variables of `exCtx` are stored; rax (first temporary of position 0) ends up
holding the object pointer = the old HEAP -/
example : ∃ code k' st', (x86Backend.store exCtx []).run 0 = .ok (code, k') ∧
    execFwd {} (fun _ => none) code exStateH = .ok (st', .next) ∧
    tempVal exSp st' (.reg 4) = some 0x10000000#64 := by
  obtain ⟨h', hop⟩ := exStore
  obtain ⟨code, k', hrun, _, _, st', hx, _, _, ⟨w, hw, ew⟩, _⟩ := C06_store_correct (la := fun _ => none)
    (by decide) exStateH_boundary exStateH_heapRel (toStore := exCtx) (rem := []) (by decide) exEnv hop 0
  refine ⟨code, k', st', hrun, hx, ?_⟩
  have : posTemp (2 * ([] : Ctx).length) = .reg 4 := rfl
  rw [this] at hw
  rw [hw]; congr 1; exact BitVec.eq_of_toNat_eq (by rw [ew]; rfl)

/-- four integer variables in rdx, rdi, r9, r11 (second temporaries of positions 0..3) -/
def exStateS : State :=
  { exState with regs := #[some exSp, none, some 0x10000000#64, some 0x10000040#64, none, some 1#64, none,
      some 2#64, none, some 3#64, none, some 4#64, none, none, none, none] }

theorem exStateS_boundary : Boundary {} exStateS exSp :=
  ⟨rfl, rfl, ⟨cfgOK_default, by decide, by decide, by decide⟩⟩

theorem exStateS_heapRel : HeapRel {} exStateS exHeap :=
  ⟨rfl, rfl, fun a => by simp [exHeap, Scc.Heap.init, exStateS, exState],
   ⟨0x10000000#64, rfl, by decide⟩, ⟨0x10000040#64, rfl, by decide⟩⟩

def exCtx4 : Ctx := [⟨⟨"a", 1⟩, .ext, .i64⟩, ⟨⟨"b", 2⟩, .ext, .i64⟩, ⟨⟨"c", 3⟩, .ext, .i64⟩, ⟨⟨"d", 4⟩, .ext, .i64⟩]

theorem exEnv4 : EnvFields (mview exSp exStateS) 0 exCtx4 [.int 1, .int 2, .int 3, .int 4] :=
  ⟨⟨1#64, rfl, rfl⟩, ⟨2#64, rfl, rfl⟩, ⟨3#64, rfl, rfl⟩, ⟨4#64, rfl, rfl⟩, trivial⟩

theorem exStore4 : ∃ h', Scc.Heap.storeObj exHeap [.int 1, .int 2, .int 3, .int 4] = .ok (h', 0x10000040) := by
  simp [Scc.Heap.storeObj, heap_storeFields_cons, heap_storeFields_nil, Scc.Heap.restLength, Scc.Heap.storeValues,
    Scc.Heap.storeValuesRev, Scc.Heap.storeValue, Scc.Heap.storeZeros, Scc.Heap.storeZerosFrom, Scc.Heap.wr,
    Scc.Heap.acquire, Scc.Heap.rd, Scc.Heap.Mem.get_set, exHeap, Scc.Heap.init, Scc.Heap.fieldsPerBlock,
    Scc.Heap.BlockPosition.toNat, Scc.Heap.sndOff, Scc.Heap.fstOff, Scc.Heap.fieldOffset, Scc.Heap.blockSize]

/-- a chain of TWO blocks (4 fields): the object pointer is the second acquired block -/
example : ∃ code k' st', (x86Backend.store exCtx4 []).run 0 = .ok (code, k') ∧
    execFwd {} (fun _ => none) code exStateS = .ok (st', .next) ∧
    tempVal exSp st' (.reg 4) = some 0x10000040#64 := by
  obtain ⟨h', hop⟩ := exStore4
  obtain ⟨code, k', hrun, _, _, st', hx, _, _, ⟨w, hw, ew⟩, _⟩ := C06_store_correct (la := fun _ => none)
    (by decide) exStateS_boundary exStateS_heapRel (toStore := exCtx4) (rem := []) (by decide) exEnv4 hop 0
  refine ⟨code, k', st', hrun, hx, ?_⟩
  have : posTemp (2 * ([] : Ctx).length) = .reg 4 := rfl
  rw [this] at hw
  rw [hw]; congr 1; exact BitVec.eq_of_toNat_eq (by rw [ew]; rfl)

/-- the capacity hypothesis `2 * (|rem| + |toStore|) ≤ 267` of `C06_store_correct` / `C06_load_correct` is
the capacity of the real code: position 266 is the last temporary (spill slot 255); position 267 —
needed for the second temporary of a 134th variable — is the Rust panic "Out of temporaries" (no code is
emitted at all) -/
example (ctx : Ctx) (h : ctx.length = 133) (k : Nat) : temporaryFromPosition 266 = .ok (.spill 255) ∧
    temporaryFromPosition 267 = .error "Out of temporaries" ∧
    (x86Backend.freshTemporary .snd ctx).run k = .error "Out of temporaries" := by
  refine ⟨rfl, rfl, ?_⟩
  show (freshTemporary .snd ctx).run k = _
  unfold freshTemporary
  rw [h]
  rfl

/-- a heap holding at 0x10000080 an object of two fields — an integer 7 and a pointer 0x100000c0 with
word 9 — whose count is `cnt` -/
def exMemObj (cnt : Nat) : Scc.Heap.Mem :=
  (((Scc.Heap.Mem.empty.set 0x10000080 cnt).set 0x100000a8 7).set 0x100000b0 0x100000c0).set 0x100000b8 9

def exHeapObj (cnt : Nat) : Scc.Heap.HState := { exHeap with mem := exMemObj cnt }

/-- `exStateH` (rsi = 0x10000080: first temporary of position 1) with that heap -/
def exStateObj (cnt : Word) : State :=
  { exStateH with heapMem := ((((∅ : Std.HashMap Nat Word).insert 0x10000080 cnt).insert 0x100000a8 7#64).insert
      0x100000b0 0x100000c0#64).insert 0x100000b8 9#64 }

theorem exStateObj_boundary (cnt : Word) : Boundary {} (exStateObj cnt) exSp :=
  ⟨rfl, rfl, ⟨cfgOK_default, by decide, by decide, by decide⟩⟩

theorem exStateObj_heapRel (cnt : Word) : HeapRel {} (exStateObj cnt) (exHeapObj cnt.toNat) := by
  refine ⟨rfl, rfl, fun a => ?_, ⟨0x10000000#64, rfl, rfl⟩, ⟨0x10000040#64, rfl, rfl⟩⟩
  simp only [exHeapObj, exMemObj, exStateObj, Scc.Heap.Mem.get_set, Std.HashMap.getD_insert, exHeap, Scc.Heap.init,
    Scc.Heap.Mem.get_empty]
  by_cases h1 : 0x100000b8 = a
  · subst h1; simp
  by_cases h2 : 0x100000b0 = a
  · subst h2; simp
  by_cases h3 : 0x100000a8 = a
  · subst h3; simp
  by_cases h4 : 0x10000080 = a
  · subst h4; simp
  simp [h1, h2, h3, h4]

/-- the variables to load: an integer and a producer, at positions 1 and 2 (after `a` at position 0) -/
def exLoadCtx : Ctx := [⟨⟨"x", 3⟩, .ext, .i64⟩, ⟨⟨"y", 4⟩, .prd, .i64⟩]

theorem exLoadUnique : ∃ h', Scc.Heap.loadObj (exHeapObj 0) (0x10000080#64).toNat (exLoadCtx.map kindOf) =
    .ok (h', [.int 7, .ptr 0x100000c0 9]) := by
  simp [Scc.Heap.loadObj, heap_loadFields_cons, heap_loadFields_nil, Scc.Heap.restLength, Scc.Heap.loadValues,
    Scc.Heap.loadValuesRev, Scc.Heap.loadValue, Scc.Heap.releaseBlock, Scc.Heap.wr, Scc.Heap.rd,
    Scc.Heap.Mem.get_set, exHeapObj, exMemObj, exHeap, Scc.Heap.init, Scc.Heap.fieldsPerBlock,
    Scc.Heap.BlockPosition.toNat, Scc.Heap.sndOff, Scc.Heap.fstOff, Scc.Heap.fieldOffset, exLoadCtx, kindOf,
    show (Chi.prd != Chi.ext) = true from rfl, show (Chi.ext != Chi.ext) = false from rfl]

theorem exLoadShared : ∃ h', Scc.Heap.loadObj (exHeapObj 1) (0x10000080#64).toNat (exLoadCtx.map kindOf) =
    .ok (h', [.int 7, .ptr 0x100000c0 9]) ∧ h'.mem.get 0x10000080 = 0 ∧ h'.mem.get 0x100000c0 = 1 ∧
      ∀ a, h'.mem.get a < 2 ^ 64 := by
  simp [Scc.Heap.loadObj, heap_loadFields_cons, heap_loadFields_nil, Scc.Heap.restLength, Scc.Heap.loadValues,
    Scc.Heap.loadValuesRev, Scc.Heap.loadValue, Scc.Heap.shareBlock, Scc.Heap.wr, Scc.Heap.rd,
    Scc.Heap.Mem.get_set, exHeapObj, exMemObj, exHeap, Scc.Heap.init, Scc.Heap.fieldsPerBlock,
    Scc.Heap.BlockPosition.toNat, Scc.Heap.sndOff, Scc.Heap.fstOff, Scc.Heap.fieldOffset, exLoadCtx, kindOf,
    show (Chi.prd != Chi.ext) = true from rfl, show (Chi.ext != Chi.ext) = false from rfl]
  intro a
  repeat' split
  all_goals omega

/-- unique load: r8 (first temporary of position 2) ends up holding the child pointer, r9 the word 9,
rdi (second temporary of position 1) the integer 7; rdx (variable `a` of the existing context) is kept -/
example : ∃ code k' st', (x86Backend.load exLoadCtx [⟨⟨"a", 1⟩, .ext, .i64⟩]).run 0 = .ok (code, k') ∧
    execFwd {} (fun _ => none) code (exStateObj 0) = .ok (st', .next) ∧
    EnvFields (mview exSp st') 1 exLoadCtx [.int 7, .ptr 0x100000c0 9] ∧
    tempVal exSp st' (.reg 5) = some 7#64 := by
  obtain ⟨h', hop⟩ := exLoadUnique
  obtain ⟨code, k', hrun, _, _, st', hx, _, _, hE, F⟩ := C06_load_unique_correct (la := fun _ => none)
    (by decide) (exStateObj_boundary 0) (exStateObj_heapRel 0) (toLoad := exLoadCtx)
    (existing := [⟨⟨"a", 1⟩, .ext, .i64⟩]) (by decide) (pw := 0x10000080#64) rfl
    (by simp [exHeapObj, exMemObj, Scc.Heap.Mem.get_set]) hop 0
  refine ⟨code, k', st', hrun, hx, hE, ?_⟩
  rw [F.temps (.reg 5) ⟨by decide, by decide⟩ (by
    rintro (e | e | e | ⟨m, h1, _, e⟩)
    · cases e
    · cases e
    · cases e
    · have : posTemp 1 = .reg 5 := rfl
      rw [← this] at e
      have := posTemp_inj.1 e
      simp at h1; omega)]
  rfl

/-- shared load: the object's count drops to 0, the child's count rises to 1 -/
example : ∃ code k' st' h', (x86Backend.load exLoadCtx [⟨⟨"a", 1⟩, .ext, .i64⟩]).run 0 = .ok (code, k') ∧
    execFwd {} (fun _ => none) code (exStateObj 1) = .ok (st', .next) ∧ HeapRel {} st' h' ∧
    EnvFields (mview exSp st') 1 exLoadCtx [.int 7, .ptr 0x100000c0 9] ∧
    h'.mem.get 0x10000080 = 0 ∧ h'.mem.get 0x100000c0 = 1 := by
  obtain ⟨h', hop, hc1, hc2, hno⟩ := exLoadShared
  obtain ⟨code, k', hrun, _, _, st', hx, _, R', hE, _⟩ := C06_load_shared_correct (la := fun _ => none)
    (by decide) (exStateObj_boundary 1) (exStateObj_heapRel 1) (toLoad := exLoadCtx)
    (existing := [⟨⟨"a", 1⟩, .ext, .i64⟩]) (by decide) (pw := 0x10000080#64) rfl
    (by simp [exHeapObj, exMemObj, Scc.Heap.Mem.get_set]) hop hno 0
  exact ⟨code, k', st', h', hrun, hx, R', hE, hc1, hc2⟩

example : ∃ code st', (eraseBlock (.reg 6)).run 0 = .ok (code, 3) ∧
    execFwd {} (fun _ => none) code exStateH = .ok (st', .next) ∧ regIs st' FREE 0x10000080#64 := by
  obtain ⟨code, hrun, st', hx, _, R', _⟩ := eraseBlock_contract (la := fun _ => none) (by decide)
    exStateH_boundary exStateH_heapRel (t := .reg 6) ⟨by decide, by decide⟩ (p := 0x10000080#64) rfl
    exErase 0
  obtain ⟨w, hw, ew⟩ := R'.free
  refine ⟨code, st', hrun, hx, ?_⟩
  have : w = 0x10000080#64 := BitVec.eq_of_toNat_eq (by rw [ew]; rfl)
  rw [← this]; exact hw

/-! ## Theorem B: abstract backend machine ⟶ x86-64 machine (integer fragment) -/

section TheoremB
open Scc.Backend Scc.Backend.Abs Scc.Backend.Sim Scc.X86.Ref
open Scc.Props.C06Generic (IntProg IntStmt IntCtx Reachable WithinCapacity)
open Scc.Props.C14Generic (LabelSafe)

/-- the x86 body RENDERS the mock code (parametricity of the generic generator in the backend) -/
theorem C06_rendering (hooks : Bool) (p : AxCut.Prog) (htp : LinTypedProg p) (hip : IntProg p)
    (hr : ProgInRange p) {c : Nat} {body : List Code} {nargs : Nat}
    (h : compileX86 p hooks c = .ok (body, nargs)) :
    ∃ ops c', (compile mockSym hooks p).run c = .ok ((ops, nargs), c') ∧ Seg .normal ops body .normal :=
  seg_compile hooks p htp hip hr h

/-- rung 1, the initial state: header of the routine from the machine's entry state -/
theorem C06_init {mon : MonCfg} (MO : MachOK mon.mach) {p : Prog} {routine body : List Code}
    {args : List Word} (hn : args.length ≤ 5) (hr : intoRoutine body args.length = .ok routine)
    (L : Loaded p routine) :
    ∃ (hdr : List Code) (F : Frame) (h : Word) (st0' : State) (k : Nat) (st2 : State),
      routine = hdr ++ body ++ cleanup ∧ labs hdr = ["asm_main"] ∧ labIdx routine "asm_main" = some 6 ∧
      F.c = mon.mach ∧ FrameOK F ∧ EntryFacts F st0' h ∧
      stepN mon p k (initState mon.mach args 6) = .inl st2 ∧ st2.pc = hdr.length ∧
      RepX86 F .normal (initConfig 0 args) st2 :=
  init_sim MO hn hr L

/-- rung 2: one step of the abstract machine is simulated by the x86-64 machine on the rendering -/
theorem C06_sim_step {F : Frame} (H : FrameOK F) {mon : MonCfg} (hmon : mon.mach = F.c) {p : Prog}
    {ops : List MockOp} {cs hdr body post : List Code} (L : Loaded p cs) (hcs : cs = hdr ++ body ++ post)
    (W : Seg .normal ops body .normal) (hnodup : (labelNames ops).Nodup)
    (hhdr : ∀ n ∈ labelNames ops, n ∉ labs hdr) {cfg cfg' : Config} {g : Mode} {st : State}
    (hs : Abs.step (Program.ofOps ops) cfg = .next cfg') (R : RepX86 F g cfg st)
    (A : At ops cs cfg.pc st.pc g) :
    ∃ k st' g', stepN mon p k st = .inl st' ∧ RepX86 F g' cfg' st' ∧ At ops cs cfg'.pc st'.pc g' :=
  sim_step H hmon L hcs W hnodup hhdr hs R A

/-- rung 2, exit: the halting step `jumplabel cleanup` -/
theorem C06_sim_halt {F : Frame} (H : FrameOK F) {mon : MonCfg} (hmon : mon.mach = F.c) {p : Prog}
    {ops : List MockOp} {cs hdr body : List Code} (L : Loaded p cs) (hcs : cs = hdr ++ body ++ cleanup)
    (W : Seg .normal ops body .normal) (hnodup : (labelNames ops).Nodup)
    (hclean : "cleanup" ∉ labs hdr ++ labelNames ops) {st0 : State} {h : Word} (E : EntryFacts F st0 h)
    {cfg : Config} {v : Word} {g : Mode} {st : State}
    (hs : Abs.step (Program.ofOps ops) cfg = .halt (.done v)) (R : RepX86 F g cfg st)
    (A : At ops cs cfg.pc st.pc g) :
    ∃ k stL, stepN mon p k st = .inl stL ∧ step mon p stL = .inr (.done v) ∧ stL.out = cfg.out :=
  sim_halt H hmon L hcs W hnodup hclean E hs R A

/-- rung 3, END TO END for integer programs: from the AxCut positional machine to the x86-64 machine on
the ITEMS of the emitted routine.  Hypotheses: `LabelSafe`, linearly typed, integer statements and `ext`
contexts only (`IntProg`), literals in i64 (`ProgInRange`), the x86 generator succeeds (capacity of
temporary_from_position; `intoRoutine` ok: at most 5 parameters, the driver's limit), every context of the run within the
capacity of the mock numbering (as in `TheoremA_run_int`), a sane machine configuration, heap monitor
off.  `items`: any item list that agrees with the routine up to the text of comments. -/
theorem C06_int_programs (p : AxCut.Prog) (args : List Word) (hooks : Bool) (body routine : List Code)
    (nargs : Nat) (d0 : Def)
    (hsafe : LabelSafe p = true) (htp : LinTypedProg p) (hip : IntProg p) (hrange : ProgInRange p)
    (hcompX : compileX86 p hooks 0 = .ok (body, nargs)) (hrout : intoRoutine body nargs = .ok routine)
    (hd : p.defs.head? = some d0)
    (hcap : ∀ st, Reachable p ⟨d0.ctx, args.map .int, d0.body⟩ st → WithinCapacity st.ctx)
    (fuel : Nat) (out : List (Bool × Word)) (v : Word) (hrun : Pos.run p args fuel = ⟨out, .done v⟩)
    (cfg : MonCfg) (MO : MachOK cfg.mach) (hheap : cfg.heap = false)
    (items : List (Code × Nat)) (hitems : (items.map (·.1)).map stripC = routine.map stripC) :
    ∃ fuel', (runItems items args fuel' cfg).out = out ∧ (runItems items args fuel' cfg).res = .done v :=
  int_programs_items p args hooks body routine nargs d0 hsafe htp hip hrange hcompX hrout hd hcap
    fuel out v hrun cfg MO hheap items hitems

/-- the text of a routine LOADS: the machine's parser reads the printed routine back, up to the text of
comments (the parser trims it) -/
def TextLoads (routine : List Code) : Prop :=
  ∃ items, parseText (printProg routine) = .ok items ∧ (items.map (·.1)).map stripC = routine.map stripC

/-- rung 3 on the TEXT: `X86.run` on the printed routine, given that this text loads -/
theorem C06_int_programs_text (p : AxCut.Prog) (args : List Word) (hooks : Bool) (body routine : List Code)
    (nargs : Nat) (d0 : Def)
    (hsafe : LabelSafe p = true) (htp : LinTypedProg p) (hip : IntProg p) (hrange : ProgInRange p)
    (hcompX : compileX86 p hooks 0 = .ok (body, nargs)) (hrout : intoRoutine body nargs = .ok routine)
    (hd : p.defs.head? = some d0)
    (hcap : ∀ st, Reachable p ⟨d0.ctx, args.map .int, d0.body⟩ st → WithinCapacity st.ctx)
    (fuel : Nat) (out : List (Bool × Word)) (v : Word) (hrun : Pos.run p args fuel = ⟨out, .done v⟩)
    (cfg : MonCfg) (MO : MachOK cfg.mach) (hheap : cfg.heap = false) (hload : TextLoads routine) :
    ∃ fuel', (run (printProg routine) args fuel' cfg).out = out ∧
      (run (printProg routine) args fuel' cfg).res = .done v := by
  obtain ⟨items, hparse, hitems⟩ := hload
  obtain ⟨fuel', h1, h2⟩ := C06_int_programs p args hooks body routine nargs d0 hsafe htp hip hrange hcompX
    hrout hd hcap fuel out v hrun cfg MO hheap items hitems
  exact ⟨fuel', by rw [run_eq_runItems hparse]; exact h1, by rw [run_eq_runItems hparse]; exact h2⟩

/-- a name that the printer / parser pair round-trips as a symbol operand: non-empty, no blank, comma,
bracket, colon, semicolon or line break, not a register name, not a decimal number -/
def symOK (s : String) : Bool :=
  !s.isEmpty && s.toList.all (fun c => isSymChar c && c != '\n') && (regOfName s).isNone &&
    (parseInt s.toList).isNone

/-- an item whose printed line parses back to it (up to comment text) -/
def codeTextOK (code : Code) : Bool :=
  (codeRegs code).all (fun r => decide (r < 16)) &&
  (match codeLabelDef code with | some l => symOK l | none => true) &&
  (match codeLabelRef code with | some l => symOK l | none => true) &&
  (match code with
   | .EXTERN f => symOK f
   | .COMMENT m => m.toList.all (· != '\n')
   | _ => true)

/-- THE LOADER LEMMA (PROVED: `C14_loader`, Props/C14Loader.lean, which imports this file; kept here as
the statement): the printed text of a routine whose items are text-safe is read back by the machine's
parser, up to the text of comments. -/
def C06_loader_statement : Prop :=
  ∀ routine : List Code, (∀ code ∈ routine, codeTextOK code = true) → TextLoads routine

/-! ### non-vacuity: the counting loop through `call` -/

/-- `main(n, acc) { if n <= 0 { println acc; exit acc } else { one <- 1; n' <- n - one; acc' <- acc + n;
      subst (n := n')(acc := acc'); main(...) } }` -/
def C06_loopDef : Def :=
  { name := ⟨"main", 0⟩, ctx := [⟨⟨"n", 1⟩, .ext, .i64⟩, ⟨⟨"acc", 2⟩, .ext, .i64⟩],
    body := .ifc .le ⟨"n", 1⟩ none
      (.print true ⟨"acc", 2⟩ (.exit ⟨"acc", 2⟩) none)
      (.lit ⟨"one", 3⟩ 1 (.op ⟨"n", 4⟩ ⟨"n", 1⟩ .sub ⟨"one", 3⟩ (.op ⟨"acc", 5⟩ ⟨"acc", 2⟩ .sum ⟨"n", 1⟩
        (.subst [(⟨⟨"n", 4⟩, .ext, .i64⟩, ⟨"n", 4⟩), (⟨⟨"acc", 5⟩, .ext, .i64⟩, ⟨"acc", 5⟩)]
          (.call ⟨"main", 0⟩ [])) none) none) none) }

def C06_loopProg : AxCut.Prog := { defs := [C06_loopDef], types := [], maxId := 5 }

theorem C06_loopProg_inRange : ProgInRange C06_loopProg := by
  refine ⟨by simp [C06_loopProg], ?_⟩
  intro d hd
  simp only [C06_loopProg, List.mem_singleton] at hd
  subst hd
  simp only [C06_loopDef, StmtB, and_true, true_and]
  decide

theorem C06_loopProg_int : IntProg C06_loopProg := by
  intro d hd
  simp only [C06_loopProg, List.mem_singleton] at hd
  subst hd
  refine ⟨?_, ?_⟩
  · intro b hb
    simp only [C06_loopDef, List.mem_cons, List.not_mem_nil, or_false] at hb
    rcases hb with rfl | rfl <;> rfl
  · simp [C06_loopDef, IntStmt]

/-- the loop started with n = 3, acc = 0: every hypothesis of `C06_int_programs` holds, so the x86-64
machine on the items of the emitted routine prints 6 and returns 6 -/
example : ∃ (routine : List Code) (fuel' : Nat),
    (runItems (routine.map fun c => (c, 0)) [3, 0] fuel' {}).out = [(true, 6)] ∧
    (runItems (routine.map fun c => (c, 0)) [3, 0] fuel' {}).res = .done 6 := by
  have hok : ∃ r, compileX86 C06_loopProg true 0 = .ok r := ⟨_, rfl⟩
  obtain ⟨⟨body, nargs⟩, hcomp⟩ := hok
  have hnargs : nargs = 2 := by
    have : compileX86 C06_loopProg true 0 = .ok ((compileX86 C06_loopProg true 0 |>.toOption.getD ([], 0)).1, 2) := rfl
    rw [hcomp] at this
    injection this with this
    injection this
  subst hnargs
  have hok2 : ∃ r, intoRoutine body 2 = .ok r := by
    have : ∃ moves, moveArguments 2 = .ok moves := ⟨_, rfl⟩
    obtain ⟨moves, hm⟩ := this
    exact ⟨_, by unfold intoRoutine; rw [setup_eq 2 moves hm]⟩
  obtain ⟨routine, hrout⟩ := hok2
  have hrun : Pos.run C06_loopProg [3, 0] 40 = ⟨[(true, 6)], .done 6⟩ := by decide
  obtain ⟨fuel', h1, h2⟩ := C06_int_programs C06_loopProg [3, 0] true body routine 2 C06_loopDef
    (by decide) (linTypedCheck_sound C06_loopProg rfl) C06_loopProg_int C06_loopProg_inRange hcomp hrout rfl
    (Scc.Props.C06Generic.capacity_of_run C06_loopProg 40 _ (by decide) (by decide)) 40 _ _ hrun {}
    machOK_default rfl (routine.map fun c => (c, 0)) (by simp [List.map_map, Function.comp])
  exact ⟨routine, fuel', h1, h2⟩

end TheoremB
end Scc.X86

#print axioms Scc.X86.C06_op_correct
#print axioms Scc.X86.C06_add_correct
#print axioms Scc.X86.C06_sub_correct
#print axioms Scc.X86.C06_mul_correct
#print axioms Scc.X86.C06_div_correct
#print axioms Scc.X86.C06_rem_correct
#print axioms Scc.X86.C06_mov_correct
#print axioms Scc.X86.C06_load_immediate_correct
#print axioms Scc.X86.C06_load_immediate_word
#print axioms Scc.X86.C06_load_immediate_D5_regression
#print axioms Scc.X86.C06_mul_alias_witness
#print axioms Scc.X86.C06_load_label_correct
#print axioms Scc.X86.C06_compare_correct
#print axioms Scc.X86.C06_compare_zero_correct
#print axioms Scc.X86.C06_branch_correct
#print axioms Scc.X86.C06_invoke_jump
#print axioms Scc.X86.C06_switch_jump
#print axioms Scc.X86.C06_tempVal_sound
#print axioms Scc.X86.C06_machine_steps
#print axioms Scc.X86.C06_skip_if_zero
#print axioms Scc.X86.C06_if_zero_then_else
#print axioms Scc.X86.C06_share_block_correct
#print axioms Scc.X86.C06_erase_block_correct
#print axioms Scc.X86.C06_machine_steps_fwd
#print axioms Scc.X86.C06_acquire_block_correct
#print axioms Scc.X86.C06_store_correct
#print axioms Scc.X86.C06_load_correct
#print axioms Scc.X86.C06_load_unique_correct
#print axioms Scc.X86.C06_load_shared_correct
#print axioms Scc.X86.C06_rendering
#print axioms Scc.X86.C06_init
#print axioms Scc.X86.C06_sim_step
#print axioms Scc.X86.C06_sim_halt
#print axioms Scc.X86.C06_int_programs
#print axioms Scc.X86.C06_int_programs_text
