/-
  Scc.Props.C14LoaderRV — THE LOADER ROUND TRIP FOR RISC-V (a C14 fact: the emitted text is well-formed text that
  the machine's parser `Scc.RV.parseText` reads back as the emitted items), the RISC-V analogue of
  Props/C14Loader.lean (x86-64) and Props/C14LoaderA64*.lean (AArch64).  Everything is proved for ALL items /
  routines / programs, once and for all (no evaluation of the parser, no `native_decide`).

  PROVED
    strings (Scc/RV/LoaderLemmas.lean on top of Scc/StringLemmas.lean, Scc/StringLemmasAscii.lean):
      `C14R_words`             `words s = (wordsL s.toList).map String.ofList` for EVERY string (the blank-separated
                               non-empty pieces), `C14R_parseHook` (`parseHook s = parseHookL s.toList`, every string).
    per item (Scc/RV/LoaderInstr.lean):
      `C14R_parseLine_printCode`  every INSTRUCTION form of `RV.Code` (all 19; `ADDI` is printed `ADD rd rs imm` and
                               told from `ADD rd rs1 rs2` by its third operand; every `Int` immediate) whose registers
                               are `X0..X31` and whose label is text-safe: `parseLine (printCode c) = some (some c)`,
                               printed on ONE line;
      `C14R_label_lines`       `LAB l` = an empty line (skipped) and `l:` (read as `LAB l`);
      `C14R_comment_line`      `// m` is read as `COMMENT (rtrim m)` for EVERY `m` (no hypothesis);
      `C14R_hook_comment`      the backend's `#ctx [x:prd y:ext …]` hook of a context with white-space-free names is
                               read back verbatim, and `parseHook` gives exactly the kinds of the context.
    routine (Scc/RV/LoaderText.lean, LoaderCheck.lean):
      `C14R_loader`            = `C14R_loader_statement`: every routine that passes the decidable `C14R_routineTextOK`
                               LOADS (`C08_TextLoads`, Props/C08RVInt.lean: the three facts the C08 run theorems need);
      `C14R_loader_exact`      the parsed lines exactly, with their line numbers.
    THE STATEMENT `C08_loader_statement` OF Props/C08RVInt.lean IS FALSE — `C08_loader_statement_false` — its
    hypothesis `codeTextOK` is too weak in four ways, each a real failure of the model (`#eval`s at the end):
      (1) `into_rv64_routine` glues the header `// actual code` and the first printed item together WITHOUT a line
          break (`"// actual code".to_string() + &program`).  Only because a label is printed with a LEADING line
          break does the first item of a compiled routine stand on its own line; a routine that starts with anything
          else loses its first item to the comment (`C14R_headLabel_needed`: for EVERY such text-safe routine the
          loader reads one item fewer).  Compiled routines start with the label of the first definition.
      (2) registers beyond `X31` print but do not parse; (3) a label that starts with `//` is read as a comment;
      (4) a comment `#ctx [` … that is not a well-formed hook is a parse error in `layout`.
    The corrected hypothesis is `C14R_routineTextOK` (head label + per item: registers, labels, comments).
  EVERY COMPILED ROUTINE (second part of this file; nothing is evaluated on the routine, the parser is never run):
      `C14R_namesTextSafe p : Bool`  the names check on the PROGRAM (`progNamesOK okcR`, as for AArch64 with a larger
                               character class: no white space, not `/`, not `#` — a superset of the AArch64
                               class `okcA`, which moreover excludes `, : [ ] ! .`: `C14R_names_of_A64names`,
                               every program that passes the AArch64 names check passes this one);
      `C14R_routine_textOK`    every routine the backend model emits (`compile rvBackend`, both hook settings, every
                               counter start, programs of ANY size) passes `C14R_routineTextOK`.  Through
                               Scc/RV/LoaderNames.lean: `opsNamesC_rv` (the RISC-V instance of the generic lifting
                               `Backend.NamesC.post_compileR_namesC`: labels, comments), `opsSat_rv` (the instance of
                               `X86.OpsSat`/`post_compileR`: every register is `X0..X3` or comes from
                               `positionRegister`, which panics instead of going beyond `X31`), `post_compileR_head`
                               (the code starts with the label of the first definition);
      `C14R_routine_loads`, `C14R_routine_loads_exact`, `C14R_routine_run`.
    C08 ON THE TEXT: `C08_programs_routine_text`, `C08_programs_text_loaded` (= `C08_programs_text` WITHOUT its
      hypothesis `C08_TextLoads`), `C08_programs_live_text` (with the static bound `LiveAtMost`): a terminating run
      of the AxCut positional machine is reproduced by `RV.run` on the text of `compileRoutine`; no hypothesis about
      the parser is left.  Non-vacuity: the two closure programs of Props/C08RVClo.lean, run on their texts.
  WHY `#` AND `/` ARE EXCLUDED FROM NAMES: a definition `//f` gives the label `//f_`, read as a comment
    (`C14R_names_needed`); `#`: the generic lifting asks for it (the `op` / `call` comments start with a name; a
    white-space-free name cannot make them start with `#ctx [`, so this exclusion is a convenience, not a need).
  NOT proved: that every program the front end accepts has text-safe names at stage 5 (a per-program check, as
    for the other two backends).  Nothing remains a `def … : Prop` except the corrected statement, which is proved.
-/
import Scc.RV.LoaderNames
import Scc.A64.LoaderA64Names
import Scc.Props.C08RVClo

namespace Scc.RV

open Scc.RV.Loader Scc.RV.Ref Scc.Str
open Scc.AxCut Scc.AxCut.Pos Scc.Backend
open Scc.Props.C06Generic (Reachable)
open Scc.Props.C14Generic (LabelSafe)

/-! ## strings -/

theorem C14R_words (s : String) : words s = (wordsL s.toList).map String.ofList := words_eq s

theorem C14R_parseHook (s : String) : parseHook s = parseHookL s.toList := parseHook_eq s

example : wordsL "  ADD X1   X2 3 ".toList = ["ADD".toList, "X1".toList, "X2".toList, "3".toList] := by decide

/-! ## the decidable text-safety predicates (Scc/RV/LoaderCheck.lean) -/

/-- text-safety of one item: registers `X0..X31`; a referenced label is non-empty without white space; a defined
    label moreover does not start with `//`; a comment has no line break and is not a malformed `#ctx [` hook -/
abbrev C14R_itemTextOK (c : Code) : Bool := itemTextOK c

/-- text-safety of a routine: it is empty or starts with a label, and every item is text-safe -/
abbrev C14R_routineTextOK (instrs : List Code) : Bool := routineTextOK instrs

/-! ## per item -/

/-- every instruction whose registers exist and whose label is text-safe is read back; its printed form is one
    line -/
theorem C14R_parseLine_printCode (c : Code) (hi : c.isInstr = true) (h : C14R_itemTextOK c = true) :
    parseLine (printCode c) = some (some c) ∧ '\n' ∉ (printCode c).toList :=
  let ok := codeOK_of_itemTextOK h
  reads_instr c hi ok.regs ok.ref

example : parseLine (printCode (.ADDI ⟨1⟩ ⟨5⟩ (-2048))) = some (some (.ADDI ⟨1⟩ ⟨5⟩ (-2048))) :=
  (C14R_parseLine_printCode _ rfl (by decide)).1

example : parseLine (printCode (.ADD ⟨1⟩ ⟨5⟩ ⟨31⟩)) = some (some (.ADD ⟨1⟩ ⟨5⟩ ⟨31⟩)) :=
  (C14R_parseLine_printCode _ rfl (by decide)).1

example : parseLine (printCode (.SW ⟨0⟩ ⟨2⟩ 56)) = some (some (.SW ⟨0⟩ ⟨2⟩ 56)) :=
  (C14R_parseLine_printCode _ rfl (by decide)).1

example : parseLine (printCode (.LI ⟨7⟩ (-9223372036854775808))) = some (some (.LI ⟨7⟩ (-9223372036854775808))) :=
  (C14R_parseLine_printCode _ rfl (by decide)).1

example : parseLine (printCode (.BLE ⟨4⟩ ⟨0⟩ "List_3_Cons")) = some (some (.BLE ⟨4⟩ ⟨0⟩ "List_3_Cons")) :=
  (C14R_parseLine_printCode _ rfl (by decide)).1

/-- a label is printed as an empty line (skipped by the loader) and `l:` (read as the label) -/
theorem C14R_label_lines (l : String) (h : C14R_itemTextOK (.LAB l) = true) :
    printCode (.LAB l) = "\n" ++ (l ++ ":") ∧ parseLine "" = some none ∧
    parseLine (l ++ ":") = some (some (.LAB l)) ∧ '\n' ∉ (l ++ ":").toList :=
  let ok := (codeOK_of_itemTextOK h).lab l rfl
  ⟨printCode_LAB l, parseLine_empty, parseLine_label ok, label_no_nl ok⟩

example : parseLine ("main_" ++ ":") = some (some (.LAB "main_")) := (C14R_label_lines _ (by decide)).2.2.1

/-- a comment line is read as the comment without its trailing white space — for EVERY comment text -/
theorem C14R_comment_line (m : String) :
    parseLine (printCode (.COMMENT m)) = some (some (.COMMENT (rtrimS m))) := by
  rw [printCode_COMMENT]; exact parseLine_comment m

/-- the backend's `verif_hooks` comment of a context whose variable names contain no white space is read back
    verbatim, and the hook reader gives exactly the kinds of the context (`true` = heap pointer) -/
theorem C14R_hook_comment (ctx : Scc.AxCut.Ctx) (h : ∀ b ∈ ctx, ∀ c ∈ b.var.print.toList, c.isWhitespace = false) :
    parseLine (printCode (.COMMENT (Scc.Backend.ctxHookComment ctx)))
      = some (some (.COMMENT (Scc.Backend.ctxHookComment ctx))) ∧
    parseHook (Scc.Backend.ctxHookComment ctx) = some (some (ctx.map fun b => chiPtr b.chi)) := by
  obtain ⟨_, h2, h3⟩ := parseHookL_hook ctx h
  refine ⟨?_, by rw [parseHook_eq, h3]⟩
  rw [C14R_comment_line]
  unfold rtrimS
  rw [h2, String.ofList_toList]

example : parseHook (Scc.Backend.ctxHookComment [⟨⟨"x", 41⟩, .ext, .i64⟩, ⟨⟨"k:0", 0⟩, .cns, .i64⟩])
    = some (some [false, true]) :=
  (C14R_hook_comment _ (by decide)).2

/-! ## routines -/

/-- THE LOADER FACT, corrected (see the header for why `C08_loader_statement` is false): every routine that
    passes the decidable `C14R_routineTextOK` loads -/
def C14R_loader_statement : Prop :=
  ∀ instrs : List Code, C14R_routineTextOK instrs = true → C08_TextLoads instrs

/-- **THE LOADER ROUND TRIP** -/
theorem C14R_loader : C14R_loader_statement :=
  fun instrs h => textLoads_of_routineTextOK instrs h

/-- the parsed lines exactly: the header comment at line 1, the items of the routine in order (a comment without
    its trailing white space; a label takes two lines, the first one blank), a blank line, `cleanup:` -/
theorem C14R_loader_exact (instrs : List Code) (h : C14R_routineTextOK instrs = true) :
    parseText (intoRoutine instrs) = .ok (numberOpt 1 (routineParsed instrs)) ∧
    (numberOpt 1 (routineParsed instrs)).map (·.2)
      = [Code.COMMENT "actual code"] ++ instrs.map parsedCode ++ [Code.LAB "cleanup"] := by
  simp only [routineTextOK, Bool.and_eq_true, List.all_eq_true] at h
  exact ⟨parseText_intoRoutine instrs (headLabel_of_B h.1) (fun c hc => codeOK_of_itemTextOK (h.2 c hc)),
    routine_codes (headLabel_of_B h.1)⟩

/-- … hence the machine on the text is the machine on these lines -/
theorem C14R_run (instrs : List Code) (h : C14R_routineTextOK instrs = true) (args : List Word) (fuel : Nat)
    (cfg : MonCfg) (hwf : cfg.wf = false) :
    run (intoRoutine instrs) args fuel cfg = runLines (numberOpt 1 (routineParsed instrs)) args fuel cfg :=
  run_eq_runLines (C14R_loader_exact instrs h).1 args fuel cfg hwf

/-- a text-safe routine: labels, a hook, comments, every instruction form -/
def C14R_loaderExample : List Code :=
  [.LAB "main_", .COMMENT "#ctx [x_1:ext k:cns]", .COMMENT "lit x <- 5;", .LI ⟨5⟩ (-3), .ADDI ⟨1⟩ ⟨5⟩ 2047,
   .ADD ⟨6⟩ ⟨5⟩ ⟨1⟩, .SUB ⟨6⟩ ⟨5⟩ ⟨1⟩, .MUL ⟨6⟩ ⟨5⟩ ⟨1⟩, .DIV ⟨6⟩ ⟨5⟩ ⟨1⟩, .REM ⟨6⟩ ⟨5⟩ ⟨1⟩, .MV ⟨7⟩ ⟨0⟩,
   .LW ⟨6⟩ ⟨2⟩ 8, .SW ⟨0⟩ ⟨2⟩ 56, .LA ⟨1⟩ "Fun_0", .JALR ⟨0⟩ ⟨1⟩ 0, .BEQ ⟨5⟩ ⟨0⟩ "lab0", .BNE ⟨5⟩ ⟨0⟩ "lab0",
   .BLT ⟨5⟩ ⟨0⟩ "lab0", .BLE ⟨5⟩ ⟨0⟩ "lab0", .BGT ⟨5⟩ ⟨0⟩ "lab0", .BGE ⟨5⟩ ⟨0⟩ "lab0", .LAB "Fun_0",
   .JAL ⟨0⟩ "Fun_0_Ap", .LAB "Fun_0_Ap", .COMMENT "######check refcount   ", .JAL ⟨0⟩ "cleanup", .LAB "lab0"]

example : C08_TextLoads C14R_loaderExample := C14R_loader _ (by decide)

example : ∃ ls, parseText (intoRoutine C14R_loaderExample) = .ok ls ∧ ls.length = 29 := by
  refine ⟨_, (C14R_loader_exact _ (by decide)).1, ?_⟩
  decide

/-! ## the first item of a routine must be a label; `C08_loader_statement` is false -/

/-- for EVERY routine of text-safe items whose first item is not a label, the loader reads one item fewer than
    the routine has: the first item is swallowed by the header comment -/
theorem C14R_headLabel_needed (c : Code) (cs : List Code) (hc : ∀ l, c ≠ .LAB l)
    (h : ∀ x ∈ c :: cs, C14R_itemTextOK x = true) : ¬ C08_TextLoads (c :: cs) := by
  have hcl : codeLines c = [printCode c] := by
    cases c <;> first | rfl | exact absurd rfl (hc _)
  rintro ⟨lines, hparse, hcodes, _⟩
  rw [parseText_swallow c cs hcl (fun x hx => codeOK_of_itemTextOK (h x hx))] at hparse
  injection hparse with hparse
  have hlen := congrArg List.length hcodes
  simp only [List.length_map, List.length_append, List.length_cons, List.length_nil] at hlen
  rw [← hparse, swallow_length] at hlen
  omega

/-- **`C08_loader_statement` (Props/C08RVInt.lean) is false**: the one-instruction routine `LI X5 0` passes its
    hypothesis `codeTextOK`, but its text is `// actual codeLI X5 0`, a blank line, `cleanup:` -/
theorem C08_loader_statement_false : ¬ C08_loader_statement := by
  intro hall
  exact C14R_headLabel_needed (.LI ⟨5⟩ 0) [] (fun l h => by cases h) (by decide)
    (hall [.LI ⟨5⟩ 0] (by decide))

/-! ## every compiled routine loads -/

/-- **the decidable hypothesis on the names of the linearized program** (`progNamesOK okcR`,
    Scc/X86/LoaderNames.lean): every identifier (definition names, variables, xtor tags) consists of characters in
    `okcR` — no white space, not `/`, not `#` —, type names have no line break, the mangled name of every type a
    `switch`/`create` dispatches on consists of `okcR` characters -/
def C14R_namesTextSafe (p : AxCut.Prog) : Bool := Scc.X86.Loader.progNamesOK okcR p

/-- every program that passes the names check of the AArch64 loader (`C14A_namesTextSafe` = `progNamesOK okcA`,
    Props/C14LoaderA64Names.lean: evaluated on every front-end-accepted program of the corpus, all pass) passes
    the RISC-V one: the character class `okcA` is contained in `okcR` -/
theorem C14R_names_of_A64names {p : AxCut.Prog}
    (h : Scc.X86.Loader.progNamesOK Scc.A64.Loader.okcA p = true) : C14R_namesTextSafe p = true :=
  progNamesOK_mono (fun c hc => by
    have h1 := Scc.A64.Loader.okcA_facts hc
    have h2 := Scc.A64.Loader.labelC_facts h1.1
    simp only [okcR, Bool.and_eq_true, bne_iff_ne, ne_eq, Bool.not_eq_true']
    exact ⟨⟨h2.2.1, h1.2.2.1⟩, h1.2.2.2⟩) h

section
variable {p : AxCut.Prog} {hooks : Bool} {c0 : Nat} {instrs : List Code} {nargs cX : Nat}

/-- every routine the backend model emits for a program with text-safe names is text-safe: it starts with the
    label of the first definition, every register is one of `X0..X31` (`positionRegister` panics otherwise),
    every label is `<def>_`, `lab<n>`, `<mangled type>_<n>`, `<base>_<xtor>` or `cleanup`, every comment is a
    literal, a statement rendering without line break, or a well-formed hook -/
theorem C14R_routine_textOK (hnames : C14R_namesTextSafe p = true)
    (h : (compile rvBackend hooks p).run c0 = .ok ((instrs, nargs), cX)) : C14R_routineTextOK instrs = true :=
  compile_textOK hnames h

/-- **EVERY ROUTINE OF THE RISC-V BACKEND MODEL LOADS** -/
theorem C14R_routine_loads (hnames : C14R_namesTextSafe p = true)
    (h : (compile rvBackend hooks p).run c0 = .ok ((instrs, nargs), cX)) : C08_TextLoads instrs :=
  C14R_loader instrs (C14R_routine_textOK hnames h)

/-- … with the parsed lines exactly -/
theorem C14R_routine_loads_exact (hnames : C14R_namesTextSafe p = true)
    (h : (compile rvBackend hooks p).run c0 = .ok ((instrs, nargs), cX)) :
    parseText (intoRoutine instrs) = .ok (numberOpt 1 (routineParsed instrs)) :=
  (C14R_loader_exact instrs (C14R_routine_textOK hnames h)).1

/-- … and the machine on its text is the machine on these lines -/
theorem C14R_routine_run (hnames : C14R_namesTextSafe p = true)
    (h : (compile rvBackend hooks p).run c0 = .ok ((instrs, nargs), cX))
    (args : List Word) (fuel : Nat) (cfg : MonCfg) (hwf : cfg.wf = false) :
    run (intoRoutine instrs) args fuel cfg = runLines (numberOpt 1 (routineParsed instrs)) args fuel cfg :=
  C14R_run instrs (C14R_routine_textOK hnames h) args fuel cfg hwf
end

/-! ## C08 end to end ON THE TEXT, no hypothesis about the loader -/

/-- THEOREM A ∘ THEOREM B FOR ALL PROGRAMS ON THE TEXT of `compileRoutine`: a terminating run of the AxCut positional
machine with result `v` is reproduced by `RV.run` on the emitted text (it reaches `cleanup` with `v` in `X10`).
`C08_programs_text` (Props/C08RVClo.lean) with its loader hypothesis `C08_TextLoads` DISCHARGED by the round trip
(`C14R_routine_loads`) from the decidable names check `C14R_namesTextSafe`; the size hypothesis `hfitX` is asked
of the emitted code only. -/
theorem C08_programs_routine_text (p : AxCut.Prog) (args : List Word) (hooks : Bool) (counter : Nat)
    (instrs : List Code) (nargs cX : Nat) (d0 : Def)
    (hsafe : LabelSafe p = true) (htp : LinTypedProg p) (hsize : C08_sizeCheck p = true)
    (hnames : C14R_namesTextSafe p = true)
    (hcompX : (compile rvBackend hooks p).run counter = .ok ((instrs, nargs), cX))
    (hfitX : codeBase + 4 * instrs.length < 2 ^ 64)
    (hd : p.defs.head? = some d0) (hentry : ∀ b ∈ d0.ctx, b.chi = .ext ∧ b.ty = .i64)
    (hcap : ∀ st, Reachable p ⟨d0.ctx, args.map .int, d0.body⟩ st → st.ctx.length ≤ maxVariables)
    (fuel : Nat) (v : Word)
    (hrun : (Pos.run p args fuel).res = .done v)
    (mc : MonCfg) (hheap : mc.heap = false) (hwf : mc.wf = false) (htop : heapBase + mc.heapBytes ≤ 2 ^ 63)
    (hbytes : 128 + 64 * 15 * fuel ≤ mc.heapBytes) :
    ∃ fuel', (run (intoRoutine instrs) args fuel' mc).res = .done v := by
  obtain ⟨lines, hparse, hlines, hhook⟩ := C14R_routine_loads hnames hcompX
  obtain ⟨fuel', hf⟩ := C08_programs_checked p args hooks instrs [Code.COMMENT "actual code"] nargs cX d0
    hsafe htp hsize hcompX hfitX hd hentry hcap fuel v hrun mc hheap htop hbytes
    lines (fun c hc => by simp at hc; subst hc; rfl) hlines hhook
  exact ⟨fuel', by rw [run_eq_runLines hparse args fuel' mc hwf]; exact hf⟩

/-- `C08_programs_text` WITHOUT its hypothesis `hload` (`C08_TextLoads`): the names check instead -/
theorem C08_programs_text_loaded (p : AxCut.Prog) (args : List Word) (hooks : Bool) (counter : Nat) (text : String)
    (nargs : Nat) (d0 : Def)
    (hsafe : LabelSafe p = true) (htp : LinTypedProg p) (hsize : C08_sizeCheck p = true)
    (hnames : C14R_namesTextSafe p = true)
    (hcompX : compileRoutine p hooks counter = .ok (nargs, text))
    (hfitX : ∀ instrs, intoRoutine instrs = text → codeBase + 4 * instrs.length < 2 ^ 64)
    (hd : p.defs.head? = some d0) (hentry : ∀ b ∈ d0.ctx, b.chi = .ext ∧ b.ty = .i64)
    (hcap : ∀ st, Reachable p ⟨d0.ctx, args.map .int, d0.body⟩ st → st.ctx.length ≤ maxVariables)
    (fuel : Nat) (v : Word)
    (hrun : (Pos.run p args fuel).res = .done v)
    (mc : MonCfg) (hheap : mc.heap = false) (hwf : mc.wf = false) (htop : heapBase + mc.heapBytes ≤ 2 ^ 63)
    (hbytes : 128 + 64 * 15 * fuel ≤ mc.heapBytes) :
    ∃ fuel', (run text args fuel' mc).res = .done v := by
  unfold compileRoutine at hcompX
  cases hx : (compile rvBackend hooks p).run counter with
  | error e => rw [hx] at hcompX; cases hcompX
  | ok r =>
    obtain ⟨⟨instrs, nargs'⟩, cX⟩ := r
    rw [hx] at hcompX
    simp only [Except.ok.injEq, Prod.mk.injEq] at hcompX
    obtain ⟨rfl, rfl⟩ := hcompX
    exact C08_programs_routine_text p args hooks counter instrs nargs' cX d0 hsafe htp hsize hnames hx
      (hfitX instrs rfl) hd hentry hcap fuel v hrun mc hheap hwf htop hbytes

/-- the same with the STATIC bound `LiveAtMost maxVariables p` of the C08 statement in place of the bound on the
    reachable states: every hypothesis is a decidable check on the program / the emitted code / the machine
    configuration, or the run itself -/
theorem C08_programs_live_text (p : AxCut.Prog) (args : List Word) (hooks : Bool) (counter : Nat)
    (instrs : List Code) (nargs cX : Nat) (d0 : Def)
    (hsafe : LabelSafe p = true) (htp : LinTypedProg p) (hsize : C08_sizeCheck p = true)
    (hlive : LiveAtMost maxVariables p) (hnames : C14R_namesTextSafe p = true)
    (hcompX : (compile rvBackend hooks p).run counter = .ok ((instrs, nargs), cX))
    (hfitX : codeBase + 4 * instrs.length < 2 ^ 64)
    (hd : p.defs.head? = some d0) (hentry : ∀ b ∈ d0.ctx, b.chi = .ext ∧ b.ty = .i64)
    (fuel : Nat) (v : Word)
    (hrun : (Pos.run p args fuel).res = .done v)
    (mc : MonCfg) (hheap : mc.heap = false) (hwf : mc.wf = false) (htop : heapBase + mc.heapBytes ≤ 2 ^ 63)
    (hbytes : 128 + 64 * 15 * fuel ≤ mc.heapBytes) :
    ∃ fuel', (run (intoRoutine instrs) args fuel' mc).res = .done v := by
  have hmem : d0 ∈ p.defs := by
    cases hdefs : p.defs with
    | nil => rw [hdefs] at hd; simp at hd
    | cons d ds => rw [hdefs] at hd; simp at hd; subst hd; simp
  exact C08_programs_routine_text p args hooks counter instrs nargs cX d0 hsafe htp hsize hnames hcompX hfitX hd
    hentry (C08_capacity_of_liveAtMost_all hlive hmem args) fuel v hrun mc hheap hwf htop hbytes

/-! ### non-vacuity -/

example : C14R_namesTextSafe C08_cloProg = true ∧ C14R_namesTextSafe C08_opsProg = true := by decide

/-- the closure program of Props/C08RVClo.lean (a closure stored in an object, loaded again, invoked), compiled
    WITH hooks, started with x = 37: `RV.run` ON THE EMITTED TEXT reaches `cleanup` with 42 in `X10` -/
example : ∃ text fuel', compileRoutine C08_cloProg true 0 = .ok (1, text) ∧
    (run text [37] fuel' {}).res = .done 42 := by
  have hcompX : ∃ k, (compile rvBackend true C08_cloProg).run 0 = .ok ((C08_cloInstrs, 1), k) := by
    rw [← rvBackendF_eq]; exact ⟨_, rfl⟩
  obtain ⟨cX, hcompX⟩ := hcompX
  have hc : compileRoutine C08_cloProg true 0 = .ok (1, intoRoutine C08_cloInstrs) := by
    unfold compileRoutine; rw [hcompX]
  have hrun : (Pos.run C08_cloProg [37] 20).res = .done 42 := by decide
  obtain ⟨fuel', h⟩ := C08_programs_live_text C08_cloProg [37] true 0 C08_cloInstrs 1 cX C08_cloMain
    (by decide) (linTypedCheck_sound C08_cloProg rfl) (by decide) C08_cloProg_live (by decide)
    hcompX C08_cloInstrs_fits rfl (by decide) 20 42 hrun {} rfl rfl (by decide) (by decide)
  exact ⟨_, fuel', hc, h⟩

/-- the two-method program (`add_and_jump` through the method table), x = 21 -/
example : ∃ fuel', (run (intoRoutine C08_opsInstrs) [21] fuel' {}).res = .done 42 := by
  have hcompX : ∃ k, (compile rvBackend true C08_opsProg).run 0 = .ok ((C08_opsInstrs, 1), k) := by
    rw [← rvBackendF_eq]; exact ⟨_, rfl⟩
  obtain ⟨cX, hcompX⟩ := hcompX
  have hrun : (Pos.run C08_opsProg [21] 20).res = .done 42 := by decide
  exact C08_programs_live_text C08_opsProg [21] true 0 C08_opsInstrs 1 cX C08_opsMain
    (by decide) (linTypedCheck_sound C08_opsProg rfl) (by decide) C08_opsProg_live (by decide)
    hcompX C08_opsInstrs_fits rfl (by decide) 20 42 hrun {} rfl rfl (by decide) (by decide)

/-! ### the names hypothesis cannot be dropped; excluded points (evaluation of the REAL model) -/

/-- a definition named `a b` gives the label `a b_` (two words: a parse error), a definition named `//f` the
    label `//f_` (read as a comment): the names check rejects both programs, the labels are not text-safe -/
theorem C14R_names_needed :
    let p1 : AxCut.Prog := ⟨[⟨⟨"a b", 0⟩, [], .exit ⟨"x", 1⟩⟩], [], 1⟩
    let p2 : AxCut.Prog := ⟨[⟨⟨"//f", 0⟩, [], .exit ⟨"x", 1⟩⟩], [], 1⟩
    C14R_namesTextSafe p1 = false ∧ C14R_itemTextOK (.LAB "a b_") = false ∧
    C14R_namesTextSafe p2 = false ∧ C14R_itemTextOK (.LAB "//f_") = false := by decide

#eval parseLine "a b_:"                                          -- none: PARSE-ERROR
#eval parseLine "//f_:"                                          -- a comment, not the label
#eval parseText (intoRoutine [.LI ⟨5⟩ 0])                        -- 2 items: the `LI` is part of the comment
#eval parseLine (printCode (.MV ⟨32⟩ ⟨1⟩))                       -- none: `X32` is no register
#eval parseHook "#ctx [x:foo]"                                   -- some none: a malformed hook
#eval (parseLine (printCode (.ADDI ⟨5⟩ ⟨6⟩ (-7))), parseLine (printCode (.ADD ⟨5⟩ ⟨6⟩ ⟨7⟩)))

end Scc.RV

#print axioms Scc.RV.C14R_words
#print axioms Scc.RV.C14R_parseHook
#print axioms Scc.RV.C14R_parseLine_printCode
#print axioms Scc.RV.C14R_label_lines
#print axioms Scc.RV.C14R_comment_line
#print axioms Scc.RV.C14R_hook_comment
#print axioms Scc.RV.C14R_loader
#print axioms Scc.RV.C14R_loader_exact
#print axioms Scc.RV.C14R_run
#print axioms Scc.RV.C14R_headLabel_needed
#print axioms Scc.RV.C08_loader_statement_false
#print axioms Scc.RV.C14R_names_of_A64names
#print axioms Scc.RV.C14R_routine_textOK
#print axioms Scc.RV.C14R_routine_loads
#print axioms Scc.RV.C14R_routine_loads_exact
#print axioms Scc.RV.C14R_routine_run
#print axioms Scc.RV.C08_programs_routine_text
#print axioms Scc.RV.C08_programs_text_loaded
#print axioms Scc.RV.C08_programs_live_text
#print axioms Scc.RV.C14R_names_needed
