/-
  Scc.Props.C14LoaderRV — THE LOADER ROUND TRIP FOR RISC-V (a C14 fact: the emitted text is well-formed text that
  the machine's parser `Scc.RV.parseText` reads back as the emitted items), the RISC-V analogue of
  Props/C14Loader.lean (x86-64) and Props/C14LoaderA64*.lean (AArch64).  Everything is proved for ALL items /
  routines / programs, once and for all (no evaluation of the parser, no `native_decide`).

  PROVED
    strings (Scc/RV/LoaderLemmas.lean on top of Scc/StringLemmas.lean, Scc/StringLemmasAscii.lean):
      `C14R_words`             `words s = (wordsL s.toList).map String.ofList` for EVERY string (the blank-separated
                               non-empty pieces), `C14R_parseHook` (`parseHook s = parseHookL s.toList`, every string).
    per item (Scc/RV/LoaderInstr.lean):
      `C14R_parseLine_printCode`  every INSTRUCTION form of `RV.Code` (all 19; `ADDI` is printed `ADD rd rs imm` and
                               told from `ADD rd rs1 rs2` by its third operand; every `Int` immediate) whose registers
                               are `X0..X31` and whose label is text-safe: `parseLine (printCode c) = some (some c)`,
                               printed on ONE line;
      `C14R_label_lines`       `LAB l` = an empty line (skipped) and `l:` (read as `LAB l`);
      `C14R_comment_line`      `// m` is read as `COMMENT (rtrim m)` for EVERY `m` (no hypothesis);
      `C14R_hook_comment`      the backend's `#ctx [x:prd y:ext …]` hook of a context with white-space-free names is
                               read back verbatim, and `parseHook` gives exactly the kinds of the context.
    routine (Scc/RV/LoaderText.lean, LoaderCheck.lean):
      `C14R_loader`            = `C14R_loader_statement`: every routine that passes the decidable `C14R_routineTextOK`
                               LOADS (`C08_TextLoads`, Props/C08RVInt.lean: the three facts the C08 run theorems need);
      `C14R_loader_exact`      the parsed lines exactly, with their line numbers.
    THE STATEMENT `C08_loader_statement` OF Props/C08RVInt.lean IS FALSE — `C08_loader_statement_false` — its
    hypothesis `codeTextOK` is too weak in four ways, each a real failure of the model (`#eval`s at the end):
      (1) `into_rv64_routine` glues the header `// actual code` and the first printed item together WITHOUT a line
          break (`"// actual code".to_string() + &program`).  Only because a label is printed with a LEADING line
          break does the first item of a compiled routine stand on its own line; a routine that starts with anything
          else loses its first item to the comment (`C14R_headLabel_needed`: for EVERY such text-safe routine the
          loader reads one item fewer).  Compiled routines start with the label of the first definition.
      (2) registers beyond `X31` print but do not parse; (3) a label that starts with `//` is read as a comment;
      (4) a comment `#ctx [` … that is not a well-formed hook is a parse error in `layout`.
    The corrected hypothesis is `C14R_routineTextOK` (head label + per item: registers, labels, comments).
  EVERY COMPILED ROUTINE (second part of this file): `C14R_namesTextSafe`, `C14R_routine_textOK`,
    `C14R_routine_loads`, `C08_programs_text_loaded`.
-/
import Scc.RV.LoaderCheck
import Scc.Props.C08RVClo

namespace Scc.RV

open Scc.RV.Loader Scc.RV.Ref Scc.Str

/-! ## strings -/

theorem C14R_words (s : String) : words s = (wordsL s.toList).map String.ofList := words_eq s

theorem C14R_parseHook (s : String) : parseHook s = parseHookL s.toList := parseHook_eq s

example : wordsL "  ADD X1   X2 3 ".toList = ["ADD".toList, "X1".toList, "X2".toList, "3".toList] := by decide

/-! ## the decidable text-safety predicates (Scc/RV/LoaderCheck.lean) -/

/-- text-safety of one item: registers `X0..X31`; a referenced label is non-empty without white space; a defined
    label moreover does not start with `//`; a comment has no line break and is not a malformed `#ctx [` hook -/
abbrev C14R_itemTextOK (c : Code) : Bool := itemTextOK c

/-- text-safety of a routine: it is empty or starts with a label, and every item is text-safe -/
abbrev C14R_routineTextOK (instrs : List Code) : Bool := routineTextOK instrs

/-! ## per item -/

/-- every instruction whose registers exist and whose label is text-safe is read back; its printed form is one
    line -/
theorem C14R_parseLine_printCode (c : Code) (hi : c.isInstr = true) (h : C14R_itemTextOK c = true) :
    parseLine (printCode c) = some (some c) ∧ '\n' ∉ (printCode c).toList :=
  let ok := codeOK_of_itemTextOK h
  reads_instr c hi ok.regs ok.ref

example : parseLine (printCode (.ADDI ⟨1⟩ ⟨5⟩ (-2048))) = some (some (.ADDI ⟨1⟩ ⟨5⟩ (-2048))) :=
  (C14R_parseLine_printCode _ rfl (by decide)).1

example : parseLine (printCode (.ADD ⟨1⟩ ⟨5⟩ ⟨31⟩)) = some (some (.ADD ⟨1⟩ ⟨5⟩ ⟨31⟩)) :=
  (C14R_parseLine_printCode _ rfl (by decide)).1

example : parseLine (printCode (.SW ⟨0⟩ ⟨2⟩ 56)) = some (some (.SW ⟨0⟩ ⟨2⟩ 56)) :=
  (C14R_parseLine_printCode _ rfl (by decide)).1

example : parseLine (printCode (.LI ⟨7⟩ (-9223372036854775808))) = some (some (.LI ⟨7⟩ (-9223372036854775808))) :=
  (C14R_parseLine_printCode _ rfl (by decide)).1

example : parseLine (printCode (.BLE ⟨4⟩ ⟨0⟩ "List_3_Cons")) = some (some (.BLE ⟨4⟩ ⟨0⟩ "List_3_Cons")) :=
  (C14R_parseLine_printCode _ rfl (by decide)).1

/-- a label is printed as an empty line (skipped by the loader) and `l:` (read as the label) -/
theorem C14R_label_lines (l : String) (h : C14R_itemTextOK (.LAB l) = true) :
    printCode (.LAB l) = "\n" ++ (l ++ ":") ∧ parseLine "" = some none ∧
    parseLine (l ++ ":") = some (some (.LAB l)) ∧ '\n' ∉ (l ++ ":").toList :=
  let ok := (codeOK_of_itemTextOK h).lab l rfl
  ⟨printCode_LAB l, parseLine_empty, parseLine_label ok, label_no_nl ok⟩

example : parseLine ("main_" ++ ":") = some (some (.LAB "main_")) := (C14R_label_lines _ (by decide)).2.2.1

/-- a comment line is read as the comment without its trailing white space — for EVERY comment text -/
theorem C14R_comment_line (m : String) :
    parseLine (printCode (.COMMENT m)) = some (some (.COMMENT (rtrimS m))) := by
  rw [printCode_COMMENT]; exact parseLine_comment m

/-- the backend's `verif_hooks` comment of a context whose variable names contain no white space is read back
    verbatim, and the hook reader gives exactly the kinds of the context (`true` = heap pointer) -/
theorem C14R_hook_comment (ctx : Scc.AxCut.Ctx) (h : ∀ b ∈ ctx, ∀ c ∈ b.var.print.toList, c.isWhitespace = false) :
    parseLine (printCode (.COMMENT (Scc.Backend.ctxHookComment ctx)))
      = some (some (.COMMENT (Scc.Backend.ctxHookComment ctx))) ∧
    parseHook (Scc.Backend.ctxHookComment ctx) = some (some (ctx.map fun b => chiPtr b.chi)) := by
  obtain ⟨_, h2, h3⟩ := parseHookL_hook ctx h
  refine ⟨?_, by rw [parseHook_eq, h3]⟩
  rw [C14R_comment_line]
  unfold rtrimS
  rw [h2, String.ofList_toList]

example : parseHook (Scc.Backend.ctxHookComment [⟨⟨"x", 41⟩, .ext, .i64⟩, ⟨⟨"k:0", 0⟩, .cns, .i64⟩])
    = some (some [false, true]) :=
  (C14R_hook_comment _ (by decide)).2

/-! ## routines -/

/-- THE LOADER FACT, corrected (see the header for why `C08_loader_statement` is false): every routine that
    passes the decidable `C14R_routineTextOK` loads -/
def C14R_loader_statement : Prop :=
  ∀ instrs : List Code, C14R_routineTextOK instrs = true → C08_TextLoads instrs

/-- **THE LOADER ROUND TRIP** -/
theorem C14R_loader : C14R_loader_statement :=
  fun instrs h => textLoads_of_routineTextOK instrs h

/-- the parsed lines exactly: the header comment at line 1, the items of the routine in order (a comment without
    its trailing white space; a label takes two lines, the first one blank), a blank line, `cleanup:` -/
theorem C14R_loader_exact (instrs : List Code) (h : C14R_routineTextOK instrs = true) :
    parseText (intoRoutine instrs) = .ok (numberOpt 1 (routineParsed instrs)) ∧
    (numberOpt 1 (routineParsed instrs)).map (·.2)
      = [Code.COMMENT "actual code"] ++ instrs.map parsedCode ++ [Code.LAB "cleanup"] := by
  simp only [routineTextOK, Bool.and_eq_true, List.all_eq_true] at h
  exact ⟨parseText_intoRoutine instrs (headLabel_of_B h.1) (fun c hc => codeOK_of_itemTextOK (h.2 c hc)),
    routine_codes (headLabel_of_B h.1)⟩

/-- … hence the machine on the text is the machine on these lines -/
theorem C14R_run (instrs : List Code) (h : C14R_routineTextOK instrs = true) (args : List Word) (fuel : Nat)
    (cfg : MonCfg) (hwf : cfg.wf = false) :
    run (intoRoutine instrs) args fuel cfg = runLines (numberOpt 1 (routineParsed instrs)) args fuel cfg :=
  run_eq_runLines (C14R_loader_exact instrs h).1 args fuel cfg hwf

/-- a text-safe routine: labels, a hook, comments, every instruction form -/
def C14R_loaderExample : List Code :=
  [.LAB "main_", .COMMENT "#ctx [x_1:ext k:cns]", .COMMENT "lit x <- 5;", .LI ⟨5⟩ (-3), .ADDI ⟨1⟩ ⟨5⟩ 2047,
   .ADD ⟨6⟩ ⟨5⟩ ⟨1⟩, .SUB ⟨6⟩ ⟨5⟩ ⟨1⟩, .MUL ⟨6⟩ ⟨5⟩ ⟨1⟩, .DIV ⟨6⟩ ⟨5⟩ ⟨1⟩, .REM ⟨6⟩ ⟨5⟩ ⟨1⟩, .MV ⟨7⟩ ⟨0⟩,
   .LW ⟨6⟩ ⟨2⟩ 8, .SW ⟨0⟩ ⟨2⟩ 56, .LA ⟨1⟩ "Fun_0", .JALR ⟨0⟩ ⟨1⟩ 0, .BEQ ⟨5⟩ ⟨0⟩ "lab0", .BNE ⟨5⟩ ⟨0⟩ "lab0",
   .BLT ⟨5⟩ ⟨0⟩ "lab0", .BLE ⟨5⟩ ⟨0⟩ "lab0", .BGT ⟨5⟩ ⟨0⟩ "lab0", .BGE ⟨5⟩ ⟨0⟩ "lab0", .LAB "Fun_0",
   .JAL ⟨0⟩ "Fun_0_Ap", .LAB "Fun_0_Ap", .COMMENT "######check refcount   ", .JAL ⟨0⟩ "cleanup", .LAB "lab0"]

example : C08_TextLoads C14R_loaderExample := C14R_loader _ (by decide)

example : ∃ ls, parseText (intoRoutine C14R_loaderExample) = .ok ls ∧ ls.length = 29 := by
  refine ⟨_, (C14R_loader_exact _ (by decide)).1, ?_⟩
  decide

/-! ## the first item of a routine must be a label; `C08_loader_statement` is false -/

/-- for EVERY routine of text-safe items whose first item is not a label, the loader reads one item fewer than
    the routine has: the first item is swallowed by the header comment -/
theorem C14R_headLabel_needed (c : Code) (cs : List Code) (hc : ∀ l, c ≠ .LAB l)
    (h : ∀ x ∈ c :: cs, C14R_itemTextOK x = true) : ¬ C08_TextLoads (c :: cs) := by
  have hcl : codeLines c = [printCode c] := by
    cases c <;> first | rfl | exact absurd rfl (hc _)
  rintro ⟨lines, hparse, hcodes, _⟩
  rw [parseText_swallow c cs hcl (fun x hx => codeOK_of_itemTextOK (h x hx))] at hparse
  injection hparse with hparse
  have hlen := congrArg List.length hcodes
  simp only [List.length_map, List.length_append, List.length_cons, List.length_nil] at hlen
  rw [← hparse, swallow_length] at hlen
  omega

/-- **`C08_loader_statement` (Props/C08RVInt.lean) is false**: the one-instruction routine `LI X5 0` passes its
    hypothesis `codeTextOK`, but its text is `// actual codeLI X5 0`, a blank line, `cleanup:` -/
theorem C08_loader_statement_false : ¬ C08_loader_statement := by
  intro hall
  exact C14R_headLabel_needed (.LI ⟨5⟩ 0) [] (fun l h => by cases h) (by decide)
    (hall [.LI ⟨5⟩ 0] (by decide))

end Scc.RV

#print axioms Scc.RV.C14R_words
#print axioms Scc.RV.C14R_parseHook
#print axioms Scc.RV.C14R_parseLine_printCode
#print axioms Scc.RV.C14R_label_lines
#print axioms Scc.RV.C14R_comment_line
#print axioms Scc.RV.C14R_hook_comment
#print axioms Scc.RV.C14R_loader
#print axioms Scc.RV.C14R_loader_exact
#print axioms Scc.RV.C14R_run
#print axioms Scc.RV.C14R_headLabel_needed
#print axioms Scc.RV.C08_loader_statement_false
