/-
  Scc.Props.C10X86All — property C10 (heap footprint bounded by peak live data) ON CONCRETE x86-64 EXECUTIONS OF
  ALL PROGRAMS — data types AND CLOSURES: the port of Props/C10X86.lean (programs without closures) to the
  closure-aware three-way relation `Scc.X86.Ref.K` of Props/C06X86Full.lean (Scc/X86/ConcK*.lean), with the side
  hypotheses of the composition discharged as in `C06_programs_text` (`C06_setup_of_checks`).

  C10 (fixed text): "Generated code takes fresh memory from the unused part of the heap only when both free
  lists are empty, so at every moment the highest heap address ever written lies at most a small constant
  number of blocks above the peak number of simultaneously reachable blocks. A computation that repeatedly
  builds and drops structures therefore runs in space independent of the number of repetitions."

  NOTIONS: `HeapShapeAt`, `maxHeapWritten`, `withHeapBytes` as in Props/C10X86.lean (raw machine state);
  `ConcK.PeakAtMost … Pk C` — THE PEAK over the statement boundaries `ConcK.BoundaryOf` of the closure-aware
  relation (boundary states up to labels and comments: Props/C09X86All.lean).
  THE CONSTANT `A + 2`, `A = progMaxAlloc p`: the largest number of fields of a `let` OR OF VARIABLES CAPTURED BY A
  `create` of the program — the environment of a closure is stored by the same `Memory::store` as the fields of
  an object, and the memory contract asks for `A + 1` blocks of room before it.

  PROVED (no `sorry`; axioms propext, Classical.choice, Quot.sound):
  * `C10_x86_frontier_bound_all`  under `PeakAtMost Pk`, in a heap of at least `64·(Pk + A + 2)` bytes, the machine
                              passes through a boundary state for every state of the terminating positional run,
                              and at each at most `Pk + 1` blocks lie below the frontier (fresh memory is taken
                              only when both free lists are empty: `FrPk`, now also through `create`).
  * `C10_x86_every_prefix_all`    the same for every prefix (any number `fuel` of steps) of every run.
  * `C10_x86_programs`        THEOREM A ∘ B ON THE TEXT under the footprint bound instead of the coarse room
                              hypothesis of `C06_programs_text`: `64·(Pk + A + 2) ≤ heapBytes` and `PeakAtMost Pk`
                              suffice for a run of ANY length (same trace, same result), and the highest heap
                              address written lies inside the heap region.  `C10_x86_programs_items`: on the
                              items, side hypotheses explicit.
  * `C10_x86_footprint_all`   THE FOOTPRINT, on the text: in ANY heap of at least `64·(Pk + A + 2)` bytes the run
                              ends with the same trace and result and `maxHeapWritten ≤ 64·(Pk + A + 2)`,
                              independent of the length of the run and of the size of the heap.
                              `C10_x86_footprint_all_items`: on the items.
  * `C10_x86_size_all`        C10 IN TERMS OF THE SOURCE-LEVEL DATA, ALL RUNS, on the text: let `D` bound the
                              number of fields of the object AND CLOSURE values held by the variables of the
                              positional machine (`valsFields st.env ≤ D` for every reachable state).  Then in ANY
                              heap of at least `64·(D + A + 2)` bytes, for EVERY amount of machine fuel (below
                              `2^64/(M + 1)`), terminating run or not, the result is `outOfFuel` or `done v` and
                              the highest heap address written is at most `D + A + 2` blocks above the heap base.
                              `C10_x86_size_all_items`: on the items.
  KEPT AS `def : Prop` — `C10_x86_statement` (Props/C10X86.lean): constant 2, no side hypotheses, peak measured
  at the `#ctx` hooks.  The restriction to programs without closures is REMOVED here.
-/
import Scc.Props.C13X86All

namespace Scc.X86
open Scc.AxCut Scc.AxCut.Pos Scc.Backend Scc.Backend.Abs Scc.X86.Ref
open Scc.Props.C06Generic (Reachable CodeFits statesOf)
open Scc.Props.C14Generic (LabelSafe)
open Scc.X86.Ref.K (AllocLe progMaxAlloc allocLe_progMaxAlloc)
open Scc.X86.Conc (BChain HeapShapeAt valsFields stmtSize progMaxSize stmtSize_le_progMaxSize withHeapBytes
  machOK_withHeapBytes sub_withHeapBytes runItems_larger_heap stepN_mhw mhwOK_init)

/-- the peak hypothesis is trivial for `Pk = C`: the blocks in use lie below the frontier -/
theorem C10_peak_trivial_all (p : AxCut.Prog) (hooks : Bool) (routine : List Code) (ops : List MockOp)
    (cfg : MonCfg) (items : List (Code × Nat)) (args : List Word) (C : Nat) :
    ConcK.PeakAtMost p hooks routine ops cfg items args C C :=
  ConcK.peakAtMost_trivial p hooks routine ops cfg items args C

/-! ## the frontier bound -/

/-- THE FRONTIER BOUND ON THE MACHINE, all programs (lift of `C10_frontier_bound`): if at no statement boundary
more than `Pk` blocks are in use, then in a heap of `64·(Pk + A + 2)` bytes the machine passes, in order and
without fault, through a boundary state for EVERY state of the terminating positional run, and at each of them
the heap is consistent with at most `Pk + 1` blocks below the allocation frontier. -/
theorem C10_x86_frontier_bound_all (p : AxCut.Prog) (args : List Word) (hooks : Bool) (body routine : List Code)
    (nargs : Nat) (d0 : Def) (ops : List MockOp) (c' : Nat)
    (hsafe : LabelSafe p = true) (htp : LinTypedProg p) (hrange : ProgInRange p)
    (hcompM : (compile mockSym hooks p).run 0 = .ok ((ops, nargs), c')) (hfit : CodeFits ops)
    (hcompX : compileX86 p hooks 0 = .ok (body, nargs)) (hrout : intoRoutine body nargs = .ok routine)
    (hnd : (labs routine).Nodup)
    (hd : p.defs.head? = some d0) (hentry : ∀ b ∈ d0.ctx, b.chi = .ext ∧ b.ty = .i64)
    (hcap : ∀ st, Reachable p ⟨d0.ctx, args.map .int, d0.body⟩ st → 2 * st.ctx.length ≤ 266)
    (fuel : Nat) (out : List (Bool × Word)) (v : Word) (hfuel : fuel + 1 < 2 ^ 64)
    (hrun : Pos.run p args fuel = ⟨out, .done v⟩)
    (cfg : MonCfg) (MO : MachOK cfg.mach) (hk : cfg.consts = consts)
    (hb8 : cfg.mach.heapBase % 8 = 0) (hb0 : 0 < cfg.mach.heapBase)
    (Pk : Nat) (hbytes : 64 * (Pk + progMaxAlloc p + 2) ≤ cfg.mach.heapBytes)
    (items : List (Code × Nat)) (hitems : (items.map (·.1)).map stripC = routine.map stripC)
    (hfitX : addrAt cfg.mach.codeBase routine routine.length < 2 ^ 64)
    (hP : ConcK.PeakAtMost p hooks routine ops cfg items args Pk (progMaxAlloc p * fuel + 1)) :
    ∃ n0 X0, stepN cfg (mkProg cfg.mach items) n0 (initState cfg.mach args 6) = .inl X0 ∧
      BChain cfg (mkProg cfg.mach items)
        (fun st X => ConcK.BoundaryOf p hooks routine ops cfg st X ∧
          ∃ below inUse, HeapShapeAt cfg X below inUse ∧ below ≤ Pk + 1 ∧ inUse ≤ Pk)
        (statesOf p fuel ⟨d0.ctx, args.map .int, d0.body⟩) X0 := by
  obtain ⟨_, n0, X0, n, XL, h0, hch, _⟩ := ConcK.programs_peak p args hooks body routine nargs d0 ops c' hsafe htp
    ⟨hrange.1, fun d hd => hrange.2 d hd⟩ hcompM hfit hcompX hrout hnd hd hentry hcap fuel out v
    hfuel hrun cfg MO hk hb8 hb0 Pk (progMaxAlloc p) (allocLe_progMaxAlloc p) hbytes items hitems hfitX hP
  exact ⟨n0, X0, h0, hch⟩

/-- THE FRONTIER BOUND FOR EVERY PREFIX OF EVERY RUN (terminating or not), all programs: for ANY number `fuel` of
steps of the positional machine the machine reaches, without fault, a boundary state for every state of the
prefix, with at most `Pk + 1` blocks below the frontier at each -/
theorem C10_x86_every_prefix_all (p : AxCut.Prog) (args : List Word) (hooks : Bool) (body routine : List Code)
    (nargs : Nat) (d0 : Def) (ops : List MockOp) (c' : Nat)
    (hsafe : LabelSafe p = true) (htp : LinTypedProg p) (hrange : ProgInRange p)
    (hcompM : (compile mockSym hooks p).run 0 = .ok ((ops, nargs), c')) (hfit : CodeFits ops)
    (hcompX : compileX86 p hooks 0 = .ok (body, nargs)) (hrout : intoRoutine body nargs = .ok routine)
    (hnd : (labs routine).Nodup)
    (hd : p.defs.head? = some d0) (hentry : ∀ b ∈ d0.ctx, b.chi = .ext ∧ b.ty = .i64)
    (hlen : d0.ctx.length = args.length)
    (hcap : ∀ st, Reachable p ⟨d0.ctx, args.map .int, d0.body⟩ st → 2 * st.ctx.length ≤ 266)
    (fuel : Nat) (hfuel : fuel + 1 < 2 ^ 64)
    (cfg : MonCfg) (MO : MachOK cfg.mach) (hk : cfg.consts = consts)
    (hb8 : cfg.mach.heapBase % 8 = 0) (hb0 : 0 < cfg.mach.heapBase)
    (Pk : Nat) (hbytes : 64 * (Pk + progMaxAlloc p + 2) ≤ cfg.mach.heapBytes)
    (items : List (Code × Nat)) (hitems : (items.map (·.1)).map stripC = routine.map stripC)
    (hfitX : addrAt cfg.mach.codeBase routine routine.length < 2 ^ 64)
    (hP : ConcK.PeakAtMost p hooks routine ops cfg items args Pk (progMaxAlloc p * fuel + 1)) :
    ∃ n0 X0, stepN cfg (mkProg cfg.mach items) n0 (initState cfg.mach args 6) = .inl X0 ∧
      X0.maxHeapWritten ≤ cfg.mach.heapBytes ∧
      BChain cfg (mkProg cfg.mach items)
        (fun st X => ConcK.BoundaryOf p hooks routine ops cfg st X ∧
          ∃ below inUse, HeapShapeAt cfg X below inUse ∧ below ≤ Pk + 1 ∧ inUse ≤ Pk)
        (statesOf p fuel ⟨d0.ctx, args.map .int, d0.body⟩) X0 := by
  obtain ⟨_, n0, X0, h0, hch⟩ := ConcK.programs_prefix p args hooks body routine nargs d0 ops c' hsafe htp
    ⟨hrange.1, fun d hd => hrange.2 d hd⟩ hcompM hfit hcompX hrout hnd hd hentry hlen hcap fuel
    hfuel cfg MO hk hb8 hb0 Pk (progMaxAlloc p) (allocLe_progMaxAlloc p) hbytes items hitems hfitX hP
  exact ⟨n0, X0, h0, stepN_mhw n0 h0 (mhwOK_init cfg.mach args 6), hch⟩

/-! ## the run under the footprint bound -/

/-- THEOREM A ∘ THEOREM B FOR ALL PROGRAMS UNDER THE FOOTPRINT BOUND, on the items of the routine, side hypotheses
explicit: `C06_programs` with its room hypothesis `128 + 64·134·fuel ≤ heapBytes` replaced by `64·(Pk + A + 2) ≤
heapBytes` and the peak hypothesis — a heap that holds the peak is enough for a run of any length; and the
machine's record of the highest heap address written stays inside the heap region. -/
theorem C10_x86_programs_items (p : AxCut.Prog) (args : List Word) (hooks : Bool) (body routine : List Code)
    (nargs : Nat) (d0 : Def) (ops : List MockOp) (c' : Nat)
    (hsafe : LabelSafe p = true) (htp : LinTypedProg p) (hrange : ProgInRange p)
    (hcompM : (compile mockSym hooks p).run 0 = .ok ((ops, nargs), c')) (hfit : CodeFits ops)
    (hcompX : compileX86 p hooks 0 = .ok (body, nargs)) (hrout : intoRoutine body nargs = .ok routine)
    (hnd : (labs routine).Nodup)
    (hd : p.defs.head? = some d0) (hentry : ∀ b ∈ d0.ctx, b.chi = .ext ∧ b.ty = .i64)
    (hcap : ∀ st, Reachable p ⟨d0.ctx, args.map .int, d0.body⟩ st → 2 * st.ctx.length ≤ 266)
    (fuel : Nat) (out : List (Bool × Word)) (v : Word) (hfuel : fuel + 1 < 2 ^ 64)
    (hrun : Pos.run p args fuel = ⟨out, .done v⟩)
    (cfg : MonCfg) (MO : MachOK cfg.mach) (hk : cfg.consts = consts) (hheap : cfg.heap = false)
    (hb8 : cfg.mach.heapBase % 8 = 0) (hb0 : 0 < cfg.mach.heapBase)
    (Pk : Nat) (hbytes : 64 * (Pk + progMaxAlloc p + 2) ≤ cfg.mach.heapBytes)
    (items : List (Code × Nat)) (hitems : (items.map (·.1)).map stripC = routine.map stripC)
    (hfitX : addrAt cfg.mach.codeBase routine routine.length < 2 ^ 64)
    (hP : ConcK.PeakAtMost p hooks routine ops cfg items args Pk (progMaxAlloc p * fuel + 1)) :
    ∃ fuel', (runItems items args fuel' cfg).out = out ∧ (runItems items args fuel' cfg).res = .done v ∧
      (runItems items args fuel' cfg).maxHeapWritten ≤ cfg.mach.heapBytes :=
  ConcK.programs_peak_items p args hooks body routine nargs d0 ops c' hsafe htp
    ⟨hrange.1, fun d hd => hrange.2 d hd⟩ hcompM hfit hcompX hrout hnd hd hentry hcap fuel out v
    hfuel hrun cfg MO hk hheap hb8 hb0 Pk (progMaxAlloc p) (allocLe_progMaxAlloc p) hbytes items hitems hfitX hP

/-- C10, THE FOOTPRINT ON THE MACHINE, all programs, on the items: let at no statement boundary of the run in a
heap of `64·(Pk + A + 2)` bytes more than `Pk` blocks be in use.  Then in ANY heap at least that large the run
reproduces the trace and the result of the positional machine, and the highest heap address ever written lies
at most `Pk + A + 2` blocks above the heap base — independent of the length of the run and of the size of the
heap. -/
theorem C10_x86_footprint_all_items (p : AxCut.Prog) (args : List Word) (hooks : Bool) (body routine : List Code)
    (nargs : Nat) (d0 : Def) (ops : List MockOp) (c' : Nat)
    (hsafe : LabelSafe p = true) (htp : LinTypedProg p) (hrange : ProgInRange p)
    (hcompM : (compile mockSym hooks p).run 0 = .ok ((ops, nargs), c')) (hfit : CodeFits ops)
    (hcompX : compileX86 p hooks 0 = .ok (body, nargs)) (hrout : intoRoutine body nargs = .ok routine)
    (hnd : (labs routine).Nodup)
    (hd : p.defs.head? = some d0) (hentry : ∀ b ∈ d0.ctx, b.chi = .ext ∧ b.ty = .i64)
    (hcap : ∀ st, Reachable p ⟨d0.ctx, args.map .int, d0.body⟩ st → 2 * st.ctx.length ≤ 266)
    (fuel : Nat) (out : List (Bool × Word)) (v : Word) (hfuel : fuel + 1 < 2 ^ 64)
    (hrun : Pos.run p args fuel = ⟨out, .done v⟩)
    (cfg : MonCfg) (MO : MachOK cfg.mach) (hk : cfg.consts = consts) (hheap : cfg.heap = false)
    (hb8 : cfg.mach.heapBase % 8 = 0) (hb0 : 0 < cfg.mach.heapBase)
    (Pk : Nat) (hbytes : 64 * (Pk + progMaxAlloc p + 2) ≤ cfg.mach.heapBytes)
    (items : List (Code × Nat)) (hitems : (items.map (·.1)).map stripC = routine.map stripC)
    (hfitX : addrAt cfg.mach.codeBase routine routine.length < 2 ^ 64)
    (hP : ConcK.PeakAtMost p hooks routine ops (withHeapBytes cfg (64 * (Pk + progMaxAlloc p + 2))) items args Pk
      (progMaxAlloc p * fuel + 1)) :
    ∃ fuel', (runItems items args fuel' cfg).out = out ∧ (runItems items args fuel' cfg).res = .done v ∧
      (runItems items args fuel' cfg).maxHeapWritten ≤ 64 * (Pk + progMaxAlloc p + 2) := by
  obtain ⟨fuel', h1, h2, h3⟩ := C10_x86_programs_items p args hooks body routine nargs d0 ops c' hsafe htp
    hrange hcompM hfit hcompX hrout hnd hd hentry hcap fuel out v hfuel hrun
    (withHeapBytes cfg (64 * (Pk + progMaxAlloc p + 2))) (machOK_withHeapBytes MO hbytes) hk hheap hb8 hb0 Pk
    (Nat.le_refl _) items hitems hfitX hP
  have e := runItems_larger_heap (sub_withHeapBytes MO hbytes) hheap hheap items args fuel' v h2
  exact ⟨fuel', by rw [e]; exact h1, by rw [e]; exact h2, by rw [e]; exact h3⟩

/-- THEOREM A ∘ THEOREM B FOR ALL PROGRAMS UNDER THE FOOTPRINT BOUND, ON THE TEXT OF THE ROUTINE, side hypotheses
discharged: the hypotheses of `C06_programs_text` with the room hypothesis replaced by the footprint bound (the
peak hypothesis for the mock code and the items of the text; `fuel + 1 < 2^64`) -/
theorem C10_x86_programs (p : AxCut.Prog) (args : List Word) (hooks : Bool) (body routine : List Code)
    (nargs : Nat) (d0 : Def)
    (hsafe : LabelSafe p = true) (htp : LinTypedProg p) (hchk : C06_x86Checks p = true)
    (hcompX : compileX86 p hooks 0 = .ok (body, nargs)) (hrout : intoRoutine body nargs = .ok routine)
    (hd : p.defs.head? = some d0)
    (fuel : Nat) (out : List (Bool × Word)) (v : Word) (hfuel : fuel + 1 < 2 ^ 64)
    (hrun : Pos.run p args fuel = ⟨out, .done v⟩)
    (cfg : MonCfg) (MO : MachOK cfg.mach) (hk : cfg.consts = consts) (hheap : cfg.heap = false)
    (hb8 : cfg.mach.heapBase % 8 = 0) (hb0 : 0 < cfg.mach.heapBase)
    (Pk : Nat) (hbytes : 64 * (Pk + progMaxAlloc p + 2) ≤ cfg.mach.heapBytes)
    (hfitX : addrAt cfg.mach.codeBase routine routine.length < 2 ^ 64)
    (hP : ∀ ops c' items, (compile mockSym hooks p).run 0 = .ok ((ops, nargs), c') →
      parseText (printProg routine) = .ok items →
      ConcK.PeakAtMost p hooks routine ops cfg items args Pk (progMaxAlloc p * fuel + 1)) :
    ∃ fuel', (run (printProg routine) args fuel' cfg).out = out ∧
      (run (printProg routine) args fuel' cfg).res = .done v ∧
      (run (printProg routine) args fuel' cfg).maxHeapWritten ≤ cfg.mach.heapBytes := by
  obtain ⟨ops, c', items, S⟩ := C06_setup_of_checks p args hooks body routine nargs d0 hsafe htp hchk hcompX hrout hd
  obtain ⟨fuel', h1, h2, h3⟩ := C10_x86_programs_items p args hooks body routine nargs d0 ops c' hsafe htp S.range
    S.compM S.fit hcompX hrout S.nd hd S.entry S.cap fuel out v hfuel hrun cfg MO hk hheap hb8 hb0 Pk hbytes items
    S.items hfitX (hP ops c' items S.compM S.parse)
  exact ⟨fuel', by rw [run_eq_runItems S.parse]; exact h1, by rw [run_eq_runItems S.parse]; exact h2,
    by rw [run_eq_runItems S.parse]; exact h3⟩

/-- C10, THE FOOTPRINT, ALL PROGRAMS, ON THE TEXT OF THE ROUTINE: the machine's entry point `run` on the printed
routine reproduces trace and result and never writes above `Pk + A + 2` blocks of its heap -/
theorem C10_x86_footprint_all (p : AxCut.Prog) (args : List Word) (hooks : Bool) (body routine : List Code)
    (nargs : Nat) (d0 : Def)
    (hsafe : LabelSafe p = true) (htp : LinTypedProg p) (hchk : C06_x86Checks p = true)
    (hcompX : compileX86 p hooks 0 = .ok (body, nargs)) (hrout : intoRoutine body nargs = .ok routine)
    (hd : p.defs.head? = some d0)
    (fuel : Nat) (out : List (Bool × Word)) (v : Word) (hfuel : fuel + 1 < 2 ^ 64)
    (hrun : Pos.run p args fuel = ⟨out, .done v⟩)
    (cfg : MonCfg) (MO : MachOK cfg.mach) (hk : cfg.consts = consts) (hheap : cfg.heap = false)
    (hb8 : cfg.mach.heapBase % 8 = 0) (hb0 : 0 < cfg.mach.heapBase)
    (Pk : Nat) (hbytes : 64 * (Pk + progMaxAlloc p + 2) ≤ cfg.mach.heapBytes)
    (hfitX : addrAt cfg.mach.codeBase routine routine.length < 2 ^ 64)
    (hP : ∀ ops c' items, (compile mockSym hooks p).run 0 = .ok ((ops, nargs), c') →
      parseText (printProg routine) = .ok items →
      ConcK.PeakAtMost p hooks routine ops (withHeapBytes cfg (64 * (Pk + progMaxAlloc p + 2))) items args Pk
        (progMaxAlloc p * fuel + 1)) :
    ∃ fuel', (run (printProg routine) args fuel' cfg).out = out ∧
      (run (printProg routine) args fuel' cfg).res = .done v ∧
      (run (printProg routine) args fuel' cfg).maxHeapWritten ≤ 64 * (Pk + progMaxAlloc p + 2) := by
  obtain ⟨ops, c', items, S⟩ := C06_setup_of_checks p args hooks body routine nargs d0 hsafe htp hchk hcompX hrout hd
  obtain ⟨fuel', h1, h2, h3⟩ := C10_x86_footprint_all_items p args hooks body routine nargs d0 ops c' hsafe htp S.range
    S.compM S.fit hcompX hrout S.nd hd S.entry S.cap fuel out v hfuel hrun cfg MO hk hheap hb8 hb0 Pk hbytes items
    S.items hfitX (hP ops c' items S.compM S.parse)
  exact ⟨fuel', by rw [run_eq_runItems S.parse]; exact h1, by rw [run_eq_runItems S.parse]; exact h2,
    by rw [run_eq_runItems S.parse]; exact h3⟩

/-- with `Pk = A·fuel + 1` the peak hypothesis is trivial: the footprint of a terminating run of ANY program in
terms of its length -/
theorem C10_x86_coarse_all (p : AxCut.Prog) (args : List Word) (hooks : Bool) (body routine : List Code)
    (nargs : Nat) (d0 : Def)
    (hsafe : LabelSafe p = true) (htp : LinTypedProg p) (hchk : C06_x86Checks p = true)
    (hcompX : compileX86 p hooks 0 = .ok (body, nargs)) (hrout : intoRoutine body nargs = .ok routine)
    (hd : p.defs.head? = some d0)
    (fuel : Nat) (out : List (Bool × Word)) (v : Word) (hfuel : fuel + 1 < 2 ^ 64)
    (hrun : Pos.run p args fuel = ⟨out, .done v⟩)
    (cfg : MonCfg) (MO : MachOK cfg.mach) (hk : cfg.consts = consts) (hheap : cfg.heap = false)
    (hb8 : cfg.mach.heapBase % 8 = 0) (hb0 : 0 < cfg.mach.heapBase)
    (hbytes : 64 * (progMaxAlloc p * fuel + 1 + progMaxAlloc p + 2) ≤ cfg.mach.heapBytes)
    (hfitX : addrAt cfg.mach.codeBase routine routine.length < 2 ^ 64) :
    ∃ fuel', (run (printProg routine) args fuel' cfg).out = out ∧
      (run (printProg routine) args fuel' cfg).res = .done v ∧
      (run (printProg routine) args fuel' cfg).maxHeapWritten ≤
        64 * (progMaxAlloc p * fuel + 1 + progMaxAlloc p + 2) :=
  C10_x86_footprint_all p args hooks body routine nargs d0 hsafe htp hchk hcompX hrout hd fuel out v hfuel hrun cfg
    MO hk hheap hb8 hb0 (progMaxAlloc p * fuel + 1) hbytes hfitX
    (fun _ _ _ _ _ => C10_peak_trivial_all _ _ _ _ _ _ _ _)

/-! ## C10 in terms of the source-level data -/

/-- C10, ALL RUNS OF ALL PROGRAMS, IN TERMS OF THE DATA OF THE POSITIONAL MACHINE, on the items, side hypotheses
explicit: if the object and closure values held by the variables never have more than `D` fields in total (over
all reachable states of the AxCut positional machine), then in any heap of at least `64·(D + A + 2)` bytes the
machine, for every amount of fuel (below `2^64 / (M + 1)`, `M = progMaxSize p`), is still running or has returned
the result of the positional machine, and has never written above `D + A + 2` blocks of its heap. -/
theorem C10_x86_size_all_items (p : AxCut.Prog) (args : List Word) (hooks : Bool) (body routine : List Code)
    (nargs : Nat) (d0 : Def) (ops : List MockOp) (c' : Nat)
    (hsafe : LabelSafe p = true) (htp : LinTypedProg p) (hrange : ProgInRange p)
    (hcompM : (compile mockSym hooks p).run 0 = .ok ((ops, nargs), c')) (hfit : CodeFits ops)
    (hcompX : compileX86 p hooks 0 = .ok (body, nargs)) (hrout : intoRoutine body nargs = .ok routine)
    (hnd : (labs routine).Nodup)
    (hd : p.defs.head? = some d0) (hentry : ∀ b ∈ d0.ctx, b.chi = .ext ∧ b.ty = .i64)
    (hlen : d0.ctx.length = args.length)
    (hcap : ∀ st, Reachable p ⟨d0.ctx, args.map .int, d0.body⟩ st → 2 * st.ctx.length ≤ 266)
    (hnostuck : ∀ fuel w, (Pos.run p args fuel).res ≠ .stuck w)
    (D : Nat) (hD : ∀ st, Reachable p ⟨d0.ctx, args.map .int, d0.body⟩ st → valsFields st.env ≤ D)
    (cfg : MonCfg) (MO : MachOK cfg.mach) (hheap : cfg.heap = false)
    (hb8 : cfg.mach.heapBase % 8 = 0) (hb0 : 0 < cfg.mach.heapBase)
    (hbytes : 64 * (D + progMaxAlloc p + 2) ≤ cfg.mach.heapBytes)
    (items : List (Code × Nat)) (hitems : (items.map (·.1)).map stripC = routine.map stripC)
    (hfitX : addrAt cfg.mach.codeBase routine routine.length < 2 ^ 64)
    (fuel' : Nat) (hf : fuel' * (progMaxSize p + 1) + stmtSize d0.body + 1 < 2 ^ 64) :
    ((runItems items args fuel' cfg).res = .outOfFuel ∨
      ∃ v out, Pos.run p args (fuel' * (progMaxSize p + 1) + stmtSize d0.body) = ⟨out, .done v⟩ ∧
        (runItems items args fuel' cfg).res = .done v) ∧
    (runItems items args fuel' cfg).maxHeapWritten ≤ 64 * (D + progMaxAlloc p + 2) :=
  ConcK.programs_dsize_all p args hooks body routine nargs d0 ops c' hsafe htp
    ⟨hrange.1, fun d hd => hrange.2 d hd⟩ hcompM hfit hcompX hrout hnd hd hentry hlen hcap hnostuck
    D hD cfg MO hheap hb8 hb0 (progMaxAlloc p) (progMaxSize p) (allocLe_progMaxAlloc p) (stmtSize_le_progMaxSize p)
    hbytes items hitems hfitX fuel' hf

/-- … ON THE TEXT OF THE ROUTINE, side hypotheses discharged -/
theorem C10_x86_size_all (p : AxCut.Prog) (args : List Word) (hooks : Bool) (body routine : List Code)
    (nargs : Nat) (d0 : Def)
    (hsafe : LabelSafe p = true) (htp : LinTypedProg p) (hchk : C06_x86Checks p = true)
    (hcompX : compileX86 p hooks 0 = .ok (body, nargs)) (hrout : intoRoutine body nargs = .ok routine)
    (hd : p.defs.head? = some d0) (hargs : args.length = nargs)
    (hnostuck : ∀ fuel w, (Pos.run p args fuel).res ≠ .stuck w)
    (D : Nat) (hD : ∀ st, Reachable p ⟨d0.ctx, args.map .int, d0.body⟩ st → valsFields st.env ≤ D)
    (cfg : MonCfg) (MO : MachOK cfg.mach) (hheap : cfg.heap = false)
    (hb8 : cfg.mach.heapBase % 8 = 0) (hb0 : 0 < cfg.mach.heapBase)
    (hbytes : 64 * (D + progMaxAlloc p + 2) ≤ cfg.mach.heapBytes)
    (hfitX : addrAt cfg.mach.codeBase routine routine.length < 2 ^ 64)
    (fuel' : Nat) (hf : fuel' * (progMaxSize p + 1) + stmtSize d0.body + 1 < 2 ^ 64) :
    ((run (printProg routine) args fuel' cfg).res = .outOfFuel ∨
      ∃ v out, Pos.run p args (fuel' * (progMaxSize p + 1) + stmtSize d0.body) = ⟨out, .done v⟩ ∧
        (run (printProg routine) args fuel' cfg).res = .done v) ∧
    (run (printProg routine) args fuel' cfg).maxHeapWritten ≤ 64 * (D + progMaxAlloc p + 2) := by
  obtain ⟨ops, c', items, S⟩ := C06_setup_of_checks p args hooks body routine nargs d0 hsafe htp hchk hcompX hrout hd
  rw [run_eq_runItems S.parse]
  exact C10_x86_size_all_items p args hooks body routine nargs d0 ops c' hsafe htp S.range S.compM S.fit hcompX hrout
    S.nd hd S.entry (by rw [← S.nargs, hargs]) S.cap hnostuck D hD cfg MO hheap hb8 hb0 hbytes items S.items hfitX
    fuel' hf

/-! ### non-vacuity: the closure program of Props/C06X86Full.lean in the default configuration (a 32 MiB heap) -/

/-- every hypothesis of `C10_x86_coarse_all` holds for the closure program started with x = 37 (one variable per
closure environment, the trivial peak `1·20 + 1`): the machine on the text of the routine prints 42, returns 42,
and never writes above 64·24 bytes of its heap -/
example : ∃ fuel',
    (run (printProg C06_cloRoutine) [37] fuel' {}).out = [(true, 42)] ∧
    (run (printProg C06_cloRoutine) [37] fuel' {}).res = .done 42 ∧
    (run (printProg C06_cloRoutine) [37] fuel' {}).maxHeapWritten ≤ 64 * (1 * 20 + 1 + 1 + 2) := by
  have hrun : Pos.run C06_cloProg [37] 20 = ⟨[(true, 42)], .done 42⟩ := by decide
  have e1 := C06_cloProg_consts.1
  have key := C10_x86_coarse_all C06_cloProg [37] true C06_cloBody C06_cloRoutine 1 C06_cloMain
    (by decide) (linTypedCheck_sound C06_cloProg rfl) C06_cloProg_checks rfl rfl rfl 20 _ _ (by decide) hrun {}
    machOK_default rfl rfl (by decide) (by decide) (by rw [e1]; decide) C06_cloRoutine_fits
  rw [e1] at key
  exact key

/-- THE CLOSURE PROGRAM IN FIVE BLOCKS: for EVERY fuel below 2^58 the machine on the text of the routine is still
running or has returned 42, and it never writes above 320 bytes of its heap (`D = 2`: at no state do the
variables hold more than two fields of closure data — `g` captures `f`, which captures `x`) -/
theorem C10_cloProg_footprint (fuel' : Nat) (hf : fuel' < 2 ^ 58) :
    ((run (printProg C06_cloRoutine) [37] fuel' {}).res = .outOfFuel ∨
      (run (printProg C06_cloRoutine) [37] fuel' {}).res = .done 42) ∧
    (run (printProg C06_cloRoutine) [37] fuel' {}).maxHeapWritten ≤ 320 := by
  have hrun : Pos.run C06_cloProg [37] 20 = ⟨[(true, 42)], .done 42⟩ := by decide
  obtain ⟨e1, e2, e3⟩ := C06_cloProg_consts
  obtain ⟨hnostuck, huniq⟩ := C10_done_unique hrun
  have key := C10_x86_size_all C06_cloProg [37] true C06_cloBody C06_cloRoutine 1 C06_cloMain
    (by decide) (linTypedCheck_sound C06_cloProg rfl) C06_cloProg_checks rfl rfl rfl rfl hnostuck 2
    (C10_dataSize_of_run C06_cloProg 20 _ 2 (by decide) (by decide))
    {} machOK_default rfl (by decide) (by decide) (by rw [e1]; decide) C06_cloRoutine_fits
    fuel' (by rw [e2, e3]; omega)
  rw [e1] at key
  refine ⟨?_, key.2⟩
  rcases key.1 with h | ⟨v, out, hdone, h⟩
  · exact Or.inl h
  · right
    rw [huniq _ out v hdone] at h
    exact h

/-- THE CLOSURE LOOP RUNS FOREVER IN FOUR BLOCKS: `main(x) { create f = (x){ Ap(a) => main(a) }; lit n <- 5;
invoke f Ap(n) }` (Props/C13X86All.lean), started with x = 5 in the default configuration (a 32 MiB heap): for
EVERY fuel below 2^59 the machine on the TEXT of the routine is still running (`outOfFuel`: it never faults and
never returns) and the highest heap address it has written lies at most 256 bytes above the heap base — the
environment block of the closure is reused in every round: space independent of the number of repetitions. -/
theorem C10_cloLoop_constant_space (fuel' : Nat) (hf : fuel' < 2 ^ 59) :
    (run (printProg C13_cloLoopRoutine) [5] fuel' {}).res = .outOfFuel ∧
    (run (printProg C13_cloLoopRoutine) [5] fuel' {}).maxHeapWritten ≤ 256 := by
  obtain ⟨e1, e2, e3⟩ := C13_cloLoop_consts
  have key := C10_x86_size_all C13_cloLoopProg [5] true C13_cloLoopBody C13_cloLoopRoutine 1 C13_cloLoopMain
    (by decide) (linTypedCheck_sound C13_cloLoopProg rfl) C13_cloLoopProg_checks rfl rfl rfl rfl
    C13_cloLoop_nostuck 1 C13_cloLoop_size
    {} machOK_default rfl (by decide) (by decide) (by rw [e1]; decide) C13_cloLoopRoutine_fits
    fuel' (by rw [e2, e3]; omega)
  rw [e1] at key
  refine ⟨?_, key.2⟩
  rcases key.1 with h | ⟨v, out, hdone, _⟩
  · exact h
  · exfalso
    have hrs : Pos.run C13_cloLoopProg [5] (fuel' * (progMaxSize C13_cloLoopProg + 1) + stmtSize C13_cloLoopMain.body) =
        Pos.runState C13_cloLoopProg _ C13_cloS0 [] := Conc.run_eq_runState rfl rfl _
    have := (C13_cloLoop_runs (fuel' * (progMaxSize C13_cloLoopProg + 1) + stmtSize C13_cloLoopMain.body) []).1
    rw [← hrs, hdone] at this
    cases this

end Scc.X86

#print axioms Scc.X86.C10_peak_trivial_all
#print axioms Scc.X86.C10_x86_frontier_bound_all
#print axioms Scc.X86.C10_x86_every_prefix_all
#print axioms Scc.X86.C10_x86_programs_items
#print axioms Scc.X86.C10_x86_footprint_all_items
#print axioms Scc.X86.C10_x86_programs
#print axioms Scc.X86.C10_x86_footprint_all
#print axioms Scc.X86.C10_x86_coarse_all
#print axioms Scc.X86.C10_x86_size_all_items
#print axioms Scc.X86.C10_x86_size_all
#print axioms Scc.X86.C10_cloProg_footprint
#print axioms Scc.X86.C10_cloLoop_constant_space
