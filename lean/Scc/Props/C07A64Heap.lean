/-
  Scc.Props.C07A64Heap — property C07 (AArch64 code generation preserves AxCut semantics), Theorem B for
  AArch64 WITH THE HEAP (rung 4): allocation (`let`), pattern matching (`switch`) and weakening /
  contraction of object variables (`subst`) on data types.  The AArch64 analogue of Props/C06X86Heap.lean.

  The relation is THREE-WAY at statement boundaries (Scc/A64/RefHeapDefs.lean):
        AxCut positional machine  ⟷  abstract backend machine  ⟷  AArch64 machine
  * left half: Theorem A's `Sim2.RelX` (C06Generic) — reused as it is, statement by statement;
  * right half: `X3 c Γ cfg hs ι σ out` — typed by the context `Γ` (an integer is the same word on both
    machines, the tag of an object is the xtor position `n` on the abstract machine and `jump_length n =
    4·n` on AArch64, a reference is an object id resp. the address `ι id` of the head block); both parts of
    position i in `posTemp (2i)`, `posTemp (2i+1)` (X4…X29 logical / spill slots, capacity 281); the
    abstract heap is represented by the machine memory through the heap refinement `HRef`
    (Props/C09Refine.lean) composed with the memory contracts' `HeapRel` (Scc/A64/MemProofsHeap.lean); SP
    and the callee-save area as in the integer fragment (`CC.Core`);
  * code: the code at the machine's position is the code the generator emits for the current statement in
    the current context from SOME label counter (`XAt`, list positions of the routine; the machine's
    program counter is `pcOf`: the number of items before the position).

  PROVED (no `sorry`, axioms: propext, Classical.choice, Quot.sound):
  * `C07_store_refines`, `C07_load_refines`, `C07_erase_refines`, `C07_share_refines`: the four heap
    operations of the abstract machine against the emitted `Memory::store` / `load` / `erase_block` /
    `share_block_n` (memory contracts ∘ heap refinement); the "no overflow" side conditions of the shared
    branch of `load` and of `share_block_n` are DISCHARGED from the counting invariant.
  * `C07_let_a64`, `C07_switch_a64`, `C07_subst_a64`: three-way simulation of the three statements.  On
    AArch64 there is NO literal-range hypothesis (MOVZ/MOVK materialise every i64; the tag `4·n` needs no
    `fitsI64`), and the jump through the table (`ADR; ADD; BR`) is justified by PROVED layout facts on
    instruction offsets and entries (`C07_holdsA_layout`, `C07_table_layout`); moreover
    `C07_table_layout_statement` PROVES `C14_table_layout_statement`, which Props/C14A64.lean keeps as a
    `def : Prop` (Scc/A64/RefTableLayout.lean: a fold invariant of `layout` on arbitrary parsed lines).
  * `C07_step_a64` (`step3`): Theorem A's `TheoremA_full` with the machine carried along, for every
    statement form of programs without closures (lit, op, print, ifc, exit, call, subst, let, switch).
  * `C07_data_programs` / `C07_data_programs_text`: END TO END for programs with data types (no closures)
    on the program laid out from lines that are the emitted routine, and on `A64.run` of the PRINTED
    TEXT.  The heap frontier is tracked along the run (`FrLe` / `Room`): 64·141 bytes per step suffice.
    The success of the MOCK generator (needed by Theorem A) is PROVED from linear typing
    (`C07_mock_compile_ok`, Scc/A64/RefMockTotal.lean), not assumed.
  KEPT AS `def : Prop`: `C07_data_programs_statement`, the run theorem without the side hypotheses of
  `C07_data_programs` that are not derived from the others (all decidable on the program / the emitted
  routine / the configuration): `CodeFits` of the mock code (`C07_mockFits`), pairwise distinct labels of
  the routine, routine below 2^64, contexts of at most 140 variables (instead of the mock capacity).
-/
import Scc.A64.RefHeapRun
import Scc.A64.RefMockTotal
import Scc.A64.RefTableLayout
import Scc.Props.C07A64Int
import Scc.Props.C14A64

namespace Scc.A64
open Scc.AxCut Scc.AxCut.Pos Scc.Backend Scc.Backend.Abs Scc.Backend.Sim Scc.Backend.Sim2 Scc.A64.Ref
open Scc.Backend.Subst (rp)
open Scc.Heap (HState InvS)
open Scc.Heap.Refine (FrLe Room loadAbs)
open Scc.A64.CC (CfgCC cfgCC_default Holds Lines holds_layout hkOf)
open Scc.A64.Loader (hookVarsOf)

section Heap4

variable {c : MemCfg} (H : CfgCC c) (h8 : c.heapBase % 8 = 0)

include H h8 in
/-- the abstract `store` (at least one field) against the emitted `Memory::store` -/
theorem C07_store_refines
    {Γ : Ctx} {cfg cfg1 : Config} {hs : HState} {ι : Nat → Nat} {σ : State} {out : List (Bool × Word)}
    (X : X3 c Γ cfg hs ι σ out) {n : Nat} (hn : n < Γ.length) {fields : List Abs.Field}
    (hf : readFields cfg.temps (Mock.kindsOf (Γ.drop n)) n = some fields)
    (hch : Obj.children ⟨0, fields⟩ = roots.go cfg.temps (Γ.drop n) n)
    (hnext : cfg.next < 2 ^ 64)
    (hlow : ∀ t, t < 2 * n → cfg1.temps.get t = cfg.temps.get t)
    (hheap : cfg1.heap = (cfg.next, ⟨0, fields⟩) :: cfg.heap) (hnx : cfg1.next = cfg.next + 1)
    (hout : cfg1.out = cfg.out)
    (hroom : Room hs (64 * (Γ.length - n) + 64)) (kk : Nat) :
    ∃ code kk', (store (Γ.drop n) (Γ.take n)).run kk = .ok (code, kk') ∧ kk ≤ kk' ∧ LabsIn code kk kk' ∧
      ∃ σ' hs' p, execFwd c code σ = .ok (σ', .next) ∧
        X3R c (Γ.take n) cfg1 (roots (Γ.take n) cfg.temps ++ [cfg.next]) hs'
          (fun i => if i = cfg.next then p else ι i) σ' out ∧
        σ'.tempVal (posTemp (2 * n)) = some (BitVec.ofNat 64 p) ∧ p ≠ 0 ∧ p < 2 ^ 64 ∧
        FrLe hs hs' (64 * (Γ.length - n)) :=
  store_x3 H h8 X hn hf hch hnext hlow hheap hnx hout hroom kk

include H h8 in
/-- the abstract `load` (at least one field) against the emitted `Memory::load` -/
theorem C07_load_refines
    {Γ' Δ : Ctx} {b : Binding} {cfg cfg4 cfg' : Config} {hs : HState} {ι : Nat → Nat} {σ : State}
    {out : List (Bool × Word)} {r : Word} {o : Obj} {h' : Heap}
    (X : X3 c (Γ' ++ [b]) cfg hs ι σ out) (hb : b.chi ≠ .ext)
    (hr : cfg.temps.get (2 * Γ'.length) = some r) (hr0 : r ≠ 0)
    (hg : cfg.heap.get r.toNat = some o)
    (hk : o.fields.map (·.chi) = Mock.kindsOf Δ) (hne : o.fields ≠ [])
    (hcapΔ : 2 * (Γ'.length + Δ.length) ≤ 280)
    (h4next : cfg4.next = cfg.next) (h4out : cfg4.out = cfg.out)
    (h4temps : ∀ t, t < 2 * (Γ'.length + 1) → cfg4.temps.get t = cfg.temps.get t)
    (hlo : loadAbs cfg.heap r.toNat o = .ok h')
    (hcfg' : cfg' =
      { cfg4 with pc := cfg4.pc + 1, temps := writeFields (clobberTemp cfg4.temps) o.fields Γ'.length, heap := h' })
    (kk : Nat) :
    ∃ code kk', (load Δ Γ').run kk = .ok (code, kk') ∧ kk ≤ kk' ∧ LabsIn code kk kk' ∧
      ∃ σ' hs', execFwd c code σ = .ok (σ', .next) ∧
        X3 c (Γ' ++ Δ) cfg' hs' ι σ' out ∧ FrLe hs hs' 0 :=
  load_x3 H h8 X hb hr hr0 hg hk hne hcapΔ h4next h4out h4temps hlo hcfg' kk

include H h8 in
/-- the abstract `erase` against the emitted `Memory::erase_block` -/
theorem C07_erase_refines {Γ : Ctx} {cfg cfg1 : Config} {rsKeep : List Nat} {hs : HState} {ι : Nat → Nat}
    {σ : State} {out : List (Bool × Word)}
    {i : Nat} (hi : i < Γ.length) (hc : Γ[i].chi ≠ .ext) {p : Word}
    (X : X3R c Γ cfg (rsKeep ++ rp p) hs ι σ out)
    (hp : cfg.temps.get (2 * i) = some p) {h' : Heap} (he : cfg.heap.erase p = .ok h')
    (hcfg1 : cfg1 =
      { cfg with pc := cfg.pc + 1, temps := (clobberTemp cfg.temps).unset (2 * i), heap := h' })
    (kk : Nat) :
    ∃ code, (eraseBlock (posTemp (2 * i))).run kk = .ok (code, kk + 3) ∧
      ∃ σ' hs', execFwd c code σ = .ok (σ', .next) ∧
        X3R c Γ cfg1 rsKeep hs' ι σ' out ∧ FrLe hs hs' 0 :=
  erase_x3 H h8 hi hc X hp he hcfg1 kk

include H h8 in
/-- the abstract `share` against the emitted `Memory::share_block_n`; the "no overflow" side condition of
the contract is discharged from the counting invariant -/
theorem C07_share_refines {Γ : Ctx} {cfg cfg1 : Config} {rs : List Nat} {hs : HState} {ι : Nat → Nat}
    {σ : State} {out : List (Bool × Word)}
    {i : Nat} (hi : i < Γ.length) (hc : Γ[i].chi ≠ .ext) {p : Word}
    (X : X3R c Γ cfg rs hs ι σ out) (hmem : p ≠ 0 → p.toNat ∈ rs) (hrs : rs.length ≤ 2 ^ 40)
    (hp : cfg.temps.get (2 * i) = some p) {k : Nat} (hk : k < 4096) {h' : Heap}
    (he : cfg.heap.share p k = .ok h')
    (hcfg1 : cfg1 = { cfg with pc := cfg.pc + 1, temps := clobberTemp cfg.temps, heap := h' })
    (kk : Nat) :
    ∃ code, (shareBlockN (posTemp (2 * i)) k).run kk = .ok (code, kk + 1) ∧
      ∃ σ' hs', execFwd c code σ = .ok (σ', .next) ∧
        X3R c Γ cfg1 (rs ++ (List.replicate k (rp p)).flatten) hs' ι σ' out ∧ FrLe hs hs' 0 :=
  share_x3 H h8 hi hc X hmem hrs hp hk he hcfg1 kk

variable {hkf : Code → Bool} {Pm : Prog} {cs : List Code}

include H h8 in
/-- THREE-WAY SIMULATION OF `let` on AArch64 -/
theorem C07_let_a64 (Hp : Holds hkf Pm cs) (hnd : (labs cs).Nodup)
    {P : Program} {hooks : Bool} {prog : AxCut.Prog} {Γ : Ctx} {ρ : List Value} {x : Ident}
    {ty : Ty} {tag : Ident} {args : Ctx} {next : Stmt} {fv : FV} {cfg : Config} {pos : Nat}
    (R : RelX P hooks prog ⟨Γ, ρ, .letS x ty tag args next fv⟩ cfg)
    (hk : args.length ≤ Γ.length)
    (hfresh : ∀ b ∈ Γ.take (Γ.length - args.length), b.var.id ≠ x.id)
    (hpos : Pos.tagPosition prog.types ty tag = .ok pos)
    (hcap : 2 * (Γ.length - args.length + 1) + 2 < Mock.T_TEMP)
    (hnext : cfg.next < 2 ^ 64)
    {hs : HState} {ι : Nat → Nat} {σ : State} {out : List (Bool × Word)} {kp : Nat}
    (X : X3 c Γ cfg hs ι σ out)
    {k k' : Nat} {items : List Code}
    (hrun : (codeStatementR a64Backend hooks natRen prog.types (.letS x ty tag args next fv) Γ).run k =
      .ok (items, k'))
    (hat : XAt cs kp items)
    (hroom : Room hs (64 * args.length + 64)) :
    ∃ cfg' σ' hs' ι' kp', stepsTo P 2 cfg cfg' ∧
      MSteps Pm c σ (pcOf hkf cs kp) out σ' (pcOf hkf cs kp') out ∧ FrLe hs hs' (64 * args.length) ∧
      cfg'.out = cfg.out ∧ cfg'.next ≤ cfg.next + 1 ∧
      RelX P hooks prog ⟨Γ.take (Γ.length - args.length) ++ [⟨x, .prd, ty⟩],
        ρ.take (Γ.length - args.length) ++ [.obj pos (ρ.drop (Γ.length - args.length))], next⟩ cfg' ∧
      X3 c (Γ.take (Γ.length - args.length) ++ [⟨x, .prd, ty⟩]) cfg' hs' ι' σ' out ∧
      ∃ k1 k1' items', (codeStatementR a64Backend hooks natRen prog.types next
          (Γ.take (Γ.length - args.length) ++ [⟨x, .prd, ty⟩])).run k1 = .ok (items', k1') ∧
        XAt cs kp' items' :=
  let_x3 H h8 Hp hnd R hk hfresh hpos hcap hnext X hrun hat hroom

include H h8 in
/-- THREE-WAY SIMULATION OF `switch` on AArch64 -/
theorem C07_switch_a64 (HA : HoldsA hkf Pm cs) (hnd : (labs cs).Nodup)
    (hfitX : c.codeBase + 4 * ninstr cs < 2 ^ 64)
    {P : Program} {hooks : Bool} {prog : AxCut.Prog} {Γ' : Ctx} {b : Binding}
    {ρ' : List Value} {pos : Nat} {fields : List Value} {x : Ident} {ty : Ty} {clauses : Clauses}
    {fv : FV} {cfg : Config} {cl : Clause}
    (R : RelX P hooks prog ⟨Γ' ++ [b], ρ' ++ [.obj pos fields], .switch x ty clauses fv⟩ cfg)
    (hfits : Fits P)
    (hb : b.var.id = x.id) (hfresh : ∀ b' ∈ Γ', b'.var.id ≠ x.id)
    (hclause : nthClause clauses pos = some cl)
    (hkinds : fields.map Sim2.kindOf = Mock.kindsOf cl.ctx)
    (hcap : 2 * (Γ'.length + cl.ctx.length) + 2 < Mock.T_TEMP)
    {hs : HState} {ι : Nat → Nat} {σ : State} {out : List (Bool × Word)} {kp : Nat}
    (X : X3 c (Γ' ++ [b]) cfg hs ι σ out)
    {k k' : Nat} {items : List Code}
    (hrun : (codeStatementR a64Backend hooks natRen prog.types (.switch x ty clauses fv) (Γ' ++ [b])).run k =
      .ok (items, k'))
    (hat : XAt cs kp items)
    (hcapX : 2 * (Γ'.length + cl.ctx.length) ≤ 280) :
    ∃ kk cfg' σ' hs' kp', stepsTo P kk cfg cfg' ∧
      MSteps Pm c σ (pcOf hkf cs kp) out σ' (pcOf hkf cs kp') out ∧ FrLe hs hs' 0 ∧
      cfg'.out = cfg.out ∧ cfg'.next = cfg.next ∧
      RelX P hooks prog ⟨Γ' ++ cl.ctx, ρ' ++ fields, cl.body⟩ cfg' ∧
      X3 c (Γ' ++ cl.ctx) cfg' hs' ι σ' out ∧
      ∃ k1 k1' items', (codeStatementR a64Backend hooks natRen prog.types cl.body (Γ' ++ cl.ctx)).run k1 =
          .ok (items', k1') ∧ XAt cs kp' items' :=
  switch_x3 H h8 HA hnd hfitX R hfits hb hfresh hclause hkinds hcap X hrun hat hcapX

include H h8 in
/-- THREE-WAY SIMULATION OF `subst` on AArch64 (arbitrary contexts: erase, share, moves) -/
theorem C07_subst_a64 (Hp : Holds hkf Pm cs) (hnd : (labs cs).Nodup)
    {P : Program} {hooks : Bool} {prog : AxCut.Prog} {Γ : Ctx} {ρ : List Value}
    {pairs : List (Binding × Ident)} {next : Stmt} {cfg : Config} {vs : List Value}
    (R : RelX P hooks prog ⟨Γ, ρ, .subst pairs next⟩ cfg)
    (hΓ : (Γ.map (·.var.id)).Nodup)
    (hnew : (pairs.map (·.1.var.id)).Nodup)
    (hold : ∀ p ∈ pairs, ∃ b ∈ Γ, b.var.id = p.2.id ∧ b.chi = p.1.chi)
    (hcap : 2 * pairs.length + 2 < Mock.T_TEMP)
    (hvs : Pos.step.build Γ ρ pairs = .ok vs)
    {hsX : HState} {ι : Nat → Nat} {σ : State} {out : List (Bool × Word)} {kp : Nat}
    (X : X3 c Γ cfg hsX ι σ out)
    {kx kx' : Nat} {items : List Code}
    (hrunX : (codeStatementR a64Backend hooks natRen prog.types (.subst pairs next) Γ).run kx = .ok (items, kx'))
    (hatX : XAt cs kp items)
    (hcapX : 2 * pairs.length ≤ 280) :
    ∃ k cfg' σ' hs' kp', stepsTo P k cfg cfg' ∧
      MSteps Pm c σ (pcOf hkf cs kp) out σ' (pcOf hkf cs kp') out ∧ FrLe hsX hs' 0 ∧
      cfg'.out = cfg.out ∧ cfg'.next = cfg.next ∧
      RelX P hooks prog ⟨pairs.map (·.1), vs, next⟩ cfg' ∧
      X3 c (pairs.map (·.1)) cfg' hs' ι σ' out ∧
      ∃ k1 k1' items', (codeStatementR a64Backend hooks natRen prog.types next (pairs.map (·.1))).run k1 =
          .ok (items', k1') ∧ XAt cs kp' items' :=
  subst_x3 H h8 Hp hnd R hΓ hnew hold hcap hvs X hrunX hatX hcapX

end Heap4

/-! ## layout facts for the jump table -/

/-- the program laid out from lines that are the routine HOLDS the routine, with the offsets of its
instructions (4 × the number of instructions before) and the entries behind labels and instructions -/
theorem C07_holdsA_layout {hkv : String → Option (List (String × Kind))} {ls : List (Nat × PLine)}
    {cs : List Code} (h : Lines hkv ls cs) : HoldsA (hkOf hkv) (layout ls) cs :=
  holdsA_layout h

/-- a label of the routine followed by `n` instructions is a jump table of the laid-out program
(`TableAt`: the hypothesis of the `ADR; ADD; BR` theorems `step_adr` / `step_br`) -/
theorem C07_table_layout {hk : Code → Bool} {P : Prog} {cs : List Code} (HA : HoldsA hk P cs)
    (hnd : (labs cs).Nodup) (c : MemCfg) {kt n : Nat} {lbl : String} (hn : 0 < n)
    (hlab : cs[kt]? = some (.LAB lbl))
    (htab : ∀ j, j < n → ∃ code, cs[kt + 1 + j]? = some code ∧ code.isMeta = false)
    (hfit : c.codeBase + 4 * ninstr cs < 2 ^ 64) :
    TableAt P c lbl (pcOf hk cs kt) n :=
  tableAt_of_holdsA HA hnd c hn hlab htab hfit

/-- `C14_table_layout_statement` (Props/C14A64.lean keeps it as a `def : Prop`) HOLDS: on arbitrary parsed
lines, a label not defined before followed by `n ≥ 1` instruction lines yields `TableAt` -/
theorem C07_table_layout_statement : C14_table_layout_statement :=
  fun pre post ln l entries c hpre hne hfit => table_layout pre post ln l entries c hpre hne hfit

/-! ## the run theorem for programs with data types -/

open Scc.Props.C06Generic (Reachable WithinCapacity CodeFits EnoughHeap)
open Scc.Props.C14Generic (LabelSafe)

/-- THE THREE-WAY STEP: every step of the positional machine on a statement of a program without closures
from a typed state in the three-way relation is reproduced by the AArch64 machine, and the relation holds
again (`StepSim3`: with output, bound on the object counter and on the heap frontier) -/
theorem C07_step_a64 {c : MemCfg} (H : CfgCC c) (h8 : c.heapBase % 8 = 0) {hkf : Code → Bool} {Pm : Prog}
    {cs pre : List Code} (HA : HoldsA hkf Pm cs) (hnd : (labs cs).Nodup)
    (hfitX : c.codeBase + 4 * ninstr cs < 2 ^ 64) (hcs : cs = pre ++ cleanup)
    (hclean : "cleanup" ∉ labs pre)
    (hooks : Bool) (prog : AxCut.Prog) (kc : Nat) (code : List MockOp) (nargs kc' : Nat)
    (hcomp : (compile mockSym hooks prog).run kc = .ok ((code, nargs), kc'))
    (hsafe : LabelSafe prog = true) (htp : LinTypedProg prog) (hfit : CodeFits code)
    (DX : XDefsAt cs hooks prog) (hprog : ProgOK prog)
    (st : Pos.State) (cfg : Config) (hs : HState) (σ : State) (kp : Nat)
    (R : Rel3 c cs (Program.ofOps code) hooks prog st cfg hs σ kp)
    (T : Pos.StateTyped prog st) (hheap : EnoughHeap cfg) (hok : DataStmt st.stmt)
    (hroom : Room hs (64 * 141)) :
    StepSim3 c hkf Pm cs (Program.ofOps code) hooks prog st cfg hs σ kp :=
  step3 H h8 HA hnd hfitX hcs hclean hooks prog kc code nargs kc' hcomp hsafe htp hfit DX hprog st cfg hs σ kp
    R T hheap hok hroom

/-- programs with data types: no closures -/
def DataProg (p : AxCut.Prog) : Prop := ∀ d ∈ p.defs, DataStmt d.body

/-- the mock generator succeeds on linearly typed programs (no capacity: the mock numbering is unbounded) -/
theorem C07_mock_compile_ok (hooks : Bool) (p : AxCut.Prog) (htp : LinTypedProg p) (hne : p.defs ≠ [])
    (c : Nat) : ∃ ops nargs c', (compile mockSym hooks p).run c = .ok ((ops, nargs), c') :=
  mock_compile_ok hooks p htp hne c

/-- the decidable check "the mock code fits the address space of the abstract machine" -/
def C07_mockFits (p : AxCut.Prog) (hooks : Bool) : Bool :=
  match (compile mockSym hooks p).run 0 with
  | .ok ((ops, _), _) => decide (instrCount ops < 2 ^ 64)
  | .error _ => true

/-- END TO END for programs with data types on the PRINTED TEXT, FULL STRENGTH (the analogue of
`C07_int_programs_text`; `heapBytes`: enough heap for the run).  Proved with further decidable side
hypotheses as `C07_data_programs_text`. -/
def C07_data_programs_statement : Prop :=
  ∀ (p : AxCut.Prog) (args : List Word) (hooks : Bool) (body routine : List Code) (nargs : Nat) (d0 : Def),
    LabelSafe p = true → LinTypedProg p → DataProg p →
    compileProg a64Backend p hooks 0 = .ok (body, nargs, routine) →
    p.defs.head? = some d0 → (∀ b ∈ d0.ctx, b.chi = .ext ∧ b.ty = .i64) →
    (∀ st, Reachable p ⟨d0.ctx, args.map .int, d0.body⟩ st → WithinCapacity st.ctx) →
    C14A_inRangeB p = true → C14A_namesTextSafe p = true →
    ∀ (fuel : Nat) (out : List (Bool × Word)) (v : Word), Pos.run p args fuel = ⟨out, .done v⟩ →
    ∃ heapBytes, ∀ (cfg : MonCfg), CfgCC cfg.mem → cfg.mem.heapBase % 8 = 0 → 0 < cfg.mem.heapBase →
      heapBytes ≤ cfg.mem.heapBytes → cfg.heap = false → cfg.wf = false →
      ∃ fuel', (run (printProg routine) args fuel' cfg).out = out ∧
        (run (printProg routine) args fuel' cfg).res = .done v

/-- THEOREM A ∘ THEOREM B FOR PROGRAMS WITH DATA TYPES (no closures), on the program LAID OUT from any lines
that are the emitted routine: a terminating run of the AxCut positional machine is reproduced — same trace,
same result — by the AArch64 SPEC machine started at `asm_main`.  Side hypotheses (all decidable on the
program, the emitted code or the machine configuration): the mock code fits the address space
(`C07_mockFits`: Theorem A), the labels of the routine are pairwise distinct (`hnd`), the routine ends below
2^64 (`hfitX`), every context of the run has at most 140 variables (utils.rs temporary_from_position), the
heap has 64·141 bytes per step of the run, `0 < heapBase` and `heapBase % 8 = 0`. -/
theorem C07_data_programs (p : AxCut.Prog) (args : List Word) (hooks : Bool) (body routine : List Code)
    (nargs : Nat) (d0 : Def)
    (hsafe : LabelSafe p = true) (htp : LinTypedProg p) (hdata : DataProg p)
    (hfit : C07_mockFits p hooks = true)
    (hcompX : compileProg a64Backend p hooks 0 = .ok (body, nargs, routine))
    (hnd : (labs routine).Nodup)
    (hd : p.defs.head? = some d0) (hentry : ∀ b ∈ d0.ctx, b.chi = .ext ∧ b.ty = .i64)
    (hcap : ∀ st, Reachable p ⟨d0.ctx, args.map .int, d0.body⟩ st → 2 * st.ctx.length ≤ 280)
    (fuel : Nat) (out : List (Bool × Word)) (v : Word)
    (hrun : Pos.run p args fuel = ⟨out, .done v⟩)
    (cfg : MonCfg) (H : CfgCC cfg.mem) (hheap : cfg.heap = false)
    (hb8 : cfg.mem.heapBase % 8 = 0) (hb0 : 0 < cfg.mem.heapBase)
    (hbytes : 128 + 64 * 141 * fuel ≤ cfg.mem.heapBytes)
    (hfitX : cfg.mem.codeBase + 4 * ninstr routine < 2 ^ 64)
    (hkv : String → Option (List (String × Kind))) (ls : List (Nat × PLine)) (hl : Lines hkv ls routine) :
    ∃ fuel', (runProg (layout ls) args fuel' cfg).out = out ∧ (runProg (layout ls) args fuel' cfg).res = .done v := by
  have hne : p.defs ≠ [] := by intro e; rw [e] at hd; simp at hd
  obtain ⟨ops, n, c', hM⟩ := mock_compile_ok hooks p htp hne 0
  obtain ⟨c1, hcompA, _⟩ := compileProg_ok hcompX
  obtain ⟨_, _, _, _, _, _, hn2⟩ := compile_a64_entry hcompA hd
  obtain ⟨_, hn1⟩ := compile_mock_entry hM hd
  have hnn : n = nargs := by rw [hn1, hn2]
  subst hnn
  have hcf : CodeFits ops := by
    unfold C07_mockFits at hfit
    rw [hM] at hfit
    simpa [CodeFits] using hfit
  have hfuel : fuel + 1 < 2 ^ 64 := by
    have h1 := H.ok.disjoint
    have h2 := H.ok.top
    have h3 := H.room
    omega
  exact data_programs_holds p args hooks body routine n d0 ops c' hsafe htp hdata hM hcf hcompX hnd hd hentry
    hcap fuel out v hfuel hrun cfg H hheap hb8 hb0 hbytes (holdsA_layout hl) hfitX

/-- the same on the TEXT: `A64.run` on the printed routine.  The loader round trip is proved
(`C14A_routine_lines`): its hypotheses are the decidable bounds and names checks on the program; the
well-formedness monitor `wf` is off. -/
theorem C07_data_programs_text (p : AxCut.Prog) (args : List Word) (hooks : Bool) (body routine : List Code)
    (nargs : Nat) (d0 : Def)
    (hsafe : LabelSafe p = true) (htp : LinTypedProg p) (hdata : DataProg p)
    (hfit : C07_mockFits p hooks = true)
    (hcompX : compileProg a64Backend p hooks 0 = .ok (body, nargs, routine))
    (hnd : (labs routine).Nodup)
    (hd : p.defs.head? = some d0) (hentry : ∀ b ∈ d0.ctx, b.chi = .ext ∧ b.ty = .i64)
    (hcap : ∀ st, Reachable p ⟨d0.ctx, args.map .int, d0.body⟩ st → 2 * st.ctx.length ≤ 280)
    (fuel : Nat) (out : List (Bool × Word)) (v : Word)
    (hrun : Pos.run p args fuel = ⟨out, .done v⟩)
    (cfg : MonCfg) (H : CfgCC cfg.mem) (hheap : cfg.heap = false) (hwf : cfg.wf = false)
    (hb8 : cfg.mem.heapBase % 8 = 0) (hb0 : 0 < cfg.mem.heapBase)
    (hbytes : 128 + 64 * 141 * fuel ≤ cfg.mem.heapBytes)
    (hfitX : cfg.mem.codeBase + 4 * ninstr routine < 2 ^ 64)
    (hrange : C14A_inRangeB p = true) (hnames : C14A_namesTextSafe p = true) :
    ∃ fuel', (run (printProg routine) args fuel' cfg).out = out ∧
      (run (printProg routine) args fuel' cfg).res = .done v := by
  obtain ⟨ls, hparse, hl⟩ := C14A_routine_lines hrange hnames hcompX
  obtain ⟨fuel', h1, h2⟩ := C07_data_programs p args hooks body routine nargs d0 hsafe htp hdata hfit hcompX hnd
    hd hentry hcap fuel out v hrun cfg H hheap hb8 hb0 hbytes hfitX hookVarsOf ls hl
  refine ⟨fuel', ?_, ?_⟩ <;>
  · unfold run
    simp only [hparse, hwf, Bool.false_eq_true, if_false]
    assumption

/-! ### non-vacuity: objects (let, subst with duplication = share, switch shared and unique) -/

def C07_tBox : Ty := .decl ⟨"Box", 0⟩
def C07_boxDecl : TypeDecl := { name := ⟨"Box", 0⟩, xtors := [⟨⟨"B", 0⟩, [⟨⟨"v", 102⟩, .ext, .i64⟩]⟩] }

/-- main(x) { let b = B(x); subst (b1 := b)(b2 := b); switch b2 { B(y) => subst (y := y)(b1 := b1);
      switch b1 { B(z) => s <- y + z; println s; exit s } } } -/
def C07_boxMain : Def :=
  { name := ⟨"main", 0⟩, ctx := [⟨⟨"x", 1⟩, .ext, .i64⟩],
    body := .letS ⟨"b", 2⟩ C07_tBox ⟨"B", 0⟩ [⟨⟨"x", 1⟩, .ext, .i64⟩]
      (.subst [(⟨⟨"b1", 3⟩, .prd, C07_tBox⟩, ⟨"b", 2⟩), (⟨⟨"b2", 4⟩, .prd, C07_tBox⟩, ⟨"b", 2⟩)]
        (.switch ⟨"b2", 4⟩ C07_tBox
          (.cons ⟨"B", 0⟩ [⟨⟨"y", 5⟩, .ext, .i64⟩]
            (.subst [(⟨⟨"y", 6⟩, .ext, .i64⟩, ⟨"y", 5⟩), (⟨⟨"b1", 7⟩, .prd, C07_tBox⟩, ⟨"b1", 3⟩)]
              (.switch ⟨"b1", 7⟩ C07_tBox
                (.cons ⟨"B", 0⟩ [⟨⟨"z", 8⟩, .ext, .i64⟩]
                  (.op ⟨"s", 9⟩ ⟨"y", 6⟩ .sum ⟨"z", 8⟩
                    (.print true ⟨"s", 9⟩ (.exit ⟨"s", 9⟩) none) none) .nil) none))
            .nil) none)) none }

def C07_boxProg : AxCut.Prog := { defs := [C07_boxMain], types := [C07_boxDecl], maxId := 102 }

def C07_boxRoutine : List Code :=
  match compileProg a64Backend C07_boxProg true 0 with
  | .ok (_, _, r) => r
  | .error _ => []

theorem C07_boxProg_data : DataProg C07_boxProg := by
  intro d hd
  simp only [C07_boxProg, List.mem_singleton] at hd
  subst hd
  simp [C07_boxMain, DataStmt, DataClauses]

/-- 280-capacity of all reachable states, checked on the finitely many states of a terminating run -/
theorem C07_capacity_of_run (prog : AxCut.Prog) (fuel : Nat) (st0 : Pos.State)
    (hstop : Scc.Props.C06Generic.stopsWithin prog fuel st0 = true)
    (hall : (Scc.Props.C06Generic.statesOf prog fuel st0).all (fun st => decide (2 * st.ctx.length ≤ 280)) = true) :
    ∀ st, Reachable prog st0 st → 2 * st.ctx.length ≤ 280 := by
  intro st hr
  have := Scc.Props.C06Generic.reachable_mem_statesOf prog fuel st0 st hstop hr
  rw [List.all_eq_true] at hall
  simpa using hall st this

/-- the box program started with x = 21: every hypothesis of `C07_data_programs_text` holds, so the AArch64
machine on the PRINTED TEXT of the emitted routine prints 42 and returns 42 (the block is allocated by `let`,
shared by `subst`, loaded once shared and once unique — and freed) -/
example : ∃ fuel',
    (run (printProg C07_boxRoutine) [21] fuel' {}).out = [(true, 42)] ∧
    (run (printProg C07_boxRoutine) [21] fuel' {}).res = .done 42 := by
  have hok : ∃ b n, compileProg a64Backend C07_boxProg true 0 = .ok (b, n, C07_boxRoutine) := ⟨_, _, rfl⟩
  obtain ⟨body, nargs, hcomp⟩ := hok
  have hrun : Pos.run C07_boxProg [21] 20 = ⟨[(true, 42)], .done 42⟩ := by decide
  exact C07_data_programs_text C07_boxProg [21] true body C07_boxRoutine nargs C07_boxMain
    (by decide) (linTypedCheck_sound C07_boxProg rfl) C07_boxProg_data (by decide) hcomp (by decide) rfl
    (by decide) (C07_capacity_of_run C07_boxProg 20 _ (by decide) (by decide)) 20 _ _ hrun {}
    cfgCC_default rfl rfl (by decide) (by decide) (by decide) (by decide) (by decide) (by decide)

end Scc.A64

#print axioms Scc.A64.C07_store_refines
#print axioms Scc.A64.C07_load_refines
#print axioms Scc.A64.C07_erase_refines
#print axioms Scc.A64.C07_share_refines
#print axioms Scc.A64.C07_let_a64
#print axioms Scc.A64.C07_switch_a64
#print axioms Scc.A64.C07_subst_a64
#print axioms Scc.A64.C07_holdsA_layout
#print axioms Scc.A64.C07_table_layout
#print axioms Scc.A64.C07_table_layout_statement
#print axioms Scc.A64.C07_step_a64
#print axioms Scc.A64.C07_mock_compile_ok
#print axioms Scc.A64.C07_data_programs
#print axioms Scc.A64.C07_data_programs_text

