/-
  Scc.Props.C07A64 — property C07 (AArch64 code generation preserves AxCut semantics), the part
  "Theorem B for AArch64" of DESIGN.md §5: per-method semantic contracts of the backend crate
  /repo/lang/axcut2aarch64 (model: Scc/A64/Backend.lean) on the machine of Scc/A64/Machine.lean.

  * `C07_statement`  — the full property, kept as a `def : Prop` (NOT proved: it needs the generic
    simulation "Theorem A" and the memory contracts).
  * proved, for ALL operand values / literals / placements (no enumeration):
      `C07_load_immediate_correct`, `C07_op_correct` (5 operators × 8 placements, `rem` through
      SDIV+MSUB and the scratch dance), `C07_compare_correct`, `C07_compare_zero_correct`,
      `C07_branch_correct`, `C07_mov_correct`, `C07_invoke_jump` (`add_and_jump`, stride 4),
      `C07_switch_jump_register`, `C07_switch_jump_spill`.
  * DEFECT found with this machinery and REPAIRED in /repo (commit 8e009b7): `switch` on a variable at
    context position ≥ 13 (tag in a spill slot) with ≥ 2 clauses jumped to `2·tag` because code.rs
    `op` loaded the spilled operand into TEMP, which switch.rs also uses as first operand and target.
    The model follows the repaired code (`op`); `C07_switch_jump_spill` is the positive theorem for
    that placement, and `C07_a64_switch_spill_witness` keeps the witness for the explicit old variant
    `opOld` / `a64BackendOld`.
  No `bv_decide`, no `native_decide` anywhere (the halfword identities behind `load_immediate` are
  proved through `toNat`/`omega` and bit by bit in Scc/A64/Halfword.lean).
-/
import Scc.A64.JumpLemmas
import Scc.AxCut.LinTyping

namespace Scc.A64
open Scc.AxCut

/-! ## The full statement (not proved) -/

/-- "within the documented capacity": the code generator does not panic (`Out of temporaries`,
`too many arguments for main`). -/
def WithinCapacity (p : AxCut.Prog) : Prop := ∃ r, compileProg a64Backend p false 0 = .ok r

/-- C07: for every linearly well-typed AxCut program within capacity and all arguments, if the
AxCut positional machine finishes (or is stuck on an excluded division), then executing the emitted
routine text from `asm_main` with a zero-filled heap makes the same print calls with the same
arguments and returns the same result (given enough fuel and a heap that is large enough). -/
def C07_statement : Prop :=
  ∀ (p : AxCut.Prog) (args : List (BitVec 64)) (body routine : List Code) (nargs : Nat),
    LinTypedProg p → compileProg a64Backend p false 0 = .ok (body, nargs, routine) → args.length ≤ 7 →
    ∀ fuel v, (Pos.run p args fuel) = ⟨(Pos.run p args fuel).out, .done v⟩ →
      ∃ fuel' heapBytes, ∀ cfg : MonCfg, cfg.mem = { defaultMem with heapBytes := heapBytes } →
        let r := run (printProg routine) args fuel' cfg
        r.out = (Pos.run p args fuel).out ∧ (match r.res with | .done w => w = v | _ => False)

/-! ## Proved contracts -/

/-- `load_immediate`: ∀ 64-bit literal, ∀ target placement. -/
theorem C07_load_immediate_correct (c : MemCfg) (room : Nat) (σ : State) (hsp : SpOk c σ.sp room)
    (t : Temporary) (ht : t.isVar) (v : BitVec 64) :
    ∃ σ', execCodes c (a64Backend.loadImmediate t v.toInt) σ = .ok σ' ∧ σ'.tempVal t = some v ∧ Frame σ σ' t :=
  loadImmediate_correct c room σ hsp t ht v

/-- `add/sub/mul/div/rem`: ∀ operand values on which the AxCut operator is defined, ∀ placements. -/
theorem C07_op_correct (c : MemCfg) (room : Nat) (σ : State) (hsp : SpOk c σ.sp room)
    (o : BinOp) (t s1 s2 : Temporary) (ht : t.isVar) (h1 : s1.isVar) (h2 : s2.isVar)
    (a b r : Word) (hv1 : σ.tempVal s1 = some a) (hv2 : σ.tempVal s2 = some b)
    (hev : Pos.evalOp o a b = .ok r) :
    ∃ σ', execCodes c (a64Backend.binop o t s1 s2) σ = .ok σ' ∧ σ'.tempVal t = some r ∧ Frame σ σ' t :=
  op_correct c room σ hsp o t s1 s2 ht h1 h2 a b r hv1 hv2 hev

/-- two-operand comparison: the flags hold the operand values … -/
theorem C07_compare_correct (c : MemCfg) (room : Nat) (σ : State) (hsp : SpOk c σ.sp room)
    (s1 s2 : Temporary) (h1 : s1.isVar) (h2 : s2.isVar) (a b : Word)
    (hv1 : σ.tempVal s1 = some a) (hv2 : σ.tempVal s2 = some b) :
    ∃ σ', execCodes c (compare s1 s2) σ = .ok σ' ∧ σ'.flags = some (a, b) ∧ Frame0 σ σ' :=
  compare_correct c room σ hsp s1 s2 h1 h2 a b hv1 hv2

/-- … comparison with zero … -/
theorem C07_compare_zero_correct (c : MemCfg) (room : Nat) (σ : State) (hsp : SpOk c σ.sp room)
    (s : Temporary) (h : s.isVar) (a : Word) (hv : σ.tempVal s = some a) :
    ∃ σ', execCodes c (compareImmediate s 0) σ = .ok σ' ∧ σ'.flags = some (a, 0) ∧ Frame0 σ σ' :=
  compareImmediate_correct c room σ hsp s h a hv

/-- … and `jump_label_if_*` = that comparison followed by a conditional branch which is taken
exactly when the AxCut comparison (`Pos.evalCmp`) holds. -/
theorem C07_branch_correct (sort : IfSort) (fst snd : Temporary) (l : String) (a b : Word) :
    a64Backend.jumpLabelIf sort fst snd l = compare fst snd ++ [branchOf sort l] ∧
    (∀ t, a64Backend.jumpLabelIfZero sort t l = compareImmediate t 0 ++ [branchOf sort l]) ∧
    ∃ cd, (branchOf sort l).toInstr = some (.bcond cd l) ∧ cd.holds a b = Pos.evalCmp sort a b :=
  ⟨rfl, fun _ => rfl, branchOf_correct sort l a b⟩

/-- `mov` copies the source (defined or not) for all four placements. -/
theorem C07_mov_correct (c : MemCfg) (room : Nat) (σ : State) (hsp : SpOk c σ.sp room)
    (t s : Temporary) (ht : t.isVar) (hs : s.isVar) :
    ∃ σ', execCodes c (a64Backend.mov t s) σ = .ok σ' ∧ σ'.tempVal t = σ.tempVal s ∧ Frame σ σ' t :=
  mov_correct c room σ hsp t s ht hs

/-- `invoke`: `add_and_jump(table, jump_length k)` enters the k-th entry of the table (stride 4). -/
theorem C07_invoke_jump {p : Prog} {c : MemCfg} {l : String} {j n : Nat} (h : TableAt p c l j n)
    (k : Nat) (hk : k < n) (hk12 : k < 1024) (r : Nat) (d : Fin 31) (hr : xreg r = some d)
    (σ : State) (pc : Nat) (hd : σ.reg d = some (labelWord p c j)) :
    ∃ i1 i2 σ1, (a64Backend.addAndJump (.register (.x r)) (a64Backend.jumpLength k)).map Code.toInstr = [some i1, some i2] ∧
      step p c i1 σ pc = .next σ1 (pc + 1) ∧ step p c i2 σ1 (pc + 1) = .next σ1 (j + k) ∧
      σ1 = σ.setReg d (some (labelWord p c j + imm (jumpLength k))) :=
  addAndJump_register h k hk hk12 r d hr σ pc hd

/-- `switch` with the tag in a register enters the clause selected by the tag. -/
theorem C07_switch_jump_register {p : Prog} {c : MemCfg} {l : String} {j n : Nat} (h : TableAt p c l j n)
    (k : Nat) (hk : k < n) (nt : Fin 31) (hnt : nt ≠ xT) (σ : State) (pc : Nat)
    (htag : σ.reg nt = some (imm (jumpLength k))) :
    ∃ σ1 σ2, step p c (.adr (.x xT) l) σ pc = .next σ1 (pc + 1) ∧
      step p c (.add (.x xT) (.x xT) (.x nt)) σ1 (pc + 1) = .next σ2 (pc + 2) ∧
      step p c (.br (.x xT)) σ2 (pc + 2) = .next σ2 (j + k) :=
  switch_jump_register h k hk nt hnt σ pc htag

/-- `switch` with the tag in a SPILL slot (context position ≥ 13) enters the clause selected by the
tag — the placement that was wrong before repo commit 8e009b7. -/
theorem C07_switch_jump_spill {p : Prog} {c : MemCfg} {l : String} {j n : Nat} (h : TableAt p c l j n)
    (k : Nat) (hk : k < n) (room : Nat) (σ : State) (hsp : SpOk c σ.sp room) (pc : Nat)
    (q : Nat) (hq : (Temporary.spill q).isVar) (htag : σ.tempVal (.spill q) = some (imm (jumpLength k))) :
    (a64Backend.loadLabel a64Backend.temp l ++ a64Backend.binop .sum a64Backend.temp a64Backend.temp (.spill q)
        ++ a64Backend.jump a64Backend.temp).map Code.toInstr =
      [some (.adr (.x xT) l), some (.ldr (.x xT2) .sp (stackOffset q)), some (.add (.x xT) (.x xT) (.x xT2)),
       some (.br (.x xT))] ∧
    ∃ σ1 σ2 σ3, step p c (.adr (.x xT) l) σ pc = .next σ1 (pc + 1) ∧
      step p c (.ldr (.x xT2) .sp (stackOffset q)) σ1 (pc + 1) = .next σ2 (pc + 2) ∧
      step p c (.add (.x xT) (.x xT) (.x xT2)) σ2 (pc + 2) = .next σ3 (pc + 3) ∧
      step p c (.br (.x xT)) σ3 (pc + 3) = .next σ3 (j + k) :=
  ⟨rfl, switch_jump_spill h k hk room σ hsp pc q hq htag⟩

/-- DEFECT WITNESS for the code before repo commit 8e009b7 (`a64BackendOld`): what switch.rs emitted
for the tag addition when the tag is in a spill slot (`Backend::add(temp, temp, tag)`): the result in
TEMP is `tag + tag`, independent of the table address `a` that `load_label` put there. -/
theorem C07_a64_switch_spill_witness (c : MemCfg) (room : Nat) (σ : State) (hsp : SpOk c σ.sp room)
    (p : Nat) (hp : (Temporary.spill p).isVar) (a b : Word)
    (ha : σ.reg xT = some a) (hb : σ.tempVal (.spill p) = some b) :
    ∃ σ', execCodes c (a64BackendOld.binop .sum a64BackendOld.temp a64BackendOld.temp (.spill p)) σ = .ok σ' ∧
      σ'.reg xT = some (b + b) :=
  ⟨_, switch_add_spill_witness c room σ hsp p hp a b ha hb, by simp⟩

/-! ## Non-vacuity: the hypotheses are satisfiable (concrete states) -/

/-- a state as compiled code sees it: SP = stackTop − 96 − 2048 -/
def exState : State :=
  { regs := Vector.replicate 31 none, sp := BitVec.ofNat 64 (defaultMem.stackTop - 96 - 2048), flags := none,
    heap := ∅, stack := ∅, maxHeap := 0 }

theorem exState_spOk : SpOk defaultMem exState.sp 96 := by
  constructor <;> decide

/-- `7 % 3 = 1` with target and both operands in spill slots (the scratch dance) -/
example : ∃ σ', execCodes defaultMem (a64Backend.binop .rem (.spill 1) (.spill 2) (.spill 3))
    ((exState.setSlot (exState.slotAddr 2) 7).setSlot (exState.slotAddr 3) 3) = .ok σ' ∧
    σ'.tempVal (.spill 1) = some 1 := by
  have hsp : SpOk defaultMem ((exState.setSlot (exState.slotAddr 2) 7).setSlot (exState.slotAddr 3) 3).sp 96 :=
    exState_spOk
  have hne : exState.slotAddr 3 ≠ exState.slotAddr 2 := by
    intro e; have := (slotAddr_inj exState_spOk (by decide) (by decide)).mp e; omega
  obtain ⟨σ', h1, h2, _⟩ := C07_op_correct defaultMem 96 _ hsp .rem (.spill 1) (.spill 2) (.spill 3)
    (by decide) (by decide) (by decide) 7 3 1
    (by rw [tempVal_spill]; simp [hne]) (by rw [tempVal_spill]; simp) (by rfl)
  exact ⟨σ', h1, h2⟩

/-- literal `0xFFFF_0000_1234_FFFF` into a register -/
example : ∃ σ', execCodes defaultMem (a64Backend.loadImmediate (.register (.x 5)) (0xFFFF00001234FFFF#64).toInt) exState
    = .ok σ' ∧ σ'.tempVal (.register (.x 5)) = some 0xFFFF00001234FFFF#64 := by
  obtain ⟨σ', h1, h2, _⟩ := C07_load_immediate_correct defaultMem 96 exState exState_spOk (.register (.x 5))
    (by decide) 0xFFFF00001234FFFF#64
  exact ⟨σ', h1, h2⟩

/-- the former defect: table address 0x400100 in TEMP, tag 8 in spill slot 1 ⟹ TEMP = 16 -/
example : ∃ σ', execCodes defaultMem (a64BackendOld.binop .sum a64BackendOld.temp a64BackendOld.temp (.spill 1))
    ((exState.setReg xT (some 0x400100)).setSlot (exState.slotAddr 1) 8) = .ok σ' ∧ σ'.reg xT = some 16 := by
  have := C07_a64_switch_spill_witness defaultMem 96 ((exState.setReg xT (some 0x400100)).setSlot (exState.slotAddr 1) 8)
    exState_spOk 1 (by decide) 0x400100 8 (by simp) (by rw [tempVal_spill]; simp)
  simpa using this

#print axioms C07_load_immediate_correct
#print axioms C07_op_correct
#print axioms C07_compare_correct
#print axioms C07_compare_zero_correct
#print axioms C07_branch_correct
#print axioms C07_mov_correct
#print axioms C07_invoke_jump
#print axioms C07_switch_jump_register
#print axioms C07_switch_jump_spill
#print axioms C07_a64_switch_spill_witness

end Scc.A64
