/-
  Scc.Props.C07A64 — property C07 (AArch64 code generation preserves AxCut semantics), the part
  "Theorem B for AArch64" of DESIGN.md §5: per-method semantic contracts of the backend crate
  /repo/lang/axcut2aarch64 (model: Scc/A64/Backend.lean) on the machine of Scc/A64/Machine.lean.

  * `C07_statement`  — the full property, kept as a `def : Prop` (NOT proved: it needs the generic
    simulation "Theorem A" instantiated with the contracts below — arithmetic/moves/jumps and, since
    2026-09-26, the memory contracts — and the refinement abstract object heap ⟷ `Scc.Heap` blocks).
  * proved, for ALL operand values / literals / placements (no enumeration):
      `C07_load_immediate_correct`, `C07_op_correct` (5 operators × 8 placements, `rem` through
      SDIV+MSUB and the scratch dance), `C07_compare_correct`, `C07_compare_zero_correct`,
      `C07_branch_correct`, `C07_mov_correct`, `C07_invoke_jump` (`add_and_jump`, stride 4),
      `C07_switch_jump_register`, `C07_switch_jump_spill`.
  * DEFECT found with this machinery and REPAIRED in /repo (commit 8e009b7): `switch` on a variable at
    context position ≥ 13 (tag in a spill slot) with ≥ 2 clauses jumped to `2·tag` because code.rs
    `op` loaded the spilled operand into TEMP, which switch.rs also uses as first operand and target.
    The model follows the repaired code (`op`); `C07_switch_jump_spill` is the positive theorem for
    that placement, and `C07_a64_switch_spill_witness` keeps the witness for the explicit old variant
    `opOld` / `a64BackendOld`.
  * MEMORY contracts of memory.rs (section "Memory contracts" below; proofs in Scc/A64/MemProofs*.lean),
    stated on the block semantics with forward local labels `execFwd` (MemProofsFwd.lean: `B`/`B.cond`
    as in the machine's `step`) against the heap model Scc/Heap/Model.lean through `HeapRel`, with the
    same abstract vocabulary as Scc/X86 (`HeapRel`, `FrameT`, `LabsIn`): for EVERY placement of the
    pointer / target (register / spill slot): `C07_shareBlockN_contract`, `C07_eraseBlock_contract`,
    `C07_acquireBlock_contract` (linear free list / lazy free list with deferred erasure of the three
    children / bump of the frontier), `C07_store_contract` (ANY number of fields: one block or a chain of
    linked blocks, variables and block temporaries in registers and spill slots, crossing the boundary
    at 13 variables), `C07_load_contract` (unique branch: the blocks of the chain are released and the
    children move; shared branch: decrement and share every pointer child; ANY number of fields, memory
    blocks in registers or spill slots through TEMPORARY_TEMP / SPILL_TEMP).
    `C07_block_bridge` (MemProofsBridge.lean) carries every such contract over to the machine's `runLoop`:
    a block laid out in the program text (`BlockAt`: its instructions at consecutive items, its labels
    resolving into the block) that `execFwd` runs to its end is run by `runLoop` in finitely many steps;
    `C07_layout_blockAt` (MemProofsLayout.lean) derives `BlockAt` from the machine's `layout` of a text
    `pre ++ block ++ post` (no hook comment inside, block labels not defined earlier and pairwise different).
  No `bv_decide`, no `native_decide` anywhere (the halfword identities behind `load_immediate` are
  proved through `toNat`/`omega` and bit by bit in Scc/A64/Halfword.lean).
-/
import Scc.A64.JumpLemmas
import Scc.A64.MemProofsLoadTop
import Scc.A64.MemProofsBridge
import Scc.A64.MemProofsLayout
import Scc.AxCut.LinTyping

namespace Scc.A64
open Scc.AxCut

/-! ## The full statement (not proved) -/

/-- "within the documented capacity": the code generator does not panic (`Out of temporaries`,
`too many arguments for main`). -/
def WithinCapacity (p : AxCut.Prog) : Prop := ∃ r, compileProg a64Backend p false 0 = .ok r

/-- C07: for every linearly well-typed AxCut program within capacity and all arguments, if the
AxCut positional machine finishes (or is stuck on an excluded division), then executing the emitted
routine text from `asm_main` with a zero-filled heap makes the same print calls with the same
arguments and returns the same result (given enough fuel and a heap that is large enough). -/
def C07_statement : Prop :=
  ∀ (p : AxCut.Prog) (args : List (BitVec 64)) (body routine : List Code) (nargs : Nat),
    LinTypedProg p → compileProg a64Backend p false 0 = .ok (body, nargs, routine) → args.length ≤ 7 →
    ∀ fuel v, (Pos.run p args fuel) = ⟨(Pos.run p args fuel).out, .done v⟩ →
      ∃ fuel' heapBytes, ∀ cfg : MonCfg, cfg.mem = { defaultMem with heapBytes := heapBytes } →
        let r := run (printProg routine) args fuel' cfg
        r.out = (Pos.run p args fuel).out ∧ (match r.res with | .done w => w = v | _ => False)

/-! ## Proved contracts -/

/-- `load_immediate`: ∀ 64-bit literal, ∀ target placement. -/
theorem C07_load_immediate_correct (c : MemCfg) (room : Nat) (σ : State) (hsp : SpOk c σ.sp room)
    (t : Temporary) (ht : t.isVar) (v : BitVec 64) :
    ∃ σ', execCodes c (a64Backend.loadImmediate t v.toInt) σ = .ok σ' ∧ σ'.tempVal t = some v ∧ Frame σ σ' t :=
  loadImmediate_correct c room σ hsp t ht v

/-- `add/sub/mul/div/rem`: ∀ operand values on which the AxCut operator is defined, ∀ placements. -/
theorem C07_op_correct (c : MemCfg) (room : Nat) (σ : State) (hsp : SpOk c σ.sp room)
    (o : BinOp) (t s1 s2 : Temporary) (ht : t.isVar) (h1 : s1.isVar) (h2 : s2.isVar)
    (a b r : Word) (hv1 : σ.tempVal s1 = some a) (hv2 : σ.tempVal s2 = some b)
    (hev : Pos.evalOp o a b = .ok r) :
    ∃ σ', execCodes c (a64Backend.binop o t s1 s2) σ = .ok σ' ∧ σ'.tempVal t = some r ∧ Frame σ σ' t :=
  op_correct c room σ hsp o t s1 s2 ht h1 h2 a b r hv1 hv2 hev

/-- two-operand comparison: the flags hold the operand values … -/
theorem C07_compare_correct (c : MemCfg) (room : Nat) (σ : State) (hsp : SpOk c σ.sp room)
    (s1 s2 : Temporary) (h1 : s1.isVar) (h2 : s2.isVar) (a b : Word)
    (hv1 : σ.tempVal s1 = some a) (hv2 : σ.tempVal s2 = some b) :
    ∃ σ', execCodes c (compare s1 s2) σ = .ok σ' ∧ σ'.flags = some (a, b) ∧ Frame0 σ σ' :=
  compare_correct c room σ hsp s1 s2 h1 h2 a b hv1 hv2

/-- … comparison with zero … -/
theorem C07_compare_zero_correct (c : MemCfg) (room : Nat) (σ : State) (hsp : SpOk c σ.sp room)
    (s : Temporary) (h : s.isVar) (a : Word) (hv : σ.tempVal s = some a) :
    ∃ σ', execCodes c (compareImmediate s 0) σ = .ok σ' ∧ σ'.flags = some (a, 0) ∧ Frame0 σ σ' :=
  compareImmediate_correct c room σ hsp s h a hv

/-- … and `jump_label_if_*` = that comparison followed by a conditional branch which is taken
exactly when the AxCut comparison (`Pos.evalCmp`) holds. -/
theorem C07_branch_correct (sort : IfSort) (fst snd : Temporary) (l : String) (a b : Word) :
    a64Backend.jumpLabelIf sort fst snd l = compare fst snd ++ [branchOf sort l] ∧
    (∀ t, a64Backend.jumpLabelIfZero sort t l = compareImmediate t 0 ++ [branchOf sort l]) ∧
    ∃ cd, (branchOf sort l).toInstr = some (.bcond cd l) ∧ cd.holds a b = Pos.evalCmp sort a b :=
  ⟨rfl, fun _ => rfl, branchOf_correct sort l a b⟩

/-- `mov` copies the source (defined or not) for all four placements. -/
theorem C07_mov_correct (c : MemCfg) (room : Nat) (σ : State) (hsp : SpOk c σ.sp room)
    (t s : Temporary) (ht : t.isVar) (hs : s.isVar) :
    ∃ σ', execCodes c (a64Backend.mov t s) σ = .ok σ' ∧ σ'.tempVal t = σ.tempVal s ∧ Frame σ σ' t :=
  mov_correct c room σ hsp t s ht hs

/-- `invoke`: `add_and_jump(table, jump_length k)` enters the k-th entry of the table (stride 4). -/
theorem C07_invoke_jump {p : Prog} {c : MemCfg} {l : String} {j n : Nat} (h : TableAt p c l j n)
    (k : Nat) (hk : k < n) (hk12 : k < 1024) (r : Nat) (d : Fin 31) (hr : xreg r = some d)
    (σ : State) (pc : Nat) (hd : σ.reg d = some (labelWord p c j)) :
    ∃ i1 i2 σ1, (a64Backend.addAndJump (.register (.x r)) (a64Backend.jumpLength k)).map Code.toInstr = [some i1, some i2] ∧
      step p c i1 σ pc = .next σ1 (pc + 1) ∧ step p c i2 σ1 (pc + 1) = .next σ1 (j + k) ∧
      σ1 = σ.setReg d (some (labelWord p c j + imm (jumpLength k))) :=
  addAndJump_register h k hk hk12 r d hr σ pc hd

/-- `switch` with the tag in a register enters the clause selected by the tag. -/
theorem C07_switch_jump_register {p : Prog} {c : MemCfg} {l : String} {j n : Nat} (h : TableAt p c l j n)
    (k : Nat) (hk : k < n) (nt : Fin 31) (hnt : nt ≠ xT) (σ : State) (pc : Nat)
    (htag : σ.reg nt = some (imm (jumpLength k))) :
    ∃ σ1 σ2, step p c (.adr (.x xT) l) σ pc = .next σ1 (pc + 1) ∧
      step p c (.add (.x xT) (.x xT) (.x nt)) σ1 (pc + 1) = .next σ2 (pc + 2) ∧
      step p c (.br (.x xT)) σ2 (pc + 2) = .next σ2 (j + k) :=
  switch_jump_register h k hk nt hnt σ pc htag

/-- `switch` with the tag in a SPILL slot (context position ≥ 13) enters the clause selected by the
tag — the placement that was wrong before repo commit 8e009b7. -/
theorem C07_switch_jump_spill {p : Prog} {c : MemCfg} {l : String} {j n : Nat} (h : TableAt p c l j n)
    (k : Nat) (hk : k < n) (room : Nat) (σ : State) (hsp : SpOk c σ.sp room) (pc : Nat)
    (q : Nat) (hq : (Temporary.spill q).isVar) (htag : σ.tempVal (.spill q) = some (imm (jumpLength k))) :
    (a64Backend.loadLabel a64Backend.temp l ++ a64Backend.binop .sum a64Backend.temp a64Backend.temp (.spill q)
        ++ a64Backend.jump a64Backend.temp).map Code.toInstr =
      [some (.adr (.x xT) l), some (.ldr (.x xT2) .sp (stackOffset q)), some (.add (.x xT) (.x xT) (.x xT2)),
       some (.br (.x xT))] ∧
    ∃ σ1 σ2 σ3, step p c (.adr (.x xT) l) σ pc = .next σ1 (pc + 1) ∧
      step p c (.ldr (.x xT2) .sp (stackOffset q)) σ1 (pc + 1) = .next σ2 (pc + 2) ∧
      step p c (.add (.x xT) (.x xT) (.x xT2)) σ2 (pc + 2) = .next σ3 (pc + 3) ∧
      step p c (.br (.x xT)) σ3 (pc + 3) = .next σ3 (j + k) :=
  ⟨rfl, switch_jump_spill h k hk room σ hsp pc q hq htag⟩

/-- DEFECT WITNESS for the code before repo commit 8e009b7 (`a64BackendOld`): what switch.rs emitted
for the tag addition when the tag is in a spill slot (`Backend::add(temp, temp, tag)`): the result in
TEMP is `tag + tag`, independent of the table address `a` that `load_label` put there. -/
theorem C07_a64_switch_spill_witness (c : MemCfg) (room : Nat) (σ : State) (hsp : SpOk c σ.sp room)
    (p : Nat) (hp : (Temporary.spill p).isVar) (a b : Word)
    (ha : σ.reg xT = some a) (hb : σ.tempVal (.spill p) = some b) :
    ∃ σ', execCodes c (a64BackendOld.binop .sum a64BackendOld.temp a64BackendOld.temp (.spill p)) σ = .ok σ' ∧
      σ'.reg xT = some (b + b) :=
  ⟨_, switch_add_spill_witness c room σ hsp p hp a b ha hb, by simp⟩

/-! ## Non-vacuity: the hypotheses are satisfiable (concrete states) -/

/-- a state as compiled code sees it: SP = stackTop − 96 − 2048 -/
def exState : State :=
  { regs := Vector.replicate 31 none, sp := BitVec.ofNat 64 (defaultMem.stackTop - 96 - 2048), flags := none,
    heap := ∅, stack := ∅, maxHeap := 0 }

theorem exState_spOk : SpOk defaultMem exState.sp 96 := by
  constructor <;> decide

/-- `7 % 3 = 1` with target and both operands in spill slots (the scratch dance) -/
example : ∃ σ', execCodes defaultMem (a64Backend.binop .rem (.spill 1) (.spill 2) (.spill 3))
    ((exState.setSlot (exState.slotAddr 2) 7).setSlot (exState.slotAddr 3) 3) = .ok σ' ∧
    σ'.tempVal (.spill 1) = some 1 := by
  have hsp : SpOk defaultMem ((exState.setSlot (exState.slotAddr 2) 7).setSlot (exState.slotAddr 3) 3).sp 96 :=
    exState_spOk
  have hne : exState.slotAddr 3 ≠ exState.slotAddr 2 := by
    intro e; have := (slotAddr_inj exState_spOk (by decide) (by decide)).mp e; omega
  obtain ⟨σ', h1, h2, _⟩ := C07_op_correct defaultMem 96 _ hsp .rem (.spill 1) (.spill 2) (.spill 3)
    (by decide) (by decide) (by decide) 7 3 1
    (by rw [tempVal_spill]; simp [hne]) (by rw [tempVal_spill]; simp) (by rfl)
  exact ⟨σ', h1, h2⟩

/-- literal `0xFFFF_0000_1234_FFFF` into a register -/
example : ∃ σ', execCodes defaultMem (a64Backend.loadImmediate (.register (.x 5)) (0xFFFF00001234FFFF#64).toInt) exState
    = .ok σ' ∧ σ'.tempVal (.register (.x 5)) = some 0xFFFF00001234FFFF#64 := by
  obtain ⟨σ', h1, h2, _⟩ := C07_load_immediate_correct defaultMem 96 exState exState_spOk (.register (.x 5))
    (by decide) 0xFFFF00001234FFFF#64
  exact ⟨σ', h1, h2⟩

/-- the former defect: table address 0x400100 in TEMP, tag 8 in spill slot 1 ⟹ TEMP = 16 -/
example : ∃ σ', execCodes defaultMem (a64BackendOld.binop .sum a64BackendOld.temp a64BackendOld.temp (.spill 1))
    ((exState.setReg xT (some 0x400100)).setSlot (exState.slotAddr 1) 8) = .ok σ' ∧ σ'.reg xT = some 16 := by
  have := C07_a64_switch_spill_witness defaultMem 96 ((exState.setReg xT (some 0x400100)).setSlot (exState.slotAddr 1) 8)
    exState_spOk 1 (by decide) 0x400100 8 (by simp) (by rw [tempVal_spill]; simp)
  simpa using this

/-! ## Memory contracts (memory.rs) -/

/-- `share_block_n`: whenever the heap model shares the block `p` (`n` more references; null pointer:
nothing), the emitted code — pointer in a register or in a spill slot — runs to its end from every
state that represents the heap (`HeapRel`), and the final state represents the model's result; only
TEMP, TEMP2, the flags and that one heap word change; SP and the stack outside the spill area are
unchanged.  (`hno`: the model's words are unbounded naturals, the incremented count must not wrap.) -/
theorem C07_shareBlockN_contract {c : MemCfg} {room : Nat} {σ : State} (h8 : c.heapBase % 8 = 0)
    (B : SpOk c σ.sp room) {h h' : Scc.Heap.HState} (R : HeapRel c σ h) {t : Temporary} (ht : t.isVar)
    {p : Word} (hv : σ.tempVal t = some p) {n : Nat} (hn : n < 4096)
    (hop : Scc.Heap.shareBlock h p.toNat n = .ok h') (hno : p ≠ 0 → h.mem.get p.toNat + n < 2 ^ 64) (k : Nat) :
    ∃ code, (a64Backend.shareBlockN t n).run k = .ok (code, k + 1) ∧ LabsIn code k (k + 1) ∧
      ∃ σ', execFwd c code σ = .ok (σ', .next) ∧ SpOk c σ'.sp room ∧ HeapRel c σ' h' ∧
        FrameT σ σ' (fun u => u = .register TEMP ∨ u = .register TEMP2) :=
  shareBlockN_contract h8 B R ht hv hn hop hno k

/-- `erase_block`: whenever the heap model erases one reference to `p` (null: nothing; count 0: the
block becomes the head of the lazy free list, FREE := p; otherwise the count is decremented), the
emitted code — pointer in a register or in a spill slot — runs to its end, and the final state
represents the model's result; only TEMP, TEMP2, FREE, the flags and the header word of `p` change. -/
theorem C07_eraseBlock_contract {c : MemCfg} {room : Nat} {σ : State} (h8 : c.heapBase % 8 = 0)
    (B : SpOk c σ.sp room) {h h' : Scc.Heap.HState} (R : HeapRel c σ h) {t : Temporary} (ht : t.isVar)
    {p : Word} (hv : σ.tempVal t = some p) (hop : Scc.Heap.eraseBlock h p.toNat = .ok h') (k : Nat) :
    ∃ code, (a64Backend.eraseBlock t).run k = .ok (code, k + 3) ∧ LabsIn code k (k + 3) ∧
      ∃ σ', execFwd c code σ = .ok (σ', .next) ∧ SpOk c σ'.sp room ∧ HeapRel c σ' h' ∧
        FrameT σ σ' (fun u => u = .register TEMP ∨ u = .register TEMP2 ∨ u = .register FREE) :=
  eraseBlock_contract h8 B R ht hv hop k

/-- `acquire_block`: from every state that represents an abstract heap on which `Scc.Heap.acquire`
succeeds — (1) next block of the linear free list (its header is zeroed), (2) head of the lazy free
list, whose three children are erased now (deferred release), (3) bump of the frontier — the emitted
code (target in a register or in a spill slot) runs to its end; the final state has the same SP,
represents the model's result heap and holds the acquired block in the target.  Only the target,
HEAP, FREE, TEMP, TEMP2, the flags and the heap change. -/
theorem C07_acquireBlock_contract {c : MemCfg} {room : Nat} {σ : State} (h8 : c.heapBase % 8 = 0)
    (B : SpOk c σ.sp room) {h h' : Scc.Heap.HState} (R : HeapRel c σ h) {t : Temporary} (ht : t.isVar)
    {new : Nat} (hop : Scc.Heap.acquire h = .ok (h', new)) (k : Nat) :
    ∃ code, (acquireBlock t).run k = .ok (code, k + 13) ∧ LabsIn code k (k + 13) ∧
      ∃ σ', execFwd c code σ = .ok (σ', .next) ∧ SpOk c σ'.sp room ∧ HeapRel c σ' h' ∧
        (∃ w, σ'.tempVal t = some w ∧ w.toNat = new) ∧
        FrameT σ σ' (fun u => u = t ∨ u = .register HEAP ∨ u = .register FREE ∨ u = .register TEMP ∨
          u = .register TEMP2) :=
  acquireBlock_contract h8 B R ht hop k

/-- `store` (Memory::store), for ANY number of fields and EVERY placement: the variables `toStore`
(context positions `|rem| …`, holding the model fields `fs`: `EnvFields`, `FieldAt`) are stored as one
object — one block for up to `FIELDS_PER_BLOCK` fields, otherwise a chain of linked blocks, each taken
by `acquire_block`, unused fields zeroed — exactly as `Scc.Heap.storeObj` does on the abstract heap.
The code runs to its end; the final state has the same SP, represents the model's result heap, and the
first temporary of position `|rem|` holds the object pointer (0 for an object without fields).
Changed: HEAP, FREE, TEMP, TEMP2, the flags, the heap, and FIRST temporaries of positions `≥ |rem|`
(targets of `acquire_block`); every variable of `rem` and every second temporary is preserved. -/
theorem C07_store_contract {c : MemCfg} {room : Nat} {σ : State} (h8 : c.heapBase % 8 = 0)
    (B : SpOk c σ.sp room) {h h' : Scc.Heap.HState} (R : HeapRel c σ h)
    {toStore rem : Ctx} {fs : List Scc.Heap.Field} (hcap : 2 * (rem.length + toStore.length) ≤ 280)
    (hE : EnvFields (mview σ) rem.length toStore fs) {ptr : Nat}
    (hop : Scc.Heap.storeObj h fs = .ok (h', ptr)) (k : Nat) :
    ∃ code k', (a64Backend.store toStore rem).run k = .ok (code, k') ∧ k ≤ k' ∧ LabsIn code k k' ∧
      ∃ σ', execFwd c code σ = .ok (σ', .next) ∧ SpOk c σ'.sp room ∧ HeapRel c σ' h' ∧
        (∃ w, σ'.tempVal (posTemp (2 * rem.length)) = some w ∧ w.toNat = ptr) ∧
        FrameT σ σ' (fun u => u = .register HEAP ∨ u = .register FREE ∨ u = .register TEMP ∨
          u = .register TEMP2 ∨ ∃ j, u = posTemp (2 * (rem.length + j))) :=
  store_contract h8 B R hcap hE hop k

/-- `load` (Memory::load), for ANY number of fields and EVERY placement: the object whose pointer is in
the first temporary of position `|existing|` is unpacked into the variables `toLoad` (positions
`|existing| …`, kinds `kindOf`) exactly as `Scc.Heap.loadObj` does on the abstract heap — UNIQUE branch
(count 0): every block of the chain is released onto the linear free list (`[b] := HEAP; HEAP := b`)
and the children move into the environment; SHARED branch (count > 0): the count is decremented and
every pointer child gets one more reference (`share_block`).  A memory block whose temporary is a
spill slot is accessed through TEMPORARY_TEMP (X10), which is evacuated to SPILL_TEMP (spill slot 0)
on first use and restored after the last block.  The code runs to its end; the final state has the same
SP, represents the model's result heap, and the variables hold the loaded fields (`EnvFields`).
Changed: HEAP, TEMP, TEMP2, the flags, the heap, SPILL_TEMP, the temporaries of the loaded positions;
preserved: FREE, every variable of `existing` (X10 included), the stack outside the spill area.
`hno` (shared branch only): the incremented counts of the model (unbounded naturals) fit in 64 bits. -/
theorem C07_load_contract {c : MemCfg} {room : Nat} {σ : State} (h8 : c.heapBase % 8 = 0)
    (B : SpOk c σ.sp room) {h h' : Scc.Heap.HState} (R : HeapRel c σ h)
    {toLoad existing : Ctx} (hcap : 2 * (existing.length + toLoad.length) ≤ 280) {pw : Word}
    (hp : σ.tempVal (posTemp (2 * existing.length)) = some pw) {vals : List Scc.Heap.Field}
    (hop : Scc.Heap.loadObj h pw.toNat (toLoad.map kindOf) = .ok (h', vals))
    (hno : h.mem.get pw.toNat ≠ 0 → ∀ a, h'.mem.get a < 2 ^ 64) (k : Nat) :
    ∃ code k', (a64Backend.load toLoad existing).run k = .ok (code, k') ∧ k ≤ k' ∧ LabsIn code k k' ∧
      ∃ σ', execFwd c code σ = .ok (σ', .next) ∧ SpOk c σ'.sp room ∧ HeapRel c σ' h' ∧
        EnvFields (mview σ') existing.length toLoad vals ∧
        FrameT σ σ' (fun u => u = .register HEAP ∨ u = .register TEMP ∨ u = .register TEMP2 ∨
          u = .spill SPILL_TEMP ∨
          ∃ m, 2 * existing.length ≤ m ∧ m < 2 * (existing.length + toLoad.length) ∧ u = posTemp m) :=
  load_contract h8 B R hcap hp hop hno k

/-- THE BRIDGE from the block semantics to the machine: if the laid-out program contains the block at
item `pc0` (`BlockAt`: instructions at consecutive item indices, no hook inside, every label the block
defines resolves to its position in the block — labels are unique in the text, C14) and `execFwd` runs
the block to its end, then `runLoop` does the same in `n` steps (fuel), arriving just behind the
block with the same final state, nothing printed, no monitor run. -/
theorem C07_block_bridge {p : Prog} {cfg : MonCfg} {pc0 : Nat} {codes : List Code} (hb : BlockAt p pc0 codes)
    {σ σ' : State} (hx : execFwd cfg.mem codes σ = .ok (σ', .next))
    (out : List (Bool × Word)) (steps blocks : Nat) :
    ∃ n, ∀ fuel,
      runLoop p cfg (n + fuel) { σ := σ, pc := pc0, out := out, steps := steps, blocks := blocks } =
        runLoop p cfg fuel { σ := σ', pc := pc0 + itemIdx codes codes.length, out := out, steps := steps + n,
                             blocks := blocks } :=
  runLoop_steps (steps_of_execFwd hb hx) out steps blocks

/-- `BlockAt` from the machine's `layout`: the parsed text is `pre ++ blk ++ post`, the lines `blk` are
what the block `codes` parses to (`plineOf`: instructions, labels, plain comments, directives), no label
of the block is defined in `pre`, and the labels of the block are pairwise different (C14). -/
theorem C07_layout_blockAt (pre post blk : List (Nat × PLine)) (codes : List Code)
    (hblk : blk.map (fun x => some x.2) = codes.map plineOf)
    (hfresh : ∀ l, Code.LAB l ∈ codes → ∀ x ∈ pre, x.2 ≠ .label l)
    (hnodup : ∀ (j1 j2 : Nat) (l : String), codes[j1]? = some (Code.LAB l) → codes[j2]? = some (Code.LAB l) → j1 = j2) :
    BlockAt (layout (pre ++ blk ++ post)) (pre.filterMap itemOf).length codes :=
  layout_blockAt pre post blk codes hblk hfresh hnodup

/-! ### non-vacuity of the memory contracts -/

/-- the heap right after `setup`: HEAP = base, FREE = base + 64, all words zero -/
def exHeap : Scc.Heap.HState := Scc.Heap.init defaultMem.heapBase (defaultMem.heapBase + defaultMem.heapBytes)

/-- a machine state representing it, with a pointer to the block at `base + 128` in X5 and in spill
slot 7 -/
def exMemState : State :=
  (((exState.setReg 0 (some (BitVec.ofNat 64 defaultMem.heapBase))).setReg 1
      (some (BitVec.ofNat 64 (defaultMem.heapBase + 64)))).setReg 5
      (some (BitVec.ofNat 64 (defaultMem.heapBase + 128)))).setSlot (exState.slotAddr 7)
      (BitVec.ofNat 64 (defaultMem.heapBase + 128))

theorem exMemState_spOk : SpOk defaultMem exMemState.sp 96 := exState_spOk

theorem exMemState_heapRel : HeapRel defaultMem exMemState exHeap := by
  refine ⟨rfl, rfl, fun a => ?_, ⟨_, rfl, by decide⟩, ⟨_, rfl, by decide⟩⟩
  simp [exHeap, Scc.Heap.init, exMemState, exState, State.setReg, State.setSlot]

example : (Temporary.register (.x 5)).isVar ∧ (Temporary.spill 7).isVar ∧ defaultMem.heapBase % 8 = 0 := by decide

example : exMemState.tempVal (.register (.x 5)) = some (BitVec.ofNat 64 (defaultMem.heapBase + 128)) := rfl

example : exMemState.tempVal (.spill 7) = some (BitVec.ofNat 64 (defaultMem.heapBase + 128)) := by
  rw [tempVal_spill]
  simp [exMemState, State.slotAddr]

/-- the model shares / erases that block on `exHeap` (count 0 ↦ 2, resp. onto the lazy free list) -/
example : ∃ h', Scc.Heap.shareBlock exHeap (BitVec.ofNat 64 (defaultMem.heapBase + 128)).toNat 2 = .ok h' ∧
    exHeap.mem.get (BitVec.ofNat 64 (defaultMem.heapBase + 128)).toNat + 2 < 2 ^ 64 := by
  refine ⟨_, by simp [Scc.Heap.shareBlock, Scc.Heap.rd, Scc.Heap.wr, exHeap, Scc.Heap.init, defaultMem]; rfl, ?_⟩
  simp [exHeap, Scc.Heap.init]

example : ∃ h', Scc.Heap.eraseBlock exHeap (BitVec.ofNat 64 (defaultMem.heapBase + 128)).toNat = .ok h' := by
  refine ⟨_, by simp [Scc.Heap.eraseBlock, Scc.Heap.rd, Scc.Heap.wr, exHeap, Scc.Heap.init, defaultMem]; rfl⟩

/-- … and acquires a block from it (case (3): bump of the frontier) -/
example : ∃ h' new, Scc.Heap.acquire exHeap = .ok (h', new) := by
  refine ⟨_, _, by simp [Scc.Heap.acquire, Scc.Heap.rd, exHeap, Scc.Heap.init, defaultMem, Scc.Heap.blockSize]; exact ⟨rfl, rfl⟩⟩

/-- the integer variable at context position 0 (word part in X5 = `posTemp 1`) holds a model field, and
the model stores it as a one-field object -/
example : EnvFields (mview exMemState) 0 [⟨⟨"a", 1⟩, .ext, .i64⟩] [.int (defaultMem.heapBase + 128)] := by
  refine ⟨?_, trivial⟩
  unfold FieldAt
  rw [if_pos (by rfl)]
  exact ⟨BitVec.ofNat 64 (defaultMem.heapBase + 128), by decide, rfl⟩

example : ∃ r, Scc.Heap.storeObj exHeap [.int (defaultMem.heapBase + 128)] = .ok r := by
  rw [Scc.Heap.storeObj, heap_storeFields_cons _ _ (by simp)]
  simp [Scc.Heap.storeValues, Scc.Heap.storeValuesRev, Scc.Heap.storeValue, Scc.Heap.restLength, Scc.Heap.wr, Scc.Heap.rd,
    Scc.Heap.storeZeros, Scc.Heap.storeZerosFrom, exHeap, Scc.Heap.init, defaultMem, Scc.Heap.fieldsPerBlock,
    Scc.Heap.BlockPosition.toNat, Scc.Heap.sndOff, Scc.Heap.fstOff, Scc.Heap.fieldOffset, Scc.Heap.acquire,
    Scc.Heap.Mem.get_set, heap_storeFields_nil, Scc.Heap.blockSize]

/-- positions 0..25 are registers X4..X29, from position 26 (= variable 13) on spill slots -/
example : posTemp 25 = .register (.x 29) ∧ posTemp 26 = .spill 1 ∧ posTemp 280 = .spill 255 := by decide

/-- a state with the object pointer `base + 128` in X4 = `posTemp 0`, and the model loading one integer
variable from that (all-zero, count 0 ⟹ unique branch) block -/
def exLoadState : State := exMemState.setReg 4 (some (BitVec.ofNat 64 (defaultMem.heapBase + 128)))

example : HeapRel defaultMem exLoadState exHeap := by
  refine ⟨rfl, rfl, fun a => ?_, ⟨_, rfl, by decide⟩, ⟨_, rfl, by decide⟩⟩
  simp [exHeap, Scc.Heap.init, exLoadState, exMemState, exState, State.setReg, State.setSlot]

example : exLoadState.tempVal (posTemp (2 * ([] : Ctx).length)) =
    some (BitVec.ofNat 64 (defaultMem.heapBase + 128)) := rfl

example : ∃ r, Scc.Heap.loadObj exHeap (BitVec.ofNat 64 (defaultMem.heapBase + 128)).toNat
    (([⟨⟨"a", 1⟩, .ext, .i64⟩] : Ctx).map kindOf) = .ok r := by
  have hk : ([⟨⟨"a", 1⟩, .ext, .i64⟩] : Ctx).map kindOf = [false] := rfl
  rw [hk]
  simp only [Scc.Heap.loadObj]
  rw [heap_loadFields_cons _ _ (by simp)]
  have hr : Scc.Heap.restLength [false].length Scc.Heap.posLast = 0 := by decide
  rw [hr]
  simp [Scc.Heap.rd, Scc.Heap.wr, exHeap, Scc.Heap.init, defaultMem, Scc.Heap.fieldsPerBlock,
    Scc.Heap.BlockPosition.toNat, heap_loadFields_nil, relStep, Scc.Heap.releaseBlock, Scc.Heap.loadValues,
    Scc.Heap.loadValuesRev, Scc.Heap.loadValue, Scc.Heap.sndOff, Scc.Heap.fieldOffset, Scc.Heap.blockSize]

/-- the lines of a small block (`CMP X5, 0; BEQ lab1; lab1:`) after the entry label -/
example : BlockAt (layout ([(1, .label "asm_main")] ++
      [(2, .instr (.cmpi (.x 5) 0)), (3, .instr (.bcond .eq "lab1")), (4, .label "lab1")] ++ [(5, .instr .ret)]))
    0 [.CMPI (.x 5) 0, .BEQ "lab1", .LAB "lab1"] := by
  refine C07_layout_blockAt [(1, .label "asm_main")] [(5, .instr .ret)] _ _ rfl ?_ ?_
  · intro l hl x hx
    simp only [List.mem_cons, reduceCtorEq, Code.LAB.injEq, List.not_mem_nil, or_false, false_or] at hl hx
    subst hl hx
    simp
  · intro j1 j2 l h1 h2
    match j1, j2 with
    | 0, _ => simp at h1
    | 1, _ => simp at h1
    | 2, 0 => simp at h2
    | 2, 1 => simp at h2
    | 2, 2 => rfl
    | 2, n + 3 => simp at h2
    | n + 3, _ => simp at h1

#print axioms C07_load_immediate_correct
#print axioms C07_op_correct
#print axioms C07_compare_correct
#print axioms C07_compare_zero_correct
#print axioms C07_branch_correct
#print axioms C07_mov_correct
#print axioms C07_invoke_jump
#print axioms C07_switch_jump_register
#print axioms C07_switch_jump_spill
#print axioms C07_a64_switch_spill_witness
#print axioms C07_shareBlockN_contract
#print axioms C07_eraseBlock_contract
#print axioms C07_acquireBlock_contract
#print axioms C07_store_contract
#print axioms C07_load_contract
#print axioms C07_block_bridge
#print axioms C07_layout_blockAt

end Scc.A64
