/-
  Scc.Props.C14RVFinal — property C14 (the emitted assembly is well-formed) for the RV64 backend: WHOLE PROGRAMS.

  The validator is `Scc.RV.wfCheck` (Scc/RV/Machine.lean): the text parses; (1) no label is defined twice;
  (2) every label referenced by `JAL`/`LA`/`Bcc` is defined; (3) `Code.operandsOk` (12-bit signed immediates of
  `ADDI`/`JALR`/`LW`/`SW`, 64-bit `LI`); (4) `tablesOk` — a label whose address is taken (`LA`) is directly followed
  by the run of `JAL X0 l_…` that lists exactly THE LABELS OF THE TEXT THAT START WITH `l_`, in order.

  PROVED, for every `LabelSafe` program in range (`C14RV_inRangeB`, decidable: literals are i64 values, at most
  512 xtors per type, at most 2048 pairs per substitution — the sharp limits `C14RV_addAndJump_limit`,
  `C14RV_share_limit`) whose called definitions exist (`CallsDefined`; every linearly typed program:
  `C14_callsDefined_of_linTyped`), both hook settings, every start value of the label counter:
    `C14_rv_final_lines`  on EVERY line list that is the routine (`// actual code`, body, `cleanup:`) up to the
                          text of comments and with arbitrary line numbers, tests (1)-(3) pass and
                          `wfLines lines` IS its last test `tablesOk …`:
        (1) `labels_unique_rv` (Scc/RV/RefSideLabels.lean);
        (2) NEW `Refs.refs_defined` (Scc/Backend/ProofsRefs.lean) with the RV64 instance `Wf.refOps_rv`;
        (3) NEW for whole programs: the generic operand lifting `X86.post_compileR` (generic in the backend) with
            the RV64 instance `Wf.opsSat_rv` — this includes `store`/`load`, which Props/C14RV.lean left to tests;
    `C14_rv_final`        on the TEXT of `compileRoutine`, given that the text loads (`C08_TextLoads`):
                          `wfCheck text = tablesOk …` — never a parse error, never a failure of (1)-(3);
    `C14_rv_final_names`  the same WITHOUT a loader hypothesis: with the decidable names check `C14R_namesTextSafe`
                          the text loads (`C14R_routine_loads`, Props/C14LoaderRV.lean).
    (iii) jump tables, in the form that is true: `C14RV_table_code`, `C14RV_table_stride` (Props/C14RV.lean: one
          `JAL X0 <clause label>` per clause in clause order, laid out 4 bytes apart) and, for every backend,
          `C14Generic.codeTable_eq`; the generator places the table directly after the table label
          (Generic.lean `codeStatementR`, `switch`/`create`: `B.label l :: codeTable B clauses l`).

  NOT PROVED, and FALSE AS STATED: `wfCheck text = .ok ()` (`C14RV_statement`).  `wfCheck` is STRONGER than
  the pieces in its test (4): `tablesOk` identifies the clause labels of a table `l` by the PREFIX `l_` among all
  labels of the text.  A type named `T_1` next to a type named `T` defeats that heuristic although the code is
  well-formed: `C14RV_falseAlarm` below is `LabelSafe`, linearly typed, in range, compiles, and
      `#eval wfCheck <its text>`  =  error "line 61: jump table T_1: entries [T_1_A, T_1_B] but clause labels
                                            [T_1_2, T_1_2_C, T_1_A, T_1_B]"
  (`T_1_2` is the table of the second `create`, on the type `T_1`).  This is a false alarm of the VALIDATOR model
  (/verif), not a defect of /repo: labels are unique and all references resolve.  PROVED IN THE KERNEL on the
  lines of the routine: `C14RV_falseAlarm_rejected : wfLines C14RV_falseAlarm_lines ≠ .ok ()` (`String.startsWith`
  does not reduce in the kernel: `C14RV_tableRun'` / `C14RV_tablesBad'` are clones with `List.isPrefixOf`, proved
  equal to the validator's functions), and ON THE TEXT: `C14RV_falseAlarm_text` (through `C14R_routine_loads_exact`),
  hence `C14RV_statement_false : ¬ C14RV_statement (LabelSafe · = true) CallsDefined`.  `C14RV_statement_tables` is the remaining `def : Prop`: `tablesOk` of
  the routine under an additional decidable hypothesis on the names (`C14RV_plainNames`: no `_<digit>` in a
  definition, type or xtor name), which excludes such prefix clashes.

  COMPARISON with `C14RV_statement LabelSafe CallsDefined` (Props/C14RV.lean): same hypotheses `LabelSafe`,
  `CallsDefined`, `XtorsWithin` (= the xtor part of `C14RV_inRangeB`); it lacks (a) literals within i64 and at most
  2048 pairs per substitution (it argues "a context has at most 14 variables" — not derived here; the bound is a
  check), (b) the names check of the loader (`C14R_namesTextSafe`), and (c) it is refuted by (4) above.
-/
import Scc.RV.WfFinal
import Scc.Props.C14RV
import Scc.Props.C08RVInt
import Scc.Props.C14LoaderRV
import Scc.StringLemmasAscii

namespace Scc.RV

open Scc.AxCut Scc.Backend Scc.RV.Wf Scc.RV.Ref
open Scc.Props.C14Generic (LabelSafe CallsDefined)

/-- THE DECIDABLE PER-PROGRAM CHECK of C14 on RV64 (literals i64, ≤ 512 xtors per type, ≤ 2048 pairs per
    substitution) -/
def C14RV_inRangeB (p : AxCut.Prog) : Bool := Wf.inRangeB p

theorem C14RV_xtorsWithin_of_inRange {p : AxCut.Prog} (h : C14RV_inRangeB p = true) : XtorsWithin p :=
  (progInRange_of_check h).1

theorem C14_callsDefined_of_linTyped {p : AxCut.Prog} (htp : LinTypedProg p) : CallsDefined p :=
  Scc.Backend.Refs.callsDefined_of_linTyped htp

/-- C14 (RV64), whole programs, on line lists: what is PROVED -/
def C14_rv_final_lines_statement : Prop :=
  ∀ (p : AxCut.Prog) (hooks : Bool) (k : Nat) (body : List Code) (nargs k' : Nat),
    LabelSafe p = true → CallsDefined p → C14RV_inRangeB p = true →
    (compile rvBackend hooks p).run k = .ok ((body, nargs), k') →
    ∀ lines : List (Nat × Code),
      (lines.map (·.2)).map stripC = ([Code.COMMENT "actual code"] ++ body ++ [Code.LAB "cleanup"]).map stripC →
      (labs (lines.map (·.2))).Nodup ∧
      (∀ c ∈ lines.map (·.2), ∀ l, c.labelRef? = some l → l ∈ labs (lines.map (·.2))) ∧
      (∀ c ∈ lines.map (·.2), c.operandsOk = true) ∧
      wfLines lines = tablesOk (labs (lines.map (·.2))) (takenOf (lines.map (·.2))) lines

/-- **C14 for RV64 on the lines of the routine: labels pairwise distinct, referenced labels defined, operands in
    range; the validator is its jump-table test** -/
theorem C14_rv_final_lines : C14_rv_final_lines_statement := by
  intro p hooks k body nargs k' hsafe hcalls hrange h lines hl
  obtain ⟨h1, h2, h3⟩ := routine_facts hsafe hcalls (progInRange_of_check hrange) h
  obtain ⟨g1, g2, g3⟩ := facts_of_stripC hl h1 h2 h3
  exact ⟨g1, g2, g3, wfLines_eq_tablesOk lines g1 g2 g3⟩

/-- **C14 for RV64 on the text of `compileRoutine`**, given that the text loads: the validator never reports a
    parse error, a duplicate or undefined label, or an operand out of range; it is its jump-table test -/
theorem C14_rv_final {p : AxCut.Prog} {hooks : Bool} {counter nargs : Nat} {text : String}
    (hsafe : LabelSafe p = true) (hcalls : CallsDefined p) (hrange : C14RV_inRangeB p = true)
    (hc : compileRoutine p hooks counter = .ok (nargs, text))
    (hload : ∀ instrs, intoRoutine instrs = text → C08_TextLoads instrs) :
    ∃ lines, parseText text = .ok lines ∧
      wfCheck text = tablesOk (labs (lines.map (·.2))) (takenOf (lines.map (·.2))) lines := by
  unfold compileRoutine at hc
  cases hx : (compile rvBackend hooks p).run counter with
  | error e => rw [hx] at hc; cases hc
  | ok r =>
    obtain ⟨⟨instrs, nargs'⟩, cX⟩ := r
    rw [hx] at hc
    simp only [Except.ok.injEq, Prod.mk.injEq] at hc
    obtain ⟨rfl, rfl⟩ := hc
    obtain ⟨lines, hparse, hlines, _⟩ := hload instrs rfl
    refine ⟨lines, hparse, ?_⟩
    unfold wfCheck
    rw [hparse]
    exact (C14_rv_final_lines p hooks counter instrs nargs' cX hsafe hcalls hrange hx lines hlines).2.2.2

/-- the same for linearly typed programs -/
theorem C14_rv_final_linTyped {p : AxCut.Prog} {hooks : Bool} {counter nargs : Nat} {text : String}
    (hsafe : LabelSafe p = true) (htp : LinTypedProg p) (hrange : C14RV_inRangeB p = true)
    (hc : compileRoutine p hooks counter = .ok (nargs, text))
    (hload : ∀ instrs, intoRoutine instrs = text → C08_TextLoads instrs) :
    ∃ lines, parseText text = .ok lines ∧
      wfCheck text = tablesOk (labs (lines.map (·.2))) (takenOf (lines.map (·.2))) lines :=
  C14_rv_final hsafe (C14_callsDefined_of_linTyped htp) hrange hc hload

/-- no `_` directly followed by a digit -/
def C14RV_noUDigit : List Char → Bool
  | [] => true
  | '_' :: c :: r => !c.isDigit && C14RV_noUDigit (c :: r)
  | _ :: r => C14RV_noUDigit r

/-- a (decidable) hypothesis on the NAMES under which the validator's prefix heuristic is adequate: no definition
    name, mangled type name or xtor name of the program contains `_<digit>` (in particular their ids are 0), and no
    xtor name starts with a digit — then `m_<n>_` is a prefix of a generated label only for the clause labels
    `m_<n>_<xtor>` of the table `m_<n>` -/
def C14RV_plainNames (p : AxCut.Prog) : Bool :=
  p.defs.all (fun d => C14RV_noUDigit d.name.print.toList) &&
  p.types.all (fun d => C14RV_noUDigit (mangleTy (.decl d.name)).toList) &&
  (Scc.Props.C14Generic.progXtorNames p).all
    (fun x => C14RV_noUDigit x.toList && !(x.toList.head?.map Char.isDigit).getD false)

/-- **C14 for RV64 on the text, NO loader hypothesis**: with the names check of the RV64 loader
    (`C14R_namesTextSafe`, Props/C14LoaderRV.lean: `C14R_routine_loads`) the text parses, and the validator is its
    jump-table test -/
theorem C14_rv_final_names {p : AxCut.Prog} {hooks : Bool} {counter nargs : Nat} {text : String}
    (hsafe : LabelSafe p = true) (htp : LinTypedProg p) (hrange : C14RV_inRangeB p = true)
    (hnames : C14R_namesTextSafe p = true)
    (hc : compileRoutine p hooks counter = .ok (nargs, text)) :
    ∃ lines, parseText text = .ok lines ∧
      wfCheck text = tablesOk (labs (lines.map (·.2))) (takenOf (lines.map (·.2))) lines := by
  unfold compileRoutine at hc
  cases hx : (compile rvBackend hooks p).run counter with
  | error e => rw [hx] at hc; cases hc
  | ok r =>
    obtain ⟨⟨instrs, nargs'⟩, cX⟩ := r
    rw [hx] at hc
    simp only [Except.ok.injEq, Prod.mk.injEq] at hc
    obtain ⟨rfl, rfl⟩ := hc
    obtain ⟨lines, hparse, hlines, _⟩ := C14R_routine_loads hnames hx
    refine ⟨lines, hparse, ?_⟩
    unfold wfCheck
    rw [hparse]
    exact (C14_rv_final_lines p hooks counter instrs nargs' cX hsafe (C14_callsDefined_of_linTyped htp) hrange hx
      lines hlines).2.2.2

/-- what remains: the jump-table test of the routine under the names hypothesis.  NOT proved (it needs the facts
    about prefixes of rendered labels that correspond to `render_inj` of Scc/Backend/ProofsNames.lean, and that the
    code following a table label is the table followed by a label). -/
def C14RV_statement_tables : Prop :=
  ∀ (p : AxCut.Prog) (hooks : Bool) (k : Nat) (body : List Code) (nargs k' : Nat),
    LabelSafe p = true → LinTypedProg p → C14RV_inRangeB p = true → C14RV_plainNames p = true →
    (compile rvBackend hooks p).run k = .ok ((body, nargs), k') →
    ∀ lines : List (Nat × Code),
      (lines.map (·.2)).map stripC = ([Code.COMMENT "actual code"] ++ body ++ [Code.LAB "cleanup"]).map stripC →
      tablesOk (labs (lines.map (·.2))) (takenOf (lines.map (·.2))) lines = .ok ()

/-! ## the validator's table test is a heuristic: a false alarm -/

private def xb (n : String) (i : Nat) : Binding := ⟨⟨n, i⟩, .ext, .i64⟩

/-- `main(x) { create f : T = (){ A(a) ⇒ exit a; B(b) ⇒ exit b }; create g : T_1 = (){ C(c) ⇒ exit c };
      subst (y := x); exit y }` with the codata types `T` (two destructors) and `T_1` (one) -/
def C14RV_falseAlarmMain : Def :=
  { name := ⟨"main", 0⟩, ctx := [xb "x" 1],
    body := .create ⟨"f", 2⟩ (.decl ⟨"T", 0⟩) (some [])
      (.cons ⟨"A", 0⟩ [xb "a" 3] (.exit ⟨"a", 3⟩) (.cons ⟨"B", 0⟩ [xb "b" 4] (.exit ⟨"b", 4⟩) .nil))
      (.create ⟨"g", 5⟩ (.decl ⟨"T_1", 0⟩) (some [])
        (.cons ⟨"C", 0⟩ [xb "c" 6] (.exit ⟨"c", 6⟩) .nil)
        (.subst [(xb "y" 7, ⟨"x", 1⟩)] (.exit ⟨"y", 7⟩)) none none) none none }

def C14RV_falseAlarm : AxCut.Prog :=
  { defs := [C14RV_falseAlarmMain],
    types := [{ name := ⟨"T", 0⟩, xtors := [⟨⟨"A", 0⟩, [xb "a" 10]⟩, ⟨⟨"B", 0⟩, [xb "b" 11]⟩] },
              { name := ⟨"T_1", 0⟩, xtors := [⟨⟨"C", 0⟩, [xb "c" 12]⟩] }],
    maxId := 12 }

/-- the hypotheses of `C14_rv_final_linTyped` hold of it, and it compiles; its labels: the table `T_1` of the
    first `create` (type `T`, label number 1) and the table `T_1_2` of the second (type `T_1`, number 2) -/
theorem C14RV_falseAlarm_hyps :
    LabelSafe C14RV_falseAlarm = true ∧ linTypedCheck C14RV_falseAlarm = .ok () ∧
    C14RV_inRangeB C14RV_falseAlarm = true ∧
    (match (compile rvBackend false C14RV_falseAlarm).run 0 with
     | .ok ((body, _), _) => labs body
     | .error _ => []) =
      ["main_", "lab3", "lab4", "lab5", "lab6", "lab7", "lab8", "T_1_2", "T_1_2_C", "T_1", "T_1_A", "T_1_B"] := by
  refine ⟨by decide, rfl, by decide, ?_⟩
  rw [← rvBackendF_eq]
  decide

/-! ### the rejection, in the kernel: clones of `tableRun` / `tablesOk` with `List.isPrefixOf` for `String.startsWith`
    (which does not reduce in the kernel), proved equal to the originals -/

def C14RV_pre (p s : String) : Bool := p.toList.isPrefixOf s.toList

theorem C14RV_startsWith_eq (s p : String) : s.startsWith p = C14RV_pre p s := by
  unfold C14RV_pre
  cases h : s.startsWith p with
  | true => exact ((List.isPrefixOf_iff_prefix.2 ((Scc.Str.startsWith_iff s p).1 h))).symm
  | false =>
    cases h2 : p.toList.isPrefixOf s.toList with
    | false => rfl
    | true =>
      have := (Scc.Str.startsWith_iff s p).2 (List.isPrefixOf_iff_prefix.1 h2)
      rw [h] at this; cases this

def C14RV_tableRun' (l : String) : List (Nat × Code) → List String
  | [] => []
  | (_, c) :: rest =>
    match c with
    | .COMMENT _ => C14RV_tableRun' l rest
    | .JAL ⟨0⟩ t => if C14RV_pre (l ++ "_") t then t :: C14RV_tableRun' l rest else []
    | _ => []

theorem C14RV_tableRun_eq (l : String) : ∀ ls, tableRun l ls = C14RV_tableRun' l ls
  | [] => rfl
  | (n, c) :: rest => by
    cases c with
    | COMMENT m => simp only [tableRun, C14RV_tableRun']; exact C14RV_tableRun_eq l rest
    | JAL x t =>
      obtain ⟨k⟩ := x
      cases k with
      | zero => simp only [tableRun, C14RV_tableRun', C14RV_startsWith_eq, C14RV_tableRun_eq l rest]
      | succ k => simp [tableRun, C14RV_tableRun']
    | _ => simp only [tableRun, C14RV_tableRun']

/-- the test of one table label -/
def C14RV_tableCond' (labels : List String) (l : String) (rest : List (Nat × Code)) : Bool :=
  ((C14RV_tableRun' l rest).isEmpty && decide ((labels.filter (fun x => C14RV_pre (l ++ "_") x)).length ≤ 1)) ||
    C14RV_tableRun' l rest == labels.filter (fun x => C14RV_pre (l ++ "_") x)

/-- does some taken label fail its test? -/
def C14RV_tablesBad' (labels taken : List String) : List (Nat × Code) → Bool
  | [] => false
  | (_, c) :: rest =>
    match c with
    | .LAB l => (taken.contains l && !C14RV_tableCond' labels l rest) || C14RV_tablesBad' labels taken rest
    | _ => C14RV_tablesBad' labels taken rest

theorem C14RV_tablesOk_bad (labels taken : List String) : ∀ ls,
    C14RV_tablesBad' labels taken ls = true → tablesOk labels taken ls ≠ .ok ()
  | [], h => by cases h
  | (n, c) :: rest, h => by
    cases c with
    | LAB l =>
      simp only [C14RV_tablesBad', Bool.or_eq_true, Bool.and_eq_true, Bool.not_eq_true'] at h
      have hf : (labels.filter fun x => x.startsWith (l ++ "_")) = labels.filter (fun x => C14RV_pre (l ++ "_") x) := by
        congr 1; funext x; exact C14RV_startsWith_eq x (l ++ "_")
      simp only [tablesOk]
      by_cases ht : taken.contains l = true
      · rw [if_pos ht, C14RV_tableRun_eq, hf]
        by_cases hcnd : C14RV_tableCond' labels l rest = true
        · rcases h with ⟨_, h⟩ | h
          · rw [hcnd] at h; cases h
          · unfold C14RV_tableCond' at hcnd
            rw [if_pos hcnd]
            exact C14RV_tablesOk_bad labels taken rest h
        · unfold C14RV_tableCond' at hcnd
          rw [if_neg hcnd]
          intro e; cases e
      · rw [if_neg ht]
        rcases h with ⟨h, _⟩ | h
        · exact absurd h ht
        · exact C14RV_tablesOk_bad labels taken rest h
    | _ =>
      simp only [C14RV_tablesBad'] at h
      simp only [tablesOk]
      exact C14RV_tablesOk_bad labels taken rest h

/-- the body emitted for the program (hooks off, counter start 0) -/
def C14RV_falseAlarm_body : List Code :=
  match (compile rvBackendF false C14RV_falseAlarm).run 0 with
  | .ok ((body, _), _) => body
  | .error _ => []

/-- the lines of its routine, numbered from 1 -/
def C14RV_falseAlarm_lines : List (Nat × Code) :=
  (([Code.COMMENT "actual code"] ++ C14RV_falseAlarm_body ++ [Code.LAB "cleanup"]).zipIdx 1).map fun x => (x.2, x.1)

set_option maxRecDepth 100000 in
/-- **THE FALSE ALARM, in the kernel**: the validator rejects the lines of the routine of a `LabelSafe`, linearly
    typed program in range — labels pairwise distinct, references resolved, operands in range (by
    `C14_rv_final_lines`, the rejection can only come from `tablesOk`) -/
theorem C14RV_falseAlarm_rejected : wfLines C14RV_falseAlarm_lines ≠ .ok () := by
  have hc : ∃ nargs k', (compile rvBackend false C14RV_falseAlarm).run 0 = .ok ((C14RV_falseAlarm_body, nargs), k') := by
    rw [← rvBackendF_eq]; exact ⟨_, _, rfl⟩
  obtain ⟨nargs, k', hc⟩ := hc
  have hmap : C14RV_falseAlarm_lines.map (·.2) =
      [Code.COMMENT "actual code"] ++ C14RV_falseAlarm_body ++ [Code.LAB "cleanup"] := by
    unfold C14RV_falseAlarm_lines
    rw [List.map_map]
    exact List.zipIdx_map_fst _ _
  have h := (C14_rv_final_lines C14RV_falseAlarm false 0 C14RV_falseAlarm_body nargs k' (by decide)
    (C14_callsDefined_of_linTyped (linTypedCheck_sound _ rfl)) (by decide) hc C14RV_falseAlarm_lines
    (by rw [hmap])).2.2.2
  rw [h]
  apply C14RV_tablesOk_bad
  rw [hmap]
  decide

set_option maxRecDepth 100000 in
/-- **THE FALSE ALARM ON THE TEXT**: the validator rejects the text that `compileRoutine` emits for it -/
theorem C14RV_falseAlarm_text :
    ∃ nargs text, compileRoutine C14RV_falseAlarm false 0 = .ok (nargs, text) ∧ wfCheck text ≠ .ok () := by
  have hc : ∃ nargs k', (compile rvBackend false C14RV_falseAlarm).run 0 = .ok ((C14RV_falseAlarm_body, nargs), k') := by
    rw [← rvBackendF_eq]; exact ⟨_, _, rfl⟩
  obtain ⟨nargs, k', hc⟩ := hc
  refine ⟨nargs, intoRoutine C14RV_falseAlarm_body, by unfold compileRoutine; rw [hc], ?_⟩
  have hnames : C14R_namesTextSafe C14RV_falseAlarm = true := by decide
  have hparse := C14R_routine_loads_exact hnames hc
  obtain ⟨lines, hp2, hlines, _⟩ := C14R_routine_loads hnames hc
  have hl : lines = Loader.numberOpt 1 (Loader.routineParsed C14RV_falseAlarm_body) := by
    rw [hparse] at hp2; injection hp2 with hp2; exact hp2.symm
  have h := (C14_rv_final_lines C14RV_falseAlarm false 0 C14RV_falseAlarm_body nargs k' (by decide)
    (C14_callsDefined_of_linTyped (linTypedCheck_sound _ rfl)) (by decide) hc lines hlines).2.2.2
  unfold wfCheck
  rw [hp2]
  show wfLines lines ≠ .ok ()
  rw [h]
  apply C14RV_tablesOk_bad
  rw [hl]
  decide

/-- `C14RV_statement` (Props/C14RV.lean) is FALSE: refuted by the validator's own prefix heuristic -/
theorem C14RV_statement_false :
    ¬ C14RV_statement (fun p => LabelSafe p = true) CallsDefined := by
  intro hC
  obtain ⟨nargs, text, h1, h2⟩ := C14RV_falseAlarm_text
  exact h2 (hC C14RV_falseAlarm false 0 nargs text (by decide)
    (C14_callsDefined_of_linTyped (linTypedCheck_sound _ rfl))
    (C14RV_xtorsWithin_of_inRange (by decide)) h1)

/-- what the validator answers on its text (an `#eval`: `String.startsWith` does not reduce in the kernel) -/
def C14RV_falseAlarm_eval : String :=
  match compileRoutine C14RV_falseAlarm false 0 with
  | .ok (_, text) => toString (repr (wfCheck text))
  | .error e => e

-- #eval C14RV_falseAlarm_eval
-- "Except.error \"line 61: jump table T_1: entries [T_1_A, T_1_B] but clause labels [T_1_2, T_1_2_C, T_1_A, T_1_B]\""

/-! ## non-vacuity -/

/-- a program with a two-entry jump table, `invoke`, `subst`, `lit`: the hypotheses of `C14_rv_final_lines` hold -/
example : C14RV_plainNames C14RV_falseAlarm = false := by decide

example : LabelSafe C14RV_falseAlarm = true ∧ CallsDefined C14RV_falseAlarm ∧
    C14RV_inRangeB C14RV_falseAlarm = true ∧
    ∃ body nargs k', (compile rvBackend true C14RV_falseAlarm).run 0 = .ok ((body, nargs), k') := by
  refine ⟨by decide, C14_callsDefined_of_linTyped (linTypedCheck_sound _ rfl), by decide, ?_⟩
  have hok : ∃ r, (compile rvBackend true C14RV_falseAlarm).run 0 = .ok r := by
    rw [← rvBackendF_eq]; exact ⟨_, rfl⟩
  obtain ⟨⟨⟨body, nargs⟩, k'⟩, h⟩ := hok
  exact ⟨body, nargs, k', h⟩

end Scc.RV

#print axioms Scc.RV.C14_rv_final_lines
#print axioms Scc.RV.C14_rv_final
#print axioms Scc.RV.C14_rv_final_linTyped
#print axioms Scc.RV.C14_rv_final_names
#print axioms Scc.RV.C14RV_falseAlarm_hyps
#print axioms Scc.RV.C14RV_falseAlarm_rejected
#print axioms Scc.RV.C14RV_statement_false
