/-
  Scc.Props.C10X86 — property C10 (heap footprint bounded by peak live data) lifted from the heap MODEL
  (Props/C10.lean: `C10_bump_only_when_empty`, `C10_frontier_bound` on histories of heap operations) to
  CONCRETE x86-64 EXECUTIONS of compiled programs with data types, through the three-way simulation of
  Props/C06X86Heap.lean.

  C10 (fixed text): "Generated code takes fresh memory from the unused part of the heap only when both free
  lists are empty, so at every moment the highest heap address ever written lies at most a small constant
  number of blocks above the peak number of simultaneously reachable blocks. A computation that repeatedly
  builds and drops structures therefore runs in space independent of the number of repetitions."

  NOTIONS (Scc/X86/ConcC10.lean), all on the RAW MACHINE STATE:
  * `HeapShapeAt cfg X below inUse` — the heap of `X` is consistent (`InvW`, for some roots; memory = the
    machine's heap words, list heads = HEAP/FREE registers) with `below` blocks below the allocation
    frontier, `inUse` of them neither on the reusable nor on the deferred free list (reachable from the live
    variables or waiting beneath a deferred block — as in Props/C10.lean, counting only the blocks reachable
    from the roots the bound is false).  Both numbers are functions of the state (`InvS.witness_unique`).
  * `PeakAtMost … Pk C` — THE PEAK: at no statement boundary of the machine's run (`BoundaryOf`: related by
    `Rel3` to a state of the positional machine; Props/C09X86.lean) are more than `Pk` blocks in use.  Only
    boundaries with at most `C = A·fuel + 1` blocks below the frontier are constrained (the trivial bound;
    no other boundary occurs, and with it `PeakAtMost C C` holds trivially: `C10_peak_trivial`).
  * `(runItems …).maxHeapWritten` — the machine's own record of the highest heap byte ever stored to.

  PROVED (no `sorry`; axioms propext, Classical.choice, Quot.sound):
  * `C10_x86_frontier_bound`  the lift of `C10_frontier_bound`: under `PeakAtMost Pk`, in a heap of at least
                              `64·(Pk + A + 2)` bytes, the machine passes through a boundary state for every
                              state of the positional run, and at each at most `Pk + 1` blocks lie below the
                              frontier (fresh memory is taken only when both free lists are empty: `FrPk`,
                              from `storeObj_spec`, carried through `store_x3P`/`let_x3P`/`step3P`).
  * `C10_x86_every_prefix`    the same WITHOUT TERMINATION HYPOTHESIS, for every prefix (any number `fuel` of
                              steps of the positional machine) of every run.
  * `C10_x86_data_programs`   `C06_data_programs` WITH THE FOOTPRINT BOUND IN PLACE OF THE COARSE ROOM
                              HYPOTHESIS `128 + 64·134·fuel ≤ heapBytes`: `64·(Pk + A + 2) ≤ heapBytes` and
                              `PeakAtMost Pk` suffice for a run of ANY length (same trace, same result), and
                              the highest heap address written lies inside the heap region.
  * `C10_x86_footprint`       THE FOOTPRINT: in ANY heap of at least `64·(Pk + A + 2)` bytes the run ends with
                              the same trace and result and `maxHeapWritten ≤ 64·(Pk + A + 2)`: the highest
                              heap address written is at most (peak + A + 2) blocks above the heap base,
                              independent of the length of the run and of the size of the heap (the peak
                              hypothesis is stated for the heap cut down to `64·(Pk + A + 2)` bytes;
                              `runItems_larger_heap`: a run that succeeds in a smaller heap is the same run
                              in a larger one).
  * `C10_x86_coarse`          with `Pk = A·fuel + 1` the peak hypothesis is trivial: the theorem subsumes
                              the room hypothesis of `C06_data_programs` (up to the constant).
  * `C10_mhw_in_heap`, `C10_larger_heap`   the two generic machine facts (any program).
  THE CONSTANT `A + 2`, `A = progMaxLet p` the largest number of fields of a `let` of the program: 1 (the
  reusable list always keeps one block) + `A + 1` (the room the memory contract of `Memory::store` asks for
  before a `let` of `A` fields: `frontier + 64·(fields + 1) ≤ limit` — a property of the contract's
  hypothesis, not of the code: `Memory::store` of n fields acquires fewer blocks).
  KEPT AS `def : Prop` — `C10_x86_statement`: constant 2, every compiled program (closures), every run
  (non-terminating included), peak measured at the `#ctx` hooks.
-/
import Scc.X86.ConcC10
import Scc.Props.C06X86Heap

namespace Scc.X86
open Scc.AxCut Scc.AxCut.Pos Scc.Backend Scc.Backend.Abs Scc.X86.Ref Scc.X86.Conc
open Scc.Props.C06Generic (Reachable CodeFits statesOf)
open Scc.Props.C14Generic (LabelSafe)

/-! ## The full statement (not proved) -/

/-- C10 on x86-64: for every compiled program and every run, if at no statement boundary more than `Pk`
blocks are in use, then the highest heap address ever written lies at most `Pk + 2` blocks above the heap
base — whatever the fuel. -/
def C10_x86_statement : Prop :=
  ∀ (p : AxCut.Prog) (args : List Word) (hooks : Bool) (body routine : List Code) (nargs : Nat)
    (ops : List MockOp) (c' : Nat),
    LinTypedProg p → (compile mockSym hooks p).run 0 = .ok ((ops, nargs), c') →
    compileX86 p hooks 0 = .ok (body, nargs) → intoRoutine body nargs = .ok routine → args.length = nargs →
    ∀ (cfg : MonCfg), cfg.heap = false → MachOK cfg.mach →
      ∀ (items : List (Code × Nat)), (items.map (·.1)).map stripC = routine.map stripC →
      ∀ (Pk : Nat), (∀ C, PeakAtMost p hooks routine ops cfg items args Pk C) →
      ∀ fuel', (runItems items args fuel' cfg).maxHeapWritten ≤ 64 * (Pk + 2)

/-! ## Proved -/

/-- the peak hypothesis is trivial for `Pk = C`: the blocks in use lie below the frontier -/
theorem C10_peak_trivial (p : AxCut.Prog) (hooks : Bool) (routine : List Code) (ops : List MockOp)
    (cfg : MonCfg) (items : List (Code × Nat)) (args : List Word) (C : Nat) :
    PeakAtMost p hooks routine ops cfg items args C C :=
  peakAtMost_trivial p hooks routine ops cfg items args C

/-- ANY PROGRAM: the highest heap address the machine has written lies inside the heap region -/
theorem C10_mhw_in_heap {m : MonCfg} {p : Prog} (n : Nat) {s s' : State} (h : stepN m p n s = .inl s')
    (hs : s.maxHeapWritten ≤ m.mach.heapBytes) : s'.maxHeapWritten ≤ m.mach.heapBytes :=
  stepN_mhw n h hs

/-- ANY PROGRAM: a run (heap monitor off) that ends with `done v` in a smaller heap region — same base, same
stack, heap below the stack — is the same run, with the same record, in the larger one -/
theorem C10_larger_heap {m' m : MonCfg} (S : Sub m'.mach m.mach) (h' : m'.heap = false) (hm : m.heap = false)
    (items : List (Code × Nat)) (args : List Word) (f : Nat) (v : Word)
    (h : (runItems items args f m').res = .done v) : runItems items args f m = runItems items args f m' :=
  runItems_larger_heap S h' hm items args f v h

/-- THE FRONTIER BOUND ON THE MACHINE (lift of `C10_frontier_bound`): if at no statement boundary more than
`Pk` blocks are in use, then in a heap of `64·(Pk + A + 2)` bytes the machine passes, in order and without
fault, through a boundary state for EVERY state of the positional run, and at each of them the heap is
consistent with at most `Pk + 1` blocks below the allocation frontier. -/
theorem C10_x86_frontier_bound (p : AxCut.Prog) (args : List Word) (hooks : Bool) (body routine : List Code)
    (nargs : Nat) (d0 : Def) (ops : List MockOp) (c' : Nat)
    (hsafe : LabelSafe p = true) (htp : LinTypedProg p) (hdata : DataProg p) (hrange : ProgInRange p)
    (hcompM : (compile mockSym hooks p).run 0 = .ok ((ops, nargs), c')) (hfit : CodeFits ops)
    (hcompX : compileX86 p hooks 0 = .ok (body, nargs)) (hrout : intoRoutine body nargs = .ok routine)
    (hnd : (labs routine).Nodup)
    (hd : p.defs.head? = some d0) (hentry : ∀ b ∈ d0.ctx, b.chi = .ext ∧ b.ty = .i64)
    (hcap : ∀ st, Reachable p ⟨d0.ctx, args.map .int, d0.body⟩ st → 2 * st.ctx.length ≤ 266)
    (fuel : Nat) (out : List (Bool × Word)) (v : Word) (hfuel : fuel + 1 < 2 ^ 64)
    (hrun : Pos.run p args fuel = ⟨out, .done v⟩)
    (cfg : MonCfg) (MO : MachOK cfg.mach) (hk : cfg.consts = consts)
    (hb8 : cfg.mach.heapBase % 8 = 0) (hb0 : 0 < cfg.mach.heapBase)
    (Pk : Nat) (hbytes : 64 * (Pk + progMaxLet p + 2) ≤ cfg.mach.heapBytes)
    (items : List (Code × Nat)) (hitems : (items.map (·.1)).map stripC = routine.map stripC)
    (hfitX : addrAt cfg.mach.codeBase routine routine.length < 2 ^ 64)
    (hP : PeakAtMost p hooks routine ops cfg items args Pk (progMaxLet p * fuel + 1)) :
    ∃ n0 X0, stepN cfg (mkProg cfg.mach items) n0 (initState cfg.mach args 6) = .inl X0 ∧
      BChain cfg (mkProg cfg.mach items)
        (fun st X => BoundaryOf p hooks routine ops cfg st X ∧
          ∃ below inUse, HeapShapeAt cfg X below inUse ∧ below ≤ Pk + 1 ∧ inUse ≤ Pk)
        (statesOf p fuel ⟨d0.ctx, args.map .int, d0.body⟩) X0 := by
  obtain ⟨_, n0, X0, n, XL, h0, hch, _⟩ := data_programs_peak p args hooks body routine nargs d0 ops c' hsafe htp
    ⟨hrange.1, fun d hd => ⟨hdata d hd, hrange.2 d hd⟩⟩ hcompM hfit hcompX hrout hnd hd hentry hcap fuel out v
    hfuel hrun cfg MO hk hb8 hb0 Pk (progMaxLet p) (letLe_progMaxLet p) hbytes items hitems hfitX hP
  exact ⟨n0, X0, h0, hch⟩

/-- THE FRONTIER BOUND FOR EVERY PREFIX OF EVERY RUN (terminating or not): for ANY number `fuel` of steps of
the positional machine the machine reaches, without fault, a boundary state for every state of the prefix, with
at most `Pk + 1` blocks below the frontier at each -/
theorem C10_x86_every_prefix (p : AxCut.Prog) (args : List Word) (hooks : Bool) (body routine : List Code)
    (nargs : Nat) (d0 : Def) (ops : List MockOp) (c' : Nat)
    (hsafe : LabelSafe p = true) (htp : LinTypedProg p) (hdata : DataProg p) (hrange : ProgInRange p)
    (hcompM : (compile mockSym hooks p).run 0 = .ok ((ops, nargs), c')) (hfit : CodeFits ops)
    (hcompX : compileX86 p hooks 0 = .ok (body, nargs)) (hrout : intoRoutine body nargs = .ok routine)
    (hnd : (labs routine).Nodup)
    (hd : p.defs.head? = some d0) (hentry : ∀ b ∈ d0.ctx, b.chi = .ext ∧ b.ty = .i64)
    (hlen : d0.ctx.length = args.length)
    (hcap : ∀ st, Reachable p ⟨d0.ctx, args.map .int, d0.body⟩ st → 2 * st.ctx.length ≤ 266)
    (fuel : Nat) (hfuel : fuel + 1 < 2 ^ 64)
    (cfg : MonCfg) (MO : MachOK cfg.mach) (hk : cfg.consts = consts)
    (hb8 : cfg.mach.heapBase % 8 = 0) (hb0 : 0 < cfg.mach.heapBase)
    (Pk : Nat) (hbytes : 64 * (Pk + progMaxLet p + 2) ≤ cfg.mach.heapBytes)
    (items : List (Code × Nat)) (hitems : (items.map (·.1)).map stripC = routine.map stripC)
    (hfitX : addrAt cfg.mach.codeBase routine routine.length < 2 ^ 64)
    (hP : PeakAtMost p hooks routine ops cfg items args Pk (progMaxLet p * fuel + 1)) :
    ∃ n0 X0, stepN cfg (mkProg cfg.mach items) n0 (initState cfg.mach args 6) = .inl X0 ∧
      X0.maxHeapWritten ≤ cfg.mach.heapBytes ∧
      BChain cfg (mkProg cfg.mach items)
        (fun st X => BoundaryOf p hooks routine ops cfg st X ∧
          ∃ below inUse, HeapShapeAt cfg X below inUse ∧ below ≤ Pk + 1 ∧ inUse ≤ Pk)
        (statesOf p fuel ⟨d0.ctx, args.map .int, d0.body⟩) X0 := by
  obtain ⟨_, n0, X0, h0, hch⟩ := data_programs_prefix p args hooks body routine nargs d0 ops c' hsafe htp
    ⟨hrange.1, fun d hd => ⟨hdata d hd, hrange.2 d hd⟩⟩ hcompM hfit hcompX hrout hnd hd hentry hlen hcap fuel
    hfuel cfg MO hk hb8 hb0 Pk (progMaxLet p) (letLe_progMaxLet p) hbytes items hitems hfitX hP
  exact ⟨n0, X0, h0, stepN_mhw n0 h0 (mhwOK_init cfg.mach args 6), hch⟩

/-- THEOREM A ∘ THEOREM B FOR PROGRAMS WITH DATA TYPES UNDER THE FOOTPRINT BOUND: `C06_data_programs` with
its room hypothesis `128 + 64·134·fuel ≤ heapBytes` replaced by `64·(Pk + A + 2) ≤ heapBytes` and the peak
hypothesis — a heap that holds the peak is enough for a run of any length; and the machine's record of the
highest heap address written stays inside the heap region. -/
theorem C10_x86_data_programs (p : AxCut.Prog) (args : List Word) (hooks : Bool) (body routine : List Code)
    (nargs : Nat) (d0 : Def) (ops : List MockOp) (c' : Nat)
    (hsafe : LabelSafe p = true) (htp : LinTypedProg p) (hdata : DataProg p) (hrange : ProgInRange p)
    (hcompM : (compile mockSym hooks p).run 0 = .ok ((ops, nargs), c')) (hfit : CodeFits ops)
    (hcompX : compileX86 p hooks 0 = .ok (body, nargs)) (hrout : intoRoutine body nargs = .ok routine)
    (hnd : (labs routine).Nodup)
    (hd : p.defs.head? = some d0) (hentry : ∀ b ∈ d0.ctx, b.chi = .ext ∧ b.ty = .i64)
    (hcap : ∀ st, Reachable p ⟨d0.ctx, args.map .int, d0.body⟩ st → 2 * st.ctx.length ≤ 266)
    (fuel : Nat) (out : List (Bool × Word)) (v : Word) (hfuel : fuel + 1 < 2 ^ 64)
    (hrun : Pos.run p args fuel = ⟨out, .done v⟩)
    (cfg : MonCfg) (MO : MachOK cfg.mach) (hk : cfg.consts = consts) (hheap : cfg.heap = false)
    (hb8 : cfg.mach.heapBase % 8 = 0) (hb0 : 0 < cfg.mach.heapBase)
    (Pk : Nat) (hbytes : 64 * (Pk + progMaxLet p + 2) ≤ cfg.mach.heapBytes)
    (items : List (Code × Nat)) (hitems : (items.map (·.1)).map stripC = routine.map stripC)
    (hfitX : addrAt cfg.mach.codeBase routine routine.length < 2 ^ 64)
    (hP : PeakAtMost p hooks routine ops cfg items args Pk (progMaxLet p * fuel + 1)) :
    ∃ fuel', (runItems items args fuel' cfg).out = out ∧ (runItems items args fuel' cfg).res = .done v ∧
      (runItems items args fuel' cfg).maxHeapWritten ≤ cfg.mach.heapBytes :=
  data_programs_peak_items p args hooks body routine nargs d0 ops c' hsafe htp
    ⟨hrange.1, fun d hd => ⟨hdata d hd, hrange.2 d hd⟩⟩ hcompM hfit hcompX hrout hnd hd hentry hcap fuel out v
    hfuel hrun cfg MO hk hheap hb8 hb0 Pk (progMaxLet p) (letLe_progMaxLet p) hbytes items hitems hfitX hP

/-- C10, THE FOOTPRINT ON THE MACHINE: let at no statement boundary of the run in a heap of `64·(Pk + A + 2)`
bytes more than `Pk` blocks be in use.  Then in ANY heap at least that large the run reproduces the trace and
the result of the positional machine, and the highest heap address ever written lies at most `Pk + A + 2`
blocks above the heap base — independent of the length of the run (`fuel`) and of the size of the heap. -/
theorem C10_x86_footprint (p : AxCut.Prog) (args : List Word) (hooks : Bool) (body routine : List Code)
    (nargs : Nat) (d0 : Def) (ops : List MockOp) (c' : Nat)
    (hsafe : LabelSafe p = true) (htp : LinTypedProg p) (hdata : DataProg p) (hrange : ProgInRange p)
    (hcompM : (compile mockSym hooks p).run 0 = .ok ((ops, nargs), c')) (hfit : CodeFits ops)
    (hcompX : compileX86 p hooks 0 = .ok (body, nargs)) (hrout : intoRoutine body nargs = .ok routine)
    (hnd : (labs routine).Nodup)
    (hd : p.defs.head? = some d0) (hentry : ∀ b ∈ d0.ctx, b.chi = .ext ∧ b.ty = .i64)
    (hcap : ∀ st, Reachable p ⟨d0.ctx, args.map .int, d0.body⟩ st → 2 * st.ctx.length ≤ 266)
    (fuel : Nat) (out : List (Bool × Word)) (v : Word) (hfuel : fuel + 1 < 2 ^ 64)
    (hrun : Pos.run p args fuel = ⟨out, .done v⟩)
    (cfg : MonCfg) (MO : MachOK cfg.mach) (hk : cfg.consts = consts) (hheap : cfg.heap = false)
    (hb8 : cfg.mach.heapBase % 8 = 0) (hb0 : 0 < cfg.mach.heapBase)
    (Pk : Nat) (hbytes : 64 * (Pk + progMaxLet p + 2) ≤ cfg.mach.heapBytes)
    (items : List (Code × Nat)) (hitems : (items.map (·.1)).map stripC = routine.map stripC)
    (hfitX : addrAt cfg.mach.codeBase routine routine.length < 2 ^ 64)
    (hP : PeakAtMost p hooks routine ops (withHeapBytes cfg (64 * (Pk + progMaxLet p + 2))) items args Pk (progMaxLet p * fuel + 1)) :
    ∃ fuel', (runItems items args fuel' cfg).out = out ∧ (runItems items args fuel' cfg).res = .done v ∧
      (runItems items args fuel' cfg).maxHeapWritten ≤ 64 * (Pk + progMaxLet p + 2) := by
  obtain ⟨fuel', h1, h2, h3⟩ := C10_x86_data_programs p args hooks body routine nargs d0 ops c' hsafe htp hdata
    hrange hcompM hfit hcompX hrout hnd hd hentry hcap fuel out v hfuel hrun
    (withHeapBytes cfg (64 * (Pk + progMaxLet p + 2))) (machOK_withHeapBytes MO hbytes) hk hheap hb8 hb0 Pk (Nat.le_refl _)
    items hitems hfitX hP
  have e := runItems_larger_heap (sub_withHeapBytes MO hbytes) hheap hheap items args fuel' v h2
  exact ⟨fuel', by rw [e]; exact h1, by rw [e]; exact h2, by rw [e]; exact h3⟩

/-- with `Pk = A·fuel + 1` the peak hypothesis is trivial: the coarse room hypothesis of
`C06_data_programs`, as a corollary of the footprint theorem -/
theorem C10_x86_coarse (p : AxCut.Prog) (args : List Word) (hooks : Bool) (body routine : List Code)
    (nargs : Nat) (d0 : Def) (ops : List MockOp) (c' : Nat)
    (hsafe : LabelSafe p = true) (htp : LinTypedProg p) (hdata : DataProg p) (hrange : ProgInRange p)
    (hcompM : (compile mockSym hooks p).run 0 = .ok ((ops, nargs), c')) (hfit : CodeFits ops)
    (hcompX : compileX86 p hooks 0 = .ok (body, nargs)) (hrout : intoRoutine body nargs = .ok routine)
    (hnd : (labs routine).Nodup)
    (hd : p.defs.head? = some d0) (hentry : ∀ b ∈ d0.ctx, b.chi = .ext ∧ b.ty = .i64)
    (hcap : ∀ st, Reachable p ⟨d0.ctx, args.map .int, d0.body⟩ st → 2 * st.ctx.length ≤ 266)
    (fuel : Nat) (out : List (Bool × Word)) (v : Word) (hfuel : fuel + 1 < 2 ^ 64)
    (hrun : Pos.run p args fuel = ⟨out, .done v⟩)
    (cfg : MonCfg) (MO : MachOK cfg.mach) (hk : cfg.consts = consts) (hheap : cfg.heap = false)
    (hb8 : cfg.mach.heapBase % 8 = 0) (hb0 : 0 < cfg.mach.heapBase)
    (hbytes : 64 * (progMaxLet p * fuel + 1 + progMaxLet p + 2) ≤ cfg.mach.heapBytes)
    (items : List (Code × Nat)) (hitems : (items.map (·.1)).map stripC = routine.map stripC)
    (hfitX : addrAt cfg.mach.codeBase routine routine.length < 2 ^ 64) :
    ∃ fuel', (runItems items args fuel' cfg).out = out ∧ (runItems items args fuel' cfg).res = .done v ∧
      (runItems items args fuel' cfg).maxHeapWritten ≤ 64 * (progMaxLet p * fuel + 1 + progMaxLet p + 2) :=
  C10_x86_footprint p args hooks body routine nargs d0 ops c' hsafe htp hdata hrange hcompM hfit hcompX hrout hnd
    hd hentry hcap fuel out v hfuel hrun cfg MO hk hheap hb8 hb0 (progMaxLet p * fuel + 1) hbytes items hitems hfitX
    (C10_peak_trivial _ _ _ _ _ _ _ _)

/-! ### non-vacuity: the box program of C06X86Heap in the default configuration (a 32 MiB heap) -/

theorem C10_boxProg_maxLet : progMaxLet C06_boxProg = 1 := by decide

/-- every hypothesis of `C10_x86_footprint` holds for the box program started with x = 21 (one field per
`let`, with the trivial peak `1·20 + 1`): the machine prints 42, returns 42, and never writes above 64·24
bytes of its heap -/
example : ∃ fuel',
    (runItems (C06_boxRoutine.map fun c => (c, 0)) [21] fuel' {}).out = [(true, 42)] ∧
    (runItems (C06_boxRoutine.map fun c => (c, 0)) [21] fuel' {}).res = .done 42 ∧
    (runItems (C06_boxRoutine.map fun c => (c, 0)) [21] fuel' {}).maxHeapWritten ≤ 64 * (1 * 20 + 1 + 1 + 2) := by
  have hcompM : ∃ k, (compile mockSym true C06_boxProg).run 0 = .ok ((C06_boxOps, 1), k) := ⟨_, rfl⟩
  obtain ⟨c', hcompM⟩ := hcompM
  have hcompX : compileX86 C06_boxProg true 0 = .ok (C06_boxBody, 1) := rfl
  have hrout : intoRoutine C06_boxBody 1 = .ok C06_boxRoutine := rfl
  have hrun : Pos.run C06_boxProg [21] 20 = ⟨[(true, 42)], .done 42⟩ := by decide
  exact C10_x86_footprint C06_boxProg [21] true C06_boxBody C06_boxRoutine 1 C06_boxMain C06_boxOps c'
    (by decide) (linTypedCheck_sound C06_boxProg rfl) C06_boxProg_data C06_boxProg_inRange hcompM (by decide)
    hcompX hrout (by decide) rfl (by decide)
    (C06_capacity_of_run C06_boxProg 20 _ (by decide) (by decide)) 20 _ _ (by decide) hrun {}
    machOK_default rfl rfl (by decide) (by decide) (1 * 20 + 1) (by decide)
    (C06_boxRoutine.map fun c => (c, 0)) (by simp [List.map_map, Function.comp]) C06_boxRoutine_fits
    (C10_peak_trivial _ _ _ _ _ _ _ _)

end Scc.X86

#print axioms Scc.X86.C10_peak_trivial
#print axioms Scc.X86.C10_mhw_in_heap
#print axioms Scc.X86.C10_larger_heap
#print axioms Scc.X86.C10_x86_frontier_bound
#print axioms Scc.X86.C10_x86_every_prefix
#print axioms Scc.X86.C10_x86_data_programs
#print axioms Scc.X86.C10_x86_footprint
#print axioms Scc.X86.C10_x86_coarse
