/-
  Scc.Props.C10X86 — property C10 (heap footprint bounded by peak live data) lifted from the heap MODEL
  (Props/C10.lean: `C10_bump_only_when_empty`, `C10_frontier_bound` on histories of heap operations) to
  CONCRETE x86-64 EXECUTIONS of compiled programs with data types, through the three-way simulation of
  Props/C06X86Heap.lean.

  C10 (fixed text): "Generated code takes fresh memory from the unused part of the heap only when both free
  lists are empty, so at every moment the highest heap address ever written lies at most a small constant
  number of blocks above the peak number of simultaneously reachable blocks. A computation that repeatedly
  builds and drops structures therefore runs in space independent of the number of repetitions."

  NOTIONS (Scc/X86/ConcC10.lean), all on the RAW MACHINE STATE:
  * `HeapShapeAt cfg X below inUse` — the heap of `X` is consistent (`InvW`, for some roots; memory = the
    machine's heap words, list heads = HEAP/FREE registers) with `below` blocks below the allocation
    frontier, `inUse` of them neither on the reusable nor on the deferred free list (reachable from the live
    variables or waiting beneath a deferred block — as in Props/C10.lean, counting only the blocks reachable
    from the roots the bound is false).  Both numbers are functions of the state (`InvS.witness_unique`).
  * `PeakAtMost … Pk C` — THE PEAK: at no statement boundary of the machine's run (`BoundaryOf`: related by
    `Rel3` to a state of the positional machine; Props/C09X86.lean) are more than `Pk` blocks in use.  Only
    boundaries with at most `C = A·fuel + 1` blocks below the frontier are constrained (the trivial bound;
    no other boundary occurs, and with it `PeakAtMost C C` holds trivially: `C10_peak_trivial`).
  * `(runItems …).maxHeapWritten` — the machine's own record of the highest heap byte ever stored to.

  PROVED (no `sorry`; axioms propext, Classical.choice, Quot.sound):
  * `C10_x86_frontier_bound`  the lift of `C10_frontier_bound`: under `PeakAtMost Pk`, in a heap of at least
                              `64·(Pk + A + 2)` bytes, the machine passes through a boundary state for every
                              state of the positional run, and at each at most `Pk + 1` blocks lie below the
                              frontier (fresh memory is taken only when both free lists are empty: `FrPk`,
                              from `storeObj_spec`, carried through `store_x3P`/`let_x3P`/`step3P`).
  * `C10_x86_every_prefix`    the same WITHOUT TERMINATION HYPOTHESIS, for every prefix (any number `fuel` of
                              steps of the positional machine) of every run.
  * `C10_x86_data_programs`   `C06_data_programs` WITH THE FOOTPRINT BOUND IN PLACE OF THE COARSE ROOM
                              HYPOTHESIS `128 + 64·134·fuel ≤ heapBytes`: `64·(Pk + A + 2) ≤ heapBytes` and
                              `PeakAtMost Pk` suffice for a run of ANY length (same trace, same result), and
                              the highest heap address written lies inside the heap region.
  * `C10_x86_footprint`       THE FOOTPRINT: in ANY heap of at least `64·(Pk + A + 2)` bytes the run ends with
                              the same trace and result and `maxHeapWritten ≤ 64·(Pk + A + 2)`: the highest
                              heap address written is at most (peak + A + 2) blocks above the heap base,
                              independent of the length of the run and of the size of the heap (the peak
                              hypothesis is stated for the heap cut down to `64·(Pk + A + 2)` bytes;
                              `runItems_larger_heap`: a run that succeeds in a smaller heap is the same run
                              in a larger one).
  * `C10_x86_footprint_loaded`  the same ON THE TEXT of the routine: `run (printProg routine)`, the machine's
                              own entry point, without a loader hypothesis (`C14_routine_loads`).
  * `C10_x86_data_size`       C10 IN TERMS OF THE SOURCE-LEVEL DATA, ALL RUNS: let `D` bound the number of fields
                              of the object values held by the variables of the AxCut positional machine
                              (`valsFields st.env ≤ D` for every reachable state — a statement about the
                              program alone, no machine in it).  Then in ANY heap of at least `64·(D + A + 2)`
                              bytes, for EVERY amount of machine fuel (below `2^64/(M + 1)`), terminating run or
                              not, the result is `outOfFuel` or `done v` and the highest heap address written
                              is at most `D + A + 2` blocks above the heap base.  The peak hypothesis is
                              DERIVED: the frontier moves only when both free lists are empty (`FrPk`), then
                              every block in use belongs to an object of the abstract heap (NO GARBAGE,
                              Scc/Heap/RefineNoGarb.lean), and the objects of the abstract heap are nodes of the
                              values of the environment (Scc/X86/ConcData.lean).
                              `C10_x86_data_size_loaded`: on the text of the routine.
                              EXAMPLE: the box loop `main(x) { let b = B(x); switch b { B(y) => main(y) } }`
                              runs FOREVER in 4 blocks: for every fuel below 2^60 the machine is still running
                              and has not written above 256 bytes of its heap.
  * `C10_x86_coarse`          with `Pk = A·fuel + 1` the peak hypothesis is trivial: the theorem subsumes
                              the room hypothesis of `C06_data_programs` (up to the constant).
  * `C10_mhw_in_heap`, `C10_larger_heap`   the two generic machine facts (any program).
  THE CONSTANT `A + 2`, `A = progMaxLet p` the largest number of fields of a `let` of the program: 1 (the
  reusable list always keeps one block) + `A + 1` (the room the memory contract of `Memory::store` asks for
  before a `let` of `A` fields: `frontier + 64·(fields + 1) ≤ limit` — a property of the contract's
  hypothesis, not of the code: `Memory::store` of n fields acquires fewer blocks).
  KEPT AS `def : Prop` — `C10_x86_statement`: constant 2, every compiled program (closures), every run
  (non-terminating included), peak measured at the `#ctx` hooks.
-/
import Scc.X86.ConcC10
import Scc.X86.ConcDataRun
import Scc.Props.C13X86Data
import Scc.Props.C06X86Heap
import Scc.Props.C14Loader

namespace Scc.X86
open Scc.AxCut Scc.AxCut.Pos Scc.Backend Scc.Backend.Abs Scc.X86.Ref Scc.X86.Conc
open Scc.Props.C06Generic (Reachable CodeFits statesOf)
open Scc.Props.C14Generic (LabelSafe)

/-! ## The full statement (not proved) -/

/-- C10 on x86-64: for every compiled program and every run, if at no statement boundary more than `Pk`
blocks are in use, then the highest heap address ever written lies at most `Pk + 2` blocks above the heap
base — whatever the fuel. -/
def C10_x86_statement : Prop :=
  ∀ (p : AxCut.Prog) (args : List Word) (hooks : Bool) (body routine : List Code) (nargs : Nat)
    (ops : List MockOp) (c' : Nat),
    LinTypedProg p → (compile mockSym hooks p).run 0 = .ok ((ops, nargs), c') →
    compileX86 p hooks 0 = .ok (body, nargs) → intoRoutine body nargs = .ok routine → args.length = nargs →
    ∀ (cfg : MonCfg), cfg.heap = false → MachOK cfg.mach →
      ∀ (items : List (Code × Nat)), (items.map (·.1)).map stripC = routine.map stripC →
      ∀ (Pk : Nat), (∀ C, PeakAtMost p hooks routine ops cfg items args Pk C) →
      ∀ fuel', (runItems items args fuel' cfg).maxHeapWritten ≤ 64 * (Pk + 2)

/-! ## Proved -/

/-- the peak hypothesis is trivial for `Pk = C`: the blocks in use lie below the frontier -/
theorem C10_peak_trivial (p : AxCut.Prog) (hooks : Bool) (routine : List Code) (ops : List MockOp)
    (cfg : MonCfg) (items : List (Code × Nat)) (args : List Word) (C : Nat) :
    PeakAtMost p hooks routine ops cfg items args C C :=
  peakAtMost_trivial p hooks routine ops cfg items args C

/-- ANY PROGRAM: the highest heap address the machine has written lies inside the heap region -/
theorem C10_mhw_in_heap {m : MonCfg} {p : Prog} (n : Nat) {s s' : State} (h : stepN m p n s = .inl s')
    (hs : s.maxHeapWritten ≤ m.mach.heapBytes) : s'.maxHeapWritten ≤ m.mach.heapBytes :=
  stepN_mhw n h hs

/-- ANY PROGRAM: a run (heap monitor off) that ends with `done v` in a smaller heap region — same base, same
stack, heap below the stack — is the same run, with the same record, in the larger one -/
theorem C10_larger_heap {m' m : MonCfg} (S : Sub m'.mach m.mach) (h' : m'.heap = false) (hm : m.heap = false)
    (items : List (Code × Nat)) (args : List Word) (f : Nat) (v : Word)
    (h : (runItems items args f m').res = .done v) : runItems items args f m = runItems items args f m' :=
  runItems_larger_heap S h' hm items args f v h

/-- THE FRONTIER BOUND ON THE MACHINE (lift of `C10_frontier_bound`): if at no statement boundary more than
`Pk` blocks are in use, then in a heap of `64·(Pk + A + 2)` bytes the machine passes, in order and without
fault, through a boundary state for EVERY state of the positional run, and at each of them the heap is
consistent with at most `Pk + 1` blocks below the allocation frontier. -/
theorem C10_x86_frontier_bound (p : AxCut.Prog) (args : List Word) (hooks : Bool) (body routine : List Code)
    (nargs : Nat) (d0 : Def) (ops : List MockOp) (c' : Nat)
    (hsafe : LabelSafe p = true) (htp : LinTypedProg p) (hdata : DataProg p) (hrange : ProgInRange p)
    (hcompM : (compile mockSym hooks p).run 0 = .ok ((ops, nargs), c')) (hfit : CodeFits ops)
    (hcompX : compileX86 p hooks 0 = .ok (body, nargs)) (hrout : intoRoutine body nargs = .ok routine)
    (hnd : (labs routine).Nodup)
    (hd : p.defs.head? = some d0) (hentry : ∀ b ∈ d0.ctx, b.chi = .ext ∧ b.ty = .i64)
    (hcap : ∀ st, Reachable p ⟨d0.ctx, args.map .int, d0.body⟩ st → 2 * st.ctx.length ≤ 266)
    (fuel : Nat) (out : List (Bool × Word)) (v : Word) (hfuel : fuel + 1 < 2 ^ 64)
    (hrun : Pos.run p args fuel = ⟨out, .done v⟩)
    (cfg : MonCfg) (MO : MachOK cfg.mach) (hk : cfg.consts = consts)
    (hb8 : cfg.mach.heapBase % 8 = 0) (hb0 : 0 < cfg.mach.heapBase)
    (Pk : Nat) (hbytes : 64 * (Pk + progMaxLet p + 2) ≤ cfg.mach.heapBytes)
    (items : List (Code × Nat)) (hitems : (items.map (·.1)).map stripC = routine.map stripC)
    (hfitX : addrAt cfg.mach.codeBase routine routine.length < 2 ^ 64)
    (hP : PeakAtMost p hooks routine ops cfg items args Pk (progMaxLet p * fuel + 1)) :
    ∃ n0 X0, stepN cfg (mkProg cfg.mach items) n0 (initState cfg.mach args 6) = .inl X0 ∧
      BChain cfg (mkProg cfg.mach items)
        (fun st X => BoundaryOf p hooks routine ops cfg st X ∧
          ∃ below inUse, HeapShapeAt cfg X below inUse ∧ below ≤ Pk + 1 ∧ inUse ≤ Pk)
        (statesOf p fuel ⟨d0.ctx, args.map .int, d0.body⟩) X0 := by
  obtain ⟨_, n0, X0, n, XL, h0, hch, _⟩ := data_programs_peak p args hooks body routine nargs d0 ops c' hsafe htp
    ⟨hrange.1, fun d hd => ⟨hdata d hd, hrange.2 d hd⟩⟩ hcompM hfit hcompX hrout hnd hd hentry hcap fuel out v
    hfuel hrun cfg MO hk hb8 hb0 Pk (progMaxLet p) (letLe_progMaxLet p) hbytes items hitems hfitX hP
  exact ⟨n0, X0, h0, hch⟩

/-- THE FRONTIER BOUND FOR EVERY PREFIX OF EVERY RUN (terminating or not): for ANY number `fuel` of steps of
the positional machine the machine reaches, without fault, a boundary state for every state of the prefix, with
at most `Pk + 1` blocks below the frontier at each -/
theorem C10_x86_every_prefix (p : AxCut.Prog) (args : List Word) (hooks : Bool) (body routine : List Code)
    (nargs : Nat) (d0 : Def) (ops : List MockOp) (c' : Nat)
    (hsafe : LabelSafe p = true) (htp : LinTypedProg p) (hdata : DataProg p) (hrange : ProgInRange p)
    (hcompM : (compile mockSym hooks p).run 0 = .ok ((ops, nargs), c')) (hfit : CodeFits ops)
    (hcompX : compileX86 p hooks 0 = .ok (body, nargs)) (hrout : intoRoutine body nargs = .ok routine)
    (hnd : (labs routine).Nodup)
    (hd : p.defs.head? = some d0) (hentry : ∀ b ∈ d0.ctx, b.chi = .ext ∧ b.ty = .i64)
    (hlen : d0.ctx.length = args.length)
    (hcap : ∀ st, Reachable p ⟨d0.ctx, args.map .int, d0.body⟩ st → 2 * st.ctx.length ≤ 266)
    (fuel : Nat) (hfuel : fuel + 1 < 2 ^ 64)
    (cfg : MonCfg) (MO : MachOK cfg.mach) (hk : cfg.consts = consts)
    (hb8 : cfg.mach.heapBase % 8 = 0) (hb0 : 0 < cfg.mach.heapBase)
    (Pk : Nat) (hbytes : 64 * (Pk + progMaxLet p + 2) ≤ cfg.mach.heapBytes)
    (items : List (Code × Nat)) (hitems : (items.map (·.1)).map stripC = routine.map stripC)
    (hfitX : addrAt cfg.mach.codeBase routine routine.length < 2 ^ 64)
    (hP : PeakAtMost p hooks routine ops cfg items args Pk (progMaxLet p * fuel + 1)) :
    ∃ n0 X0, stepN cfg (mkProg cfg.mach items) n0 (initState cfg.mach args 6) = .inl X0 ∧
      X0.maxHeapWritten ≤ cfg.mach.heapBytes ∧
      BChain cfg (mkProg cfg.mach items)
        (fun st X => BoundaryOf p hooks routine ops cfg st X ∧
          ∃ below inUse, HeapShapeAt cfg X below inUse ∧ below ≤ Pk + 1 ∧ inUse ≤ Pk)
        (statesOf p fuel ⟨d0.ctx, args.map .int, d0.body⟩) X0 := by
  obtain ⟨_, n0, X0, h0, hch⟩ := data_programs_prefix p args hooks body routine nargs d0 ops c' hsafe htp
    ⟨hrange.1, fun d hd => ⟨hdata d hd, hrange.2 d hd⟩⟩ hcompM hfit hcompX hrout hnd hd hentry hlen hcap fuel
    hfuel cfg MO hk hb8 hb0 Pk (progMaxLet p) (letLe_progMaxLet p) hbytes items hitems hfitX hP
  exact ⟨n0, X0, h0, stepN_mhw n0 h0 (mhwOK_init cfg.mach args 6), hch⟩

/-- THEOREM A ∘ THEOREM B FOR PROGRAMS WITH DATA TYPES UNDER THE FOOTPRINT BOUND: `C06_data_programs` with
its room hypothesis `128 + 64·134·fuel ≤ heapBytes` replaced by `64·(Pk + A + 2) ≤ heapBytes` and the peak
hypothesis — a heap that holds the peak is enough for a run of any length; and the machine's record of the
highest heap address written stays inside the heap region. -/
theorem C10_x86_data_programs (p : AxCut.Prog) (args : List Word) (hooks : Bool) (body routine : List Code)
    (nargs : Nat) (d0 : Def) (ops : List MockOp) (c' : Nat)
    (hsafe : LabelSafe p = true) (htp : LinTypedProg p) (hdata : DataProg p) (hrange : ProgInRange p)
    (hcompM : (compile mockSym hooks p).run 0 = .ok ((ops, nargs), c')) (hfit : CodeFits ops)
    (hcompX : compileX86 p hooks 0 = .ok (body, nargs)) (hrout : intoRoutine body nargs = .ok routine)
    (hnd : (labs routine).Nodup)
    (hd : p.defs.head? = some d0) (hentry : ∀ b ∈ d0.ctx, b.chi = .ext ∧ b.ty = .i64)
    (hcap : ∀ st, Reachable p ⟨d0.ctx, args.map .int, d0.body⟩ st → 2 * st.ctx.length ≤ 266)
    (fuel : Nat) (out : List (Bool × Word)) (v : Word) (hfuel : fuel + 1 < 2 ^ 64)
    (hrun : Pos.run p args fuel = ⟨out, .done v⟩)
    (cfg : MonCfg) (MO : MachOK cfg.mach) (hk : cfg.consts = consts) (hheap : cfg.heap = false)
    (hb8 : cfg.mach.heapBase % 8 = 0) (hb0 : 0 < cfg.mach.heapBase)
    (Pk : Nat) (hbytes : 64 * (Pk + progMaxLet p + 2) ≤ cfg.mach.heapBytes)
    (items : List (Code × Nat)) (hitems : (items.map (·.1)).map stripC = routine.map stripC)
    (hfitX : addrAt cfg.mach.codeBase routine routine.length < 2 ^ 64)
    (hP : PeakAtMost p hooks routine ops cfg items args Pk (progMaxLet p * fuel + 1)) :
    ∃ fuel', (runItems items args fuel' cfg).out = out ∧ (runItems items args fuel' cfg).res = .done v ∧
      (runItems items args fuel' cfg).maxHeapWritten ≤ cfg.mach.heapBytes :=
  data_programs_peak_items p args hooks body routine nargs d0 ops c' hsafe htp
    ⟨hrange.1, fun d hd => ⟨hdata d hd, hrange.2 d hd⟩⟩ hcompM hfit hcompX hrout hnd hd hentry hcap fuel out v
    hfuel hrun cfg MO hk hheap hb8 hb0 Pk (progMaxLet p) (letLe_progMaxLet p) hbytes items hitems hfitX hP

/-- C10, THE FOOTPRINT ON THE MACHINE: let at no statement boundary of the run in a heap of `64·(Pk + A + 2)`
bytes more than `Pk` blocks be in use.  Then in ANY heap at least that large the run reproduces the trace and
the result of the positional machine, and the highest heap address ever written lies at most `Pk + A + 2`
blocks above the heap base — independent of the length of the run (`fuel`) and of the size of the heap. -/
theorem C10_x86_footprint (p : AxCut.Prog) (args : List Word) (hooks : Bool) (body routine : List Code)
    (nargs : Nat) (d0 : Def) (ops : List MockOp) (c' : Nat)
    (hsafe : LabelSafe p = true) (htp : LinTypedProg p) (hdata : DataProg p) (hrange : ProgInRange p)
    (hcompM : (compile mockSym hooks p).run 0 = .ok ((ops, nargs), c')) (hfit : CodeFits ops)
    (hcompX : compileX86 p hooks 0 = .ok (body, nargs)) (hrout : intoRoutine body nargs = .ok routine)
    (hnd : (labs routine).Nodup)
    (hd : p.defs.head? = some d0) (hentry : ∀ b ∈ d0.ctx, b.chi = .ext ∧ b.ty = .i64)
    (hcap : ∀ st, Reachable p ⟨d0.ctx, args.map .int, d0.body⟩ st → 2 * st.ctx.length ≤ 266)
    (fuel : Nat) (out : List (Bool × Word)) (v : Word) (hfuel : fuel + 1 < 2 ^ 64)
    (hrun : Pos.run p args fuel = ⟨out, .done v⟩)
    (cfg : MonCfg) (MO : MachOK cfg.mach) (hk : cfg.consts = consts) (hheap : cfg.heap = false)
    (hb8 : cfg.mach.heapBase % 8 = 0) (hb0 : 0 < cfg.mach.heapBase)
    (Pk : Nat) (hbytes : 64 * (Pk + progMaxLet p + 2) ≤ cfg.mach.heapBytes)
    (items : List (Code × Nat)) (hitems : (items.map (·.1)).map stripC = routine.map stripC)
    (hfitX : addrAt cfg.mach.codeBase routine routine.length < 2 ^ 64)
    (hP : PeakAtMost p hooks routine ops (withHeapBytes cfg (64 * (Pk + progMaxLet p + 2))) items args Pk (progMaxLet p * fuel + 1)) :
    ∃ fuel', (runItems items args fuel' cfg).out = out ∧ (runItems items args fuel' cfg).res = .done v ∧
      (runItems items args fuel' cfg).maxHeapWritten ≤ 64 * (Pk + progMaxLet p + 2) := by
  obtain ⟨fuel', h1, h2, h3⟩ := C10_x86_data_programs p args hooks body routine nargs d0 ops c' hsafe htp hdata
    hrange hcompM hfit hcompX hrout hnd hd hentry hcap fuel out v hfuel hrun
    (withHeapBytes cfg (64 * (Pk + progMaxLet p + 2))) (machOK_withHeapBytes MO hbytes) hk hheap hb8 hb0 Pk (Nat.le_refl _)
    items hitems hfitX hP
  have e := runItems_larger_heap (sub_withHeapBytes MO hbytes) hheap hheap items args fuel' v h2
  exact ⟨fuel', by rw [e]; exact h1, by rw [e]; exact h2, by rw [e]; exact h3⟩

/-- C10, THE FOOTPRINT, ON THE TEXT OF THE ROUTINE: the machine's entry point `run` on the printed routine
(parsed by the machine's own parser: `C14_routine_loads`, for text-safe names) reproduces trace and result and
never writes above `Pk + A + 2` blocks of its heap -/
theorem C10_x86_footprint_loaded (p : AxCut.Prog) (args : List Word) (hooks : Bool) (body routine : List Code)
    (nargs : Nat) (d0 : Def) (ops : List MockOp) (c' : Nat)
    (hsafe : LabelSafe p = true) (htp : LinTypedProg p) (hdata : DataProg p) (hrange : ProgInRange p)
    (hnames : C14_namesTextSafe p = true)
    (hcompM : (compile mockSym hooks p).run 0 = .ok ((ops, nargs), c')) (hfit : CodeFits ops)
    (hcompX : compileX86 p hooks 0 = .ok (body, nargs)) (hrout : intoRoutine body nargs = .ok routine)
    (hnd : (labs routine).Nodup)
    (hd : p.defs.head? = some d0) (hentry : ∀ b ∈ d0.ctx, b.chi = .ext ∧ b.ty = .i64)
    (hcap : ∀ st, Reachable p ⟨d0.ctx, args.map .int, d0.body⟩ st → 2 * st.ctx.length ≤ 266)
    (fuel : Nat) (out : List (Bool × Word)) (v : Word) (hfuel : fuel + 1 < 2 ^ 64)
    (hrun : Pos.run p args fuel = ⟨out, .done v⟩)
    (cfg : MonCfg) (MO : MachOK cfg.mach) (hk : cfg.consts = consts) (hheap : cfg.heap = false)
    (hb8 : cfg.mach.heapBase % 8 = 0) (hb0 : 0 < cfg.mach.heapBase)
    (Pk : Nat) (hbytes : 64 * (Pk + progMaxLet p + 2) ≤ cfg.mach.heapBytes)
    (hfitX : addrAt cfg.mach.codeBase routine routine.length < 2 ^ 64)
    (hP : ∀ items, parseText (printProg routine) = .ok items →
      PeakAtMost p hooks routine ops (withHeapBytes cfg (64 * (Pk + progMaxLet p + 2))) items args Pk
        (progMaxLet p * fuel + 1)) :
    ∃ fuel', (run (printProg routine) args fuel' cfg).out = out ∧
      (run (printProg routine) args fuel' cfg).res = .done v ∧
      (run (printProg routine) args fuel' cfg).maxHeapWritten ≤ 64 * (Pk + progMaxLet p + 2) := by
  obtain ⟨items, hparse, hitems⟩ := C14_routine_loads hrange hnames hcompX hrout
  obtain ⟨fuel', h1, h2, h3⟩ := C10_x86_footprint p args hooks body routine nargs d0 ops c' hsafe htp hdata hrange
    hcompM hfit hcompX hrout hnd hd hentry hcap fuel out v hfuel hrun cfg MO hk hheap hb8 hb0 Pk hbytes items hitems
    hfitX (hP items hparse)
  exact ⟨fuel', by rw [run_eq_runItems hparse]; exact h1, by rw [run_eq_runItems hparse]; exact h2,
    by rw [run_eq_runItems hparse]; exact h3⟩

/-- a run of the positional machine that has ended (not `outOfFuel`) gives the same behaviour with more fuel -/
theorem C10_runState_mono (prog : AxCut.Prog) : ∀ (fuel : Nat) (st : Pos.State) (acc : List (Bool × Word)),
    (Pos.runState prog fuel st acc).res ≠ .outOfFuel →
    ∀ k, Pos.runState prog (fuel + k) st acc = Pos.runState prog fuel st acc
  | 0, _, _, h, _ => by simp [Pos.runState] at h
  | fuel + 1, st, acc, h, k => by
    rw [show fuel + 1 + k = (fuel + k) + 1 by omega]
    simp only [Pos.runState] at h ⊢
    cases hst : Pos.step prog st with
    | stuck w => rfl
    | done v' => rfl
    | next st' o =>
      rw [hst] at h
      simp only
      exact C10_runState_mono prog fuel st' _ h k

theorem C10_run_mono (p : AxCut.Prog) (args : List Word) (f : Nat) (h : (Pos.run p args f).res ≠ .outOfFuel)
    (k : Nat) : Pos.run p args (f + k) = Pos.run p args f := by
  unfold Pos.run at h ⊢
  cases hdefs : p.defs with
  | nil => rfl
  | cons d ds =>
    rw [hdefs] at h
    simp only at h ⊢
    split
    · rfl
    · rename_i hl
      rw [if_neg hl] at h
      exact C10_runState_mono p f _ [] h k

/-- a run that ends with `done v` for some fuel never gets stuck, and `v` is its only result -/
theorem C10_done_unique {p : AxCut.Prog} {args : List Word} {f0 : Nat} {out0 : List (Bool × Word)} {v0 : Word}
    (h0 : Pos.run p args f0 = ⟨out0, .done v0⟩) :
    (∀ f w, (Pos.run p args f).res ≠ .stuck w) ∧
    (∀ f out v, Pos.run p args f = ⟨out, .done v⟩ → v = v0) := by
  have key : ∀ f, (Pos.run p args f).res ≠ .outOfFuel → Pos.run p args f = Pos.run p args f0 := by
    intro f hne
    have h1 := C10_run_mono p args f hne f0
    have h2 := C10_run_mono p args f0 (by rw [h0]; intro e; cases e) f
    rw [Nat.add_comm] at h2
    rw [← h1, h2]
  constructor
  · intro f w h
    have := key f (by rw [h]; intro e; cases e)
    rw [this, h0] at h
    cases h
  · intro f out v h
    have := key f (by rw [h]; intro e; cases e)
    rw [h, h0] at this
    injection this with _ e
    injection e

/-! ## C10 in terms of the source-level data -/

/-- C10, ALL RUNS, IN TERMS OF THE DATA OF THE POSITIONAL MACHINE: if the object values held by the variables
never have more than `D` fields in total (over all reachable states of the AxCut positional machine), then in
any heap of at least `64·(D + A + 2)` bytes (`A = progMaxLet p`) the machine, for every amount of fuel (below
`2^64 / (M + 1)`, `M = progMaxSize p`), is still running or has returned the result of the positional machine,
and has never written above `D + A + 2` blocks of its heap — whatever the length of the run.  (The positional
machine must not get stuck: no division by zero / overflow.) -/
theorem C10_x86_data_size (p : AxCut.Prog) (args : List Word) (hooks : Bool) (body routine : List Code)
    (nargs : Nat) (d0 : Def) (ops : List MockOp) (c' : Nat)
    (hsafe : LabelSafe p = true) (htp : LinTypedProg p) (hdata : DataProg p) (hrange : ProgInRange p)
    (hcompM : (compile mockSym hooks p).run 0 = .ok ((ops, nargs), c')) (hfit : CodeFits ops)
    (hcompX : compileX86 p hooks 0 = .ok (body, nargs)) (hrout : intoRoutine body nargs = .ok routine)
    (hnd : (labs routine).Nodup)
    (hd : p.defs.head? = some d0) (hentry : ∀ b ∈ d0.ctx, b.chi = .ext ∧ b.ty = .i64)
    (hlen : d0.ctx.length = args.length)
    (hcap : ∀ st, Reachable p ⟨d0.ctx, args.map .int, d0.body⟩ st → 2 * st.ctx.length ≤ 266)
    (hnostuck : ∀ fuel w, (Pos.run p args fuel).res ≠ .stuck w)
    (D : Nat) (hD : ∀ st, Reachable p ⟨d0.ctx, args.map .int, d0.body⟩ st → valsFields st.env ≤ D)
    (cfg : MonCfg) (MO : MachOK cfg.mach) (hheap : cfg.heap = false)
    (hb8 : cfg.mach.heapBase % 8 = 0) (hb0 : 0 < cfg.mach.heapBase)
    (hbytes : 64 * (D + progMaxLet p + 2) ≤ cfg.mach.heapBytes)
    (items : List (Code × Nat)) (hitems : (items.map (·.1)).map stripC = routine.map stripC)
    (hfitX : addrAt cfg.mach.codeBase routine routine.length < 2 ^ 64)
    (fuel' : Nat) (hf : fuel' * (progMaxSize p + 1) + stmtSize d0.body + 1 < 2 ^ 64) :
    ((runItems items args fuel' cfg).res = .outOfFuel ∨
      ∃ v out, Pos.run p args (fuel' * (progMaxSize p + 1) + stmtSize d0.body) = ⟨out, .done v⟩ ∧
        (runItems items args fuel' cfg).res = .done v) ∧
    (runItems items args fuel' cfg).maxHeapWritten ≤ 64 * (D + progMaxLet p + 2) :=
  data_programs_dsize_all p args hooks body routine nargs d0 ops c' hsafe htp
    ⟨hrange.1, fun d hd => ⟨hdata d hd, hrange.2 d hd⟩⟩ hcompM hfit hcompX hrout hnd hd hentry hlen hcap hnostuck
    D hD cfg MO hheap hb8 hb0 (progMaxLet p) (progMaxSize p) (letLe_progMaxLet p) (stmtSize_le_progMaxSize p)
    hbytes items hitems hfitX fuel' hf

/-- … on the TEXT of the routine (`run (printProg routine)`, the machine's own parser: `C14_routine_loads`) -/
theorem C10_x86_data_size_loaded (p : AxCut.Prog) (args : List Word) (hooks : Bool) (body routine : List Code)
    (nargs : Nat) (d0 : Def) (ops : List MockOp) (c' : Nat)
    (hsafe : LabelSafe p = true) (htp : LinTypedProg p) (hdata : DataProg p) (hrange : ProgInRange p)
    (hnames : C14_namesTextSafe p = true)
    (hcompM : (compile mockSym hooks p).run 0 = .ok ((ops, nargs), c')) (hfit : CodeFits ops)
    (hcompX : compileX86 p hooks 0 = .ok (body, nargs)) (hrout : intoRoutine body nargs = .ok routine)
    (hnd : (labs routine).Nodup)
    (hd : p.defs.head? = some d0) (hentry : ∀ b ∈ d0.ctx, b.chi = .ext ∧ b.ty = .i64)
    (hlen : d0.ctx.length = args.length)
    (hcap : ∀ st, Reachable p ⟨d0.ctx, args.map .int, d0.body⟩ st → 2 * st.ctx.length ≤ 266)
    (hnostuck : ∀ fuel w, (Pos.run p args fuel).res ≠ .stuck w)
    (D : Nat) (hD : ∀ st, Reachable p ⟨d0.ctx, args.map .int, d0.body⟩ st → valsFields st.env ≤ D)
    (cfg : MonCfg) (MO : MachOK cfg.mach) (hheap : cfg.heap = false)
    (hb8 : cfg.mach.heapBase % 8 = 0) (hb0 : 0 < cfg.mach.heapBase)
    (hbytes : 64 * (D + progMaxLet p + 2) ≤ cfg.mach.heapBytes)
    (hfitX : addrAt cfg.mach.codeBase routine routine.length < 2 ^ 64)
    (fuel' : Nat) (hf : fuel' * (progMaxSize p + 1) + stmtSize d0.body + 1 < 2 ^ 64) :
    ((run (printProg routine) args fuel' cfg).res = .outOfFuel ∨
      ∃ v, (run (printProg routine) args fuel' cfg).res = .done v) ∧
    (run (printProg routine) args fuel' cfg).maxHeapWritten ≤ 64 * (D + progMaxLet p + 2) := by
  obtain ⟨items, hparse, hitems⟩ := C14_routine_loads hrange hnames hcompX hrout
  rw [run_eq_runItems hparse]
  obtain ⟨h1, h2⟩ := C10_x86_data_size p args hooks body routine nargs d0 ops c' hsafe htp hdata hrange hcompM hfit
    hcompX hrout hnd hd hentry hlen hcap hnostuck D hD cfg MO hheap hb8 hb0 hbytes items hitems hfitX fuel' hf
  refine ⟨?_, h2⟩
  rcases h1 with h | ⟨v, _, _, h⟩
  · exact Or.inl h
  · exact Or.inr ⟨v, h⟩

/-- THE BOX LOOP RUNS FOREVER IN FOUR BLOCKS: `main(x) { let b = B(x); switch b { B(y) => main(y) } }`, started
with x = 21 in the default configuration (a 32 MiB heap): for EVERY fuel below 2^60 the machine is still running
(`outOfFuel`: it never faults and never returns) and the highest heap address it has written lies at most 256
bytes above the heap base — space independent of the number of repetitions. -/
theorem C10_boxLoop_constant_space (fuel' : Nat) (hf : fuel' < 2 ^ 60) :
    (runItems (C13_loopBoxRoutine.map fun c => (c, 0)) [21] fuel' {}).res = .outOfFuel ∧
    (runItems (C13_loopBoxRoutine.map fun c => (c, 0)) [21] fuel' {}).maxHeapWritten ≤ 256 := by
  have hcompM : ∃ k, (compile mockSym true C13_loopBoxProg).run 0 = .ok ((C13_loopBoxOps, 1), k) := ⟨_, rfl⟩
  obtain ⟨c', hcompM⟩ := hcompM
  have hcompX : compileX86 C13_loopBoxProg true 0 = .ok (C13_loopBoxBody, 1) := rfl
  have hrout : intoRoutine C13_loopBoxBody 1 = .ok C13_loopBoxRoutine := rfl
  obtain ⟨e1, e2, e3⟩ := C13_loopBox_consts
  have hnostuck : ∀ fuel w, (Pos.run C13_loopBoxProg [21] fuel).res ≠ .stuck w := by
    intro fuel w h
    have hrs : Pos.run C13_loopBoxProg [21] fuel = Pos.runState C13_loopBoxProg fuel C13_loopS0 [] :=
      run_eq_runState rfl rfl fuel
    rw [hrs, (C13_loop_runs fuel []).1] at h
    cases h
  have key := C10_x86_data_size C13_loopBoxProg [21] true C13_loopBoxBody C13_loopBoxRoutine 1
    C13_loopBoxMain C13_loopBoxOps c'
    (by decide) (linTypedCheck_sound C13_loopBoxProg rfl) C13_loopBoxProg_data C13_loopBoxProg_inRange hcompM
    (by decide) hcompX hrout (by decide) rfl (by decide) rfl
    (fun st hr => by rcases C13_loop_reachable st hr with rfl | rfl | rfl <;> decide)
    hnostuck 1
    (fun st hr => by rcases C13_loop_reachable st hr with rfl | rfl | rfl <;> decide)
    {} machOK_default rfl (by decide) (by decide) (by rw [e1]; decide)
    (C13_loopBoxRoutine.map fun c => (c, 0)) (by simp [List.map_map, Function.comp]) C13_loopBoxRoutine_fits
    fuel' (by rw [e2, e3]; omega)
  rw [e1] at key
  refine ⟨?_, key.2⟩
  rcases key.1 with h | ⟨v, out, hdone, _⟩
  · exact h
  · exfalso
    have hrs : Pos.run C13_loopBoxProg [21] (fuel' * (progMaxSize C13_loopBoxProg + 1) + stmtSize C13_loopBoxMain.body) =
        Pos.runState C13_loopBoxProg _ C13_loopS0 [] := run_eq_runState rfl rfl _
    have := (C13_loop_runs (fuel' * (progMaxSize C13_loopBoxProg + 1) + stmtSize C13_loopBoxMain.body) []).1
    rw [← hrs, hdone] at this
    cases this

/-- the bound on the data of all reachable states, checked on the finitely many states of a terminating run
(an executable form of the hypothesis `hD` of `C10_x86_data_size`) -/
theorem C10_dataSize_of_run (prog : AxCut.Prog) (fuel : Nat) (st0 : Pos.State) (D : Nat)
    (hstop : Scc.Props.C06Generic.stopsWithin prog fuel st0 = true)
    (hall : (Scc.Props.C06Generic.statesOf prog fuel st0).all (fun st => decide (valsFields st.env ≤ D)) = true) :
    ∀ st, Reachable prog st0 st → valsFields st.env ≤ D := by
  intro st hr
  have := Scc.Props.C06Generic.reachable_mem_statesOf prog fuel st0 st hstop hr
  rw [List.all_eq_true] at hall
  simpa using hall st this

theorem C10_boxProg_consts : progMaxLet C06_boxProg = 1 ∧ progMaxSize C06_boxProg = 10 ∧
    stmtSize C06_boxMain.body = 10 := by decide

/-- THE BOX PROGRAM OF C06X86Heap (terminating: allocate, share, load shared, load unique, print) in the default
configuration: for EVERY fuel below 2^58 the machine is still running or has returned 42, and it never writes
above 320 bytes of its heap (`D = 2`: at no state do the variables hold more than two fields of object data —
the box shared by two variables) -/
theorem C10_boxProg_footprint (fuel' : Nat) (hf : fuel' < 2 ^ 58) :
    ((runItems (C06_boxRoutine.map fun c => (c, 0)) [21] fuel' {}).res = .outOfFuel ∨
      (runItems (C06_boxRoutine.map fun c => (c, 0)) [21] fuel' {}).res = .done 42) ∧
    (runItems (C06_boxRoutine.map fun c => (c, 0)) [21] fuel' {}).maxHeapWritten ≤ 320 := by
  have hcompM : ∃ k, (compile mockSym true C06_boxProg).run 0 = .ok ((C06_boxOps, 1), k) := ⟨_, rfl⟩
  obtain ⟨c', hcompM⟩ := hcompM
  have hcompX : compileX86 C06_boxProg true 0 = .ok (C06_boxBody, 1) := rfl
  have hrout : intoRoutine C06_boxBody 1 = .ok C06_boxRoutine := rfl
  have hrun : Pos.run C06_boxProg [21] 20 = ⟨[(true, 42)], .done 42⟩ := by decide
  obtain ⟨e1, e2, e3⟩ := C10_boxProg_consts
  obtain ⟨hnostuck, huniq⟩ := C10_done_unique hrun
  have key := C10_x86_data_size C06_boxProg [21] true C06_boxBody C06_boxRoutine 1 C06_boxMain C06_boxOps c'
    (by decide) (linTypedCheck_sound C06_boxProg rfl) C06_boxProg_data C06_boxProg_inRange hcompM (by decide)
    hcompX hrout (by decide) rfl (by decide) rfl
    (C06_capacity_of_run C06_boxProg 20 _ (by decide) (by decide)) hnostuck 2
    (C10_dataSize_of_run C06_boxProg 20 _ 2 (by decide) (by decide))
    {} machOK_default rfl (by decide) (by decide) (by rw [e1]; decide)
    (C06_boxRoutine.map fun c => (c, 0)) (by simp [List.map_map, Function.comp]) C06_boxRoutine_fits
    fuel' (by rw [e2, e3]; omega)
  rw [e1] at key
  refine ⟨?_, key.2⟩
  rcases key.1 with h | ⟨v, out, hdone, h⟩
  · exact Or.inl h
  · right
    rw [huniq _ out v hdone] at h
    exact h

/-- with `Pk = A·fuel + 1` the peak hypothesis is trivial: the coarse room hypothesis of
`C06_data_programs`, as a corollary of the footprint theorem -/
theorem C10_x86_coarse (p : AxCut.Prog) (args : List Word) (hooks : Bool) (body routine : List Code)
    (nargs : Nat) (d0 : Def) (ops : List MockOp) (c' : Nat)
    (hsafe : LabelSafe p = true) (htp : LinTypedProg p) (hdata : DataProg p) (hrange : ProgInRange p)
    (hcompM : (compile mockSym hooks p).run 0 = .ok ((ops, nargs), c')) (hfit : CodeFits ops)
    (hcompX : compileX86 p hooks 0 = .ok (body, nargs)) (hrout : intoRoutine body nargs = .ok routine)
    (hnd : (labs routine).Nodup)
    (hd : p.defs.head? = some d0) (hentry : ∀ b ∈ d0.ctx, b.chi = .ext ∧ b.ty = .i64)
    (hcap : ∀ st, Reachable p ⟨d0.ctx, args.map .int, d0.body⟩ st → 2 * st.ctx.length ≤ 266)
    (fuel : Nat) (out : List (Bool × Word)) (v : Word) (hfuel : fuel + 1 < 2 ^ 64)
    (hrun : Pos.run p args fuel = ⟨out, .done v⟩)
    (cfg : MonCfg) (MO : MachOK cfg.mach) (hk : cfg.consts = consts) (hheap : cfg.heap = false)
    (hb8 : cfg.mach.heapBase % 8 = 0) (hb0 : 0 < cfg.mach.heapBase)
    (hbytes : 64 * (progMaxLet p * fuel + 1 + progMaxLet p + 2) ≤ cfg.mach.heapBytes)
    (items : List (Code × Nat)) (hitems : (items.map (·.1)).map stripC = routine.map stripC)
    (hfitX : addrAt cfg.mach.codeBase routine routine.length < 2 ^ 64) :
    ∃ fuel', (runItems items args fuel' cfg).out = out ∧ (runItems items args fuel' cfg).res = .done v ∧
      (runItems items args fuel' cfg).maxHeapWritten ≤ 64 * (progMaxLet p * fuel + 1 + progMaxLet p + 2) :=
  C10_x86_footprint p args hooks body routine nargs d0 ops c' hsafe htp hdata hrange hcompM hfit hcompX hrout hnd
    hd hentry hcap fuel out v hfuel hrun cfg MO hk hheap hb8 hb0 (progMaxLet p * fuel + 1) hbytes items hitems hfitX
    (C10_peak_trivial _ _ _ _ _ _ _ _)

/-! ### non-vacuity: the box program of C06X86Heap in the default configuration (a 32 MiB heap) -/

theorem C10_boxProg_maxLet : progMaxLet C06_boxProg = 1 := by decide

/-- every hypothesis of `C10_x86_footprint` holds for the box program started with x = 21 (one field per
`let`, with the trivial peak `1·20 + 1`): the machine prints 42, returns 42, and never writes above 64·24
bytes of its heap -/
example : ∃ fuel',
    (runItems (C06_boxRoutine.map fun c => (c, 0)) [21] fuel' {}).out = [(true, 42)] ∧
    (runItems (C06_boxRoutine.map fun c => (c, 0)) [21] fuel' {}).res = .done 42 ∧
    (runItems (C06_boxRoutine.map fun c => (c, 0)) [21] fuel' {}).maxHeapWritten ≤ 64 * (1 * 20 + 1 + 1 + 2) := by
  have hcompM : ∃ k, (compile mockSym true C06_boxProg).run 0 = .ok ((C06_boxOps, 1), k) := ⟨_, rfl⟩
  obtain ⟨c', hcompM⟩ := hcompM
  have hcompX : compileX86 C06_boxProg true 0 = .ok (C06_boxBody, 1) := rfl
  have hrout : intoRoutine C06_boxBody 1 = .ok C06_boxRoutine := rfl
  have hrun : Pos.run C06_boxProg [21] 20 = ⟨[(true, 42)], .done 42⟩ := by decide
  exact C10_x86_footprint C06_boxProg [21] true C06_boxBody C06_boxRoutine 1 C06_boxMain C06_boxOps c'
    (by decide) (linTypedCheck_sound C06_boxProg rfl) C06_boxProg_data C06_boxProg_inRange hcompM (by decide)
    hcompX hrout (by decide) rfl (by decide)
    (C06_capacity_of_run C06_boxProg 20 _ (by decide) (by decide)) 20 _ _ (by decide) hrun {}
    machOK_default rfl rfl (by decide) (by decide) (1 * 20 + 1) (by decide)
    (C06_boxRoutine.map fun c => (c, 0)) (by simp [List.map_map, Function.comp]) C06_boxRoutine_fits
    (C10_peak_trivial _ _ _ _ _ _ _ _)

end Scc.X86

#print axioms Scc.X86.C10_peak_trivial
#print axioms Scc.X86.C10_mhw_in_heap
#print axioms Scc.X86.C10_larger_heap
#print axioms Scc.X86.C10_x86_frontier_bound
#print axioms Scc.X86.C10_x86_every_prefix
#print axioms Scc.X86.C10_x86_data_programs
#print axioms Scc.X86.C10_x86_footprint
#print axioms Scc.X86.C10_x86_footprint_loaded
#print axioms Scc.X86.C10_x86_data_size
#print axioms Scc.X86.C10_x86_data_size_loaded
#print axioms Scc.X86.C10_boxLoop_constant_space
#print axioms Scc.X86.C10_boxProg_footprint
#print axioms Scc.X86.C10_x86_coarse
