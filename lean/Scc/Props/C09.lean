/-
Scc.Props.C09 — heap consistency (backend-independent part: DESIGN.md §5 C09 T1, T2).

C09 (fixed text): "At every statement boundary of every execution of generated code, on every
backend, each heap block below the allocation frontier is in exactly one state: reachable from the
live variables, on the immediately reusable free list, on the deferred free list, or waiting beneath
a deferred block; and the count stored in each reachable block equals the number of references to it
from live variables and from fields of reachable or deferred blocks, minus one. Hence no block is
used after release, released twice or lost, and generated code touches no memory outside its heap,
its spill area and what it pushed."

What is proved here, for ALL histories of heap operations (no bound on length, heap size, addresses):
the model of the emitted heap code (`Scc.Heap.Model`, transcribed from memory.rs of the three
backends, which implement the same algorithm) never faults — i.e. never touches a word outside
`[base, limit)`, never dereferences null — and keeps the invariant `Inv` (`Scc.Heap.Inv`: clauses
(i)–(v) = the property text) at every op boundary, provided the history is well-formed (`WfOps`: an
op only mentions roots that are held; `load` is applied to an object of the shape its kinds describe)
and the heap is large enough for the blocks the history can allocate.

What is NOT proved here:
* the bridge from "histories of heap operations" to "executions of generated code on a backend"
  (which statements perform which ops with which roots) is the job of C06–C08 (Theorem A/B) and,
  until then, of the runtime monitor `invCheck` / `invCheckFn` (O_heap in DESIGN.md), whose soundness
  IS proved here (`invCheck_sound`, `invCheckFn_sound`).
-/
import Scc.Heap.ProofsCheck

namespace Scc.Heap

/-- C09, heap part: every well-formed history runs without fault and ends in a state satisfying the
invariant. -/
def C09_heap_statement : Prop :=
  ∀ (base limit : Nat) (ops : List HOp), 0 < base →
    WfOps (init base limit, []) ops →
    base + 64 * (storeCost ops + 2) ≤ limit →
    ∃ s roots, applyOps (init base limit, []) ops = .ok (s, roots) ∧ Inv s roots

theorem C09_inv_init (base limit : Nat) (hb : 0 < base) (hl : base + 128 ≤ limit) :
    Inv (init base limit) [] :=
  ⟨[base], [], [], base + 64, init_inv hb hl⟩

theorem C09_inv_all_histories : C09_heap_statement := by
  intro base limit ops hb hwf hroom
  obtain ⟨s, roots, lin, lazy, live, F, hap, _, hi, _⟩ :=
    applyOps_spec ops 0 (init_inv hb (by omega)) hwf
      (by show base + 64 + 64 * storeCost ops + 64 ≤ limit; omega)
      (by show (base + 64 - base) / 64 ≤ 0 + 1; omega)
  exact ⟨s, roots, hap, lin, lazy, live, F, hi⟩

theorem storeCost_append (a b : List HOp) : storeCost (a ++ b) = storeCost a + storeCost b := by
  induction a with
  | nil => simp [storeCost]
  | cons op a ih => rw [List.cons_append, storeCost_cons, storeCost_cons, ih]; omega

theorem WfOps_prefix : ∀ (a b : List HOp) (st : HState × List Nat), WfOps st (a ++ b) → WfOps st a
  | [], _, _, _ => trivial
  | _ :: a, b, _, h => ⟨h.1, fun st' hst => WfOps_prefix a b st' (h.2 st' hst)⟩

/-- ... and therefore at EVERY op boundary of the history (every prefix). -/
theorem C09_inv_every_boundary (base limit : Nat) (ops : List HOp) (hb : 0 < base)
    (hwf : WfOps (init base limit, []) ops) (hroom : base + 64 * (storeCost ops + 2) ≤ limit) :
    ∀ pre rest, ops = pre ++ rest →
      ∃ s roots, applyOps (init base limit, []) pre = .ok (s, roots) ∧ Inv s roots := by
  intro pre rest he
  subst he
  refine C09_inv_all_histories base limit pre hb (WfOps_prefix pre rest _ hwf) ?_
  rw [storeCost_append] at hroom; omega

/-! The per-operation theorems (C09-T1) are in `Scc.Heap.ProofsOps` / `ProofsStore` / `ProofsLoad`:
`shareBlock_spec`, `eraseBlock_spec` (both cases), `acquire_spec` (three cases, deferred erasure of
up to three children, two of which may coincide), `storeBlock_spec`, `storeFields_spec`,
`storeObj_spec` (single blocks and chains), `loadFields_release_spec`, `loadFields_share_spec`,
`loadObj_spec`, `applyOp_spec`. -/

/-! ### Non-vacuity -/

/-- A well-formed history (an object of 7 integer fields = a chain of 3 blocks). -/
example : WfOps (init 4096 8192, [])
    [.store [.int 1, .int 2, .int 3, .int 4, .int 5, .int 6, .int 7]] :=
  ⟨⟨[], rfl⟩, fun _ _ => trivial⟩

example : ∃ s roots, applyOps (init 4096 8192, [])
    [.store [.int 1, .int 2, .int 3, .int 4, .int 5, .int 6, .int 7]] = .ok (s, roots) ∧ Inv s roots :=
  C09_inv_all_histories 4096 8192 _ (by omega) ⟨⟨[], rfl⟩, fun _ _ => trivial⟩ (by simp [storeCost])

/-- Concrete evaluation of one store from the initial state (an object of two integers). -/
theorem C09_example_store : ∃ s1, applyOp (init 4096 8192, []) (.store [.int 5, .int 7]) = .ok (s1, [4096]) ∧
    s1.mem.get 4096 = 0 ∧ s1.mem.get (4096+16) = 0 ∧ s1.mem.get (4096+32) = 0 ∧ s1.mem.get (4096+48) = 0 := by
  simp [applyOp, consumeRoots, ptrsOf, FieldRef.toField, storeObj]
  rw [storeFields]
  simp [restLength, fieldsPerBlock, BlockPosition.toNat, storeValues, storeValuesRev, storeValue, storeZeros,
    storeZerosFrom, init, wr, rd, acquire, fstOff, sndOff, fieldOffset, blockSize, Mem.get_set, posOther]
  rw [storeFields]
  simp [Mem.get_set]

/-- A well-formed history with a load: build an object of two integers, then consume it. -/
theorem C09_example_wf : WfOps (init 4096 8192, []) [.store [.int 5, .int 7], .load 4096 [false, false]] := by
  obtain ⟨s1, hst, h0, h16, h32, h48⟩ := C09_example_store
  refine ⟨⟨[], rfl⟩, ?_⟩
  intro st' hst'
  rw [hst] at hst'
  injection hst' with hst'
  subst hst'
  refine ⟨⟨by simp, ?_⟩, fun _ _ => trivial⟩
  unfold LoadObjPre
  simp only [List.cons_ne_nil, if_false, h0, if_true]
  refine ⟨by omega, ?_⟩
  rw [LoadPre]
  simp only [List.cons_ne_nil, ↓reduceDIte, List.length_cons, List.length_nil, restLength, fieldsPerBlock,
    BlockPosition.toNat]
  simp only [Nat.zero_add, Nat.reduceAdd, Nat.sub_zero, Nat.reduceLeDiff, if_true, List.take_zero,
    List.drop_zero]
  refine ⟨by rw [LoadPre]; simp, ?_⟩
  intro s1' vals1 blk hl
  rw [loadFields_nil] at hl
  injection hl with hl
  injection hl with e1 e2
  injection e2 with e2 e3
  subst e1 e3
  refine ⟨⟨?_, by simp⟩, by simp⟩
  intro i hi hs
  have : i = 0 ∨ i = 1 ∨ i = 2 := by simp [fieldsPerBlock, BlockPosition.toNat] at hi; omega
  rcases this with rfl | rfl | rfl
  · simpa [fstOff, fieldOffset] using h16
  · simpa [fstOff, fieldOffset] using h32
  · simpa [fstOff, fieldOffset] using h48

example : ∃ s roots, applyOps (init 4096 8192, [])
    [.store [.int 5, .int 7], .load 4096 [false, false]] = .ok (s, roots) ∧ Inv s roots :=
  C09_inv_all_histories 4096 8192 _ (by omega) C09_example_wf (by simp [storeCost])

/-- The hypotheses of the per-operation theorems are satisfiable: the initial state. -/
example : ∃ s' b, acquire (init 4096 8192) = .ok (s', b) := by
  obtain ⟨s', _, _, _, _, h, _⟩ := acquire_spec (init_inv (base := 4096) (limit := 8192) (by omega) (by omega))
    (fun _ _ => by show 4096 + 64 + 128 ≤ 8192; omega)
  exact ⟨s', _, h⟩

/-! ### Bridge statement (not proved here), acyclicity, checker soundness -/

/-! The bridge to executions of generated code — "at every statement boundary of every execution of
the code emitted by backend B for a linearized AxCut program, the machine's heap memory, the HEAP and
FREE registers and the pointer temporaries of the non-external variables of the current context
satisfy `InvW`" — is NOT stated or proved in this component: it needs the backend/machine models of
C06–C08 (which heap ops a statement performs with which roots).  Until then the tie is the runtime
monitor `invCheckFn` (proved sound below) run on concrete executions. -/

/-- No garbage cycles: `Inv` contains clause (vi) (`InvW.acyclic`), so along every well-formed
history the live blocks stay topologically sortable; with (iv) every live block is therefore reachable
from a root or from a deferred block ("no block is lost"). -/
theorem C09_no_garbage_cycles (base limit : Nat) (ops : List HOp) (hb : 0 < base)
    (hwf : WfOps (init base limit, []) ops) (hroom : base + 64 * (storeCost ops + 2) ≤ limit) :
    ∃ s roots lin lazy live F, applyOps (init base limit, []) ops = .ok (s, roots) ∧
      InvS s roots [] lin lazy live F ∧ ∃ ord, ord.Perm live ∧ TopoSorted s.mem.get ord := by
  obtain ⟨s, roots, hap, lin, lazy, live, F, hi⟩ := C09_inv_all_histories base limit ops hb hwf hroom
  exact ⟨s, roots, lin, lazy, live, F, hap, hi, hi.acyclic⟩

/-- Soundness of the executable checker (the runtime monitor of O_heap): what it accepts satisfies
the invariant; on raw machine memory: `invCheckFn_sound`.  (Completeness is not proved; the checker
accepts every prefix of 300 000 random well-formed ops.) -/
theorem invCheck_sound (s : HState) (roots : List Nat) (h : invCheck s roots = .ok ()) :
    Inv s roots := invCheck_sound' s roots h

#print axioms C09_inv_all_histories
#print axioms C09_inv_every_boundary
#print axioms C09_inv_init
#print axioms C09_no_garbage_cycles
#print axioms invCheck_sound
#print axioms invCheckFn_sound
#print axioms opPreB_sound

end Scc.Heap
