import Scc.Props.C11Counts
import Scc.Props.C11

namespace Scc.Props.C11
open Scc.PMoves

section
variable {V : Type} [DecidableEq V]

/-- the old binding `b` is an object binding whose `Fst` temporary holds `v` -/
def objHolds (tfp : Nat → Option Nat) (ctx : Ctx) (σ : Nat → V) (v : V) (b : Nat × Chi) : Bool :=
  b.2 != Chi.ext &&
  (match variableTemporary tfp 0 ctx b.1 with
   | none => false
   | some t => decide (σ t = v))

/-- number of old object variables holding `v` -/
def oldRefs (tfp : Nat → Option Nat) (ctx : Ctx) (σ : Nat → V) (v : V) : Nat :=
  (ctx.filter (objHolds tfp ctx σ v)).length

/-- number of new variables bound to an old object variable holding `v` (after the moves these are the
    new variables whose `Fst` holds `v`: `C11_substitution_correct`) -/
def newRefs (tfp : Nat → Option Nat) (re : Rearrange) (ctx : Ctx) (σ : Nat → V) (v : V) : Nat :=
  (re.filter (fun no => ctx.any (fun b => b.1 == no.2 && objHolds tfp ctx σ v b))).length

theorem bindingDelta_eq (tfp : Nat → Option Nat) (re : Rearrange) (ctx : Ctx) (σ : Nat → V) (v : V)
    (b : Nat × Chi) :
    bindingDelta tfp re ctx σ v b
      = if objHolds tfp ctx σ v b then (targetCount re b.1 : Int) - 1 else 0 := by
  unfold bindingDelta objHolds
  by_cases hext : b.2 = Chi.ext
  · simp [hext]
  · cases hv : variableTemporary tfp 0 ctx b.1 with
    | none => simp [hext]
    | some t => by_cases h : σ t = v <;> simp [hext, h]

theorem sum_bindingDelta (tfp : Nat → Option Nat) (re : Rearrange) (ctx : Ctx) (σ : Nat → V) (v : V)
    (bs : List (Nat × Chi)) :
    (bs.map (bindingDelta tfp re ctx σ v)).sum
      = ((bs.map (fun b => if objHolds tfp ctx σ v b then targetCount re b.1 else 0)).sum : Nat)
        - ((bs.filter (objHolds tfp ctx σ v)).length : Nat) := by
  induction bs with
  | nil => simp
  | cons b bs ih =>
    simp only [List.map_cons, List.sum_cons, ih, bindingDelta_eq, List.filter_cons]
    by_cases h : objHolds tfp ctx σ v b = true
    · simp only [h, if_true, List.length_cons]; omega
    · simp only [h]; simp

theorem sum_indicator {α : Type} (key : α → Nat) (P : α → Bool) (k : Nat) :
    ∀ (l : List α), (l.map key).Nodup →
      (l.map (fun b => if P b then (if key b == k then 1 else 0) else 0)).sum
        = if l.any (fun b => key b == k && P b) then 1 else 0 := by
  intro l
  induction l with
  | nil => intro _; simp
  | cons c rest ih =>
    intro hn
    rw [List.map_cons, List.nodup_cons] at hn
    have ih' := ih hn.2
    simp only [List.map_cons, List.sum_cons, ih', List.any_cons]
    by_cases hk : key c = k
    · -- no other element has this key
      have hrest : rest.any (fun b => key b == k && P b) = false := by
        rw [List.any_eq_false]
        intro b hb
        have : key b ≠ k := fun e => hn.1 (by rw [hk, ← e]; exact List.mem_map_of_mem (f := key) hb)
        simp [this]
      by_cases hp : P c = true <;> simp [hk, hp, hrest]
    · have : (key c == k) = false := by simpa using hk
      simp [this]

theorem targetCount_cons (no : (Nat × Chi) × Nat) (re : Rearrange) (id : Nat) :
    targetCount (no :: re) id = (if id == no.2 then 1 else 0) + targetCount re id := by
  unfold targetCount
  rw [List.filter_cons]
  by_cases h : (id == no.2) = true
  · simp [h]; omega
  · simp [h]

omit [DecidableEq V] in
theorem sum_targetCount (ctx : Ctx)
    (hnd : (ctx.map (·.1)).Nodup) (P : Nat × Chi → Bool) :
    ∀ (re : Rearrange),
      (ctx.map (fun b => if P b then targetCount re b.1 else 0)).sum
        = (re.filter (fun no => ctx.any (fun b => b.1 == no.2 && P b))).length := by
  intro re
  induction re with
  | nil =>
    have : ∀ (l : List (Nat × Chi)), (l.map (fun b => if P b then targetCount [] b.1 else 0)).sum = 0 := by
      intro l
      induction l with
      | nil => rfl
      | cons c rest ihl => simp only [List.map_cons, List.sum_cons, ihl]; simp [targetCount]
    simp [this]
  | cons no re ih =>
    have hsplit : ∀ (l : List (Nat × Chi)),
        (l.map (fun b => if P b then targetCount (no :: re) b.1 else 0)).sum
          = (l.map (fun b => if P b then (if b.1 == no.2 then 1 else 0) else 0)).sum
            + (l.map (fun b => if P b then targetCount re b.1 else 0)).sum := by
      intro l
      induction l with
      | nil => simp
      | cons c rest ihl =>
        simp only [List.map_cons, List.sum_cons]
        rw [ihl, targetCount_cons]
        by_cases hp : P c = true <;> simp only [hp, if_true] <;> simp <;> omega
    rw [hsplit, ih, sum_indicator (fun b : Nat × Chi => b.1) P no.2 ctx hnd, List.filter_cons]
    by_cases h : ctx.any (fun b => b.1 == no.2 && P b) = true
    · simp [h]; omega
    · simp [h]

/-- C11 (counts follow the environment).  In a context with distinct names, the refcount instructions
    change the count of every value `v` by
      (number of new variables bound to an old object variable holding `v`)
      − (number of old object variables holding `v`). -/
theorem C11_counts_balance (tfp : Nat → Option Nat) (re : Rearrange) (ctx : Ctx) (σ : Nat → V)
    (cnt : V → Int) (v : V) (hnd : (ctx.map (·.1)).Nodup) :
    runROps σ (ctx.flatMap (refOpsFor tfp re ctx)) cnt v
      = cnt v + (newRefs tfp re ctx σ v : Int) - (oldRefs tfp ctx σ v : Int) := by
  rw [C11_counts, sum_bindingDelta, sum_targetCount ctx hnd]
  unfold newRefs oldRefs
  omega
/-- Link to the moves (`C11_substitution_correct`): every new variable counted by `newRefs` -- bound to an
    old OBJECT variable whose `Fst` temporary holds `v` -- has, after the moves of the same statement, a
    `Fst` temporary holding `v`.  So `C11_counts_balance` reads: count after = count before
    + (new variables now referring to `v`) − (old variables that referred to `v`). -/
theorem C11_new_variable_holds (re : Rearrange) (ctx : Ctx) (csE : Root → Bool)
    (hctx : (ctx.map (·.1)).Nodup) (hnew : (re.map (·.1.1)).Nodup) :
    ∃ rc mv, codeSubstitute genericTemporary re ctx csE = .ok rc mv ∧
      rc = ctx.flatMap (refOpsFor genericTemporary re ctx) ∧
      ∀ (σ : Nat → V) (sc : V) (v : V), ∀ e ∈ re, ∀ b ∈ ctx, e.2 = b.1 →
        objHolds genericTemporary ctx σ v b = true →
        ∃ t, variableTemporary genericTemporary 0 (newContext re) e.1.1 = some t ∧
          (run mv (σ, sc)).1 t = v := by
  obtain ⟨rc, mv, hcode, hrc, hmoves⟩ := C11_substitution_correct (V := V) re ctx csE hctx hnew
  refine ⟨rc, mv, hcode, hrc, ?_⟩
  intro σ sc v e he b hb heb hobj
  unfold objHolds at hobj
  have hext : b.2 ≠ Chi.ext := by
    intro h; simp [h] at hobj
  cases hvs : variableTemporary genericTemporary 0 ctx b.1 with
  | none => simp [hvs] at hobj
  | some s =>
    have hσ : σ s = v := by simpa [hvs, hext] using hobj
    have hmem : e.1 ∈ newContext re := List.mem_map.mpr ⟨e, he, rfl⟩
    obtain ⟨p, _, _, hvt⟩ := variableTemporary_of_mem genericTemporary 0 hmem
    refine ⟨2 * p + 0, by rw [hvt]; rfl, ?_⟩
    rw [(hmoves σ sc).1 s (2 * p + 0) ⟨b, hb, e, he, heb, 0, Or.inr ⟨rfl, hext⟩, hvs, by rw [hvt]; rfl⟩]
    exact hσ

end

/-- `C11_erase_once` with the REAL placement of each backend (`temporary_from_position` of x86-64, AArch64,
    RV64 is injective where defined): a dropped object variable is erased exactly once on each of them. -/
theorem C11_erase_once_backends (re : Rearrange) (ctx : Ctx) (hnd : (ctx.map (·.1)).Nodup)
    (b : Nat × Chi) (hb : b ∈ ctx) (hext : b.2 ≠ Chi.ext) (hdrop : targetCount re b.1 = 0) :
    (∀ t, variableTemporary X86.temporaryFromPosition 0 ctx b.1 = some t →
      (ctx.flatMap (refOpsFor X86.temporaryFromPosition re ctx)).count (.erase t) = 1) ∧
    (∀ t, variableTemporary A64.temporaryFromPosition 0 ctx b.1 = some t →
      (ctx.flatMap (refOpsFor A64.temporaryFromPosition re ctx)).count (.erase t) = 1) ∧
    (∀ t, variableTemporary RV64.temporaryFromPosition 0 ctx b.1 = some t →
      (ctx.flatMap (refOpsFor RV64.temporaryFromPosition re ctx)).count (.erase t) = 1) :=
  ⟨fun t ht => C11_erase_once _ X86.tfp_injective re ctx hnd b hb hext hdrop t ht,
   fun t ht => C11_erase_once _ A64.tfp_injective re ctx hnd b hb hext hdrop t ht,
   fun t ht => C11_erase_once _ RV64.tfp_injective re ctx hnd b hb hext hdrop t ht⟩

-- non-vacuity (the example of C11Counts.lean): object 100 had 1 reference among the old variables and has 2
-- among the new ones; object 200 had 1 and has 0
example : newRefs genericTemporary reC ctxC σC 100 = 2 ∧ oldRefs genericTemporary ctxC σC 100 = 1 := by decide
example : newRefs genericTemporary reC ctxC σC 200 = 0 ∧ oldRefs genericTemporary ctxC σC 200 = 1 := by decide

end Scc.Props.C11

open Scc.Props.C11 in
#print axioms C11_counts_balance
open Scc.Props.C11 in
#print axioms C11_new_variable_holds
open Scc.Props.C11 in
#print axioms C11_erase_once_backends
