/-
Scc.Props.C10 — heap footprint (DESIGN.md §5 C10 T-full / T3, on the heap model).

C10 (fixed text): "Generated code takes fresh memory from the unused part of the heap only when both
free lists are empty, so at every moment the highest heap address ever written lies at most a small
constant number of blocks above the peak number of simultaneously reachable blocks. A computation
that repeatedly builds and drops structures therefore runs in space independent of the number of
repetitions."

Precise form proved here: `acquire_block` moves the frontier (by exactly one block) iff the linear
free list consists of the block being handed out and the deferred list is empty; along every
well-formed history `blocksBelowFrontier ≤ peakLive + 1`, where `peakLive` is the maximum over the op
boundaries of the number of blocks that are neither on the linear free list nor on the deferred list,
i.e. the reachable blocks INCLUDING those waiting beneath a deferred block (a deferred block keeps its
children alive until it is reused; counting only blocks reachable from the roots the bound is false:
drop a list of n cells and allocate nothing afterwards).  The constant 1 is the never-empty linear
free list and is attained by the initial state (1 block below the frontier, 0 live).  Every heap word
ever written lies below `frontier + 64` (the model faults on any access outside `[base, limit)` and
the invariant keeps everything from the frontier on zero).
-/
import Scc.Heap.ProofsHist

namespace Scc.Heap

/-- `acquire_block` takes fresh memory only when both free lists are exhausted. -/
theorem C10_bump_only_when_empty {s s' : HState} {b : Nat} {roots pend : List Nat}
    (h : InvP s roots pend) (hroom : s.frontier + 128 ≤ s.limit)
    (hacq : acquire s = .ok (s', b)) (hF : s'.frontier ≠ s.frontier) :
    s.linList = [b] ∧ s.freeList = [s.frontier] ∧ s'.frontier = s.frontier + 64 := by
  obtain ⟨lin, lazy, live, F, hi⟩ := h
  have hFe := hi.frontier_eq
  obtain ⟨s'', lin', lazy', live', F', hacq', _, _, hmem, hi', hd⟩ :=
    acquire_spec hi (fun _ _ => by rw [← hFe]; exact hroom)
  rw [hacq] at hacq'
  injection hacq' with e
  injection e with e1 e2
  subst e1
  have hFe' := hi'.frontier_eq
  rcases hd with ⟨h1, _⟩ | ⟨h1, h2, h3, _⟩
  · exact absurd (by rw [hFe', hFe, h1]) hF
  · refine ⟨?_, ?_, by rw [hFe', hFe, h1]⟩
    · rw [hi.linList_eq, e2]
      match lin, h2, hmem with
      | [x], _, hm => simp at hm; rw [hm]
    · rw [hi.freeList_eq, h3, hFe]; rfl

/-- Conversely, when both are exhausted (and there is room) the frontier moves by one block. -/
theorem C10_bump_when_empty {s : HState} {roots pend : List Nat}
    (h : InvP s roots pend) (hroom : s.frontier + 128 ≤ s.limit)
    (hlin : s.linList.length = 1) (hfree : s.freeList.length = 1) :
    ∃ s', acquire s = .ok (s', s.heap) ∧ s'.frontier = s.frontier + 64 := by
  obtain ⟨lin, lazy, live, F, hi⟩ := h
  have hFe := hi.frontier_eq
  obtain ⟨s', lin', lazy', live', F', hacq', _, _, _, hi', hd⟩ :=
    acquire_spec hi (fun _ _ => by rw [← hFe]; exact hroom)
  refine ⟨s', hacq', ?_⟩
  rw [hi'.frontier_eq, hFe]
  rcases hd with ⟨_, h2⟩ | ⟨h1, _⟩
  · exfalso; apply h2
    rw [hi.linList_eq] at hlin
    rw [hi.freeList_eq] at hfree
    refine ⟨hlin, ?_⟩
    simp only [List.length_append, List.length_cons, List.length_nil] at hfree
    exact List.length_eq_zero_iff.mp (by omega)
  · exact h1

/-- C10: along every well-formed history the number of blocks below the frontier is at most the
peak number of live blocks plus one. -/
def C10_statement : Prop :=
  ∀ (base limit : Nat) (ops : List HOp), 0 < base →
    WfOps (init base limit, []) ops →
    base + 64 * (storeCost ops + 2) ≤ limit →
    ∃ s roots, applyOps (init base limit, []) ops = .ok (s, roots) ∧
      s.blocksBelowFrontier ≤ peakLive (init base limit, []) ops + 1

theorem C10_frontier_bound : C10_statement := by
  intro base limit ops hb hwf hroom
  obtain ⟨s, roots, lin, lazy, live, F, hap, hsame, hi, hbound⟩ :=
    applyOps_spec ops 0 (init_inv hb (by omega)) hwf
      (by show base + 64 + 64 * storeCost ops + 64 ≤ limit; omega)
      (by show (base + 64 - base) / 64 ≤ 0 + 1; omega)
  refine ⟨s, roots, hap, ?_⟩
  rw [hi.blocksBelowFrontier_eq, hsame.base]
  have : (init base limit).base = base := rfl
  rw [this] at hbound
  omega

/-- Space independent of the number of repetitions: if at no op boundary more than `P` blocks are
live, the frontier never rises above `P + 1` blocks, however long the history is. -/
theorem C10_space_independent_of_length (base limit P : Nat) (ops : List HOp) (hb : 0 < base)
    (hwf : WfOps (init base limit, []) ops) (hroom : base + 64 * (storeCost ops + 2) ≤ limit)
    (hP : peakLive (init base limit, []) ops ≤ P) :
    ∃ s roots, applyOps (init base limit, []) ops = .ok (s, roots) ∧
      s.frontier ≤ base + 64 * (P + 1) := by
  obtain ⟨s, roots, lin, lazy, live, F, hap, hsame, hi, hbound⟩ :=
    applyOps_spec ops 0 (init_inv hb (by omega)) hwf
      (by show base + 64 + 64 * storeCost ops + 64 ≤ limit; omega)
      (by show (base + 64 - base) / 64 ≤ 0 + 1; omega)
  refine ⟨s, roots, hap, ?_⟩
  rw [hi.frontier_eq]
  have hFb := hi.frontier_block
  rw [hsame.base] at hFb
  have : (init base limit).base = base := rfl
  rw [this] at hbound hFb
  unfold IsBlock at hFb
  omega

/-- The constant 1 cannot be improved: the initial state has one block below the frontier and no
live block. -/
theorem C10_constant_tight (base limit : Nat) (hb : 0 < base) (hl : base + 128 ≤ limit) :
    (init base limit).blocksBelowFrontier = (init base limit).liveCount + 1 := by
  have hi := init_inv hb hl
  rw [hi.blocksBelowFrontier_eq, hi.liveCount_eq]
  show (base + 64 - base) / 64 = 0 + 1
  omega

/-! ### Non-vacuity -/

example : ∃ s', acquire (init 4096 8192) = .ok (s', 4096) ∧ s'.frontier = 4096 + 64 + 64 := by
  have hi : InvP (init 4096 8192) [] [] := ⟨_, _, _, _, init_inv (by omega) (by omega)⟩
  have hf : (init 4096 8192).frontier = 4096 + 64 := (init_inv (by omega) (by omega)).frontier_eq
  have hl : (init 4096 8192).linList = [4096] := (init_inv (by omega) (by omega)).linList_eq
  have hfl : (init 4096 8192).freeList = [] ++ [4096 + 64] := (init_inv (by omega) (by omega)).freeList_eq
  obtain ⟨s', h1, h2⟩ := C10_bump_when_empty hi (by rw [hf]; show 4096 + 64 + 128 ≤ 8192; omega) (by rw [hl]; rfl) (by rw [hfl]; rfl)
  exact ⟨s', h1, by rw [h2, hf]⟩

example : ∃ s roots, applyOps (init 4096 8192, []) [.store [.int 1, .int 2]] = .ok (s, roots) ∧
    s.blocksBelowFrontier ≤ peakLive (init 4096 8192, []) [.store [.int 1, .int 2]] + 1 :=
  C10_frontier_bound 4096 8192 _ (by omega) ⟨⟨[], rfl⟩, fun _ _ => trivial⟩ (by simp [storeCost])

#print axioms C10_bump_only_when_empty
#print axioms C10_bump_when_empty
#print axioms C10_frontier_bound
#print axioms C10_space_independent_of_length
#print axioms C10_constant_tight

end Scc.Heap
