/-
  Scc.Props.C06Generic — Theorem A (C06–C08, the GENERIC simulation): one step of the AxCut positional
  machine (Scc/AxCut/SemPos.lean) on a linearized program is simulated by steps of the abstract
  backend machine (Scc/Backend/AbstractMachine.lean) on the code that the generic code generator
  produces with the mock backend.

  PROVED, for EVERY statement form (lit op print ifc exit call subst let switch create invoke):
  * `TheoremA_full`  (= `TheoremA_full_statement`): every step of the positional machine from a typed,
      represented state is simulated, and the new state is represented again.
  * `TheoremA_run`   (= `TheoremA_run_full_statement`): every terminating run of a label-safe,
      linearly typed program is reproduced by the abstract machine on the generated code: same trace,
      same result.
  * fragments by name: `TheoremA_load` (`switch`, `invoke`: the `load` contract, unique case = the block
      is freed and its children taken over, shared case = count decremented and children shared; proofs
      `load_sim`, `sim2_switch`, `sim2_invoke` in Scc/Backend/ProofsLoad.lean), `TheoremA_subst`
      (`subst` with object / closure variables: `erase` / `share` against the counting invariant,
      moves of both temporaries of a position; `sim2_subst`, `run_cwc` in ProofsSubstObj.lean,
      `eraseLoop_ok` in ProofsErase.lean, `conns_wf2` in ProofsConn2.lean), and the earlier
      `TheoremA_heapfree`, `TheoremA_alloc`, `TheoremA_run_int`, `TheoremA_init` (kept, against the
      original relation `Sim.Rel`).

  The representation relation of `TheoremA_full` is `Sim2.Rel2` (Scc/Backend/SimDefs2.lean), a
  STRENGTHENING of the original `Sim.Rel` (SimDefs.lean): position i's value is represented by the
  temporaries 2i (pointer part) and 2i+1 (word part); objects and closure environments live in the
  abstract heap, reference counts are exact (`HeapOK`); the code of the current statement is at the
  program counter.  Two things had to change (both needed for `switch`/`invoke`, see SimDefs2.lean):
    (1) every heap field and every position carries the exact KIND (`prd`/`cns`/`ext`) of the value it
        represents (`load` compares the full kind lists: `load: kind-mismatch`); `Sim.Rel` only
        recorded "is `ext`";
    (2) the code at the program counter / of a closure's methods is the code generated for SOME
        context with the same KEYS (ids, kinds, types) as the positional machine's context: `create`
        generates the method code for the context suffix it splits off, `LinTyped` relates that
        suffix to the annotated environment only up to names, and names influence the emitted code
        (`transpose` iterates a `BTreeMap` ordered by name first).

  `TheoremA_statement` (the ORIGINAL formulation, kept as a `def … : Prop`) is FALSE: theorem
  `TheoremA_statement_false : ¬ TheoremA_statement` at the end of this file (`Sim.Rel` does not record
  whether a heap field is `prd` or `cns` and the statement does not ask for typed values: a `switch` on
  an object whose field was stored with another kind than the clause declares is a step of the
  positional machine, but the abstract `load` is stuck).  `TheoremA_run_statement` (kept as well) is
  the run corollary without the capacity hypotheses (b)–(d) below.  The proved statements differ from
  the original ones exactly by:
    (a) `Rel2` instead of `Rel` ((1), (2) above) and `Pos.StateTyped` (the environment is typed:
        `FieldsTyped`, an invariant of the run by `Pos.step_safe`) instead of `LinTyped` of the statement
        only — with untyped values a `switch` can find an object whose field kinds are not those of the
        clause, and the abstract `load` is stuck;
    (b) `CodeFits code` (fewer than 2^64 instructions): the machine jumps through 64-bit words
        (`jump t` goes to `(value t).toNat`), so code addresses must fit a word;
    (c) `EnoughHeap cfg` (next object id below 2^64; already needed by `TheoremA_alloc`), in
        `TheoremA_run`: `fuel + 1 < 2^64` (the abstract heap never reuses ids; at most one allocation
        per step of the positional machine);
    (d) in `TheoremA_run`: the entry's parameters are `ext i64` (not only `ext`), to start the typing
        invariant (`Pos.ValTyped.int` types integers at `i64`).
  None of these excludes a program or a run of the real pipeline (all are decidable on the program /
  checked on the finite run, cf. the non-vacuity examples at the end: a program with objects that are
  shared, loaded shared and unique, and a program with a closure that is moved and invoked).
  * `init_relX` (ProofsSim2.lean) / `TheoremA_init`: the initial configuration of `Abs.run` represents
    the initial state of `Pos.run`.
  * `defsAt_of_compile` (ProofsSim.lean): every definition's code is in the program at its label.
-/
import Scc.Backend.ProofsSubst
import Scc.Backend.ProofsHeap
import Scc.Backend.ProofsSubstObj
import Scc.Backend.ProofsLoad
import Scc.Backend.ProofsHeap2
import Scc.Backend.ProofsKeys
import Scc.AxCut.LinTyping
import Scc.AxCut.PosSafe
import Scc.Props.C14Generic

set_option linter.unusedVariables false

namespace Scc.Props.C06Generic

open Scc Scc.AxCut Scc.AxCut.Pos Scc.Backend Scc.Backend.Abs Scc.Backend.Sim Scc.Backend.Subst
open Scc.Props.C14Generic (LabelSafe)

/-- the trace grows by the optional output of the step (the machine keeps it most recent first) -/
def outAfter (o : Option (Bool × Word)) (out : List (Bool × Word)) : List (Bool × Word) :=
  match o with
  | some x => x :: out
  | none => out

/-- capacity of the mock numbering (temporaries of positions stay below the special temporaries) -/
def WithinCapacity (Γ : Ctx) : Prop := 2 * Γ.length + 2 < Mock.T_TEMP

/-- the simulation claim for ONE step of the positional machine from a represented state
    (`k` machine steps; `k = 0` only for a `subst` that needs no move, e.g. the identity) -/
def StepSimulated (P : Program) (hooks : Bool) (prog : Prog) (st : Pos.State) (cfg : Config) : Prop :=
  match Pos.step prog st with
  | .next st' o =>
    WithinCapacity st'.ctx →
    ∃ k cfg', stepsTo P k cfg cfg' ∧ cfg'.out = outAfter o cfg.out ∧ Rel P hooks prog st' cfg'
  | .done v =>
    ∃ k cfg', stepsTo P k cfg cfg' ∧ cfg'.out = cfg.out ∧ Abs.step P cfg' = .halt (.done v)
  | .stuck _ => True

/-- THEOREM A, ORIGINAL formulation (relation `Sim.Rel`, only the statement typed): for the code of a
    label-safe, linearly typed program, every step of the positional machine from a represented state
    is simulated.  FALSE as it stands (`TheoremA_statement_false`); the formulation that is proved is
    `TheoremA_full_statement` (`TheoremA_full`). -/
def TheoremA_statement : Prop :=
  ∀ (hooks : Bool) (prog : Prog) (c : Nat) (code : List MockOp) (nargs c' : Nat),
    (compile mockSym hooks prog).run c = .ok ((code, nargs), c') →
    LabelSafe prog = true → LinTypedProg prog →
    ∀ (st : Pos.State) (cfg : Config),
      Rel (Program.ofOps code) hooks prog st cfg →
      LinTyped prog.types prog.sigs st.ctx st.stmt →
      StepSimulated (Program.ofOps code) hooks prog st cfg

/-- the states the positional machine reaches from `st0` -/
inductive Reachable (prog : Prog) (st0 : Pos.State) : Pos.State → Prop where
  | refl : Reachable prog st0 st0
  | step {st st' : Pos.State} {o : Option (Bool × Word)} :
    Reachable prog st0 st → Pos.step prog st = .next st' o → Reachable prog st0 st'

/-- corollary for whole runs, ORIGINAL formulation: a terminating run of the positional machine is
    reproduced, trace and result, by the abstract machine on the generated code (for some amount of
    fuel).  Proved with three more capacity / typing hypotheses as `TheoremA_run`
    (`TheoremA_run_full_statement`): `CodeFits code`, entry parameters of type `i64`, `fuel + 1 < 2^64`. -/
def TheoremA_run_statement : Prop :=
  ∀ (hooks : Bool) (prog : Prog) (c : Nat) (code : List MockOp) (nargs c' : Nat) (d0 : Def)
    (args : List Word) (fuel : Nat) (out : List (Bool × Word)) (v : Word),
    (compile mockSym hooks prog).run c = .ok ((code, nargs), c') →
    LabelSafe prog = true → LinTypedProg prog → prog.defs.head? = some d0 →
    (∀ b ∈ d0.ctx, b.chi = .ext) →
    -- every context of the run is within capacity
    (∀ st, Reachable prog ⟨d0.ctx, args.map .int, d0.body⟩ st → WithinCapacity st.ctx) →
    Pos.run prog args fuel = ⟨out, .done v⟩ →
    ∃ fuel', Abs.run code (d0.name.print ++ "_") args fuel' = ⟨out, .done v⟩

/-! ## the proved part -/

/-- all variables are integers -/
def IntCtx (Γ : Ctx) : Prop := ∀ b ∈ Γ, b.chi = .ext

/-- the statement forms that neither read nor change the heap (`subst`: on integer contexts) -/
def HeapFree (Γ : Ctx) : Stmt → Prop
  | .lit _ _ _ _ => True
  | .op _ _ _ _ _ _ => True
  | .print _ _ _ _ => True
  | .ifc _ _ _ _ _ => True
  | .exit _ => True
  | .call _ _ => True
  | .subst _ _ => IntCtx Γ
  | _ => False

theorem fresh_of_not_mem_ids {Γ : Ctx} {x : Ident} (h : x.id ∉ Γ.ids) : ∀ b ∈ Γ, b.var.id ≠ x.id := by
  intro b hb e
  apply h
  unfold Ctx.ids
  exact List.mem_map.mpr ⟨b, hb, e⟩

/-- THEOREM A for the heap-free statement forms (one machine step each; `exit`: two). -/
theorem TheoremA_heapfree (hooks : Bool) (prog : Prog) (c : Nat) (code : List MockOp) (nargs c' : Nat)
    (hcomp : (compile mockSym hooks prog).run c = .ok ((code, nargs), c'))
    (hsafe : LabelSafe prog = true)
    (st : Pos.State) (cfg : Config)
    (R : Rel (Program.ofOps code) hooks prog st cfg)
    (hty : LinTyped prog.types prog.sigs st.ctx st.stmt)
    (hf : HeapFree st.ctx st.stmt) :
    StepSimulated (Program.ofOps code) hooks prog st cfg := by
  have hnodup := C14Generic.labels_unique hooks prog c code nargs c' hcomp hsafe
  have D := defsAt_of_compile hooks prog c code nargs c' hcomp hnodup
  obtain ⟨Γ, ρ, s⟩ := st
  unfold StepSimulated
  cases s with
  | lit x n next fv =>
    cases hty with
    | lit _ hfr _ =>
      simp only [Pos.step]
      intro hcap
      obtain ⟨cfg', h1, h2, h3⟩ := sim_lit R (fresh_of_not_mem_ids hfr)
        (by simpa [WithinCapacity] using hcap)
      exact ⟨1, cfg', h1, h2, h3⟩
  | op x a o b next fv =>
    cases hty with
    | op _ _ _ hfr _ =>
      simp only [Pos.step]
      cases ha : readInt Γ ρ a with
      | error e => simp
      | ok va =>
        cases hb : readInt Γ ρ b with
        | error e => simp
        | ok vb =>
          cases hv : Pos.evalOp o va vb with
          | error e => simp [hv]
          | ok v =>
            simp only [hv]
            intro hcap
            obtain ⟨cfg', h1, h2, h3⟩ := sim_op R (fresh_of_not_mem_ids hfr)
              (by simpa [WithinCapacity] using hcap) ha hb hv
            exact ⟨1, cfg', h1, h2, h3⟩
  | print nl a next fv =>
    simp only [Pos.step]
    cases ha : readInt Γ ρ a with
    | error e => simp
    | ok v =>
      simp only
      intro _
      obtain ⟨cfg', h1, h2, h3⟩ := sim_print R ha
      exact ⟨1, cfg', h1, h2, h3⟩
  | ifc srt a b t e =>
    simp only [Pos.step]
    cases ha : readInt Γ ρ a with
    | error err => simp
    | ok va =>
      cases b with
      | none =>
        simp only
        intro _
        obtain ⟨cfg', h1, h2, h3⟩ := sim_ifc (b := none) (vb := 0) R ha rfl
        exact ⟨1, cfg', h1, h2, h3⟩
      | some b' =>
        simp only
        cases hb : readInt Γ ρ b' with
        | error err => simp
        | ok vb =>
          simp only
          intro _
          obtain ⟨cfg', h1, h2, h3⟩ := sim_ifc (b := some b') (vb := vb) R ha hb
          exact ⟨1, cfg', h1, h2, h3⟩
  | exit a =>
    simp only [Pos.step]
    cases ha : readInt Γ ρ a with
    | error e => simp
    | ok v =>
      simp only
      obtain ⟨cfg', h1, h2, h3⟩ := sim_exit R ha
      exact ⟨1, cfg', h1, h2, h3⟩
  | call l args =>
    simp only [Pos.step]
    cases hd : Pos.findDef prog.defs l with
    | none => simp
    | some d =>
      simp only
      by_cases hsh : Pos.chiTys Γ ≠ Pos.chiTys d.ctx ∨ ρ.length ≠ Γ.length
      · simp [hsh]
      · simp only [hsh, if_false]
        intro _
        have hchi : Pos.chiTys Γ = Pos.chiTys d.ctx := by
          by_cases h : Pos.chiTys Γ = Pos.chiTys d.ctx
          · exact h
          · exact absurd (Or.inl h) hsh
        obtain ⟨cfg', h1, h2, h3⟩ := sim_call R D hd hchi
        exact ⟨1, cfg', h1, h2, h3⟩
  | subst pairs next =>
    have hext : IntCtx Γ := hf
    cases hty with
    | subst hnd hhas hnew _ =>
      simp only [Pos.step]
      cases hb : Pos.step.build Γ ρ pairs with
      | error e => simp
      | ok vs =>
        simp only
        intro hcap
        have hnew' : (pairs.map (·.1.var.id)).Nodup := by
          have : ((pairs.map (·.1)).map (·.var.id)).Nodup := hnew
          rw [List.map_map] at this
          exact this
        have hnewext : ∀ p ∈ pairs, p.1.chi = .ext := by
          intro p hp
          obtain ⟨b, hb', _, hchi, _⟩ := hhas p hp
          rw [← hchi]; exact hext b hb'
        have hold : ∀ p ∈ pairs, ∃ b ∈ Γ, b.var.id = p.2.id := by
          intro p hp
          obtain ⟨b, hb', hid, _, _⟩ := hhas p hp
          exact ⟨b, hb', hid⟩
        obtain ⟨k, cfg', h1, h2, h3⟩ := sim_subst R hnd hext hnew' hnewext hold
          (by simpa [WithinCapacity] using hcap) hb
        exact ⟨k, cfg', h1, h2, h3⟩
  | letS _ _ _ _ _ _ => exact absurd hf (by simp [HeapFree])
  | switch _ _ _ _ => exact absurd hf (by simp [HeapFree])
  | create _ _ _ _ _ _ _ => exact absurd hf (by simp [HeapFree])
  | invoke _ _ _ _ => exact absurd hf (by simp [HeapFree])

/-! ## the allocating statements -/

/-- enough heap: object references fit a word -/
def EnoughHeap (cfg : Config) : Prop := cfg.next < 2 ^ 64

/-- side conditions of `TheoremA_alloc` -/
def AllocOK (Γ : Ctx) (cfg : Config) : Stmt → Prop
  | .letS _ _ _ _ _ _ => EnoughHeap cfg
  | .create _ _ env _ _ _ _ =>
    EnoughHeap cfg ∧ ∀ Γc, env = some Γc → Γc = Γ.drop (Γ.length - Γc.length)
  | _ => False

theorem take_of_append {Γ Γ' Γa : Ctx} (h : Γ = Γ' ++ Γa) : Γ.take (Γ.length - Γa.length) = Γ' := by
  subst h; simp

/-- THEOREM A for `let` and `create` (two machine steps each: `store`, then the tag / table address). -/
theorem TheoremA_alloc (hooks : Bool) (prog : Prog) (code : List MockOp)
    (st : Pos.State) (cfg : Config)
    (R : Rel (Program.ofOps code) hooks prog st cfg)
    (hty : LinTyped prog.types prog.sigs st.ctx st.stmt)
    (ha : AllocOK st.ctx cfg st.stmt) :
    StepSimulated (Program.ofOps code) hooks prog st cfg := by
  obtain ⟨Γ, ρ, s⟩ := st
  unfold StepSimulated
  cases s with
  | letS x ty tag args next fv =>
    cases hty with
    | @letS _ Γ' Γa _ _ _ _ sig _ _ _ hsplit hkeys _ _ hfr _ =>
      have hlenA : Γa.length = args.length := by
        have := congrArg List.length hkeys
        simpa [Ctx.keys] using this
      have hsplit' : Γ = Γ' ++ Γa := hsplit
      have hk : args.length ≤ Γ.length := by rw [hsplit']; simp; omega
      simp only [Pos.step]
      by_cases hsh : Γ.length < args.length ∨ ρ.length ≠ Γ.length
      · simp [hsh]
      · simp only [hsh, if_false]
        cases hpos : Pos.tagPosition prog.types ty tag with
        | error e => simp
        | ok pos =>
          simp only
          intro hcap
          have htake : Γ.take (Γ.length - args.length) = Γ' := by
            rw [← hlenA]; exact take_of_append hsplit'
          obtain ⟨cfg', h1, h2, h3⟩ := sim_let R hk
            (by rw [htake]; exact fresh_of_not_mem_ids hfr) hpos
            (by simpa [WithinCapacity] using hcap) ha
          exact ⟨2, cfg', h1, h2, h3⟩
  | create x ty env clauses next f1 f2 =>
    cases hty with
    | @create _ Γn Γe Γc _ _ _ _ _ _ _ _ hsplit hkeys _ _ _ hfr _ =>
      obtain ⟨hheap, hann⟩ := ha
      have hΓc := hann Γc rfl
      have hlenE : Γe.length = Γc.length := by
        have := congrArg List.length hkeys
        simpa [Ctx.keys] using this
      have hsplit' : Γ = Γn ++ Γe := hsplit
      have hk : Γc.length ≤ Γ.length := by rw [hsplit']; simp; omega
      simp only [Pos.step]
      by_cases hsh : Γ.length < Γc.length ∨ ρ.length ≠ Γ.length
      · simp [hsh]
      · simp only [hsh, if_false]
        intro hcap
        have htake : Γ.take (Γ.length - Γc.length) = Γn := by
          rw [← hlenE]; exact take_of_append hsplit'
        obtain ⟨cfg', h1, h2, h3⟩ := sim_create R hk hΓc
          (by rw [htake]; exact fresh_of_not_mem_ids hfr)
          (by simpa [WithinCapacity] using hcap) hheap
        exact ⟨2, cfg', h1, h2, h3⟩
  | lit _ _ _ _ => exact absurd ha (by simp [AllocOK])
  | op _ _ _ _ _ _ => exact absurd ha (by simp [AllocOK])
  | print _ _ _ _ => exact absurd ha (by simp [AllocOK])
  | ifc _ _ _ _ _ => exact absurd ha (by simp [AllocOK])
  | exit _ => exact absurd ha (by simp [AllocOK])
  | call _ _ => exact absurd ha (by simp [AllocOK])
  | subst _ _ => exact absurd ha (by simp [AllocOK])
  | switch _ _ _ _ => exact absurd ha (by simp [AllocOK])
  | invoke _ _ _ _ => exact absurd ha (by simp [AllocOK])

/-! ## whole runs of integer programs -/

/-- statements of integer programs: no `let`, `switch`, `create`, `invoke` -/
def IntStmt : Stmt → Prop
  | .lit _ _ next _ => IntStmt next
  | .op _ _ _ _ next _ => IntStmt next
  | .print _ _ next _ => IntStmt next
  | .ifc _ _ _ t e => IntStmt t ∧ IntStmt e
  | .exit _ => True
  | .call _ _ => True
  | .subst _ next => IntStmt next
  | _ => False

/-- integer programs: every definition has integer parameters and an integer body -/
def IntProg (prog : Prog) : Prop := ∀ d ∈ prog.defs, IntCtx d.ctx ∧ IntStmt d.body

/-- the invariant of the run: typed, integer statement, integer context -/
def IntState (prog : Prog) (st : Pos.State) : Prop :=
  LinTyped prog.types prog.sigs st.ctx st.stmt ∧ IntStmt st.stmt ∧ IntCtx st.ctx

theorem intCtx_snoc {Γ : Ctx} (h : IntCtx Γ) (b : Binding) (hb : b.chi = .ext) : IntCtx (Γ ++ [b]) := by
  intro b' hb'
  simp only [List.mem_append, List.mem_singleton] at hb'
  rcases hb' with hb' | rfl
  · exact h b' hb'
  · exact hb

theorem intState_step {prog : Prog} (htp : LinTypedProg prog) (hip : IntProg prog) {st st' : Pos.State}
    {o : Option (Bool × Word)} (I : IntState prog st) (hs : Pos.step prog st = .next st' o) :
    IntState prog st' := by
  obtain ⟨Γ, ρ, s⟩ := st
  obtain ⟨hty, hint, hctx⟩ := I
  cases s with
  | lit x n next fv =>
    cases hty with
    | lit _ _ hnext =>
      simp only [Pos.step] at hs
      cases hs
      exact ⟨hnext, hint, intCtx_snoc hctx _ rfl⟩
  | op x a o' b next fv =>
    cases hty with
    | op _ _ _ _ hnext =>
      simp only [Pos.step] at hs
      split at hs
      · cases hs
      · split at hs
        · cases hs
        · split at hs
          · cases hs
          · cases hs
            exact ⟨hnext, hint, intCtx_snoc hctx _ rfl⟩
  | print nl a next fv =>
    cases hty with
    | print _ _ hnext =>
      simp only [Pos.step] at hs
      split at hs
      · cases hs
      · cases hs
        exact ⟨hnext, hint, hctx⟩
  | ifc srt a b t e =>
    cases hty with
    | ifc _ _ _ ht he =>
      simp only [Pos.step] at hs
      split at hs
      · cases hs
      · split at hs
        · cases hs
          refine ⟨?_, ?_, hctx⟩
          · simp only; split <;> assumption
          · simp only; split
            · exact hint.1
            · exact hint.2
        · split at hs
          · cases hs
          · cases hs
            refine ⟨?_, ?_, hctx⟩
            · simp only; split <;> assumption
            · simp only; split
              · exact hint.1
              · exact hint.2
  | exit a =>
    simp only [Pos.step] at hs
    split at hs <;> cases hs
  | call l args =>
    simp only [Pos.step] at hs
    split at hs
    · cases hs
    · rename_i d hd
      split at hs
      · cases hs
      · rename_i hsh
        cases hs
        have hmem : d ∈ prog.defs := List.mem_of_find?_eq_some hd
        refine ⟨htp d hmem, (hip d hmem).2, (hip d hmem).1⟩
  | subst pairs next =>
    cases hty with
    | subst _ hhas _ hnext =>
      simp only [Pos.step] at hs
      split at hs
      · cases hs
      · cases hs
        refine ⟨hnext, hint, ?_⟩
        intro b hb
        obtain ⟨p, hp, rfl⟩ := List.mem_map.mp hb
        obtain ⟨b0, hb0, _, hchi, _⟩ := hhas p hp
        rw [← hchi]; exact hctx b0 hb0
  | letS _ _ _ _ _ _ => exact absurd hint (by simp [IntStmt])
  | switch _ _ _ _ => exact absurd hint (by simp [IntStmt])
  | create _ _ _ _ _ _ _ => exact absurd hint (by simp [IntStmt])
  | invoke _ _ _ _ => exact absurd hint (by simp [IntStmt])

theorem heapFree_of_int {prog : Prog} {st : Pos.State} (I : IntState prog st) :
    HeapFree st.ctx st.stmt := by
  obtain ⟨Γ, ρ, s⟩ := st
  obtain ⟨_, hint, hctx⟩ := I
  cases s <;> first | trivial | exact hctx | exact absurd hint (by simp [IntStmt])

theorem reachable_prepend {prog : Prog} {st st1 st' : Pos.State} {o : Option (Bool × Word)}
    (hs : Pos.step prog st = .next st1 o) (h : Reachable prog st1 st') : Reachable prog st st' := by
  induction h with
  | refl => exact Reachable.step Reachable.refl hs
  | step _ hs' ih => exact Reachable.step ih hs'

theorem runFrom_steps (P : Program) : ∀ (k n : Nat) (cfg cfg' : Config), stepsTo P k cfg cfg' →
    Abs.runFrom P (k + n) cfg = Abs.runFrom P n cfg'
  | 0, n, cfg, cfg', h => by simp only [stepsTo] at h; subst h; simp
  | k + 1, n, cfg, cfg', h => by
    obtain ⟨c1, hs, h'⟩ := h
    rw [show k + 1 + n = (k + n) + 1 by omega]
    simp only [Abs.runFrom, hs]
    exact runFrom_steps P k n c1 cfg' h'

/-- the run of an integer program from a represented state is reproduced by the machine -/
theorem run_int_aux (hooks : Bool) (prog : Prog) (c : Nat) (code : List MockOp) (nargs c' : Nat)
    (hcomp : (compile mockSym hooks prog).run c = .ok ((code, nargs), c'))
    (hsafe : LabelSafe prog = true) (htp : LinTypedProg prog) (hip : IntProg prog) :
    ∀ (fuel : Nat) (st : Pos.State) (acc : List (Bool × Word)) (cfg : Config)
      (out : List (Bool × Word)) (v : Word),
      IntState prog st → (∀ st', Reachable prog st st' → WithinCapacity st'.ctx) →
      Rel (Program.ofOps code) hooks prog st cfg → cfg.out = acc →
      Pos.runState prog fuel st acc = ⟨out, .done v⟩ →
      ∃ fuel', Abs.runFrom (Program.ofOps code) fuel' cfg = ⟨out, .done v⟩
  | 0, st, acc, cfg, out, v, _, _, _, _, h => by simp [Pos.runState] at h
  | fuel + 1, st, acc, cfg, out, v, I, hcap, R, hacc, h => by
    have hsim := TheoremA_heapfree hooks prog c code nargs c' hcomp hsafe st cfg R I.1
      (heapFree_of_int I)
    unfold StepSimulated at hsim
    simp only [Pos.runState] at h
    cases hs : Pos.step prog st with
    | stuck w => simp [hs] at h
    | done v' =>
      simp only [hs] at h hsim
      obtain ⟨k, cfg', h1, h2, h3⟩ := hsim
      simp only [Pos.Behaviour.mk.injEq, Pos.Result.done.injEq] at h
      obtain ⟨rfl, rfl⟩ := h
      refine ⟨k + 1, ?_⟩
      rw [runFrom_steps _ k 1 cfg cfg' h1]
      simp [Abs.runFrom, h3, h2, hacc]
    | next st' o =>
      simp only [hs] at h hsim
      obtain ⟨k, cfg', h1, h2, h3⟩ := hsim (hcap st' (Reachable.step Reachable.refl hs))
      have hacc' : cfg'.out = outAfter o acc := by rw [h2, hacc]
      have h' : Pos.runState prog fuel st' (outAfter o acc) = ⟨out, .done v⟩ := by
        cases o <;> exact h
      obtain ⟨fuel', hf⟩ := run_int_aux hooks prog c code nargs c' hcomp hsafe htp hip fuel st'
        (outAfter o acc) cfg' out v (intState_step htp hip I hs)
        (fun st'' hr => hcap st'' (reachable_prepend hs hr)) h3 hacc' h'
      exact ⟨k + fuel', by rw [runFrom_steps _ k fuel' cfg cfg' h1]; exact hf⟩

/-- the initial configuration of `Abs.run` (entry = label of a definition whose parameters are all
    `ext`, arguments in the word parts of positions 0, 1, …, empty heap) represents the initial state
    of `Pos.run` -/
theorem TheoremA_init (hooks : Bool) (prog : Prog) (c : Nat) (code : List MockOp) (nargs c' : Nat)
    (hcomp : (compile mockSym hooks prog).run c = .ok ((code, nargs), c'))
    (hsafe : LabelSafe prog = true)
    (d0 : Def) (hd : d0 ∈ prog.defs) (hext : ∀ b ∈ d0.ctx, b.chi = .ext)
    (args : List Word) (hlen : d0.ctx.length = args.length) (hcap : WithinCapacity d0.ctx) :
    ∃ a, (Program.ofOps code).labelAddr (d0.name.print ++ "_") = some a ∧
      Rel (Program.ofOps code) hooks prog ⟨d0.ctx, args.map .int, d0.body⟩ (initConfig a args) :=
  init_rel hooks prog c code nargs c' hcomp
    (C14Generic.labels_unique hooks prog c code nargs c' hcomp hsafe) d0 hd hext args hlen hcap

theorem duplicateLabel_none : ∀ (l : List (String × Nat)), (l.map (·.1)).Nodup → duplicateLabel l = none
  | [], _ => rfl
  | (n, a) :: rest, h => by
    simp only [List.map_cons, List.nodup_cons] at h
    simp only [duplicateLabel]
    have : rest.any (fun e => e.1 == n) = false := by
      rw [List.any_eq_false]
      intro e he hc
      simp only [beq_iff_eq] at hc
      exact h.1 (List.mem_map.mpr ⟨e, he, hc⟩)
    simp only [this, Bool.false_eq_true, if_false]
    exact duplicateLabel_none rest h.2

/-- THEOREM A for whole runs of integer programs: a terminating run of the positional machine is
    reproduced (same trace, same result) by the abstract machine on the generated code. -/
theorem TheoremA_run_int (hooks : Bool) (prog : Prog) (c : Nat) (code : List MockOp) (nargs c' : Nat)
    (d0 : Def) (args : List Word) (fuel : Nat) (out : List (Bool × Word)) (v : Word)
    (hcomp : (compile mockSym hooks prog).run c = .ok ((code, nargs), c'))
    (hsafe : LabelSafe prog = true) (htp : LinTypedProg prog) (hip : IntProg prog)
    (hd : prog.defs.head? = some d0)
    (hcap : ∀ st, Reachable prog ⟨d0.ctx, args.map .int, d0.body⟩ st → WithinCapacity st.ctx)
    (hrun : Pos.run prog args fuel = ⟨out, .done v⟩) :
    ∃ fuel', Abs.run code (d0.name.print ++ "_") args fuel' = ⟨out, .done v⟩ := by
  have hmem : d0 ∈ prog.defs := by
    cases hdefs : prog.defs with
    | nil => rw [hdefs] at hd; simp at hd
    | cons d ds => rw [hdefs] at hd; simp at hd; subst hd; simp
  have hnodup := C14Generic.labels_unique hooks prog c code nargs c' hcomp hsafe
  -- unfold the positional run
  unfold Pos.run at hrun
  cases hdefs : prog.defs with
  | nil => rw [hdefs] at hd; simp at hd
  | cons d ds =>
    rw [hdefs] at hd hrun
    simp only [List.head?_cons, Option.some.injEq] at hd
    subst hd
    simp only at hrun
    by_cases hlen : d.ctx.length ≠ args.length
    · simp [hlen] at hrun
    · simp only [hlen, if_false] at hrun
      have hlen' : d.ctx.length = args.length := by omega
      obtain ⟨a, hlab, R⟩ := TheoremA_init hooks prog c code nargs c' hcomp hsafe d hmem
        (hip d hmem).1 args hlen' (hcap _ Reachable.refl)
      have I : IntState prog ⟨d.ctx, args.map .int, d.body⟩ :=
        ⟨htp d hmem, (hip d hmem).2, (hip d hmem).1⟩
      obtain ⟨fuel', hf⟩ := run_int_aux hooks prog c code nargs c' hcomp hsafe htp hip fuel _ []
        (initConfig a args) out v I hcap R rfl hrun
      refine ⟨fuel', ?_⟩
      unfold Abs.run
      have hdup : duplicateLabel (Program.ofOps code).labels = none := by
        apply duplicateLabel_none
        show ((layout code 0).2.map (·.1)).Nodup
        rw [layout_snd_names, labelNames_eq_dfns]
        exact hnodup
      simp only [hdup, hlab]
      exact hf

/-! ### discharging the capacity hypothesis for a terminating run -/

/-- the states of a run, as long as the machine steps (at most `fuel` of them) -/
def statesOf (prog : Prog) : Nat → Pos.State → List Pos.State
  | 0, st => [st]
  | fuel + 1, st =>
    match Pos.step prog st with
    | .next st' _ => st :: statesOf prog fuel st'
    | _ => [st]

/-- the run stops (done or stuck) within `fuel` steps -/
def stopsWithin (prog : Prog) : Nat → Pos.State → Bool
  | 0, _ => false
  | fuel + 1, st =>
    match Pos.step prog st with
    | .next st' _ => stopsWithin prog fuel st'
    | _ => true

theorem reachable_mem_statesOf (prog : Prog) : ∀ (fuel : Nat) (st0 st : Pos.State),
    stopsWithin prog fuel st0 = true → Reachable prog st0 st → st ∈ statesOf prog fuel st0 := by
  intro fuel
  induction fuel with
  | zero => intro st0 st h; simp [stopsWithin] at h
  | succ fuel ih =>
    intro st0 st hstop hr
    -- split the reachability at its first step
    have key : st = st0 ∨ ∃ st1 o, Pos.step prog st0 = .next st1 o ∧ Reachable prog st1 st := by
      induction hr with
      | refl => exact Or.inl rfl
      | step hr' hs ih' =>
        rcases ih' with rfl | ⟨st1, o1, hs1, hr1⟩
        · exact Or.inr ⟨_, _, hs, Reachable.refl⟩
        · exact Or.inr ⟨st1, o1, hs1, Reachable.step hr1 hs⟩
    simp only [statesOf]
    rcases key with rfl | ⟨st1, o, hs, hr1⟩
    · cases Pos.step prog st <;> simp
    · simp only [stopsWithin, hs] at hstop
      simp only [hs, List.mem_cons]
      exact Or.inr (ih st1 st hstop hr1)

/-- capacity of all reachable states, checked on the finitely many states of a terminating run -/
theorem capacity_of_run (prog : Prog) (fuel : Nat) (st0 : Pos.State)
    (hstop : stopsWithin prog fuel st0 = true)
    (hall : (statesOf prog fuel st0).all (fun st => decide (2 * st.ctx.length + 2 < Mock.T_TEMP)) = true) :
    ∀ st, Reachable prog st0 st → WithinCapacity st.ctx := by
  intro st hr
  have := reachable_mem_statesOf prog fuel st0 st hstop hr
  rw [List.all_eq_true] at hall
  simpa [WithinCapacity] using hall st this

/-! non-vacuity: `main(x) { lit y <- 1; z <- x + y; println z; exit z }` started with x = 41 satisfies
    every hypothesis of `TheoremA_heapfree` (via `TheoremA_init`), so its first step is simulated -/

private def exMain : Def :=
  { name := ⟨"main", 0⟩, ctx := [⟨⟨"x", 1⟩, .ext, .i64⟩],
    body := .lit ⟨"y", 2⟩ 1 (.op ⟨"z", 3⟩ ⟨"x", 1⟩ .sum ⟨"y", 2⟩
      (.print true ⟨"z", 3⟩ (.exit ⟨"z", 3⟩) none) none) none }

private def exProg : Prog := { defs := [exMain], types := [], maxId := 3 }

example : ∃ (code : List MockOp) (cfg : Config),
    Rel (Program.ofOps code) true exProg ⟨exMain.ctx, [.int 41], exMain.body⟩ cfg ∧
    StepSimulated (Program.ofOps code) true exProg ⟨exMain.ctx, [.int 41], exMain.body⟩ cfg := by
  have hok : ∃ r, (compile mockSym true exProg).run 0 = .ok r := ⟨_, rfl⟩
  obtain ⟨⟨⟨code, nargs⟩, c'⟩, hcomp⟩ := hok
  have hsafe : LabelSafe exProg = true := by decide
  have hty : LinTypedProg exProg := linTypedCheck_sound exProg rfl
  obtain ⟨a, _, R⟩ := TheoremA_init true exProg 0 code nargs c' hcomp hsafe exMain (by simp [exProg])
    (by decide) [41] rfl (by unfold WithinCapacity; decide)
  exact ⟨code, _, R, TheoremA_heapfree true exProg 0 code nargs c' hcomp hsafe _ _ R
    (hty exMain (by simp [exProg])) trivial⟩

/-- non-vacuity of `TheoremA_run_int`: the counting loop
      main(n, acc) { if n <= 0 { println acc; exit acc } else { one <- 1; n' <- n - one; acc' <- acc + n;
                                                               subst (n := n')(acc := acc'); main(...) } }
    started with n = 3, acc = 0: all hypotheses hold, so the abstract machine prints 6 and returns 6 -/
private def loopDef : Def :=
  { name := ⟨"main", 0⟩, ctx := [⟨⟨"n", 1⟩, .ext, .i64⟩, ⟨⟨"acc", 2⟩, .ext, .i64⟩],
    body := .ifc .le ⟨"n", 1⟩ none
      (.print true ⟨"acc", 2⟩ (.exit ⟨"acc", 2⟩) none)
      (.lit ⟨"one", 3⟩ 1 (.op ⟨"n", 4⟩ ⟨"n", 1⟩ .sub ⟨"one", 3⟩ (.op ⟨"acc", 5⟩ ⟨"acc", 2⟩ .sum ⟨"n", 1⟩
        (.subst [(⟨⟨"n", 4⟩, .ext, .i64⟩, ⟨"n", 4⟩), (⟨⟨"acc", 5⟩, .ext, .i64⟩, ⟨"acc", 5⟩)]
          (.call ⟨"main", 0⟩ [])) none) none) none) }

private def loopProg : Prog := { defs := [loopDef], types := [], maxId := 5 }

example : ∃ (code : List MockOp) (fuel' : Nat),
    Abs.run code "main_" [3, 0] fuel' = ⟨[(true, 6)], .done 6⟩ := by
  have hok : ∃ r, (compile mockSym true loopProg).run 0 = .ok r := ⟨_, rfl⟩
  obtain ⟨⟨⟨code, nargs⟩, c'⟩, hcomp⟩ := hok
  have hsafe : LabelSafe loopProg = true := by decide
  have hty : LinTypedProg loopProg := linTypedCheck_sound loopProg rfl
  have hint : IntProg loopProg := by
    intro d hd
    simp only [loopProg, List.mem_singleton] at hd
    subst hd
    refine ⟨?_, ?_⟩
    · intro b hb
      simp only [loopDef, List.mem_cons, List.not_mem_nil, or_false] at hb
      rcases hb with rfl | rfl <;> rfl
    · simp [loopDef, IntStmt]
  have hrun : Pos.run loopProg [3, 0] 40 = ⟨[(true, 6)], .done 6⟩ := by decide
  obtain ⟨fuel', h⟩ := TheoremA_run_int true loopProg 0 code nargs c' loopDef [3, 0] 40 _ _ hcomp hsafe
    hty hint rfl
    (capacity_of_run loopProg 40 _ (by decide) (by decide)) hrun
  exact ⟨code, fuel', h⟩

/-! # the full theorem (strengthened relation `Rel2`) -/

open Scc.Backend.Sim2 Scc.Backend.Keys

/-! ## THEOREM A, every statement form -/

/-- code addresses fit a word (the machine jumps through words) -/
def CodeFits (code : List MockOp) : Prop := instrCount code < 2 ^ 64

instance (code : List MockOp) : Decidable (CodeFits code) := by unfold CodeFits; infer_instance

theorem fits_of_codeFits {code : List MockOp} (h : CodeFits code) : Fits (Program.ofOps code) := by
  unfold Fits Program.ofOps
  simp only [List.size_toArray]
  rw [layout_fst_length]
  exact h

/-- the simulation claim for ONE step from a state represented up to names (`Rel2`); the machine
    allocates at most one object -/
def StepSimulated2 (P : Program) (hooks : Bool) (prog : Prog) (st : Pos.State) (cfg : Config) : Prop :=
  match Pos.step prog st with
  | .next st' o =>
    WithinCapacity st'.ctx →
    ∃ k cfg', stepsTo P k cfg cfg' ∧ cfg'.out = outAfter o cfg.out ∧ cfg'.next ≤ cfg.next + 1 ∧
      Rel2 P hooks prog st' cfg'
  | .done v =>
    ∃ k cfg', stepsTo P k cfg cfg' ∧ cfg'.out = cfg.out ∧ Abs.step P cfg' = .halt (.done v)
  | .stuck _ => True

/-- THEOREM A, the statement that is PROVED (`TheoremA_full`): `TheoremA_statement` with the
    strengthened relation `Rel2`, typed states, code that fits the address space, room in the heap -/
def TheoremA_full_statement : Prop :=
  ∀ (hooks : Bool) (prog : Prog) (c : Nat) (code : List MockOp) (nargs c' : Nat),
    (compile mockSym hooks prog).run c = .ok ((code, nargs), c') →
    LabelSafe prog = true → LinTypedProg prog → CodeFits code →
    ∀ (st : Pos.State) (cfg : Config),
      Rel2 (Program.ofOps code) hooks prog st cfg →
      Pos.StateTyped prog st → EnoughHeap cfg →
      StepSimulated2 (Program.ofOps code) hooks prog st cfg

/-- THEOREM A for whole runs, the statement that is PROVED (`TheoremA_run`): `TheoremA_run_statement`
    plus `CodeFits`, entry parameters of type `i64`, fewer than `2^64` steps -/
def TheoremA_run_full_statement : Prop :=
  ∀ (hooks : Bool) (prog : Prog) (c : Nat) (code : List MockOp) (nargs c' : Nat) (d0 : Def)
    (args : List Word) (fuel : Nat) (out : List (Bool × Word)) (v : Word),
    (compile mockSym hooks prog).run c = .ok ((code, nargs), c') →
    LabelSafe prog = true → LinTypedProg prog → CodeFits code → prog.defs.head? = some d0 →
    (∀ b ∈ d0.ctx, b.chi = .ext ∧ b.ty = .i64) →
    (∀ st, Reachable prog ⟨d0.ctx, args.map .int, d0.body⟩ st → WithinCapacity st.ctx) →
    fuel + 1 < 2 ^ 64 →
    Pos.run prog args fuel = ⟨out, .done v⟩ →
    ∃ fuel', Abs.run code (d0.name.print ++ "_") args fuel' = ⟨out, .done v⟩

theorem kindOf_of_typed {P : Prog} {v : Value} {c : Chi} {t : Ty} (h : ValTyped P v c t) : kindOf v = c := by
  cases h <;> rfl

theorem kinds_of_fieldsTyped {P : Prog} : ∀ {vs : List Value} {cts : List (Chi × Ty)},
    FieldsTyped P vs cts → vs.map kindOf = cts.map (·.1)
  | _, _, .nil => rfl
  | _, _, .cons hv hvs => by simp [kindOf_of_typed hv, kinds_of_fieldsTyped hvs]

theorem chiTys_fst (Γ : Ctx) : (Ctx.chiTys Γ).map (·.1) = Mock.kindsOf Γ := by
  simp [Ctx.chiTys, Mock.kindsOf]

theorem clausesMatch_length : ∀ (xs : List XtorSig) (cs : Clauses), ClausesMatch xs cs → cs.length = xs.length
  | [], .nil, _ => rfl
  | [], .cons _ _ _ _, h => by simp [ClausesMatch] at h
  | _ :: _, .nil, h => by simp [ClausesMatch] at h
  | x :: xs, .cons n ctx b rest, h => by
    simp only [ClausesMatch] at h
    simp [Clauses.length, clausesMatch_length xs rest h.2.2]

theorem fresh_of_nodup_snoc {Γ0 : Ctx} {b : Binding} (hn : NodupIds (Γ0 ++ [b])) : b.var.id ∉ Γ0.ids := by
  unfold NodupIds Ctx.ids at *
  rw [List.map_append, List.nodup_append] at hn
  intro hm
  exact hn.2.2 _ hm _ (by simp) rfl

/-- THEOREM A (every statement form): for the code of a label-safe, linearly typed program whose code
    fits the address space, every step of the positional machine from a typed state represented by a
    configuration with room in the heap is simulated, and the new state is represented again. -/
theorem TheoremA_full (hooks : Bool) (prog : Prog) (c : Nat) (code : List MockOp) (nargs c' : Nat)
    (hcomp : (compile mockSym hooks prog).run c = .ok ((code, nargs), c'))
    (hsafe : LabelSafe prog = true) (htp : LinTypedProg prog) (hfit : CodeFits code)
    (st : Pos.State) (cfg : Config)
    (R : Rel2 (Program.ofOps code) hooks prog st cfg)
    (T : Pos.StateTyped prog st) (hheap : EnoughHeap cfg) :
    StepSimulated2 (Program.ofOps code) hooks prog st cfg := by
  have hnodup := C14Generic.labels_unique hooks prog c code nargs c' hcomp hsafe
  have D := defsAt_of_compile hooks prog c code nargs c' hcomp hnodup
  have hfits := fits_of_codeFits hfit
  obtain ⟨Γ, ρ, s⟩ := st
  obtain ⟨Γ', hk, RX⟩ := R
  obtain ⟨hty, henv⟩ := T
  simp only at hk RX hty henv
  have hlenk : Γ'.length = Γ.length := keys_length hk
  unfold StepSimulated2
  cases hty with
  | lit hn hfr hnext =>
    rename_i x n next fv
    simp only [Pos.step]
    intro hcap
    obtain ⟨cfg', h1, h2, h3, h4⟩ := sim2_lit RX (mem_ids_keys hk hfr)
      (by simp [WithinCapacity] at hcap; omega)
    exact ⟨1, cfg', h1, h2, by omega, Γ' ++ [⟨x, .ext, .i64⟩], keys_append hk rfl, h4⟩
  | op hn ha hb hfr hnext =>
    rename_i x a o b next fv
    simp only [Pos.step]
    cases hra : readInt Γ ρ a with
    | error e => simp
    | ok va =>
      cases hrb : readInt Γ ρ b with
      | error e => simp
      | ok vb =>
        cases hv : Pos.evalOp o va vb with
        | error e => simp [hv]
        | ok v =>
          simp only [hv]
          intro hcap
          obtain ⟨cfg', h1, h2, h3, h4⟩ := sim2_op RX (mem_ids_keys hk hfr)
            (by simp [WithinCapacity] at hcap; omega)
            (by rw [readInt_keys hk]; exact hra) (by rw [readInt_keys hk]; exact hrb) hv
          exact ⟨1, cfg', h1, h2, by omega, Γ' ++ [⟨x, .ext, .i64⟩], keys_append hk rfl, h4⟩
  | print hn ha hnext =>
    rename_i nl a next fv
    simp only [Pos.step]
    cases hra : readInt Γ ρ a with
    | error e => simp
    | ok v =>
      simp only
      intro _
      obtain ⟨cfg', h1, h2, h3, h4⟩ := sim2_print RX (by rw [readInt_keys hk]; exact hra)
      exact ⟨1, cfg', h1, h2, by omega, Γ', hk, h4⟩
  | ifc hn ha hb ht he =>
    rename_i srt a b t e
    simp only [Pos.step]
    cases hra : readInt Γ ρ a with
    | error err => simp
    | ok va =>
      cases b with
      | none =>
        simp only
        intro _
        obtain ⟨cfg', h1, h2, h3, h4⟩ := sim2_ifc (b := none) (vb := 0) RX
          (by rw [readInt_keys hk]; exact hra) rfl
        exact ⟨1, cfg', h1, h2, by omega, Γ', hk, h4⟩
      | some b' =>
        simp only
        cases hrb : readInt Γ ρ b' with
        | error err => simp
        | ok vb =>
          simp only
          intro _
          obtain ⟨cfg', h1, h2, h3, h4⟩ := sim2_ifc (b := some b') (vb := vb) RX
            (by rw [readInt_keys hk]; exact hra) (by simp only; rw [readInt_keys hk]; exact hrb)
          exact ⟨1, cfg', h1, h2, by omega, Γ', hk, h4⟩
  | exit hn ha =>
    rename_i a
    simp only [Pos.step]
    cases hra : readInt Γ ρ a with
    | error e => simp
    | ok v =>
      simp only
      obtain ⟨cfg', h1, h2, h3⟩ := sim2_exit RX (by rw [readInt_keys hk]; exact hra)
      exact ⟨1, cfg', h1, h2, h3⟩
  | call hn hf hc =>
    rename_i l args params
    simp only [Pos.step]
    cases hd : Pos.findDef prog.defs l with
    | none => simp
    | some d =>
      simp only
      by_cases hsh : Pos.chiTys Γ ≠ Pos.chiTys d.ctx ∨ ρ.length ≠ Γ.length
      · simp [hsh]
      · simp only [hsh, if_false]
        intro _
        have hchi : Pos.chiTys Γ = Pos.chiTys d.ctx := by
          by_cases h : Pos.chiTys Γ = Pos.chiTys d.ctx
          · exact h
          · exact absurd (Or.inl h) hsh
        obtain ⟨cfg', h1, h2, h3, h4⟩ := sim2_call RX D hd (by rw [keys_chiTys hk]; exact hchi)
        exact ⟨1, cfg', h1, h2, by omega, d.ctx, rfl, h4⟩
  | subst hn hhas hnew hnext =>
    rename_i pairs next
    simp only [Pos.step]
    cases hb : Pos.step.build Γ ρ pairs with
    | error e => simp
    | ok vs =>
      simp only
      intro hcap
      have hnew' : (pairs.map (·.1.var.id)).Nodup := by
        have : ((pairs.map (·.1)).map (·.var.id)).Nodup := hnew
        rw [List.map_map] at this
        exact this
      have hold : ∀ p ∈ pairs, ∃ b ∈ Γ', b.var.id = p.2.id ∧ b.chi = p.1.chi := by
        intro p hp
        obtain ⟨b, hb', hid, hchi, _⟩ := hasVar_keys hk (hhas p hp)
        exact ⟨b, hb', hid, hchi⟩
      obtain ⟨k, cfg', h1, h2, h3, h4⟩ := sim2_subst RX (nodup_keys hk hn) hnew' hold
        (by simpa [WithinCapacity] using hcap) (by rw [build_keys hk]; exact hb)
      exact ⟨k, cfg', h1, h2, by omega, pairs.map (·.1), rfl, h4⟩
  | @letS _ Γ0 Γa x ty tag args sig next fv hn hsplit hkeys hs hs' hfr hnext =>
    have hlenA : Γa.length = args.length := keys_length hkeys
    have hsplit' : Γ = Γ0 ++ Γa := hsplit
    have hkA : args.length ≤ Γ.length := by rw [hsplit']; simp; omega
    simp only [Pos.step]
    by_cases hsh : Γ.length < args.length ∨ ρ.length ≠ Γ.length
    · rw [if_pos hsh]; trivial
    · rw [if_neg hsh]
      cases hpos : Pos.tagPosition prog.types ty tag with
      | error e => trivial
      | ok pos =>
        simp only
        intro hcap
        have hn0 : Γ.length - args.length = Γ0.length := by rw [hsplit']; simp; omega
        have htake : Γ.take (Γ.length - args.length) = Γ0 := by
          rw [← hlenA]; exact take_of_append hsplit'
        have hkt : Ctx.keys (Γ'.take (Γ'.length - args.length)) = Γ0.keys := by
          rw [hlenk, keys_take hk, htake]
        obtain ⟨cfg', h1, h2, h3, h4⟩ := sim2_let RX (by rw [hlenk]; exact hkA)
          (mem_ids_keys hkt hfr) hpos
          (by
            simp only [WithinCapacity, htake, List.length_append, List.length_singleton] at hcap
            rw [hlenk, hn0]; exact hcap) hheap
        refine ⟨2, cfg', h1, h2, h3, _, ?_, by rw [hlenk] at h4; exact h4⟩
        show Ctx.keys (Γ'.take (Γ.length - args.length) ++ [_]) =
          Ctx.keys (Γ.take (Γ.length - args.length) ++ [_])
        rw [htake, ← hlenk]
        exact keys_append hkt rfl
  | @create _ Γn Γe Γc x ty clauses next fc fn d hn hsplit hkeys hd hm hcl hfr hnext =>
    have hlenE : Γe.length = Γc.length := keys_length hkeys
    have hsplit' : Γ = Γn ++ Γe := hsplit
    have hkA : Γc.length ≤ Γ.length := by rw [hsplit']; simp; omega
    simp only [Pos.step]
    by_cases hsh : Γ.length < Γc.length ∨ ρ.length ≠ Γ.length
    · rw [if_pos hsh]; trivial
    · rw [if_neg hsh]
      simp only
      intro hcap
      have hn0 : Γ.length - Γc.length = Γn.length := by rw [hsplit']; simp; omega
      have htake : Γ.take (Γ.length - Γc.length) = Γn := by
        rw [← hlenE]; exact take_of_append hsplit'
      have hdrop : Γ.drop (Γ.length - Γc.length) = Γe := by
        rw [hn0, hsplit']; simp
      have hkt : Ctx.keys (Γ'.take (Γ'.length - Γc.length)) = Γn.keys := by
        rw [hlenk, keys_take hk, htake]
      have hkd : Ctx.keys (Γ'.drop (Γ'.length - Γc.length)) = Γc.keys := by
        rw [hlenk, keys_drop hk, hdrop]; exact hkeys
      obtain ⟨cfg', h1, h2, h3, h4⟩ := sim2_create RX (by rw [hlenk]; exact hkA) hkd
        (mem_ids_keys hkt hfr)
        (by
          simp only [WithinCapacity, htake, List.length_append, List.length_singleton] at hcap
          rw [hlenk, hn0]; exact hcap) hheap
      refine ⟨2, cfg', h1, h2, h3, _, ?_, by rw [hlenk] at h4; exact h4⟩
      show Ctx.keys (Γ'.take (Γ.length - Γc.length) ++ [_]) =
        Ctx.keys (Γ.take (Γ.length - Γc.length) ++ [_])
      rw [htake, ← hlenk]
      exact keys_append hkt rfl
  | @switch _ Γ0 b x ty cs fv d hn hsplit hb hd hm hcl =>
    subst hsplit
    obtain ⟨ρ', v, rfl, hρ', hv⟩ := Pos.env_last henv
    have hbid : b.var.id = x.id := congrArg (·.1) hb
    have hbchi : b.chi = .prd := congrArg (·.2.1) hb
    have hbty : b.ty = ty := congrArg (·.2.2) hb
    rw [hbchi, hbty] at hv
    have hlen : (ρ' ++ [v]).length = (Γ0 ++ [b]).length := by
      rw [henv.length_eq, Pos.chiTys_length]
    have hcnd : ¬ (b.var.id ≠ x.id ∨ (ρ' ++ [v]).length ≠ (Γ0 ++ [b]).length) := by
      simp [hbid, hlen]
    cases hv with
    | obj hd' hx hf =>
      rename_i d' tag xt fields
      have := Pos.lookupTypeDecl_unique hd hd'
      subst this
      obtain ⟨cl, hc1, hc2, hc3⟩ := Pos.nthClause_ok d.xtors cs tag xt hm hx
      have hfl : fields.length = cl.ctx.length := by
        rw [hf.length_eq, hc2, Pos.chiTys_length]
      simp only [Pos.step, List.getLast?_concat, if_neg hcnd, hc1, hfl, ne_eq, not_true_eq_false,
        if_false, List.dropLast_concat]
      intro hcap
      obtain ⟨Γ0', b', rfl, hk0, hkb⟩ := keys_snoc hk
      have hb'id : b'.var.id = x.id := by
        have := congrArg (·.1) hkb
        simp only [Binding.key] at this
        rw [this]; exact hbid
      have hkinds : fields.map kindOf = Mock.kindsOf cl.ctx := by
        rw [kinds_of_fieldsTyped hf, hc2, chiTys_fst]
      have hfr : x.id ∉ Γ0.ids := by rw [← hbid]; exact fresh_of_nodup_snoc hn
      obtain ⟨k, cfg', h1, h2, h3, h4⟩ := sim2_switch RX hfits hb'id (mem_ids_keys hk0 hfr) hc1 hkinds
        (by
          simp only [WithinCapacity, List.length_append] at hcap
          rw [keys_length hk0]; exact hcap)
      exact ⟨k, cfg', h1, h2, by omega, Γ0' ++ cl.ctx, keys_append hk0 rfl, h4⟩
  | @invoke _ Γa b x tag ty args sig hn hsplit hb hs hs' =>
    subst hsplit
    obtain ⟨ρ', v, rfl, hρ', hv⟩ := Pos.env_last henv
    have hbid : b.var.id = x.id := congrArg (·.1) hb
    have hbchi : b.chi = .cns := congrArg (·.2.1) hb
    have hbty : b.ty = ty := congrArg (·.2.2) hb
    rw [hbchi, hbty] at hv
    have hlen : (ρ' ++ [v]).length = (Γa ++ [b]).length := by
      rw [henv.length_eq, Pos.chiTys_length]
    have hcnd : ¬ (b.var.id ≠ x.id ∨ (ρ' ++ [v]).length ≠ (Γa ++ [b]).length) := by
      simp [hbid, hlen]
    obtain ⟨d, xt, i, hd, hx, hxs, htp'⟩ := Pos.tagPosition_ok hs
    cases hv with
    | clo hd' hm hf hcl =>
      rename_i d' Γc env cs
      have := Pos.lookupTypeDecl_unique hd hd'
      subst this
      obtain ⟨cl, hc1, hc2, hc3⟩ := Pos.nthClause_ok d.xtors cs i xt hm hx
      have hal : (Γa ++ [b]).length - 1 = cl.ctx.length := by
        have : Γa.length = cl.ctx.length := by
          rw [← Pos.chiTys_length Γa, hs', ← hxs, hc2, Pos.chiTys_length]
        simp [this]
      simp only [Pos.step, List.getLast?_concat, if_neg hcnd, htp', hc1, hal, ne_eq, not_true_eq_false,
        if_false, List.dropLast_concat]
      intro hcap
      obtain ⟨Γa', b', rfl, hk0, hkb⟩ := keys_snoc hk
      have hb'id : b'.var.id = x.id := by
        have := congrArg (·.1) hkb
        simp only [Binding.key] at this
        rw [this]; exact hbid
      have hkinds : env.map kindOf = Mock.kindsOf Γc := by
        rw [kinds_of_fieldsTyped hf, chiTys_fst]
      have hfr : x.id ∉ Γa.ids := by rw [← hbid]; exact fresh_of_nodup_snoc hn
      have hargs : Γa'.map (·.chi) = cl.ctx.map (·.chi) := by
        rw [keys_chi hk0]
        have h1 : Ctx.chiTys Γa = Ctx.chiTys cl.ctx := by rw [hs', ← hxs, hc2]
        have := congrArg (List.map (·.1)) h1
        simpa [Ctx.chiTys, Function.comp_def] using this
      obtain ⟨k, cfg', envCtx', hke, h1, h2, h3, h4⟩ := sim2_invoke RX hfits hb'id
        (mem_ids_keys hk0 hfr) htp' hc1
        (fun d0 hd0 => by
          have := Pos.lookupTypeDecl_unique hd hd0
          subst this
          exact clausesMatch_length _ _ hm)
        hargs hkinds
        (by simpa [WithinCapacity] using hcap)
      exact ⟨k, cfg', h1, h2, by omega, cl.ctx ++ envCtx', keys_append rfl hke, h4⟩

/-- the `load` fragment: `switch` and `invoke` (unique and shared blocks) -/
def IsLoad : Stmt → Prop
  | .switch _ _ _ _ => True
  | .invoke _ _ _ _ => True
  | _ => False

/-- THEOREM A for `switch` / `invoke` (instance of `TheoremA_full`; the proofs are `sim2_switch`,
    `sim2_invoke`, `load_sim` in Scc/Backend/ProofsLoad.lean) -/
theorem TheoremA_load (hooks : Bool) (prog : Prog) (c : Nat) (code : List MockOp) (nargs c' : Nat)
    (hcomp : (compile mockSym hooks prog).run c = .ok ((code, nargs), c'))
    (hsafe : LabelSafe prog = true) (htp : LinTypedProg prog) (hfit : CodeFits code)
    (st : Pos.State) (cfg : Config)
    (R : Rel2 (Program.ofOps code) hooks prog st cfg)
    (T : Pos.StateTyped prog st) (hheap : EnoughHeap cfg) (hs : IsLoad st.stmt) :
    StepSimulated2 (Program.ofOps code) hooks prog st cfg :=
  TheoremA_full hooks prog c code nargs c' hcomp hsafe htp hfit st cfg R T hheap

/-- THEOREM A for `subst` on arbitrary contexts: erase / share against `HeapOK`, moves of both
    temporaries (instance of `TheoremA_full`; the proof is `sim2_subst` in ProofsSubstObj.lean) -/
theorem TheoremA_subst (hooks : Bool) (prog : Prog) (c : Nat) (code : List MockOp) (nargs c' : Nat)
    (hcomp : (compile mockSym hooks prog).run c = .ok ((code, nargs), c'))
    (hsafe : LabelSafe prog = true) (htp : LinTypedProg prog) (hfit : CodeFits code)
    (Γ : Ctx) (ρ : List Value) (pairs : List (Binding × Ident)) (next : Stmt) (cfg : Config)
    (R : Rel2 (Program.ofOps code) hooks prog ⟨Γ, ρ, .subst pairs next⟩ cfg)
    (T : Pos.StateTyped prog ⟨Γ, ρ, .subst pairs next⟩) (hheap : EnoughHeap cfg) :
    StepSimulated2 (Program.ofOps code) hooks prog ⟨Γ, ρ, .subst pairs next⟩ cfg :=
  TheoremA_full hooks prog c code nargs c' hcomp hsafe htp hfit _ cfg R T hheap

/-! ## whole runs -/

/-- the run of a typed program from a represented state is reproduced by the machine -/
theorem run_full_aux (hooks : Bool) (prog : Prog) (c : Nat) (code : List MockOp) (nargs c' : Nat)
    (hcomp : (compile mockSym hooks prog).run c = .ok ((code, nargs), c'))
    (hsafe : LabelSafe prog = true) (htp : LinTypedProg prog) (hfit : CodeFits code) :
    ∀ (fuel : Nat) (st : Pos.State) (acc : List (Bool × Word)) (cfg : Config)
      (out : List (Bool × Word)) (v : Word),
      Pos.StateTyped prog st → (∀ st', Reachable prog st st' → WithinCapacity st'.ctx) →
      Rel2 (Program.ofOps code) hooks prog st cfg → cfg.out = acc → cfg.next + fuel < 2 ^ 64 →
      Pos.runState prog fuel st acc = ⟨out, .done v⟩ →
      ∃ fuel', Abs.runFrom (Program.ofOps code) fuel' cfg = ⟨out, .done v⟩
  | 0, st, acc, cfg, out, v, _, _, _, _, _, h => by simp [Pos.runState] at h
  | fuel + 1, st, acc, cfg, out, v, T, hcap, R, hacc, hnext, h => by
    have hsim := TheoremA_full hooks prog c code nargs c' hcomp hsafe htp hfit st cfg R T
      (by unfold EnoughHeap; omega)
    have hsafe' := Pos.step_safe htp st T
    unfold StepSimulated2 at hsim
    simp only [Pos.runState] at h
    cases hs : Pos.step prog st with
    | stuck w => simp [hs] at h
    | done v' =>
      simp only [hs] at h hsim
      obtain ⟨k, cfg', h1, h2, h3⟩ := hsim
      simp only [Pos.Behaviour.mk.injEq, Pos.Result.done.injEq] at h
      obtain ⟨rfl, rfl⟩ := h
      refine ⟨k + 1, ?_⟩
      rw [runFrom_steps _ k 1 cfg cfg' h1]
      simp [Abs.runFrom, h3, h2, hacc]
    | next st' o =>
      simp only [hs] at h hsim
      rw [hs] at hsafe'
      obtain ⟨k, cfg', h1, h2, h3, h4⟩ := hsim (hcap st' (Reachable.step Reachable.refl hs))
      have hacc' : cfg'.out = outAfter o acc := by rw [h2, hacc]
      have h' : Pos.runState prog fuel st' (outAfter o acc) = ⟨out, .done v⟩ := by
        cases o <;> exact h
      obtain ⟨fuel', hf⟩ := run_full_aux hooks prog c code nargs c' hcomp hsafe htp hfit fuel st'
        (outAfter o acc) cfg' out v hsafe'
        (fun st'' hr => hcap st'' (reachable_prepend hs hr)) h4 hacc' (by omega) h'
      exact ⟨k + fuel', by rw [runFrom_steps _ k fuel' cfg cfg' h1]; exact hf⟩

/-- THEOREM A for whole runs: every terminating run of a label-safe, linearly typed program whose
    entry takes integers is reproduced by the abstract machine on the generated code — same trace,
    same result — provided the code fits the address space, every context of the run is within the
    capacity of the numbering of temporaries, and the run is shorter than `2^64` steps (object ids
    are never reused by the abstract heap). -/
theorem TheoremA_run (hooks : Bool) (prog : Prog) (c : Nat) (code : List MockOp) (nargs c' : Nat)
    (d0 : Def) (args : List Word) (fuel : Nat) (out : List (Bool × Word)) (v : Word)
    (hcomp : (compile mockSym hooks prog).run c = .ok ((code, nargs), c'))
    (hsafe : LabelSafe prog = true) (htp : LinTypedProg prog) (hfit : CodeFits code)
    (hd : prog.defs.head? = some d0)
    (hentry : ∀ b ∈ d0.ctx, b.chi = .ext ∧ b.ty = .i64)
    (hcap : ∀ st, Reachable prog ⟨d0.ctx, args.map .int, d0.body⟩ st → WithinCapacity st.ctx)
    (hfuel : fuel + 1 < 2 ^ 64)
    (hrun : Pos.run prog args fuel = ⟨out, .done v⟩) :
    ∃ fuel', Abs.run code (d0.name.print ++ "_") args fuel' = ⟨out, .done v⟩ := by
  have hmem : d0 ∈ prog.defs := by
    cases hdefs : prog.defs with
    | nil => rw [hdefs] at hd; simp at hd
    | cons d ds => rw [hdefs] at hd; simp at hd; subst hd; simp
  have hnodup := C14Generic.labels_unique hooks prog c code nargs c' hcomp hsafe
  unfold Pos.run at hrun
  cases hdefs : prog.defs with
  | nil => rw [hdefs] at hd; simp at hd
  | cons d ds =>
    rw [hdefs] at hd hrun
    simp only [List.head?_cons, Option.some.injEq] at hd
    subst hd
    simp only at hrun
    by_cases hlen : d.ctx.length ≠ args.length
    · simp [hlen] at hrun
    · simp only [hlen, if_false] at hrun
      have hlen' : d.ctx.length = args.length := by omega
      obtain ⟨a, hlab, RX, hn1⟩ := init_relX hooks prog c code nargs c' hcomp hnodup d hmem
        (fun b hb => (hentry b hb).1) args hlen' (hcap _ Reachable.refl)
      have T : Pos.StateTyped prog ⟨d.ctx, args.map .int, d.body⟩ :=
        ⟨htp d hmem, Pos.ints_typed d.ctx args hlen' hentry⟩
      obtain ⟨fuel', hf⟩ := run_full_aux hooks prog c code nargs c' hcomp hsafe htp hfit fuel _ []
        (initConfig a args) out v T hcap ⟨d.ctx, rfl, RX⟩ rfl (by rw [hn1]; omega) hrun
      refine ⟨fuel', ?_⟩
      unfold Abs.run
      have hdup : duplicateLabel (Program.ofOps code).labels = none := by
        apply duplicateLabel_none
        show ((layout code 0).2.map (·.1)).Nodup
        rw [layout_snd_names, labelNames_eq_dfns]
        exact hnodup
      simp only [hdup, hlab]
      exact hf

theorem TheoremA_full_holds : TheoremA_full_statement :=
  fun hooks prog c code nargs c' hcomp hsafe htp hfit st cfg R T hheap =>
    TheoremA_full hooks prog c code nargs c' hcomp hsafe htp hfit st cfg R T hheap

theorem TheoremA_run_holds : TheoremA_run_full_statement :=
  fun hooks prog c code nargs c' d0 args fuel out v hcomp hsafe htp hfit hd hentry hcap hfuel hrun =>
    TheoremA_run hooks prog c code nargs c' d0 args fuel out v hcomp hsafe htp hfit hd hentry hcap hfuel
      hrun

/-! ### non-vacuity: objects (let, subst with duplication = share, switch shared and unique) -/

private def tBox : Ty := .decl ⟨"Box", 0⟩
private def boxDecl : TypeDecl := { name := ⟨"Box", 0⟩, xtors := [⟨⟨"B", 0⟩, [⟨⟨"v", 102⟩, .ext, .i64⟩]⟩] }

/-- main(x) { let b = B(x); subst (b1 := b)(b2 := b); switch b2 { B(y) => subst (y := y)(b1 := b1);
      switch b1 { B(z) => s <- y + z; println s; exit s } } } -/
private def boxMain : Def :=
  { name := ⟨"main", 0⟩, ctx := [⟨⟨"x", 1⟩, .ext, .i64⟩],
    body := .letS ⟨"b", 2⟩ tBox ⟨"B", 0⟩ [⟨⟨"x", 1⟩, .ext, .i64⟩]
      (.subst [(⟨⟨"b1", 3⟩, .prd, tBox⟩, ⟨"b", 2⟩), (⟨⟨"b2", 4⟩, .prd, tBox⟩, ⟨"b", 2⟩)]
        (.switch ⟨"b2", 4⟩ tBox
          (.cons ⟨"B", 0⟩ [⟨⟨"y", 5⟩, .ext, .i64⟩]
            (.subst [(⟨⟨"y", 6⟩, .ext, .i64⟩, ⟨"y", 5⟩), (⟨⟨"b1", 7⟩, .prd, tBox⟩, ⟨"b1", 3⟩)]
              (.switch ⟨"b1", 7⟩ tBox
                (.cons ⟨"B", 0⟩ [⟨⟨"z", 8⟩, .ext, .i64⟩]
                  (.op ⟨"s", 9⟩ ⟨"y", 6⟩ .sum ⟨"z", 8⟩
                    (.print true ⟨"s", 9⟩ (.exit ⟨"s", 9⟩) none) none) .nil) none))
            .nil) none)) none }

private def boxProg : Prog := { defs := [boxMain], types := [boxDecl], maxId := 102 }

private def boxCode : List MockOp :=
  match (compile mockSym true boxProg).run 0 with
  | .ok ((code, _), _) => code
  | .error _ => []

/-- every hypothesis of `TheoremA_run` holds for `boxProg` started with x = 21: the abstract machine
    prints 42 and returns 42 (the block is shared by `subst`, loaded once shared and once unique) -/
example : ∃ fuel', Abs.run boxCode "main_" [21] fuel' = ⟨[(true, 42)], .done 42⟩ := by
  have hcomp : ∃ n k, (compile mockSym true boxProg).run 0 = .ok ((boxCode, n), k) := ⟨_, _, rfl⟩
  obtain ⟨nargs, c', hcomp⟩ := hcomp
  have hsafe : LabelSafe boxProg = true := by decide
  have hty : LinTypedProg boxProg := linTypedCheck_sound boxProg rfl
  have hfit : CodeFits boxCode := by decide
  have hrun : Pos.run boxProg [21] 20 = ⟨[(true, 42)], .done 42⟩ := by decide
  exact TheoremA_run true boxProg 0 boxCode nargs c' boxMain [21] 20 _ _ hcomp hsafe hty hfit rfl
    (by decide) (capacity_of_run boxProg 20 _ (by decide) (by decide)) (by decide) hrun

/-! ### non-vacuity: closures (create, subst moving a closure, invoke) -/

private def tFun : Ty := .decl ⟨"Fun", 0⟩
private def funDecl : TypeDecl := { name := ⟨"Fun", 0⟩, xtors := [⟨⟨"Ap", 0⟩, [⟨⟨"a", 202⟩, .ext, .i64⟩]⟩] }

/-- main(x) { create f : Fun = (x){ Ap(a) => s <- a + x; println s; exit s }; lit n <- 5;
      subst (n := n)(f := f); invoke f Ap } -/
private def funMain : Def :=
  { name := ⟨"main", 0⟩, ctx := [⟨⟨"x", 1⟩, .ext, .i64⟩],
    body := .create ⟨"f", 2⟩ tFun (some [⟨⟨"x", 1⟩, .ext, .i64⟩])
      (.cons ⟨"Ap", 0⟩ [⟨⟨"a", 3⟩, .ext, .i64⟩]
        (.op ⟨"s", 4⟩ ⟨"a", 3⟩ .sum ⟨"x", 1⟩ (.print true ⟨"s", 4⟩ (.exit ⟨"s", 4⟩) none) none) .nil)
      (.lit ⟨"n", 5⟩ 5
        (.subst [(⟨⟨"n", 6⟩, .ext, .i64⟩, ⟨"n", 5⟩), (⟨⟨"f", 7⟩, .cns, tFun⟩, ⟨"f", 2⟩)]
          (.invoke ⟨"f", 7⟩ ⟨"Ap", 0⟩ tFun [⟨⟨"n", 6⟩, .ext, .i64⟩])) none) none none }

private def funProg : Prog := { defs := [funMain], types := [funDecl], maxId := 202 }

private def funCode : List MockOp :=
  match (compile mockSym true funProg).run 0 with
  | .ok ((code, _), _) => code
  | .error _ => []

example : ∃ fuel', Abs.run funCode "main_" [37] fuel' = ⟨[(true, 42)], .done 42⟩ := by
  have hcomp : ∃ n k, (compile mockSym true funProg).run 0 = .ok ((funCode, n), k) := ⟨_, _, rfl⟩
  obtain ⟨nargs, c', hcomp⟩ := hcomp
  have hsafe : LabelSafe funProg = true := by decide
  have hty : LinTypedProg funProg := linTypedCheck_sound funProg rfl
  have hfit : CodeFits funCode := by decide
  have hrun : Pos.run funProg [37] 20 = ⟨[(true, 42)], .done 42⟩ := by decide
  exact TheoremA_run true funProg 0 funCode nargs c' funMain [37] 20 _ _ hcomp hsafe hty hfit rfl
    (by decide) (capacity_of_run funProg 20 _ (by decide) (by decide)) (by decide) hrun

/-! ## the ORIGINAL statement is false

  `Sim.Rel` does not record whether a non-`ext` heap field is `prd` or `cns`, and `TheoremA_statement`
  does not ask for typed values.  Counterexample: `main(x : prd T) { switch x { K(y : cns T) => … } }`
  in a state where `x` is an object whose field is an OBJECT stored with kind `prd`: the positional
  machine steps, the abstract machine is stuck at `load` (`load: kind-mismatch`). -/

private def cxT : Ty := .decl ⟨"T", 0⟩
private def cxDecl : TypeDecl := { name := ⟨"T", 0⟩, xtors := [⟨⟨"K", 0⟩, [⟨⟨"y", 10⟩, .cns, cxT⟩]⟩] }
private def cxBody : Stmt := .subst [] (.lit ⟨"z", 3⟩ 0 (.exit ⟨"z", 3⟩) none)
private def cxClause : Clause := ⟨⟨"K", 0⟩, [⟨⟨"y", 2⟩, .cns, cxT⟩], cxBody⟩
private def cxMain : Def :=
  { name := ⟨"main", 0⟩, ctx := [⟨⟨"x", 1⟩, .prd, cxT⟩],
    body := .switch ⟨"x", 1⟩ cxT (.cons ⟨"K", 0⟩ [⟨⟨"y", 2⟩, .cns, cxT⟩] cxBody .nil) none }
private def cxProg : Prog := { defs := [cxMain], types := [cxDecl], maxId := 10 }
private def cxObj : Obj := ⟨0, [⟨.prd, 0, 0⟩]⟩
private def cxCfg (a : Nat) : Config := ⟨a, [(0, 1), (1, 0)], none, [(1, cxObj)], 2, []⟩
private def cxState : Pos.State := ⟨cxMain.ctx, [.obj 0 [.obj 0 []]], cxMain.body⟩

theorem TheoremA_statement_false : ¬ TheoremA_statement := by
  intro h
  have hok : ∃ r, (compile mockSym true cxProg).run 0 = .ok r := ⟨_, rfl⟩
  obtain ⟨⟨⟨code, nargs⟩, c'⟩, hcomp⟩ := hok
  have hsafe : LabelSafe cxProg = true := by decide
  have hty : LinTypedProg cxProg := linTypedCheck_sound cxProg rfl
  have hnodup := C14Generic.labels_unique true cxProg 0 code nargs c' hcomp hsafe
  have hmem : cxMain ∈ cxProg.defs := by simp [cxProg]
  obtain ⟨a, ck, ck', ops, hlab, hrun, hat⟩ :=
    defsAt_of_compile true cxProg 0 code nargs c' hcomp hnodup cxMain hmem
  have R : Rel (Program.ofOps code) true cxProg cxState (cxCfg a) := {
    len := rfl
    cap := by decide
    vals := by
      intro i h1 h2
      have hi : i = 0 := by simp [cxState, cxMain] at h1; omega
      subst hi
      refine ⟨?_, rfl, rfl, fun _ => rfl⟩
      show RepVal _ _ _ _ (.obj 0 [.obj 0 []]) (some 1) (BitVec.ofNat 64 0)
      exact .obj 0 _ 1 (.block _ _ 1 cxObj (by decide) rfl
        (.cons _ _ ⟨.prd, 0, 0⟩ [] (.obj 0 [] 0 .empty) rfl .nil))
    heap := {
      pos := by show 0 < 2; decide
      nodup := by show ([1] : List Nat).Nodup; decide
      ids := by
        intro e he
        have : e = (1, cxObj) := by simpa [cxCfg] using he
        subst this
        show 0 < 1 ∧ 1 < 2 ∧ 1 < 2 ^ 64
        decide
      counts := by
        intro e he
        have : e = (1, cxObj) := by simpa [cxCfg] using he
        subst this
        rfl
      live := by
        intro id hid
        by_cases h1 : id = 1
        · subst h1; rfl
        · exfalso
          have : refCount (cxCfg a).heap (roots cxState.ctx (cxCfg a).temps) id = 0 := by
            have hr : roots cxState.ctx (cxCfg a).temps = [1] := rfl
            rw [hr]
            have hne : ¬ (1 = id) := fun e => h1 e.symm
            simp [refCount, cxCfg, cxObj, Obj.children, hne]
          omega }
    code := ⟨ck, ck', ops, hrun, hat⟩ }
  have hsim := h true cxProg 0 code nargs c' hcomp hsafe hty cxState (cxCfg a) R (hty cxMain hmem)
  unfold StepSimulated at hsim
  have hstep : Pos.step cxProg cxState =
      .next ⟨[⟨⟨"y", 2⟩, .cns, cxT⟩], [.obj 0 []], cxBody⟩ none := rfl
  rw [hstep] at hsim
  obtain ⟨k, cfg', hk, _, R'⟩ := hsim (by unfold WithinCapacity; decide)
  -- the machine is stuck at the `load`
  have hload : (Program.ofOps code).code[a]? = some (.load [.cns] 0) :=
    switch_code_single (cl := cxClause) ⟨ck, ck', ops, hrun, hat⟩ (by decide) rfl
  have hstuck : Abs.step (Program.ofOps code) (cxCfg a) = .halt (.stuck "load: kind-mismatch") := by
    have hc : (Program.ofOps code).code[(cxCfg a).pc]? = some (.load [.cns] 0) := hload
    have hg : (cxCfg a).temps.get (2 * 0) = some 1 := rfl
    have hh : (cxCfg a).heap.get (1 : Word).toNat = some cxObj := rfl
    have hne : ((1 : Word) == 0) = false := by decide
    have hk' : (cxObj.fields.map (·.chi) != [Chi.cns]) = true := by decide
    simp only [Abs.step, hc, getT, hg, hne, hh, hk', Bool.false_eq_true, if_false, if_true, Abs.stuck]
  cases k with
  | zero =>
    simp only [stepsTo] at hk
    subst hk
    -- the same configuration does not represent the new state: position 0 is `obj 0 []`, its
    -- pointer part would have to be null
    obtain ⟨hrep, _⟩ := R'.vals 0 (by decide) (by decide)
    have hrep' : RepVal (Program.ofOps code) true cxProg.types (cxCfg a).heap (.obj 0 []) (some 1)
        ((Temps.get (cxCfg a).temps (2 * 0 + 1)).getD 0) := hrep
    cases hrep' with
    | obj _ _ _ hb => cases hb
  | succ k =>
    obtain ⟨c1, hs, _⟩ := hk
    rw [hstuck] at hs
    cases hs

#print axioms TheoremA_heapfree
#print axioms TheoremA_alloc
#print axioms TheoremA_init
#print axioms TheoremA_run_int
#print axioms TheoremA_full
#print axioms TheoremA_load
#print axioms TheoremA_subst
#print axioms TheoremA_run
#print axioms TheoremA_statement_false

end Scc.Props.C06Generic
