/-
  Scc.Props.C06Generic — Theorem A (C06–C08, the GENERIC simulation): one step of the AxCut positional
  machine (Scc/AxCut/SemPos.lean) on a linearized program is simulated by steps of the abstract
  backend machine (Scc/Backend/AbstractMachine.lean) on the code that the generic code generator
  produces with the mock backend.  The representation relation `Rel` (Scc/Backend/SimDefs.lean):
  position i's value is represented by the temporaries 2i (pointer part) and 2i+1 (word part);
  objects and closure environments live in the abstract heap, reference counts are exact (`HeapOK`);
  the code of the current statement is at the program counter.

  * `TheoremA_statement`  : the FULL statement (every statement form), kept as a `def … : Prop`.
  * `TheoremA_run_statement`: its corollary for whole runs (same trace, same result).
  * `TheoremA_heapfree`   : PROVED — the statement for the heap-free statement forms
      `lit`, `op`, `print`, `ifc` (both forms), `exit`, `call` in ARBITRARY environments (objects and
      closures may sit in the other positions; these statements neither read nor change the heap),
      and `subst` on contexts of integers (all bindings `ext`; the emitted parallel moves are shown
      correct with the PMoves theorem `parallelMovesFuel_correct`, ProofsPM.lean / ProofsSubst.lean).
  * `TheoremA_run_int`    : PROVED — whole runs of INTEGER programs (statements `lit op print ifc exit
      call subst`, all contexts `ext`; loops through `call`): a terminating run of the positional machine
      is reproduced by the abstract machine on the generated code, same trace, same result.
  * `TheoremA_alloc`      : PROVED — the statement for the allocating forms `let` and `create` (the
      `store` contract against the representation and the counting invariant `HeapOK`: a fresh object
      with count 0 whose fields take over the references of the consumed positions), under
      `EnoughHeap` (object ids below 2^64) and, for `create`, the closure environment annotated as the
      context suffix it captures (what `linearize` produces; `LinTyped` only fixes ids/kinds/types).
    What is missing for the full statement: `subst` with object/closure variables (`erase`/`share`
    against `HeapOK`, moves of both temporaries), `switch`, `invoke` (`load`, unique and shared case,
    against `HeapOK`).
  * `init_rel`: the initial configuration of `Abs.run` represents the initial state of `Pos.run`.
  * `defsAt_of_compile` (ProofsSim.lean): every definition's code is in the program at its label.
-/
import Scc.Backend.ProofsSubst
import Scc.Backend.ProofsHeap
import Scc.AxCut.LinTyping
import Scc.Props.C14Generic

set_option linter.unusedVariables false

namespace Scc.Props.C06Generic

open Scc Scc.AxCut Scc.AxCut.Pos Scc.Backend Scc.Backend.Abs Scc.Backend.Sim Scc.Backend.Subst
open Scc.Props.C14Generic (LabelSafe)

/-- the trace grows by the optional output of the step (the machine keeps it most recent first) -/
def outAfter (o : Option (Bool × Word)) (out : List (Bool × Word)) : List (Bool × Word) :=
  match o with
  | some x => x :: out
  | none => out

/-- capacity of the mock numbering (temporaries of positions stay below the special temporaries) -/
def WithinCapacity (Γ : Ctx) : Prop := 2 * Γ.length + 2 < Mock.T_TEMP

/-- the simulation claim for ONE step of the positional machine from a represented state
    (`k` machine steps; `k = 0` only for a `subst` that needs no move, e.g. the identity) -/
def StepSimulated (P : Program) (hooks : Bool) (prog : Prog) (st : Pos.State) (cfg : Config) : Prop :=
  match Pos.step prog st with
  | .next st' o =>
    WithinCapacity st'.ctx →
    ∃ k cfg', stepsTo P k cfg cfg' ∧ cfg'.out = outAfter o cfg.out ∧ Rel P hooks prog st' cfg'
  | .done v =>
    ∃ k cfg', stepsTo P k cfg cfg' ∧ cfg'.out = cfg.out ∧ Abs.step P cfg' = .halt (.done v)
  | .stuck _ => True

/-- THEOREM A (full statement): for the code of a label-safe, linearly typed program, every step of
    the positional machine from a represented, typed state is simulated. -/
def TheoremA_statement : Prop :=
  ∀ (hooks : Bool) (prog : Prog) (c : Nat) (code : List MockOp) (nargs c' : Nat),
    (compile mockSym hooks prog).run c = .ok ((code, nargs), c') →
    LabelSafe prog = true → LinTypedProg prog →
    ∀ (st : Pos.State) (cfg : Config),
      Rel (Program.ofOps code) hooks prog st cfg →
      LinTyped prog.types prog.sigs st.ctx st.stmt →
      StepSimulated (Program.ofOps code) hooks prog st cfg

/-- the states the positional machine reaches from `st0` -/
inductive Reachable (prog : Prog) (st0 : Pos.State) : Pos.State → Prop where
  | refl : Reachable prog st0 st0
  | step {st st' : Pos.State} {o : Option (Bool × Word)} :
    Reachable prog st0 st → Pos.step prog st = .next st' o → Reachable prog st0 st'

/-- corollary for whole runs: a terminating run of the positional machine is reproduced, trace and
    result, by the abstract machine on the generated code (for some amount of fuel) -/
def TheoremA_run_statement : Prop :=
  ∀ (hooks : Bool) (prog : Prog) (c : Nat) (code : List MockOp) (nargs c' : Nat) (d0 : Def)
    (args : List Word) (fuel : Nat) (out : List (Bool × Word)) (v : Word),
    (compile mockSym hooks prog).run c = .ok ((code, nargs), c') →
    LabelSafe prog = true → LinTypedProg prog → prog.defs.head? = some d0 →
    (∀ b ∈ d0.ctx, b.chi = .ext) →
    -- every context of the run is within capacity
    (∀ st, Reachable prog ⟨d0.ctx, args.map .int, d0.body⟩ st → WithinCapacity st.ctx) →
    Pos.run prog args fuel = ⟨out, .done v⟩ →
    ∃ fuel', Abs.run code (d0.name.print ++ "_") args fuel' = ⟨out, .done v⟩

/-! ## the proved part -/

/-- all variables are integers -/
def IntCtx (Γ : Ctx) : Prop := ∀ b ∈ Γ, b.chi = .ext

/-- the statement forms that neither read nor change the heap (`subst`: on integer contexts) -/
def HeapFree (Γ : Ctx) : Stmt → Prop
  | .lit _ _ _ _ => True
  | .op _ _ _ _ _ _ => True
  | .print _ _ _ _ => True
  | .ifc _ _ _ _ _ => True
  | .exit _ => True
  | .call _ _ => True
  | .subst _ _ => IntCtx Γ
  | _ => False

theorem fresh_of_not_mem_ids {Γ : Ctx} {x : Ident} (h : x.id ∉ Γ.ids) : ∀ b ∈ Γ, b.var.id ≠ x.id := by
  intro b hb e
  apply h
  unfold Ctx.ids
  exact List.mem_map.mpr ⟨b, hb, e⟩

/-- THEOREM A for the heap-free statement forms (one machine step each; `exit`: two). -/
theorem TheoremA_heapfree (hooks : Bool) (prog : Prog) (c : Nat) (code : List MockOp) (nargs c' : Nat)
    (hcomp : (compile mockSym hooks prog).run c = .ok ((code, nargs), c'))
    (hsafe : LabelSafe prog = true)
    (st : Pos.State) (cfg : Config)
    (R : Rel (Program.ofOps code) hooks prog st cfg)
    (hty : LinTyped prog.types prog.sigs st.ctx st.stmt)
    (hf : HeapFree st.ctx st.stmt) :
    StepSimulated (Program.ofOps code) hooks prog st cfg := by
  have hnodup := C14Generic.labels_unique hooks prog c code nargs c' hcomp hsafe
  have D := defsAt_of_compile hooks prog c code nargs c' hcomp hnodup
  obtain ⟨Γ, ρ, s⟩ := st
  unfold StepSimulated
  cases s with
  | lit x n next fv =>
    cases hty with
    | lit _ hfr _ =>
      simp only [Pos.step]
      intro hcap
      obtain ⟨cfg', h1, h2, h3⟩ := sim_lit R (fresh_of_not_mem_ids hfr)
        (by simpa [WithinCapacity] using hcap)
      exact ⟨1, cfg', h1, h2, h3⟩
  | op x a o b next fv =>
    cases hty with
    | op _ _ _ hfr _ =>
      simp only [Pos.step]
      cases ha : readInt Γ ρ a with
      | error e => simp
      | ok va =>
        cases hb : readInt Γ ρ b with
        | error e => simp
        | ok vb =>
          cases hv : Pos.evalOp o va vb with
          | error e => simp [hv]
          | ok v =>
            simp only [hv]
            intro hcap
            obtain ⟨cfg', h1, h2, h3⟩ := sim_op R (fresh_of_not_mem_ids hfr)
              (by simpa [WithinCapacity] using hcap) ha hb hv
            exact ⟨1, cfg', h1, h2, h3⟩
  | print nl a next fv =>
    simp only [Pos.step]
    cases ha : readInt Γ ρ a with
    | error e => simp
    | ok v =>
      simp only
      intro _
      obtain ⟨cfg', h1, h2, h3⟩ := sim_print R ha
      exact ⟨1, cfg', h1, h2, h3⟩
  | ifc srt a b t e =>
    simp only [Pos.step]
    cases ha : readInt Γ ρ a with
    | error err => simp
    | ok va =>
      cases b with
      | none =>
        simp only
        intro _
        obtain ⟨cfg', h1, h2, h3⟩ := sim_ifc (b := none) (vb := 0) R ha rfl
        exact ⟨1, cfg', h1, h2, h3⟩
      | some b' =>
        simp only
        cases hb : readInt Γ ρ b' with
        | error err => simp
        | ok vb =>
          simp only
          intro _
          obtain ⟨cfg', h1, h2, h3⟩ := sim_ifc (b := some b') (vb := vb) R ha hb
          exact ⟨1, cfg', h1, h2, h3⟩
  | exit a =>
    simp only [Pos.step]
    cases ha : readInt Γ ρ a with
    | error e => simp
    | ok v =>
      simp only
      obtain ⟨cfg', h1, h2, h3⟩ := sim_exit R ha
      exact ⟨1, cfg', h1, h2, h3⟩
  | call l args =>
    simp only [Pos.step]
    cases hd : Pos.findDef prog.defs l with
    | none => simp
    | some d =>
      simp only
      by_cases hsh : Pos.chiTys Γ ≠ Pos.chiTys d.ctx ∨ ρ.length ≠ Γ.length
      · simp [hsh]
      · simp only [hsh, if_false]
        intro _
        have hchi : Pos.chiTys Γ = Pos.chiTys d.ctx := by
          by_cases h : Pos.chiTys Γ = Pos.chiTys d.ctx
          · exact h
          · exact absurd (Or.inl h) hsh
        obtain ⟨cfg', h1, h2, h3⟩ := sim_call R D hd hchi
        exact ⟨1, cfg', h1, h2, h3⟩
  | subst pairs next =>
    have hext : IntCtx Γ := hf
    cases hty with
    | subst hnd hhas hnew _ =>
      simp only [Pos.step]
      cases hb : Pos.step.build Γ ρ pairs with
      | error e => simp
      | ok vs =>
        simp only
        intro hcap
        have hnew' : (pairs.map (·.1.var.id)).Nodup := by
          have : ((pairs.map (·.1)).map (·.var.id)).Nodup := hnew
          rw [List.map_map] at this
          exact this
        have hnewext : ∀ p ∈ pairs, p.1.chi = .ext := by
          intro p hp
          obtain ⟨b, hb', _, hchi, _⟩ := hhas p hp
          rw [← hchi]; exact hext b hb'
        have hold : ∀ p ∈ pairs, ∃ b ∈ Γ, b.var.id = p.2.id := by
          intro p hp
          obtain ⟨b, hb', hid, _, _⟩ := hhas p hp
          exact ⟨b, hb', hid⟩
        obtain ⟨k, cfg', h1, h2, h3⟩ := sim_subst R hnd hext hnew' hnewext hold
          (by simpa [WithinCapacity] using hcap) hb
        exact ⟨k, cfg', h1, h2, h3⟩
  | letS _ _ _ _ _ _ => exact absurd hf (by simp [HeapFree])
  | switch _ _ _ _ => exact absurd hf (by simp [HeapFree])
  | create _ _ _ _ _ _ _ => exact absurd hf (by simp [HeapFree])
  | invoke _ _ _ _ => exact absurd hf (by simp [HeapFree])

/-! ## the allocating statements -/

/-- enough heap: object references fit a word -/
def EnoughHeap (cfg : Config) : Prop := cfg.next < 2 ^ 64

/-- side conditions of `TheoremA_alloc` -/
def AllocOK (Γ : Ctx) (cfg : Config) : Stmt → Prop
  | .letS _ _ _ _ _ _ => EnoughHeap cfg
  | .create _ _ env _ _ _ _ =>
    EnoughHeap cfg ∧ ∀ Γc, env = some Γc → Γc = Γ.drop (Γ.length - Γc.length)
  | _ => False

theorem take_of_append {Γ Γ' Γa : Ctx} (h : Γ = Γ' ++ Γa) : Γ.take (Γ.length - Γa.length) = Γ' := by
  subst h; simp

/-- THEOREM A for `let` and `create` (two machine steps each: `store`, then the tag / table address). -/
theorem TheoremA_alloc (hooks : Bool) (prog : Prog) (code : List MockOp)
    (st : Pos.State) (cfg : Config)
    (R : Rel (Program.ofOps code) hooks prog st cfg)
    (hty : LinTyped prog.types prog.sigs st.ctx st.stmt)
    (ha : AllocOK st.ctx cfg st.stmt) :
    StepSimulated (Program.ofOps code) hooks prog st cfg := by
  obtain ⟨Γ, ρ, s⟩ := st
  unfold StepSimulated
  cases s with
  | letS x ty tag args next fv =>
    cases hty with
    | @letS _ Γ' Γa _ _ _ _ sig _ _ _ hsplit hkeys _ _ hfr _ =>
      have hlenA : Γa.length = args.length := by
        have := congrArg List.length hkeys
        simpa [Ctx.keys] using this
      have hsplit' : Γ = Γ' ++ Γa := hsplit
      have hk : args.length ≤ Γ.length := by rw [hsplit']; simp; omega
      simp only [Pos.step]
      by_cases hsh : Γ.length < args.length ∨ ρ.length ≠ Γ.length
      · simp [hsh]
      · simp only [hsh, if_false]
        cases hpos : Pos.tagPosition prog.types ty tag with
        | error e => simp
        | ok pos =>
          simp only
          intro hcap
          have htake : Γ.take (Γ.length - args.length) = Γ' := by
            rw [← hlenA]; exact take_of_append hsplit'
          obtain ⟨cfg', h1, h2, h3⟩ := sim_let R hk
            (by rw [htake]; exact fresh_of_not_mem_ids hfr) hpos
            (by simpa [WithinCapacity] using hcap) ha
          exact ⟨2, cfg', h1, h2, h3⟩
  | create x ty env clauses next f1 f2 =>
    cases hty with
    | @create _ Γn Γe Γc _ _ _ _ _ _ _ _ hsplit hkeys _ _ _ hfr _ =>
      obtain ⟨hheap, hann⟩ := ha
      have hΓc := hann Γc rfl
      have hlenE : Γe.length = Γc.length := by
        have := congrArg List.length hkeys
        simpa [Ctx.keys] using this
      have hsplit' : Γ = Γn ++ Γe := hsplit
      have hk : Γc.length ≤ Γ.length := by rw [hsplit']; simp; omega
      simp only [Pos.step]
      by_cases hsh : Γ.length < Γc.length ∨ ρ.length ≠ Γ.length
      · simp [hsh]
      · simp only [hsh, if_false]
        intro hcap
        have htake : Γ.take (Γ.length - Γc.length) = Γn := by
          rw [← hlenE]; exact take_of_append hsplit'
        obtain ⟨cfg', h1, h2, h3⟩ := sim_create R hk hΓc
          (by rw [htake]; exact fresh_of_not_mem_ids hfr)
          (by simpa [WithinCapacity] using hcap) hheap
        exact ⟨2, cfg', h1, h2, h3⟩
  | lit _ _ _ _ => exact absurd ha (by simp [AllocOK])
  | op _ _ _ _ _ _ => exact absurd ha (by simp [AllocOK])
  | print _ _ _ _ => exact absurd ha (by simp [AllocOK])
  | ifc _ _ _ _ _ => exact absurd ha (by simp [AllocOK])
  | exit _ => exact absurd ha (by simp [AllocOK])
  | call _ _ => exact absurd ha (by simp [AllocOK])
  | subst _ _ => exact absurd ha (by simp [AllocOK])
  | switch _ _ _ _ => exact absurd ha (by simp [AllocOK])
  | invoke _ _ _ _ => exact absurd ha (by simp [AllocOK])

/-! ## whole runs of integer programs -/

/-- statements of integer programs: no `let`, `switch`, `create`, `invoke` -/
def IntStmt : Stmt → Prop
  | .lit _ _ next _ => IntStmt next
  | .op _ _ _ _ next _ => IntStmt next
  | .print _ _ next _ => IntStmt next
  | .ifc _ _ _ t e => IntStmt t ∧ IntStmt e
  | .exit _ => True
  | .call _ _ => True
  | .subst _ next => IntStmt next
  | _ => False

/-- integer programs: every definition has integer parameters and an integer body -/
def IntProg (prog : Prog) : Prop := ∀ d ∈ prog.defs, IntCtx d.ctx ∧ IntStmt d.body

/-- the invariant of the run: typed, integer statement, integer context -/
def IntState (prog : Prog) (st : Pos.State) : Prop :=
  LinTyped prog.types prog.sigs st.ctx st.stmt ∧ IntStmt st.stmt ∧ IntCtx st.ctx

theorem intCtx_snoc {Γ : Ctx} (h : IntCtx Γ) (b : Binding) (hb : b.chi = .ext) : IntCtx (Γ ++ [b]) := by
  intro b' hb'
  simp only [List.mem_append, List.mem_singleton] at hb'
  rcases hb' with hb' | rfl
  · exact h b' hb'
  · exact hb

theorem intState_step {prog : Prog} (htp : LinTypedProg prog) (hip : IntProg prog) {st st' : Pos.State}
    {o : Option (Bool × Word)} (I : IntState prog st) (hs : Pos.step prog st = .next st' o) :
    IntState prog st' := by
  obtain ⟨Γ, ρ, s⟩ := st
  obtain ⟨hty, hint, hctx⟩ := I
  cases s with
  | lit x n next fv =>
    cases hty with
    | lit _ _ hnext =>
      simp only [Pos.step] at hs
      cases hs
      exact ⟨hnext, hint, intCtx_snoc hctx _ rfl⟩
  | op x a o' b next fv =>
    cases hty with
    | op _ _ _ _ hnext =>
      simp only [Pos.step] at hs
      split at hs
      · cases hs
      · split at hs
        · cases hs
        · split at hs
          · cases hs
          · cases hs
            exact ⟨hnext, hint, intCtx_snoc hctx _ rfl⟩
  | print nl a next fv =>
    cases hty with
    | print _ _ hnext =>
      simp only [Pos.step] at hs
      split at hs
      · cases hs
      · cases hs
        exact ⟨hnext, hint, hctx⟩
  | ifc srt a b t e =>
    cases hty with
    | ifc _ _ _ ht he =>
      simp only [Pos.step] at hs
      split at hs
      · cases hs
      · split at hs
        · cases hs
          refine ⟨?_, ?_, hctx⟩
          · simp only; split <;> assumption
          · simp only; split
            · exact hint.1
            · exact hint.2
        · split at hs
          · cases hs
          · cases hs
            refine ⟨?_, ?_, hctx⟩
            · simp only; split <;> assumption
            · simp only; split
              · exact hint.1
              · exact hint.2
  | exit a =>
    simp only [Pos.step] at hs
    split at hs <;> cases hs
  | call l args =>
    simp only [Pos.step] at hs
    split at hs
    · cases hs
    · rename_i d hd
      split at hs
      · cases hs
      · rename_i hsh
        cases hs
        have hmem : d ∈ prog.defs := List.mem_of_find?_eq_some hd
        refine ⟨htp d hmem, (hip d hmem).2, (hip d hmem).1⟩
  | subst pairs next =>
    cases hty with
    | subst _ hhas _ hnext =>
      simp only [Pos.step] at hs
      split at hs
      · cases hs
      · cases hs
        refine ⟨hnext, hint, ?_⟩
        intro b hb
        obtain ⟨p, hp, rfl⟩ := List.mem_map.mp hb
        obtain ⟨b0, hb0, _, hchi, _⟩ := hhas p hp
        rw [← hchi]; exact hctx b0 hb0
  | letS _ _ _ _ _ _ => exact absurd hint (by simp [IntStmt])
  | switch _ _ _ _ => exact absurd hint (by simp [IntStmt])
  | create _ _ _ _ _ _ _ => exact absurd hint (by simp [IntStmt])
  | invoke _ _ _ _ => exact absurd hint (by simp [IntStmt])

theorem heapFree_of_int {prog : Prog} {st : Pos.State} (I : IntState prog st) :
    HeapFree st.ctx st.stmt := by
  obtain ⟨Γ, ρ, s⟩ := st
  obtain ⟨_, hint, hctx⟩ := I
  cases s <;> first | trivial | exact hctx | exact absurd hint (by simp [IntStmt])

theorem reachable_prepend {prog : Prog} {st st1 st' : Pos.State} {o : Option (Bool × Word)}
    (hs : Pos.step prog st = .next st1 o) (h : Reachable prog st1 st') : Reachable prog st st' := by
  induction h with
  | refl => exact Reachable.step Reachable.refl hs
  | step _ hs' ih => exact Reachable.step ih hs'

theorem runFrom_steps (P : Program) : ∀ (k n : Nat) (cfg cfg' : Config), stepsTo P k cfg cfg' →
    Abs.runFrom P (k + n) cfg = Abs.runFrom P n cfg'
  | 0, n, cfg, cfg', h => by simp only [stepsTo] at h; subst h; simp
  | k + 1, n, cfg, cfg', h => by
    obtain ⟨c1, hs, h'⟩ := h
    rw [show k + 1 + n = (k + n) + 1 by omega]
    simp only [Abs.runFrom, hs]
    exact runFrom_steps P k n c1 cfg' h'

/-- the run of an integer program from a represented state is reproduced by the machine -/
theorem run_int_aux (hooks : Bool) (prog : Prog) (c : Nat) (code : List MockOp) (nargs c' : Nat)
    (hcomp : (compile mockSym hooks prog).run c = .ok ((code, nargs), c'))
    (hsafe : LabelSafe prog = true) (htp : LinTypedProg prog) (hip : IntProg prog) :
    ∀ (fuel : Nat) (st : Pos.State) (acc : List (Bool × Word)) (cfg : Config)
      (out : List (Bool × Word)) (v : Word),
      IntState prog st → (∀ st', Reachable prog st st' → WithinCapacity st'.ctx) →
      Rel (Program.ofOps code) hooks prog st cfg → cfg.out = acc →
      Pos.runState prog fuel st acc = ⟨out, .done v⟩ →
      ∃ fuel', Abs.runFrom (Program.ofOps code) fuel' cfg = ⟨out, .done v⟩
  | 0, st, acc, cfg, out, v, _, _, _, _, h => by simp [Pos.runState] at h
  | fuel + 1, st, acc, cfg, out, v, I, hcap, R, hacc, h => by
    have hsim := TheoremA_heapfree hooks prog c code nargs c' hcomp hsafe st cfg R I.1
      (heapFree_of_int I)
    unfold StepSimulated at hsim
    simp only [Pos.runState] at h
    cases hs : Pos.step prog st with
    | stuck w => simp [hs] at h
    | done v' =>
      simp only [hs] at h hsim
      obtain ⟨k, cfg', h1, h2, h3⟩ := hsim
      simp only [Pos.Behaviour.mk.injEq, Pos.Result.done.injEq] at h
      obtain ⟨rfl, rfl⟩ := h
      refine ⟨k + 1, ?_⟩
      rw [runFrom_steps _ k 1 cfg cfg' h1]
      simp [Abs.runFrom, h3, h2, hacc]
    | next st' o =>
      simp only [hs] at h hsim
      obtain ⟨k, cfg', h1, h2, h3⟩ := hsim (hcap st' (Reachable.step Reachable.refl hs))
      have hacc' : cfg'.out = outAfter o acc := by rw [h2, hacc]
      have h' : Pos.runState prog fuel st' (outAfter o acc) = ⟨out, .done v⟩ := by
        cases o <;> exact h
      obtain ⟨fuel', hf⟩ := run_int_aux hooks prog c code nargs c' hcomp hsafe htp hip fuel st'
        (outAfter o acc) cfg' out v (intState_step htp hip I hs)
        (fun st'' hr => hcap st'' (reachable_prepend hs hr)) h3 hacc' h'
      exact ⟨k + fuel', by rw [runFrom_steps _ k fuel' cfg cfg' h1]; exact hf⟩

/-- the initial configuration of `Abs.run` (entry = label of a definition whose parameters are all
    `ext`, arguments in the word parts of positions 0, 1, …, empty heap) represents the initial state
    of `Pos.run` -/
theorem TheoremA_init (hooks : Bool) (prog : Prog) (c : Nat) (code : List MockOp) (nargs c' : Nat)
    (hcomp : (compile mockSym hooks prog).run c = .ok ((code, nargs), c'))
    (hsafe : LabelSafe prog = true)
    (d0 : Def) (hd : d0 ∈ prog.defs) (hext : ∀ b ∈ d0.ctx, b.chi = .ext)
    (args : List Word) (hlen : d0.ctx.length = args.length) (hcap : WithinCapacity d0.ctx) :
    ∃ a, (Program.ofOps code).labelAddr (d0.name.print ++ "_") = some a ∧
      Rel (Program.ofOps code) hooks prog ⟨d0.ctx, args.map .int, d0.body⟩ (initConfig a args) :=
  init_rel hooks prog c code nargs c' hcomp
    (C14Generic.labels_unique hooks prog c code nargs c' hcomp hsafe) d0 hd hext args hlen hcap

theorem duplicateLabel_none : ∀ (l : List (String × Nat)), (l.map (·.1)).Nodup → duplicateLabel l = none
  | [], _ => rfl
  | (n, a) :: rest, h => by
    simp only [List.map_cons, List.nodup_cons] at h
    simp only [duplicateLabel]
    have : rest.any (fun e => e.1 == n) = false := by
      rw [List.any_eq_false]
      intro e he hc
      simp only [beq_iff_eq] at hc
      exact h.1 (List.mem_map.mpr ⟨e, he, hc⟩)
    simp only [this, Bool.false_eq_true, if_false]
    exact duplicateLabel_none rest h.2

/-- THEOREM A for whole runs of integer programs: a terminating run of the positional machine is
    reproduced (same trace, same result) by the abstract machine on the generated code. -/
theorem TheoremA_run_int (hooks : Bool) (prog : Prog) (c : Nat) (code : List MockOp) (nargs c' : Nat)
    (d0 : Def) (args : List Word) (fuel : Nat) (out : List (Bool × Word)) (v : Word)
    (hcomp : (compile mockSym hooks prog).run c = .ok ((code, nargs), c'))
    (hsafe : LabelSafe prog = true) (htp : LinTypedProg prog) (hip : IntProg prog)
    (hd : prog.defs.head? = some d0)
    (hcap : ∀ st, Reachable prog ⟨d0.ctx, args.map .int, d0.body⟩ st → WithinCapacity st.ctx)
    (hrun : Pos.run prog args fuel = ⟨out, .done v⟩) :
    ∃ fuel', Abs.run code (d0.name.print ++ "_") args fuel' = ⟨out, .done v⟩ := by
  have hmem : d0 ∈ prog.defs := by
    cases hdefs : prog.defs with
    | nil => rw [hdefs] at hd; simp at hd
    | cons d ds => rw [hdefs] at hd; simp at hd; subst hd; simp
  have hnodup := C14Generic.labels_unique hooks prog c code nargs c' hcomp hsafe
  -- unfold the positional run
  unfold Pos.run at hrun
  cases hdefs : prog.defs with
  | nil => rw [hdefs] at hd; simp at hd
  | cons d ds =>
    rw [hdefs] at hd hrun
    simp only [List.head?_cons, Option.some.injEq] at hd
    subst hd
    simp only at hrun
    by_cases hlen : d.ctx.length ≠ args.length
    · simp [hlen] at hrun
    · simp only [hlen, if_false] at hrun
      have hlen' : d.ctx.length = args.length := by omega
      obtain ⟨a, hlab, R⟩ := TheoremA_init hooks prog c code nargs c' hcomp hsafe d hmem
        (hip d hmem).1 args hlen' (hcap _ Reachable.refl)
      have I : IntState prog ⟨d.ctx, args.map .int, d.body⟩ :=
        ⟨htp d hmem, (hip d hmem).2, (hip d hmem).1⟩
      obtain ⟨fuel', hf⟩ := run_int_aux hooks prog c code nargs c' hcomp hsafe htp hip fuel _ []
        (initConfig a args) out v I hcap R rfl hrun
      refine ⟨fuel', ?_⟩
      unfold Abs.run
      have hdup : duplicateLabel (Program.ofOps code).labels = none := by
        apply duplicateLabel_none
        show ((layout code 0).2.map (·.1)).Nodup
        rw [layout_snd_names, labelNames_eq_dfns]
        exact hnodup
      simp only [hdup, hlab]
      exact hf

/-! ### discharging the capacity hypothesis for a terminating run -/

/-- the states of a run, as long as the machine steps (at most `fuel` of them) -/
def statesOf (prog : Prog) : Nat → Pos.State → List Pos.State
  | 0, st => [st]
  | fuel + 1, st =>
    match Pos.step prog st with
    | .next st' _ => st :: statesOf prog fuel st'
    | _ => [st]

/-- the run stops (done or stuck) within `fuel` steps -/
def stopsWithin (prog : Prog) : Nat → Pos.State → Bool
  | 0, _ => false
  | fuel + 1, st =>
    match Pos.step prog st with
    | .next st' _ => stopsWithin prog fuel st'
    | _ => true

theorem reachable_mem_statesOf (prog : Prog) : ∀ (fuel : Nat) (st0 st : Pos.State),
    stopsWithin prog fuel st0 = true → Reachable prog st0 st → st ∈ statesOf prog fuel st0 := by
  intro fuel
  induction fuel with
  | zero => intro st0 st h; simp [stopsWithin] at h
  | succ fuel ih =>
    intro st0 st hstop hr
    -- split the reachability at its first step
    have key : st = st0 ∨ ∃ st1 o, Pos.step prog st0 = .next st1 o ∧ Reachable prog st1 st := by
      induction hr with
      | refl => exact Or.inl rfl
      | step hr' hs ih' =>
        rcases ih' with rfl | ⟨st1, o1, hs1, hr1⟩
        · exact Or.inr ⟨_, _, hs, Reachable.refl⟩
        · exact Or.inr ⟨st1, o1, hs1, Reachable.step hr1 hs⟩
    simp only [statesOf]
    rcases key with rfl | ⟨st1, o, hs, hr1⟩
    · cases Pos.step prog st <;> simp
    · simp only [stopsWithin, hs] at hstop
      simp only [hs, List.mem_cons]
      exact Or.inr (ih st1 st hstop hr1)

/-- capacity of all reachable states, checked on the finitely many states of a terminating run -/
theorem capacity_of_run (prog : Prog) (fuel : Nat) (st0 : Pos.State)
    (hstop : stopsWithin prog fuel st0 = true)
    (hall : (statesOf prog fuel st0).all (fun st => decide (2 * st.ctx.length + 2 < Mock.T_TEMP)) = true) :
    ∀ st, Reachable prog st0 st → WithinCapacity st.ctx := by
  intro st hr
  have := reachable_mem_statesOf prog fuel st0 st hstop hr
  rw [List.all_eq_true] at hall
  simpa [WithinCapacity] using hall st this

/-! non-vacuity: `main(x) { lit y <- 1; z <- x + y; println z; exit z }` started with x = 41 satisfies
    every hypothesis of `TheoremA_heapfree` (via `TheoremA_init`), so its first step is simulated -/

private def exMain : Def :=
  { name := ⟨"main", 0⟩, ctx := [⟨⟨"x", 1⟩, .ext, .i64⟩],
    body := .lit ⟨"y", 2⟩ 1 (.op ⟨"z", 3⟩ ⟨"x", 1⟩ .sum ⟨"y", 2⟩
      (.print true ⟨"z", 3⟩ (.exit ⟨"z", 3⟩) none) none) none }

private def exProg : Prog := { defs := [exMain], types := [], maxId := 3 }

example : ∃ (code : List MockOp) (cfg : Config),
    Rel (Program.ofOps code) true exProg ⟨exMain.ctx, [.int 41], exMain.body⟩ cfg ∧
    StepSimulated (Program.ofOps code) true exProg ⟨exMain.ctx, [.int 41], exMain.body⟩ cfg := by
  have hok : ∃ r, (compile mockSym true exProg).run 0 = .ok r := ⟨_, rfl⟩
  obtain ⟨⟨⟨code, nargs⟩, c'⟩, hcomp⟩ := hok
  have hsafe : LabelSafe exProg = true := by decide
  have hty : LinTypedProg exProg := linTypedCheck_sound exProg rfl
  obtain ⟨a, _, R⟩ := TheoremA_init true exProg 0 code nargs c' hcomp hsafe exMain (by simp [exProg])
    (by decide) [41] rfl (by unfold WithinCapacity; decide)
  exact ⟨code, _, R, TheoremA_heapfree true exProg 0 code nargs c' hcomp hsafe _ _ R
    (hty exMain (by simp [exProg])) trivial⟩

/-- non-vacuity of `TheoremA_run_int`: the counting loop
      main(n, acc) { if n <= 0 { println acc; exit acc } else { one <- 1; n' <- n - one; acc' <- acc + n;
                                                               subst (n := n')(acc := acc'); main(...) } }
    started with n = 3, acc = 0: all hypotheses hold, so the abstract machine prints 6 and returns 6 -/
private def loopDef : Def :=
  { name := ⟨"main", 0⟩, ctx := [⟨⟨"n", 1⟩, .ext, .i64⟩, ⟨⟨"acc", 2⟩, .ext, .i64⟩],
    body := .ifc .le ⟨"n", 1⟩ none
      (.print true ⟨"acc", 2⟩ (.exit ⟨"acc", 2⟩) none)
      (.lit ⟨"one", 3⟩ 1 (.op ⟨"n", 4⟩ ⟨"n", 1⟩ .sub ⟨"one", 3⟩ (.op ⟨"acc", 5⟩ ⟨"acc", 2⟩ .sum ⟨"n", 1⟩
        (.subst [(⟨⟨"n", 4⟩, .ext, .i64⟩, ⟨"n", 4⟩), (⟨⟨"acc", 5⟩, .ext, .i64⟩, ⟨"acc", 5⟩)]
          (.call ⟨"main", 0⟩ [])) none) none) none) }

private def loopProg : Prog := { defs := [loopDef], types := [], maxId := 5 }

example : ∃ (code : List MockOp) (fuel' : Nat),
    Abs.run code "main_" [3, 0] fuel' = ⟨[(true, 6)], .done 6⟩ := by
  have hok : ∃ r, (compile mockSym true loopProg).run 0 = .ok r := ⟨_, rfl⟩
  obtain ⟨⟨⟨code, nargs⟩, c'⟩, hcomp⟩ := hok
  have hsafe : LabelSafe loopProg = true := by decide
  have hty : LinTypedProg loopProg := linTypedCheck_sound loopProg rfl
  have hint : IntProg loopProg := by
    intro d hd
    simp only [loopProg, List.mem_singleton] at hd
    subst hd
    refine ⟨?_, ?_⟩
    · intro b hb
      simp only [loopDef, List.mem_cons, List.not_mem_nil, or_false] at hb
      rcases hb with rfl | rfl <;> rfl
    · simp [loopDef, IntStmt]
  have hrun : Pos.run loopProg [3, 0] 40 = ⟨[(true, 6)], .done 6⟩ := by decide
  obtain ⟨fuel', h⟩ := TheoremA_run_int true loopProg 0 code nargs c' loopDef [3, 0] 40 _ _ hcomp hsafe
    hty hint rfl
    (capacity_of_run loopProg 40 _ (by decide) (by decide)) hrun
  exact ⟨code, fuel', h⟩

#print axioms TheoremA_heapfree
#print axioms TheoremA_alloc
#print axioms TheoremA_init
#print axioms TheoremA_run_int

end Scc.Props.C06Generic
