/-
  Scc.Props.C01 — property C01 (fixed text): end-to-end correctness for x86-64.
  "For every well-typed Fun program with a valid `main` (at most five integer parameters, integer
   result) and every argument tuple on which the source semantics terminates, the x86-64 executable
   built from the compiler's output — the routine assembled and linked with the generated C driver and
   I/O runtime — writes exactly the bytes the source semantics prescribes and exits with the low byte
   of the prescribed result, provided the heap is large enough …"

  About THE MODELS: the compiler is `Scc.Pipeline.compileAllX86` (Scc/Pipeline.lean, tied to the real
  driver by byte equality of the routine text), the source semantics is `Scc.Pipeline.srcRun` (the Fun
  machine `Scc.Fun.run` on `Sequenced` programs, the Core ς-machine on the translation otherwise,
  DESIGN §4), the target is the x86-64 machine `Scc.X86.run` ON THE EMITTED TEXT, wrapped in the model
  of the C driver and io.c (`Scc.Pipeline.nativeRun`, runtime model of C20).

  * `C01_statement_full` the property as given (def): every accepted program with a valid `main`.  It cannot
                         be proved as it stands: a program that CALLS `main` is mistranslated by fun2core
                         (finding D13, `C12_statement_full_false`: `∃ q5, middleEnd …` holds but S2 is
                         ill-typed and the Core machine is stuck where the Fun machine returns 3), and a
                         program whose names are not `LabelSafe` (C14) is printed with a label defined twice.
  * `C01_statement`      the statement that the composition proves (def): `C01_statement_full` with three
                         DECIDABLE per-program hypotheses, all evaluated by the checks on every accepted
                         program of every run (`Scc.Pipeline.Links.linksLine`):
                           `Scc.Fun.noMainCall p'`  no definition calls `main` (Scc/Fun/MainCall.lean),
                           `C01_linkChecks p'`      (= `C12_linkChecks`) the middle end succeeds and its stages
                                                    pass the executable typing checks that are not theorems yet
                                                    (S2 is C03's `Input`; S3 `wtFsScopedCheck`; S4 `wtAxCheck`,
                                                    `wfNonLinearCheck`),
                           `C01_labelSafe p'`       `LabelSafe` (Props/C14Generic) of the linearized program.
  * `C01_composition`    THE COMPOSITION THEOREM: `C01_statement` follows from TWO named hypotheses, one per
                         semantic link that is not a theorem yet, each restricted to the programs of the
                         statement (accepted, valid `main` that is not called, `C01_linkChecks`):
                           `C01_link_fun2core_sem`  fun2core (C02, semantics): on `Sequenced` programs a run of
                                                    the Fun machine that ends with a result is reproduced by the
                                                    Core ς-machine on the translation (the FORWARD half of
                                                    `C02_sem_statement`, results only; agent pf-c02sem)
                           `C01_link_x86`           x86-64 (C06): a run of the positional AxCut machine on S5
                                                    that ends with a result is reproduced by the x86-64 machine on
                                                    the routine TEXT (`X86.C06_statement` restricted to `LabelSafe`
                                                    S5 of the pipeline; agent pf-x86B)
                         (`C01_link_fun2core_sem_of_C02`, `C01_link_x86_of_C06`: the unrestricted statements
                         imply them; `C02_sem_statement_false`: the unrestricted C02 statement is FALSE, D13.)
                         `C01_composition_frag`: for the programs of the decidable fragment `C01_fragChecks`
                         (`Fun2Core.Sem.fragOk`: integers, data / `case`, labels, calls — no codata) fun2core's
                         forward semantics IS a theorem (`C02_sem_forward_frag`, Props/C02Sem.lean) and the
                         end-to-end conclusion follows from `C01_link_x86` ALONE.
                         `C01_from_core` / `C01_composition_unsequenced`: from the Core program S2 on — in
                         particular for every program outside the fragment `Sequenced` — the conclusion needs
                         `C01_link_x86` ONLY.  `C01_x86_run_of_abs`: with Theorem A (`TheoremA_run`, a theorem)
                         the x86-64 link reduces, for programs within Theorem A's (decidable) capacity conditions, to
                         `C01_link_x86_abs`: abstract backend machine on the mock code ⟶ x86-64 text.
                         `C01_x86_run_int`: for INTEGER programs (`C06Generic.IntProg`) the conclusion of
                         `C01_link_x86` is a theorem (`X86.C06_int_programs_text`, pf-x86B) under
                         Theorem A's static capacity condition, given that the routine's text loads (`X86.TextLoads routine`).
                         EVERY other link is a theorem and is used as such:
                           C15 `C15_sound`; C03 `C03_focus_sem_panicFree` (ς-machine on S2 ≈ focused machine on
                           S3; `focusPanicFree` is read off `stages p' = ok`), `C03_unique_binders_global`
                           (⇒ `uniqueIdsCheck`, `idsBoundedCheck`: Scc/Pipeline/Bridges.lean); C04 `C04_sem`
                           (focused machine on S3 ≈ named AxCut machine on S4; `mainIntParams` and "`main` first"
                           from `stages_mainHead`), `shrinkProg_noEnvAnn`; C05 `C05_linearize_LinTyped`,
                           `C05_T4` (named machine on S4 ≈ positional machine on S5); C20 `C20_current_full`
                           (io.c prints the decimal representation of every value, the driver converts every
                           argument), `exitStatus_eq`.
                         The former hypotheses `C03_statement` and `C04_full_statement` were FALSE
                         (`C03_statement_refuted`, `C04_full_statement_false`) — the composition was vacuous —
                         and the former typing links `C12_link_*` are replaced by the per-program predicate.
  * `C01_int_fragment`   END TO END WITH NO HYPOTHESIS LEFT, for the programs that pass two more decidable checks:
                         `C01_fragChecks` (fun2core's fragment) and `C01_intChecks` (the linearized program is an
                         integer program — `lit op print ifc exit call subst`, all variables integers — within
                         range and capacity, and the text of its routine loads): there the x86-64 link is a theorem
                         too (`C01_x86_int`: Theorem A ∘ Theorem B of pf-x86B, `X86.C06_int_programs_text`; the static
                         capacity bound `capacity_static`; the loader round trip evaluated on the routine).
                         `C01_int_from_core`: the same from the Core program on, for any source program.
                         (19 of the 234 corpus programs with a valid `main` are in this fragment: tag `frag int`
                         of the `links` driver.)
  * `C01_middle`         UNCONDITIONAL (no semantic hypothesis, no link): for every accepted program with a
                         valid `main` and `C01_linkChecks`, the Core ς-machine on S2 and the positional AxCut
                         machine on S5 have the same runs that end with a result (same trace, same value, both
                         directions; an arithmetic fault of the positional machine is a stuck run of the Core
                         machine with the same trace), and — Theorem A, `C06Generic.TheoremA_run` — the abstract
                         backend machine on the mock code of S5 reproduces every such run (capacity conditions
                         of Theorem A, all decidable on the program: `LabelSafe`, `CodeFits`,
                         `ProgWithinCapacity` — the hypothesis of `TheoremA_run` on all contexts of a run is
                         DERIVED from this static check, Scc/AxCut/PosCapacity.lean, Props/C06Capacity.lean —
                         and fewer than 2^64 steps).
                         Not covered (precise obstacle): stuck runs forward — `C04_sem`'s `SameBehaviour` maps a
                         stuck Core run to a stuck AxCut run WITHOUT relating the reasons, so a division by zero
                         on S2 is only known to be "stuck" on S4 and `C05_T4` (which needs the reason) does not
                         apply; and diverging runs (`C04_sem` has no clause about prefixes of infinite traces).
-/
import Scc.Props.C12
import Scc.Props.C01Checks
import Scc.Props.C02Sem
import Scc.Props.C04Sem
import Scc.Props.C06Generic
import Scc.Props.C06Capacity
import Scc.Props.C06X86
import Scc.Props.C20Full

namespace Scc.Props

open Scc Scc.Pipeline
open Scc.Fun.Check (checkProgram programNamesOk)
open Scc.Props.C14Generic (LabelSafe)

/-! ## C02, semantic statement -/

/-- outcomes the properties speak about: a result, or one of the two arithmetic faults -/
def ObsFinished : ObsRes → Prop
  | .done _ => True
  | .stuck w => w = "divByZero" ∨ w = "overflow"
  | .outOfFuel => False

/-- same observable behaviour of two fuel-indexed runs: every finished run of one is matched by a
    run of the other with the same trace and the same outcome, and for the other runs every finite
    trace of one is a prefix of a trace of the other -/
def ObsSame (r1 r2 : Nat → Obs) : Prop :=
  (∀ n, ObsFinished (r1 n).res → ∃ m, r2 m = r1 n) ∧
  (∀ m, ObsFinished (r2 m).res → ∃ n, r1 n = r2 m) ∧
  (∀ n, ∃ m, (r1 n).out <+: (r2 m).out) ∧ (∀ m, ∃ n, (r2 m).out <+: (r1 n).out)

/-- the runs that end with a RESULT correspond, in both directions, with the same trace -/
def DoneSame (r1 r2 : Nat → Obs) : Prop :=
  ∀ t v, (∃ n, r1 n = ⟨t, .done v⟩) ↔ (∃ m, r2 m = ⟨t, .done v⟩)

/-- C02 (semantics), as given: for every accepted program in the fragment `Sequenced` (arguments of
    calls, constructors, destructors and operators and codata-typed bound terms are pure) the Core
    program produced by the translation has, on the Core ς-machine, the same output and result as the
    source program on the Fun machine.
    NOT a hypothesis of the composition any more: it is false for a program that calls `main`
    (finding D13; on `C12_d13Src` with argument 3 the Fun machine returns 3, the Core machine is stuck:
    `arity`).  The composition assumes `C01_link_fun2core_sem` below. -/
def C02_sem_statement : Prop :=
  ∀ (p : Fun.Program) (p' : Fun.CheckedProgram) (q2 : Core.Prog),
    programNamesOk p = true → checkProgram p = .ok p' → Fun.Sequenced p' = true →
    Fun2Core.compileProg p' = .ok q2 →
    ∀ args : List Word,
      ObsSame (fun n => ofFun (Fun.run p' args n)) (fun n => ofCore (Core.run q2 args n))

/-! ## the per-program predicates: `C01_linkChecks`, `C01_labelSafe` (Scc/Props/C01Checks.lean) -/

/-! ## the machines the statements speak about -/

/-- "given enough heap, with some fuel": there is a heap size such that on EVERY sane configuration of
    the x86-64 machine with that heap size — `X86.Ref.MachOK` (Scc/X86/RefInit.lean): the heap lies below
    the stack, addresses stay below 2^63, the stack top is 16-aligned (System V) and the stack has room
    for the routine's frame; the default `{}` is one (`machOK_default`) — and the heap monitor off,
    `P cfg m` holds for some fuel `m`.
    (The earlier formulation quantified over ALL configurations with that heap size, including ones
    without a stack, on which every routine faults; and fixed the fuel before the configuration.)
    NOTE on the witness: a heap size that no sane configuration has (`heapBase + heapBytes > stackLow`
    for every layout below 2^63) makes the inner statement vacuous.  That is the only way the
    property can hold for a (mathematically) terminating run whose heap demand exceeds the 64-bit
    address space; a proof of a link must not use it otherwise — the proved instances (`C01_x86_int`)
    choose the driver's 32 MiB, for which the default configuration `{}` qualifies. -/
def C01_onMachines (P : X86.MonCfg → Nat → Prop) : Prop :=
  ∃ heapBytes : Nat, ∀ cfg : X86.MonCfg, cfg.mach.heapBytes = heapBytes → X86.Ref.MachOK cfg.mach →
    cfg.heap = false → ∃ m, P cfg m

theorem C01_onMachines.mono {P Q : X86.MonCfg → Nat → Prop} (h : C01_onMachines P)
    (hpq : ∀ cfg m, cfg.heap = false → P cfg m → Q cfg m) : C01_onMachines Q := by
  obtain ⟨hb, h⟩ := h
  refine ⟨hb, fun cfg h1 h2 h3 => ?_⟩
  obtain ⟨m, hm⟩ := h cfg h1 h2 h3
  exact ⟨m, hpq cfg m h3 hm⟩

/-! ## C01, the statements -/

/-- the conclusion of C01 for one checked program:
    the middle end (S2 … S5) does not fail; and whenever the x86-64 code generator produces a routine
    (it may stop with the capacity error) the reported number of arguments is the arity of `main`, and
    for every argument tuple on which the source semantics finishes with result `v` and trace `t`
    there are a fuel and a heap size such that the x86-64 machine on the routine TEXT finishes without
    fault with the same trace and result `v`; hence (C20) the linked binary started as
    `prog a1 … an` writes exactly the decimal rendering of `t` and exits with status `v mod 256`. -/
def C01_conclusion (p' : Fun.CheckedProgram) : Prop :=
  (∃ q5, middleEnd p' = .ok q5) ∧
  ∀ (hooks : Bool) (nargs : Nat) (text : String),
    compileAllX86 hooks 0 p' = .ok (nargs, text) →
    nargs = mainArity p' ∧
    ∀ (args : List Word) (n : Nat) (t : List (Bool × Word)) (v : Word),
      srcRun p' args n = ⟨t, .done v⟩ →
      args.length = nargs ∧
      C01_onMachines fun cfg m =>
        (X86.run text args m cfg).out = t ∧ (X86.run text args m cfg).res = .done v ∧
        nativeRun text nargs (argvOf args) m cfg = some (renderTrace t, Runtime.exitStatus v.toInt)

/-- C01 as given: for EVERY program accepted by the checker with a valid `main`.  Kept visible; see the
    header for why it cannot hold (finding D13, label-unsafe names). -/
def C01_statement_full : Prop :=
  ∀ (p : Fun.Program) (p' : Fun.CheckedProgram),
    programNamesOk p = true → checkProgram p = .ok p' → validMain p' = true → C01_conclusion p'

/-- C01 for every accepted program with a valid `main` that is not called, whose stages pass the
    executable typing checks and whose linearized program has label-safe names (three decidable
    predicates, evaluated on every program of every run) -/
def C01_statement : Prop :=
  ∀ (p : Fun.Program) (p' : Fun.CheckedProgram),
    programNamesOk p = true → checkProgram p = .ok p' → validMain p' = true →
    Fun.noMainCall p' = true → C01_linkChecks p' = true → C01_labelSafe p' = true →
    C01_conclusion p'

/-! ## the two links that are not theorems yet -/

/-- fun2core, semantics (forward, results): for an accepted `Sequenced` program with a valid `main`
    that is not called and whose stages pass the checks, every run of the Fun machine that ends with a
    result is reproduced — same trace, same result — by the Core ς-machine on the translation. -/
def C01_link_fun2core_sem : Prop :=
  ∀ (p : Fun.Program) (p' : Fun.CheckedProgram) (q2 : Core.Prog),
    programNamesOk p = true → checkProgram p = .ok p' → validMain p' = true →
    Fun.noMainCall p' = true → C01_linkChecks p' = true → Fun.Sequenced p' = true →
    Fun2Core.compileProg p' = .ok q2 →
    ∀ (args : List Word) (n : Nat) (t : List (Bool × Word)) (v : Word),
      ofFun (Fun.run p' args n) = ⟨t, .done v⟩ → ∃ m, ofCore (Core.run q2 args m) = ⟨t, .done v⟩

/-- the x86-64 link AT ONE PROGRAM: on the linearized program of the compilation of `p'`, if its names
    are label-safe, every run of the positional AxCut machine that ends with a result is reproduced
    by the x86-64 machine on the printed routine, given enough fuel and heap. -/
def C01_link_x86_at (p' : Fun.CheckedProgram) : Prop :=
  ∀ (st : Stages), stages p' = .ok st → LabelSafe st.s5 = true → AxCut.LinTypedProg st.s5 →
    ∀ (args : List Word) (hooks : Bool) (body routine : List X86.Code) (nargs : Nat),
      X86.compileX86 st.s5 hooks 0 = .ok (body, nargs) → X86.intoRoutine body nargs = .ok routine →
      ∀ (fuel : Nat) (t : List (Bool × Word)) (v : Word),
        AxCut.Pos.run st.s5 args fuel = ⟨t, .done v⟩ →
        C01_onMachines fun cfg fuel' =>
          (X86.run (X86.printProg routine) args fuel' cfg).out = t ∧
          (X86.run (X86.printProg routine) args fuel' cfg).res = .done v

/-- x86-64 code generation (C06): `C01_link_x86_at` for every program of the statement (accepted,
    valid `main` that is not called, `C01_linkChecks`). -/
def C01_link_x86 : Prop :=
  ∀ (p : Fun.Program) (p' : Fun.CheckedProgram),
    programNamesOk p = true → checkProgram p = .ok p' → validMain p' = true →
    Fun.noMainCall p' = true → C01_linkChecks p' = true → C01_link_x86_at p'

/-- the forward half of `ObsSame` (clause 1), restricted like the link, implies the link -/
theorem C01_link_fun2core_sem_of_forward
    (h : ∀ (p : Fun.Program) (p' : Fun.CheckedProgram) (q2 : Core.Prog),
      programNamesOk p = true → checkProgram p = .ok p' → validMain p' = true →
      Fun.noMainCall p' = true → C01_linkChecks p' = true → Fun.Sequenced p' = true →
      Fun2Core.compileProg p' = .ok q2 →
      ∀ (args : List Word) (n : Nat), ObsFinished (ofFun (Fun.run p' args n)).res →
        ∃ m, ofCore (Core.run q2 args m) = ofFun (Fun.run p' args n)) :
    C01_link_fun2core_sem := by
  intro p p' q2 hn hc hv hmc hlc hseq e2 args n t v hrun
  obtain ⟨m, hm⟩ := h p p' q2 hn hc hv hmc hlc hseq e2 args n (by rw [hrun]; trivial)
  exact ⟨m, by rw [hm, hrun]⟩

/-- the unrestricted semantic statement of C02 implies the link -/
theorem C01_link_fun2core_sem_of_C02 (h : C02_sem_statement) : C01_link_fun2core_sem :=
  C01_link_fun2core_sem_of_forward fun p p' q2 hn hc _ _ _ hseq e2 args n hfin =>
    (h p p' q2 hn hc hseq e2 args).1 n hfin

/-- the unrestricted statement of C06 (x86-64) implies the link -/
theorem C01_link_x86_of_C06 (h : X86.C06_statement) : C01_link_x86 := by
  intro p p' _ _ _ _ _ st _ _ hlin args hooks body routine nargs hcomp hinto fuel t v hrun
  obtain ⟨m, hb, hE⟩ := h st.s5 args hooks body routine nargs hlin hcomp hinto fuel v (by rw [hrun])
  refine ⟨hb, fun cfg h1 _ h2 => ⟨m, ?_⟩⟩
  have := hE cfg h1 h2
  rw [hrun] at this
  exact this

/-! ## helper lemmas -/

theorem ofCore_done {b : Core.Behaviour} {t : List (Bool × Word)} {v : Word}
    (h : ofCore b = ⟨t, .done v⟩) : b = ⟨t, .done v⟩ := by
  obtain ⟨out, res⟩ := b
  cases res <;> simp_all [ofCore]

/-- C20 ⇒ the runtime calls of a trace write its decimal rendering -/
theorem traceBytes_eq_render (t : List (Bool × Word)) : traceBytes t = some (renderTrace t) := by
  induction t with
  | nil => rfl
  | cons a r ih =>
    obtain ⟨nl, v⟩ := a
    have hv := C20_current_full.1 v
    cases nl
    · simp [traceBytes, renderTrace, hv.1, ih] at *
    · simp [traceBytes, renderTrace, hv.2, ih] at *

/-- C20 ⇒ the driver hands every integer argument to `asm_main` unchanged -/
theorem argv_roundtrip (args : List Word) :
    ((argvOf args).drop 1).map (fun s => BitVec.ofInt 64 (Runtime.argToParamCur s)) = args := by
  simp only [argvOf, List.drop_succ_cons, List.drop_zero, List.map_map]
  conv => rhs; rw [← List.map_id args]
  apply List.map_congr_left
  intro a _
  have h1 := BitVec.le_toInt a
  have h2 := BitVec.toInt_lt (x := a)
  simp only [Function.comp_apply, id_eq]
  rw [C20_current_full.2 a.toInt (by omega) (by omega), BitVec.ofInt_toInt]

/-- the number of arguments reported by the generic code generator is the length of the first
    definition's parameter list -/
theorem compileX86_nargs {q5 : AxCut.Prog} {hooks : Bool} {c : Nat} {body : List X86.Code} {nargs : Nat}
    (h : X86.compileX86 q5 hooks c = .ok (body, nargs)) :
    ∃ d ds, q5.defs = d :: ds ∧ nargs = d.ctx.length := by
  unfold X86.compileX86 at h
  split at h
  · simp at h
  · rename_i r c' hr
    simp only [Except.ok.injEq] at h
    subst h
    unfold Backend.compile Backend.compileR at hr
    cases hd : q5.defs with
    | nil =>
      rw [hd] at hr
      simp only [throw, throwThe, MonadExceptOf.throw, StateT.run] at hr
      cases hr
    | cons d ds =>
      refine ⟨d, ds, rfl, ?_⟩
      rw [hd] at hr
      simp only [bind, StateT.bind, StateT.run, Except.bind, pure, StateT.pure, Except.pure] at hr
      split at hr
      · simp at hr
      · simp only [Except.ok.injEq, Prod.mk.injEq] at hr
        exact hr.1.2.symm

theorem mainArity_le_five {p' : Fun.CheckedProgram} (hv : validMain p' = true) : mainArity p' ≤ 5 := by
  unfold validMain at hv
  unfold mainArity
  split at hv
  · rename_i d hd
    rw [hd]
    simp only [mainSigOk, Bool.and_eq_true, decide_eq_true_eq] at hv
    exact hv.1.1
  · cases hv

/-- a run of the positional machine that does not stop at the entry has as many arguments as the
    first definition has parameters -/
theorem pos_run_done_arity {q5 : AxCut.Prog} {d : AxCut.Def} {ds : List AxCut.Def} {args : List Word}
    {n : Nat} {t : List (Bool × Word)} {v : Word} (hd : q5.defs = d :: ds)
    (h : AxCut.Pos.run q5 args n = ⟨t, .done v⟩) : args.length = d.ctx.length := by
  apply Classical.byContradiction
  intro hne
  have : AxCut.Pos.run q5 args n = ⟨[], .stuck (.shape "entry-arity")⟩ := by
    unfold AxCut.Pos.run
    rw [hd]
    simp only
    rw [if_pos]
    exact fun h => hne h.symm
  rw [this] at h
  cases h

/-- a result of the focused machine, read through `coreFsRun` -/
theorem coreFsRun_done {q3 : Core.FsProg} {args : List Word} {n : Nat} {t : List (Bool × Word)}
    {v : Word} (hres : (coreFsRun q3 args n).res = .done v) (hout : (coreFsRun q3 args n).out = t) :
    Core.fsRun q3 args n = ⟨t, .done v⟩ := by
  simp only [coreFsRun, coreBehaviour] at hres hout
  cases hb : Core.fsRun q3 args n with
  | mk out res =>
    rw [hb] at hres hout
    simp only at hres hout
    subst hout
    cases res with
    | done w => injection hres with hres; subst hres; rfl
    | stuck w => cases hres
    | outOfFuel => cases hres

/-- a stuck run of the focused machine, read through `coreFsRun` -/
theorem coreFsRun_stuck {q3 : Core.FsProg} {args : List Word} {n : Nat} {t : List (Bool × Word)}
    {w : String} (hres : (coreFsRun q3 args n).res = .stuck w) (hout : (coreFsRun q3 args n).out = t) :
    ∃ w', Core.fsRun q3 args n = ⟨t, .stuck w'⟩ := by
  simp only [coreFsRun, coreBehaviour] at hres hout
  cases hb : Core.fsRun q3 args n with
  | mk out res =>
    rw [hb] at hres hout
    simp only at hres hout
    subst hout
    cases res with
    | done w => cases hres
    | stuck w' => exact ⟨w', rfl⟩
    | outOfFuel => cases hres

/-! ## `C02_sem_statement` as given is false: finding D13 -/

theorem Core.stepN_stable (q : Core.Prog) : ∀ (f : Nat) (s : Core.State) (b : Core.Behaviour),
    Core.stepN q f s = b → b.res ≠ .outOfFuel → ∀ k, Core.stepN q (f + k) s = b
  | 0, s, b, h, hb, _ => by
    simp only [Core.stepN] at h
    subst h
    exact absurd rfl hb
  | f + 1, s, b, h, hb, k => by
    rw [show f + 1 + k = (f + k) + 1 by omega]
    simp only [Core.stepN] at h ⊢
    cases hs : Core.step q s with
    | next s' => rw [hs] at h; exact Core.stepN_stable q f s' b h hb k
    | final r => rw [hs] at h; exact h

/-- a finished run of the Core ς-machine does not change with more fuel -/
theorem Core.run_stable (q : Core.Prog) (args : List Word) (f : Nat) (b : Core.Behaviour)
    (h : Core.run q args f = b) (hb : b.res ≠ .outOfFuel) (k : Nat) : Core.run q args (f + k) = b := by
  unfold Core.run at h ⊢
  split
  · next hd => simp only [hd] at h; exact h
  · next d hd =>
    simp only [hd] at h
    split
    · next e he => simp only [he] at h; exact h
    · next ρ he => simp only [he] at h; exact Core.stepN_stable q f _ b h hb k

/-- `main` calls itself, effect-sequenced (/verif/gen/corpus/regress/c01_main_called_seq.sc) -/
def C01_d13Src : String :=
  "def main(n: i64): i64 { if n == 0 { 0 } else { let r: i64 = main(n - 1); r + 1 } }"

/-- on `C01_d13Src`: accepted, valid `main`, `Sequenced`, the translation succeeds; on the argument 3
    the Fun machine returns 3 and the Core ς-machine on the translation is stuck (`arity`: the inner
    call passes a continuation that `main` does not take) -/
def C01_d13Check (src : String) : Bool :=
  match Fun.Parse.parse .diagOnOverflow src with
  | .ok p =>
    programNamesOk p &&
    match checkProgram p with
    | .ok p' =>
      validMain p' && !Fun.noMainCall p' && Fun.Sequenced p' &&
      match Fun2Core.compileProg p' with
      | .ok q2 =>
        decide (ofFun (Fun.run p' [3] 100) = ⟨[], .done 3⟩) &&
        decide (Core.run q2 [3] 30 = ⟨[], .stuck .arity⟩)
      | .error _ => false
    | _ => false
  | _ => false

set_option maxRecDepth 100000 in
theorem C01_d13_checks : C01_d13Check C01_d13Src = true := by decide +kernel

/-- **`C02_sem_statement` is false** (finding D13; the former hypothesis `h2` of the composition) -/
theorem C02_sem_statement_false : ¬ C02_sem_statement := by
  intro hsem
  have h := C01_d13_checks
  unfold C01_d13Check at h
  cases hp : Fun.Parse.parse .diagOnOverflow C01_d13Src with
  | ok p =>
    rw [hp] at h
    simp only [Bool.and_eq_true] at h
    obtain ⟨hn, h⟩ := h
    cases hc : checkProgram p with
    | ok p' =>
      rw [hc] at h
      simp only [Bool.and_eq_true] at h
      obtain ⟨⟨_, hseq⟩, h⟩ := h
      cases e2 : Fun2Core.compileProg p' with
      | ok q2 =>
        rw [e2] at h
        simp only [Bool.and_eq_true, decide_eq_true_eq] at h
        obtain ⟨hfun, hcore⟩ := h
        obtain ⟨m, hm⟩ := (hsem p p' q2 hn hc hseq e2 [3]).1 100 (by simp only [hfun]; trivial)
        simp only [hfun] at hm
        have h1 := Core.run_stable q2 [3] m _ (ofCore_done hm) (by simp) 30
        have h2 := Core.run_stable q2 [3] 30 _ hcore (by simp) m
        rw [Nat.add_comm] at h1
        rw [h1] at h2
        cases h2
      | error e => rw [e2] at h; cases h
    | diag c => rw [hc] at h; cases h
    | panic c => rw [hc] at h; cases h
  | diag c => rw [hp] at h; cases h
  | panic c => rw [hp] at h; cases h

/-! ## the middle of the pipeline: S2 … S5, every link a theorem -/

section middle

variable {p : Fun.Program} {p' : Fun.CheckedProgram} {st : Stages}

/-- C03 (theorem) on the stages of one compilation: ς-machine on S2 ≈ focused machine on S3 -/
theorem C01_step_focus (F : C12_Facts p p' st) (args : List Word) :
    ObsEq (Core.run st.s2 args) (Core.fsRun st.s3 args) := by
  rw [F.s3eq]
  exact C03_focus_sem_panicFree st.s2 F.input2 F.panicFree2 args

/-- C04 (theorem `C04_sem`) on the stages of one compilation: focused machine on S3 ≈ named AxCut
    machine on S4; all side conditions derived -/
theorem C01_step_shrink (F : C12_Facts p p' st) (hv : validMain p' = true) (args : List Word) :
    SameBehaviour (coreFsRun st.s3 args) (AxCut.Named.run st.s4 args) := by
  obtain ⟨_, m3, _, _⟩ := stages_mainHead (validMainK_of_validMain hv) F.ok
  obtain ⟨d3, ds3, hd3, hname3, _, _⟩ := m3
  exact C04_sem st.s3 st.s4 args F.scoped3 F.uniqueIds3 F.idsBounded3 F.mainInt3
    ⟨d3, ds3, hd3, hname3⟩ F.s4ok

/-- C05 (theorem `C05_T4`) on the stages of one compilation: named machine on S4 ≈ positional
    machine on S5 -/
theorem C01_step_linearize (F : C12_Facts p p' st) (hv : validMain p' = true) (args : List Word) :
    (∀ n, AxCut.Sim.finishedNamed (AxCut.Named.run st.s4 args n).res →
      ∃ m, (AxCut.Pos.run st.s5 args m).out = (AxCut.Named.run st.s4 args n).out ∧
        AxCut.Sim.sameOutcome (AxCut.Named.run st.s4 args n).res (AxCut.Pos.run st.s5 args m).res) ∧
    (∀ m, AxCut.Sim.finishedPos (AxCut.Pos.run st.s5 args m).res →
      ∃ n, (AxCut.Pos.run st.s5 args m).out = (AxCut.Named.run st.s4 args n).out ∧
        AxCut.Sim.sameOutcome (AxCut.Named.run st.s4 args n).res (AxCut.Pos.run st.s5 args m).res) := by
  obtain ⟨_, _, m4, _⟩ := stages_mainHead (validMainK_of_validMain hv) F.ok
  obtain ⟨d4, ds4, hd4, _, hint4⟩ := m4
  have hmain : ∀ d, st.s4.defs.head? = some d → ∀ b ∈ d.ctx, b.chi = .ext ∧ b.ty = .i64 := by
    intro d hd
    rw [hd4] at hd
    simp only [List.head?_cons, Option.some.injEq] at hd
    subst hd
    exact hint4
  exact C05.C05_T4 st.s4 st.s5 args F.wf4 F.noEnv4 hmain F.s5ok

/-- forward: a run of the Core ς-machine on S2 that ends with a result is reproduced by the
    positional machine on S5 (C03 ∘ C04 ∘ C05) -/
theorem C01_middle_forward (F : C12_Facts p p' st) (hv : validMain p' = true) {args : List Word}
    {n2 : Nat} {t : List (Bool × Word)} {v : Word} (hA : Core.run st.s2 args n2 = ⟨t, .done v⟩) :
    ∃ n5, AxCut.Pos.run st.s5 args n5 = ⟨t, .done v⟩ := by
  -- (B) C03: ς-machine on S2 ⟶ focused machine on S3
  have hterm : Terminates (Core.run st.s2 args) ⟨t, .done v⟩ := ⟨n2, hA, by simp⟩
  obtain ⟨n3, hB, _⟩ := ((C01_step_focus F args).1 _).1 hterm
  -- (C) C04: focused machine on S3 ⟶ named AxCut machine on S4
  have hres : (coreFsRun st.s3 args n3).res = .done v := by simp [coreFsRun, coreBehaviour, hB]
  have hout : (coreFsRun st.s3 args n3).out = t := by simp [coreFsRun, coreBehaviour, hB]
  obtain ⟨n4, ho, hr⟩ := (C01_step_shrink F hv args).1 n3 (.inl ⟨v, hres⟩)
  have hC1 : (AxCut.Named.run st.s4 args n4).out = t := by rw [ho, hout]
  have hC2 : (AxCut.Named.run st.s4 args n4).res = .done v := by
    rcases hr with ⟨v', hv1, hv2⟩ | ⟨⟨w, hw⟩, _⟩
    · rw [hres] at hv1
      injection hv1 with hv1
      rw [hv2, hv1]
    · rw [hres] at hw
      cases hw
  -- (D) C05: named machine on S4 ⟶ positional machine on S5
  have hfin : AxCut.Sim.finishedNamed (AxCut.Named.run st.s4 args n4).res := by rw [hC2]; trivial
  obtain ⟨n5, ho5, hs⟩ := (C01_step_linearize F hv args).1 n4 hfin
  refine ⟨n5, ?_⟩
  rw [hC2] at hs
  cases hb : AxCut.Pos.run st.s5 args n5 with
  | mk out res =>
    rw [hb] at ho5 hs
    simp only at ho5 hs
    cases res with
    | done w =>
      have : v = w := hs
      subst this
      rw [ho5, hC1]
    | stuck w => exact absurd hs (by simp [AxCut.Sim.sameOutcome])
    | outOfFuel => exact absurd hs (by simp [AxCut.Sim.sameOutcome])

/-- backward: a run of the positional machine on S5 that ends with a result is a run of the Core
    ς-machine on S2 (C05 ∘ C04 ∘ C03, the converse directions of the three theorems) -/
theorem C01_middle_backward (F : C12_Facts p p' st) (hv : validMain p' = true) {args : List Word}
    {n5 : Nat} {t : List (Bool × Word)} {v : Word} (hD : AxCut.Pos.run st.s5 args n5 = ⟨t, .done v⟩) :
    ∃ n2, Core.run st.s2 args n2 = ⟨t, .done v⟩ := by
  -- C05: positional machine on S5 ⟶ named machine on S4
  have hfin : AxCut.Sim.finishedPos (AxCut.Pos.run st.s5 args n5).res := by rw [hD]; trivial
  obtain ⟨n4, ho4, hs⟩ := (C01_step_linearize F hv args).2 n5 hfin
  rw [hD] at ho4 hs
  simp only at ho4 hs
  have hC2 : (AxCut.Named.run st.s4 args n4).res = .done v := by
    cases hr : (AxCut.Named.run st.s4 args n4).res with
    | done w =>
      rw [hr] at hs
      have : w = v := hs
      rw [this]
    | stuck w => rw [hr] at hs; exact absurd hs (by simp [AxCut.Sim.sameOutcome])
    | outOfFuel => rw [hr] at hs; exact absurd hs (by simp [AxCut.Sim.sameOutcome])
  -- C04: named machine on S4 ⟶ focused machine on S3
  obtain ⟨n3, ho3, hr3⟩ := (C01_step_shrink F hv args).2 n4 (.inl ⟨v, hC2⟩)
  have hres3 : (coreFsRun st.s3 args n3).res = .done v := by
    rcases hr3 with ⟨v', hv1, hv2⟩ | ⟨⟨w, hw⟩, _⟩
    · rw [hC2] at hv1
      injection hv1 with hv1
      rw [hv2, hv1]
    · rw [hC2] at hw
      cases hw
  have hB := coreFsRun_done hres3 (ho3.trans ho4.symm)
  -- C03: focused machine on S3 ⟶ ς-machine on S2
  have hterm : Terminates (Core.fsRun st.s3 args) ⟨t, .done v⟩ := ⟨n3, hB, by simp⟩
  obtain ⟨n2, hA, _⟩ := ((C01_step_focus F args).1 _).2 hterm
  exact ⟨n2, hA⟩

/-- backward, arithmetic faults: a run of the positional machine on S5 that stops with a division
    by zero or an overflow is a stuck run of the Core ς-machine on S2 with the same trace -/
theorem C01_middle_backward_fault (F : C12_Facts p p' st) (hv : validMain p' = true)
    {args : List Word} {n5 : Nat} {t : List (Bool × Word)} {w : AxCut.Pos.Why}
    (hD : AxCut.Pos.run st.s5 args n5 = ⟨t, .stuck w⟩) (hw : w = .divByZero ∨ w = .overflow) :
    ∃ n2 w', Core.run st.s2 args n2 = ⟨t, .stuck w'⟩ := by
  have hfin : AxCut.Sim.finishedPos (AxCut.Pos.run st.s5 args n5).res := by rw [hD]; exact hw
  obtain ⟨n4, ho4, hs⟩ := (C01_step_linearize F hv args).2 n5 hfin
  rw [hD] at ho4 hs
  simp only at ho4 hs
  have hC2 : ∃ w4, (AxCut.Named.run st.s4 args n4).res = .stuck w4 := by
    cases hr : (AxCut.Named.run st.s4 args n4).res with
    | done v => rw [hr] at hs; exact absurd hs (by simp [AxCut.Sim.sameOutcome])
    | stuck w4 => exact ⟨w4, rfl⟩
    | outOfFuel => rw [hr] at hs; exact absurd hs (by simp [AxCut.Sim.sameOutcome])
  obtain ⟨w4, hC2⟩ := hC2
  obtain ⟨n3, ho3, hr3⟩ := (C01_step_shrink F hv args).2 n4 (.inr ⟨w4, hC2⟩)
  have hres3 : ∃ w3, (coreFsRun st.s3 args n3).res = .stuck w3 := by
    rcases hr3 with ⟨v', hv1, _⟩ | ⟨_, hw3⟩
    · rw [hC2] at hv1
      cases hv1
    · exact hw3
  obtain ⟨w3, hres3⟩ := hres3
  obtain ⟨w', hB⟩ := coreFsRun_stuck hres3 (ho3.trans ho4.symm)
  have hterm : Terminates (Core.fsRun st.s3 args) ⟨t, .stuck w'⟩ := ⟨n3, hB, by simp⟩
  obtain ⟨n2, hA, _⟩ := ((C01_step_focus F args).1 _).2 hterm
  exact ⟨n2, w', hA⟩

end middle

open Scc.Props.C06Generic (CodeFits ProgWithinCapacity) in
/-- **C01_middle** — UNCONDITIONAL: no semantic hypothesis, no link.  For every accepted program with
    a valid `main` whose stages pass the decidable predicate `C01_linkChecks`:
    (1) the Core ς-machine on S2 and the positional AxCut machine on S5 have the same runs that end
        with a result: same trace, same value, in both directions (C03 ∘ C04 ∘ C05, all theorems);
    (2) a run of the positional machine that stops with an arithmetic fault is a stuck run of the
        Core machine with the same trace;
    (3) Theorem A: on the code that the generic code generator produces for S5 with the mock backend
        (any hook setting, any label counter), the abstract backend machine started at the label of
        the first definition reproduces every run of S5 that ends with a result — provided the names
        are label-safe, the code fits the address space, the contexts of S5 fit the numbering of
        temporaries (`ProgWithinCapacity`, = `C01_capacity p'`) and the run is shorter than 2^64 steps
        (the capacity conditions of `TheoremA_run_static`, all DECIDABLE on the program). -/
theorem C01_middle (p : Fun.Program) (p' : Fun.CheckedProgram)
    (hn : programNamesOk p = true) (hc : checkProgram p = .ok p') (hv : validMain p' = true)
    (hlc : C01_linkChecks p' = true) :
    ∃ st : Stages, stages p' = .ok st ∧
      (∀ (args : List Word) (t : List (Bool × Word)) (v : Word),
        (∃ n, Core.run st.s2 args n = ⟨t, .done v⟩) ↔
        (∃ m, AxCut.Pos.run st.s5 args m = ⟨t, .done v⟩)) ∧
      (∀ (args : List Word) (m : Nat) (t : List (Bool × Word)) (w : AxCut.Pos.Why),
        AxCut.Pos.run st.s5 args m = ⟨t, .stuck w⟩ → w = .divByZero ∨ w = .overflow →
        ∃ n w', Core.run st.s2 args n = ⟨t, .stuck w'⟩) ∧
      ∃ d0 ds, st.s5.defs = d0 :: ds ∧ d0.ctx.length = mainArity p' ∧
        ∀ (hooks : Bool) (c : Nat) (code : List Backend.MockOp) (nargs c' : Nat),
          (Backend.compile Backend.mockSym hooks st.s5).run c = .ok ((code, nargs), c') →
          LabelSafe st.s5 = true → CodeFits code → ProgWithinCapacity st.s5 = true →
          ∀ (args : List Word) (m : Nat) (t : List (Bool × Word)) (v : Word),
            AxCut.Pos.run st.s5 args m = ⟨t, .done v⟩ → m + 1 < 2 ^ 64 →
            ∃ f, Backend.Abs.run code (d0.name.print ++ "_") args f = ⟨t, .done v⟩ := by
  obtain ⟨st, F⟩ := C12_facts_of_checks p p' hn hc hv hlc
  obtain ⟨_, _, _, m5⟩ := stages_mainHead (validMainK_of_validMain hv) F.ok
  obtain ⟨d5, ds5, hd5, hk5, hint5⟩ := m5
  refine ⟨st, F.ok, ?_, ?_, d5, ds5, hd5, hk5, ?_⟩
  · intro args t v
    exact ⟨fun ⟨n, h⟩ => C01_middle_forward F hv h, fun ⟨m, h⟩ => C01_middle_backward F hv h⟩
  · intro args m t w h hw
    exact C01_middle_backward_fault F hv h hw
  · intro hooks c code nargs c' hcomp hsafe hfit hcap args m t v hrun hfuel
    exact C06Generic.TheoremA_run_static hooks st.s5 c code nargs c' d5 args m t v hcomp hsafe F.lin5
      hfit (by rw [hd5]; rfl) hint5 hcap hfuel hrun

/-- (1) of `C01_middle` in the vocabulary of the common observable -/
theorem C01_middle_obs (p : Fun.Program) (p' : Fun.CheckedProgram)
    (hn : programNamesOk p = true) (hc : checkProgram p = .ok p') (hv : validMain p' = true)
    (hlc : C01_linkChecks p' = true) :
    ∃ st : Stages, stages p' = .ok st ∧
      ∀ args : List Word, DoneSame (fun n => ofCore (Core.run st.s2 args n))
        (fun n => ofPos (AxCut.Pos.run st.s5 args n)) := by
  obtain ⟨st, hok, h1, _⟩ := C01_middle p p' hn hc hv hlc
  refine ⟨st, hok, fun args t v => ?_⟩
  have ofPos_done : ∀ b : AxCut.Pos.Behaviour, ofPos b = ⟨t, .done v⟩ ↔ b = ⟨t, .done v⟩ := by
    intro b
    obtain ⟨out, res⟩ := b
    cases res <;> simp [ofPos]
  constructor
  · rintro ⟨n, h⟩
    obtain ⟨m, hm⟩ := (h1 args t v).1 ⟨n, ofCore_done h⟩
    exact ⟨m, (ofPos_done _).2 hm⟩
  · rintro ⟨m, h⟩
    obtain ⟨n, hn'⟩ := (h1 args t v).2 ⟨m, (ofPos_done _).1 h⟩
    exact ⟨n, by simp [hn', ofCore]⟩

/-! ## the composition theorem -/

/-- the conclusion of C01 with the Core ς-machine on S2 as the source semantics (what `srcRun` is on
    programs outside the fragment `Sequenced`) -/
def C01_conclusion_core (p' : Fun.CheckedProgram) (st : Stages) : Prop :=
  ∀ (hooks : Bool) (nargs : Nat) (text : String),
    compileAllX86 hooks 0 p' = .ok (nargs, text) →
    nargs = mainArity p' ∧
    ∀ (args : List Word) (n : Nat) (t : List (Bool × Word)) (v : Word),
      Core.run st.s2 args n = ⟨t, .done v⟩ →
      args.length = nargs ∧
      C01_onMachines fun cfg m =>
        (X86.run text args m cfg).out = t ∧ (X86.run text args m cfg).res = .done v ∧
        nativeRun text nargs (argvOf args) m cfg = some (renderTrace t, Runtime.exitStatus v.toInt)

/-- **from the Core program on**: ONE hypothesis, the x86-64 link at this program.  For every program
    of `C01_statement`, every run of the Core ς-machine on S2 that ends with a result is reproduced by
    the x86-64 machine on the routine text and by the linked binary (C03, C04, C05, C20: theorems). -/
theorem C01_from_core (p : Fun.Program) (p' : Fun.CheckedProgram) (h6 : C01_link_x86_at p')
    (hn : programNamesOk p = true) (hc : checkProgram p = .ok p') (hv : validMain p' = true)
    (hlc : C01_linkChecks p' = true)
    (hls : C01_labelSafe p' = true) :
    ∃ st, C12_Facts p p' st ∧ C01_conclusion_core p' st := by
  obtain ⟨st, F⟩ := C12_facts_of_checks p p' hn hc hv hlc
  obtain ⟨_, _, _, m5⟩ := stages_mainHead (validMainK_of_validMain hv) F.ok
  refine ⟨st, F, ?_⟩
  intro hooks nargs text hall
  -- the back end ran on `st.s5`
  obtain ⟨q5, hme, hbe⟩ := compileAllX86_ok_iff.1 hall
  obtain ⟨st', hst', rfl⟩ := middleEnd_ok_iff.1 hme
  rw [F.ok] at hst'
  injection hst' with hst'
  subst hst'
  obtain ⟨body, routine, hcomp, hinto, rfl⟩ := backEndX86_ok_iff.1 hbe
  have hsafe : LabelSafe st.s5 = true := by
    unfold C01_labelSafe at hls
    rw [F.ok] at hls
    exact hls
  -- number of arguments
  obtain ⟨d5, ds5, hd5, hk5, hint5⟩ := m5
  obtain ⟨d5', ds5', hd5', hnargs⟩ := compileX86_nargs hcomp
  rw [hd5] at hd5'
  injection hd5' with e1 e2
  subst e1
  have hnk : nargs = mainArity p' := by rw [hnargs, hk5]
  refine ⟨hnk, ?_⟩
  intro args n2 t v hA
  -- (B), (C), (D): C03, C04, C05 — theorems
  obtain ⟨n5, hD⟩ := C01_middle_forward F hv hA
  -- the positional machine ran, so the arity matches
  have hlen : args.length = nargs := by rw [hnargs]; exact pos_run_done_arity hd5 hD
  refine ⟨hlen, ?_⟩
  -- (E) C06: positional machine on S5 ⟶ x86-64 machine on the routine text
  refine (h6 st F.ok hsafe F.lin5 args hooks body routine
    nargs hcomp hinto n5 t v hD).mono ?_
  intro cfg m _ ⟨hout, hres⟩
  refine ⟨hout, hres, ?_⟩
  -- (F) C20: the C driver and io.c around the routine
  unfold nativeRun
  have hargv : (argvOf args).length = 1 + nargs := by simp [argvOf, hlen]; omega
  rw [if_neg (by omega)]
  simp only [argv_roundtrip, hres, hout, traceBytes_eq_render]

/-- **C01_composition**: the end-to-end statement follows from the two semantic links that are not
    theorems yet; every other link is a theorem. -/
theorem C01_composition (h2 : C01_link_fun2core_sem) (h6 : C01_link_x86) : C01_statement := by
  intro p p' hn hc hv hmc hlc hls
  obtain ⟨st, F, hcore⟩ := C01_from_core p p' (h6 p p' hn hc hv hmc hlc) hn hc hv hlc hls
  refine ⟨⟨st.s5, middleEnd_ok_iff.2 ⟨st, F.ok, rfl⟩⟩, ?_⟩
  intro hooks nargs text hall
  obtain ⟨hnk, hruns⟩ := hcore hooks nargs text hall
  refine ⟨hnk, ?_⟩
  intro args n t v hsrc
  -- (A) source semantics ⟶ Core ς-machine on S2
  have hA : ∃ n2, Core.run st.s2 args n2 = ⟨t, .done v⟩ := by
    unfold srcRun at hsrc
    by_cases hseq : Fun.Sequenced p' = true
    · rw [if_pos hseq] at hsrc
      obtain ⟨m, hm⟩ := h2 p p' st.s2 hn hc hv hmc hlc hseq F.s2ok args n t v hsrc
      exact ⟨m, ofCore_done hm⟩
    · rw [if_neg hseq, F.s2ok] at hsrc
      exact ⟨n, ofCore_done hsrc⟩
  obtain ⟨n2, hA⟩ := hA
  exact hruns args n2 t v hA

/-- outside the fragment `Sequenced` the source semantics IS the Core machine on S2: there the
    end-to-end conclusion needs the x86-64 link only -/
theorem C01_composition_unsequenced (p : Fun.Program) (p' : Fun.CheckedProgram)
    (h6 : C01_link_x86_at p')
    (hn : programNamesOk p = true) (hc : checkProgram p = .ok p') (hv : validMain p' = true)
    (hlc : C01_linkChecks p' = true)
    (hls : C01_labelSafe p' = true) (hseq : Fun.Sequenced p' = false) : C01_conclusion p' := by
  obtain ⟨st, F, hcore⟩ := C01_from_core p p' h6 hn hc hv hlc hls
  refine ⟨⟨st.s5, middleEnd_ok_iff.2 ⟨st, F.ok, rfl⟩⟩, ?_⟩
  intro hooks nargs text hall
  obtain ⟨hnk, hruns⟩ := hcore hooks nargs text hall
  refine ⟨hnk, ?_⟩
  intro args n t v hsrc
  unfold srcRun at hsrc
  rw [if_neg (by rw [hseq]; simp), F.s2ok] at hsrc
  exact hruns args n t v (ofCore_done hsrc)

/-! ## the fragment in which fun2core's semantics is a theorem: ONE hypothesis left -/

/-- `C02_sem_forward_frag` (Props/C02Sem.lean, a theorem) in the shape of `C01_link_fun2core_sem`, for
    the programs of the fragment `C01_fragChecks` -/
theorem C01_fun2core_sem_frag (p : Fun.Program) (p' : Fun.CheckedProgram) (q2 : Core.Prog)
    (hn : programNamesOk p = true) (hc : checkProgram p = .ok p')
    (hfr : C01_fragChecks p' = true) (e2 : Fun2Core.compileProg p' = .ok q2)
    (args : List Word) (n : Nat) (t : List (Bool × Word)) (v : Word)
    (hrun : ofFun (Fun.run p' args n) = ⟨t, .done v⟩) :
    ∃ m, ofCore (Core.run q2 args m) = ⟨t, .done v⟩ := by
  simp only [C01_fragChecks, e2, Bool.and_eq_true] at hfr
  obtain ⟨m, hm⟩ := C02_sem_forward_link p p' q2 hn hc hfr.1 e2 hfr.2 args n (by rw [hrun]; trivial)
  exact ⟨m, by rw [hm, hrun]⟩

/-- **C01_composition_frag**: for the programs of the fragment `C01_fragChecks` (first-order integers,
    data types with `case`, labels / `goto`, calls; no codata) the end-to-end conclusion follows from
    the x86-64 link at this program ALONE: fun2core (C02, forward), focusing (C03), shrinking (C04), linearization (C05)
    and the runtime (C20) are theorems.  (`noMainCall` is part of `fragOk`.) -/
theorem C01_composition_frag (p : Fun.Program) (p' : Fun.CheckedProgram) (h6 : C01_link_x86_at p')
    (hn : programNamesOk p = true) (hc : checkProgram p = .ok p') (hv : validMain p' = true)
    (hlc : C01_linkChecks p' = true) (hls : C01_labelSafe p' = true)
    (hfr : C01_fragChecks p' = true) : C01_conclusion p' := by
  obtain ⟨st, F, hcore⟩ := C01_from_core p p' h6 hn hc hv hlc hls
  refine ⟨⟨st.s5, middleEnd_ok_iff.2 ⟨st, F.ok, rfl⟩⟩, ?_⟩
  intro hooks nargs text hall
  obtain ⟨hnk, hruns⟩ := hcore hooks nargs text hall
  refine ⟨hnk, ?_⟩
  intro args n t v hsrc
  have hseq : Fun.Sequenced p' = true := by
    simp only [C01_fragChecks, Bool.and_eq_true] at hfr
    exact (C02_fragOk_sequenced hfr.1).1
  unfold srcRun at hsrc
  rw [if_pos hseq] at hsrc
  obtain ⟨m, hm⟩ := C01_fun2core_sem_frag p p' st.s2 hn hc hfr F.s2ok args n t v hsrc
  exact hruns args m t v (ofCore_done hm)

/-- `C01_capacity` (Props/C01Checks.lean, evaluated by the driver) is `ProgWithinCapacity` of S5 -/
theorem C01_capacity_eq {p' : Fun.CheckedProgram} {st : Stages} (h : stages p' = .ok st) :
    C01_capacity p' = C06Generic.ProgWithinCapacity st.s5 := by
  unfold C01_capacity
  rw [h]
  rfl

/-! ## the x86-64 link through the abstract backend machine (Theorem A used, Theorem B assumed) -/

/-- x86-64 code generation, stated FROM THE ABSTRACT BACKEND MACHINE ("Theorem B for runs", agent
    pf-x86B: Scc/X86/Ref*.lean): on the linearized program of a compilation of the statement's programs,
    a run of the abstract machine on the MOCK code of S5 (same hook setting, label counter 0) from the
    label of the first definition that ends with a result is reproduced by the x86-64 machine on the
    printed routine, given enough fuel and heap. -/
def C01_link_x86_abs : Prop :=
  ∀ (p : Fun.Program) (p' : Fun.CheckedProgram) (st : Stages),
    programNamesOk p = true → checkProgram p = .ok p' → validMain p' = true →
    Fun.noMainCall p' = true → C01_linkChecks p' = true → stages p' = .ok st →
    LabelSafe st.s5 = true → AxCut.LinTypedProg st.s5 →
    ∀ (args : List Word) (hooks : Bool) (body routine : List X86.Code) (nargs : Nat)
      (code : List Backend.MockOp) (nargs' c' : Nat) (d0 : AxCut.Def) (ds : List AxCut.Def),
      X86.compileX86 st.s5 hooks 0 = .ok (body, nargs) → X86.intoRoutine body nargs = .ok routine →
      (Backend.compile Backend.mockSym hooks st.s5).run 0 = .ok ((code, nargs'), c') →
      st.s5.defs = d0 :: ds →
      ∀ (f : Nat) (t : List (Bool × Word)) (v : Word),
        Backend.Abs.run code (d0.name.print ++ "_") args f = ⟨t, .done v⟩ →
        C01_onMachines fun cfg fuel' =>
          (X86.run (X86.printProg routine) args fuel' cfg).out = t ∧
          (X86.run (X86.printProg routine) args fuel' cfg).res = .done v

open Scc.Props.C06Generic (CodeFits ProgWithinCapacity) in
/-- Theorem A (`C06Generic.TheoremA_run_static`, a theorem) composed with the abstract-machine form of
    the x86-64 link: the conclusion of `C01_link_x86` for every run of the positional machine shorter
    than 2^64 steps, under the decidable capacity conditions of Theorem A on the program (the mock
    code exists and fits the address space, the contexts fit the numbering of temporaries). -/
theorem C01_x86_run_of_abs (h : C01_link_x86_abs) (p : Fun.Program) (p' : Fun.CheckedProgram)
    (st : Stages) (hn : programNamesOk p = true) (hc : checkProgram p = .ok p')
    (hv : validMain p' = true) (hmc : Fun.noMainCall p' = true) (hlc : C01_linkChecks p' = true)
    (hok : stages p' = .ok st) (hsafe : LabelSafe st.s5 = true)
    (args : List Word) (hooks : Bool) (body routine : List X86.Code) (nargs : Nat)
    (hcomp : X86.compileX86 st.s5 hooks 0 = .ok (body, nargs))
    (hinto : X86.intoRoutine body nargs = .ok routine)
    (fuel : Nat) (t : List (Bool × Word)) (v : Word)
    (hrun : AxCut.Pos.run st.s5 args fuel = ⟨t, .done v⟩)
    (code : List Backend.MockOp) (nargs' c' : Nat)
    (hmock : (Backend.compile Backend.mockSym hooks st.s5).run 0 = .ok ((code, nargs'), c'))
    (hfit : CodeFits code) (hfuel : fuel + 1 < 2 ^ 64)
    (hcap : ProgWithinCapacity st.s5 = true) :
    C01_onMachines fun cfg fuel' =>
      (X86.run (X86.printProg routine) args fuel' cfg).out = t ∧
      (X86.run (X86.printProg routine) args fuel' cfg).res = .done v := by
  obtain ⟨st', F⟩ := C12_facts_of_checks p p' hn hc hv hlc
  have : st' = st := by
    have := F.ok
    rw [hok] at this
    injection this with this
    exact this.symm
  subst this
  obtain ⟨_, _, _, m5⟩ := stages_mainHead (validMainK_of_validMain hv) F.ok
  obtain ⟨d5, ds5, hd5, _, hint5⟩ := m5
  obtain ⟨f, hf⟩ := C06Generic.TheoremA_run_static hooks st'.s5 0 code nargs' c' d5 args fuel t v hmock
    hsafe F.lin5 hfit (by rw [hd5]; rfl) hint5 hcap hfuel hrun
  exact h p p' st' hn hc hv hmc hlc F.ok hsafe F.lin5 args hooks body routine nargs code nargs' c' d5 ds5
    hcomp hinto hmock hd5 f t v hf

/-! ## integer programs: the x86-64 link is a theorem up to the loader round trip -/

open Scc.Props.C06Generic (IntProg ProgWithinCapacity) in
/-- **integer programs** (`C06Generic.IntProg`: `lit op print ifc exit call subst`, every variable an
    integer): the conclusion of `C01_link_x86` is a THEOREM (`X86.C06_int_programs_text`, agent pf-x86B:
    Theorem A ∘ Theorem B, Scc/X86/Ref*.lean) under the static capacity condition of Theorem A
    (`ProgWithinCapacity`, decidable), given that the text of THIS routine loads
    (`X86.TextLoads routine`: the machine's parser reads the printed routine back up to the text of
    comments; a fact about one routine, not proved for all routines: `X86.C06_loader_statement`).
    No heap is needed: any heap size, every sane machine. -/
theorem C01_x86_run_int (p : Fun.Program) (p' : Fun.CheckedProgram) (st : Stages)
    (hn : programNamesOk p = true) (hc : checkProgram p = .ok p') (hv : validMain p' = true)
    (hlc : C01_linkChecks p' = true) (hok : stages p' = .ok st) (hsafe : LabelSafe st.s5 = true)
    (hip : IntProg st.s5) (hrange : X86.ProgInRange st.s5)
    (args : List Word) (hooks : Bool) (body routine : List X86.Code) (nargs : Nat)
    (hcomp : X86.compileX86 st.s5 hooks 0 = .ok (body, nargs))
    (hinto : X86.intoRoutine body nargs = .ok routine)
    (fuel : Nat) (t : List (Bool × Word)) (v : Word)
    (hrun : AxCut.Pos.run st.s5 args fuel = ⟨t, .done v⟩)
    (hcap : ProgWithinCapacity st.s5 = true)
    (hload : X86.TextLoads routine) :
    C01_onMachines fun cfg fuel' =>
      (X86.run (X86.printProg routine) args fuel' cfg).out = t ∧
      (X86.run (X86.printProg routine) args fuel' cfg).res = .done v := by
  obtain ⟨st', F⟩ := C12_facts_of_checks p p' hn hc hv hlc
  have : st' = st := by
    have := F.ok
    rw [hok] at this
    injection this with this
    exact this.symm
  subst this
  obtain ⟨_, _, _, m5⟩ := stages_mainHead (validMainK_of_validMain hv) F.ok
  obtain ⟨d5, ds5, hd5, _, _⟩ := m5
  refine ⟨(0x2000000 : Nat), fun cfg _ hMO hheap => ?_⟩
  exact X86.C06_int_programs_text st'.s5 args hooks body routine nargs d5 hsafe F.lin5 hip hrange hcomp
    hinto (by rw [hd5]; rfl)
    (C06Generic.capacity_static st'.s5 hcap d5 (by rw [hd5]; exact List.mem_cons_self ..) args)
    fuel t v hrun cfg hMO hheap hload

/-! ## the integer fragment of the back end: NO hypothesis left -/

theorem C01_intStmtB_sound : ∀ s : AxCut.Stmt, C01_intStmtB s = true → C06Generic.IntStmt s
  | .lit _ _ next _, h => by
    simp only [C01_intStmtB] at h; simp only [C06Generic.IntStmt]; exact C01_intStmtB_sound next h
  | .op _ _ _ _ next _, h => by
    simp only [C01_intStmtB] at h; simp only [C06Generic.IntStmt]; exact C01_intStmtB_sound next h
  | .print _ _ next _, h => by
    simp only [C01_intStmtB] at h; simp only [C06Generic.IntStmt]; exact C01_intStmtB_sound next h
  | .ifc _ _ _ t e, h => by
    simp only [C01_intStmtB, Bool.and_eq_true] at h
    simp only [C06Generic.IntStmt]
    exact ⟨C01_intStmtB_sound t h.1, C01_intStmtB_sound e h.2⟩
  | .exit _, _ => by simp [C06Generic.IntStmt]
  | .call _ _, _ => by simp [C06Generic.IntStmt]
  | .subst _ next, h => by
    simp only [C01_intStmtB] at h; simp only [C06Generic.IntStmt]; exact C01_intStmtB_sound next h
  | .letS _ _ _ _ _ _, h => by simp [C01_intStmtB] at h
  | .switch _ _ _ _, h => by simp [C01_intStmtB] at h
  | .create _ _ _ _ _ _ _, h => by simp [C01_intStmtB] at h
  | .invoke _ _ _ _, h => by simp [C01_intStmtB] at h

theorem C01_intProgB_sound {q : AxCut.Prog} (h : C01_intProgB q = true) : C06Generic.IntProg q := by
  simp only [C01_intProgB, List.all_eq_true, Bool.and_eq_true, decide_eq_true_eq] at h
  intro d hd
  exact ⟨fun b hb => (h d hd).1 b hb, C01_intStmtB_sound d.body (h d hd).2⟩

mutual
  theorem C01_stmtRangeB_sound : ∀ s : AxCut.Stmt, C01_stmtRangeB s = true →
      X86.StmtB (fun n => X86.fitsI64 n = true) X86.maxSubstX86 s
    | .subst pairs next, h => by
      simp only [C01_stmtRangeB, Bool.and_eq_true, decide_eq_true_eq] at h
      simp only [X86.StmtB]
      exact ⟨h.1, C01_stmtRangeB_sound next h.2⟩
    | .call _ _, _ => by simp [X86.StmtB]
    | .letS _ _ _ _ next _, h => by
      simp only [C01_stmtRangeB] at h; simp only [X86.StmtB]; exact C01_stmtRangeB_sound next h
    | .switch _ _ cl _, h => by
      simp only [C01_stmtRangeB] at h; simp only [X86.StmtB]; exact C01_clausesRangeB_sound cl h
    | .create _ _ _ cl next _ _, h => by
      simp only [C01_stmtRangeB, Bool.and_eq_true] at h
      simp only [X86.StmtB]
      exact ⟨C01_clausesRangeB_sound cl h.1, C01_stmtRangeB_sound next h.2⟩
    | .invoke _ _ _ _, _ => by simp [X86.StmtB]
    | .lit _ n next _, h => by
      simp only [C01_stmtRangeB, Bool.and_eq_true] at h
      simp only [X86.StmtB]
      exact ⟨h.1, C01_stmtRangeB_sound next h.2⟩
    | .op _ _ _ _ next _, h => by
      simp only [C01_stmtRangeB] at h; simp only [X86.StmtB]; exact C01_stmtRangeB_sound next h
    | .print _ _ next _, h => by
      simp only [C01_stmtRangeB] at h; simp only [X86.StmtB]; exact C01_stmtRangeB_sound next h
    | .ifc _ _ _ t e, h => by
      simp only [C01_stmtRangeB, Bool.and_eq_true] at h
      simp only [X86.StmtB]
      exact ⟨C01_stmtRangeB_sound t h.1, C01_stmtRangeB_sound e h.2⟩
    | .exit _, _ => by simp [X86.StmtB]
  theorem C01_clausesRangeB_sound : ∀ cl : AxCut.Clauses, C01_clausesRangeB cl = true →
      X86.ClausesB (fun n => X86.fitsI64 n = true) X86.maxSubstX86 cl
    | .nil, _ => by simp [X86.ClausesB]
    | .cons _ _ body rest, h => by
      simp only [C01_clausesRangeB, Bool.and_eq_true] at h
      simp only [X86.ClausesB]
      exact ⟨C01_stmtRangeB_sound body h.1, C01_clausesRangeB_sound rest h.2⟩
end

theorem C01_progInRangeB_sound {q : AxCut.Prog} (h : C01_progInRangeB q = true) :
    X86.ProgInRange q := by
  simp only [C01_progInRangeB, Bool.and_eq_true, List.all_eq_true, decide_eq_true_eq] at h
  exact ⟨fun d hd => h.1 d hd, fun d hd => C01_stmtRangeB_sound d.body (h.2 d hd)⟩

theorem C01_stripC_eq : C01_stripC = X86.Ref.stripC := by
  funext c
  cases c <;> rfl

theorem C01_textLoadsB_sound {routine : List X86.Code} (h : C01_textLoadsB routine = true) :
    X86.TextLoads routine := by
  unfold C01_textLoadsB at h
  split at h
  · rename_i items hp
    simp only [decide_eq_true_eq, C01_stripC_eq] at h
    exact ⟨items, hp, h⟩
  · cases h

open Scc.Props.C06Generic (IntProg ProgWithinCapacity) in
/-- **the x86-64 link is a THEOREM on the integer fragment** (`C01_intChecks`, decidable): Theorem A ∘
    Theorem B of pf-x86B (`X86.C06_int_programs_text`), the static capacity bound, and the loader
    round trip evaluated on this program's routine. -/
theorem C01_x86_int (p : Fun.Program) (p' : Fun.CheckedProgram)
    (hn : programNamesOk p = true) (hc : checkProgram p = .ok p') (hv : validMain p' = true)
    (hlc : C01_linkChecks p' = true) (hic : C01_intChecks p' = true) : C01_link_x86_at p' := by
  intro st hok hsafe _ args hooks body routine nargs hcomp hinto fuel t v hrun
  simp only [C01_intChecks, hok, Bool.and_eq_true] at hic
  obtain ⟨hcap, ⟨⟨hint, hrange⟩, hl1⟩, hl2⟩ := hic
  have hload : C01_textLoadsB routine = true := by
    cases hooks with
    | true => simpa [C01_routineLoadsB, hcomp, hinto] using hl1
    | false => simpa [C01_routineLoadsB, hcomp, hinto] using hl2
  rw [C01_capacity_eq hok] at hcap
  exact C01_x86_run_int p p' st hn hc hv hlc hok hsafe (C01_intProgB_sound hint)
    (C01_progInRangeB_sound hrange) args hooks body routine nargs hcomp hinto fuel t v hrun hcap
    (C01_textLoadsB_sound hload)

/-- **C01_int_fragment — END TO END, NO HYPOTHESIS LEFT** beyond decidable per-program checks: for every
    accepted program with a valid `main` whose stages pass `C01_linkChecks`, `C01_labelSafe`,
    `C01_fragChecks` (fun2core's fragment: integers, data, labels, calls; no codata) and
    `C01_intChecks` (the linearized program is an integer program within range and capacity whose
    routine text loads), the conclusion of C01 holds: the x86-64 machine on the emitted text and the
    linked binary reproduce every run of the Fun machine that ends with a result.
    Every link is a theorem: C15, C02 (`C02_sem_forward_frag`), C03, C04 (`C04_sem`), C05, Theorem A,
    Theorem B (integer fragment), C14 (labels), C20. -/
theorem C01_int_fragment (p : Fun.Program) (p' : Fun.CheckedProgram)
    (hn : programNamesOk p = true) (hc : checkProgram p = .ok p') (hv : validMain p' = true)
    (hlc : C01_linkChecks p' = true) (hls : C01_labelSafe p' = true)
    (hfr : C01_fragChecks p' = true) (hic : C01_intChecks p' = true) : C01_conclusion p' :=
  C01_composition_frag p p' (C01_x86_int p p' hn hc hv hlc hic) hn hc hv hlc hls hfr

/-- … and from the Core program on (any source program, sequenced or not, with codata or not) when
    the back end is in the integer fragment -/
theorem C01_int_from_core (p : Fun.Program) (p' : Fun.CheckedProgram)
    (hn : programNamesOk p = true) (hc : checkProgram p = .ok p') (hv : validMain p' = true)
    (hlc : C01_linkChecks p' = true) (hls : C01_labelSafe p' = true)
    (hic : C01_intChecks p' = true) : ∃ st, C12_Facts p p' st ∧ C01_conclusion_core p' st :=
  C01_from_core p p' (C01_x86_int p p' hn hc hv hlc hic) hn hc hv hlc hls

/-- the exit status of the conclusion is the low byte of the result -/
theorem C01_exit_status (v : Word) : Runtime.exitStatus v.toInt = (v.toInt % 256).toNat :=
  Runtime.exitStatus_eq _

/-! ## non-vacuity

The premises of `C01_statement` / `C01_middle` (`programNamesOk`, accepted, `validMain`, `noMainCall`,
`C01_linkChecks`) hold for `C12_exSrc` (`C12_example_premises`); here additionally `C01_labelSafe`,
the program is in the fragment `Sequenced`, the source semantics finishes on the argument 5 (premise
of the inner implication), and every machine of the chain that the kernel can evaluate gives the same
observable — i.e. the instance of each semantic link (`C01_link_fun2core_sem`, C03, C04, C05) at this
program is true; and the capacity conditions of Theorem A (part (3) of `C01_middle`) hold for the mock
code of S5 and the run on the argument 5, on which the abstract backend machine gives the same
observable.  (The x86-64 machine keeps its memory in a `Std.HashMap`, which does not reduce in the
kernel; `#eval ofX86 (X86.run text [5] 5000 {})` gives the same observable, and `runLineNative` the bytes
`37 0a` with status 0.) -/

def C01_exObs : Obs := ⟨[(true, 7)], .done 0⟩

def C01_exRuns (src : String) : Bool :=
  match frontEnd src with
  | .ok _ p' =>
    validMain p' && Fun.noMainCall p' && C01_linkChecks p' && C01_labelSafe p' &&
    Fun.Sequenced p' &&
    match stages p' with
    | .ok st =>
      decide (srcRun p' [5] 200 = C01_exObs) &&
      decide (ofFun (Fun.run p' [5] 200) = C01_exObs) &&
      decide (ofCore (Core.run st.s2 [5] 200) = C01_exObs) &&
      decide (ofCore (Core.fsRun st.s3 [5] 200) = C01_exObs) &&
      decide (ofNamed (AxCut.Named.run st.s4 [5] 200) = C01_exObs) &&
      decide (ofPos (AxCut.Pos.run st.s5 [5] 200) = C01_exObs) &&
      decide (mainArity p' = 1)
    | .error _ => false
  | _ => false

/-- … and it is in the fragment of `C01_composition_frag` -/
def C01_exFrag (src : String) : Bool :=
  match frontEnd src with
  | .ok _ p' => C01_fragChecks p'
  | _ => false

set_option maxRecDepth 100000 in
theorem C01_example_frag : C01_exFrag C12_exSrc = true := by decide +kernel

set_option maxRecDepth 100000 in
theorem C01_example_runs : C01_exRuns C12_exSrc = true := by decide +kernel

/-- the capacity conditions of part (3) of `C01_middle` on the example, and the run of the abstract
    backend machine on the mock code of S5 -/
def C01_exAbs (src : String) : Bool :=
  match frontEnd src with
  | .ok _ p' =>
    match stages p' with
    | .ok st =>
      match st.s5.defs, (Backend.compile Backend.mockSym true st.s5).run 0 with
      | d0 :: _, .ok ((code, _), _) =>
        LabelSafe st.s5 && decide (C06Generic.CodeFits code) &&
        C06Generic.ProgWithinCapacity st.s5 && C01_capacity p' &&
        decide ((Backend.Abs.run code (d0.name.print ++ "_") [5] 5000).out = [(true, 7)]) &&
        decide ((Backend.Abs.run code (d0.name.print ++ "_") [5] 5000).res = .done 0)
      | _, _ => false
    | .error _ => false
  | _ => false

set_option maxRecDepth 100000 in
theorem C01_example_abs : C01_exAbs C12_exSrc = true := by decide +kernel

/-- an integer program: comparison, `let`, `if`, `println_i64`, two parameters
    (/verif/gen/corpus/fun2core/s19_main_params.sc) -/
def C01_exIntSrc : String :=
  "def main(n: i64, m: i64): i64 { let r: i64 = if n < m { n } else { m }; println_i64(r); if r == 0 { 0 } else { 1 } }"

/-- the hypotheses of `C01_int_fragment` on `C01_exIntSrc`, except the loading of the routine text
    (the two conjuncts `C01_routineLoadsB` of `C01_intChecks`): `X86.parseText` splits the text with
    `String.splitOn`, which the kernel cannot evaluate; `#eval` gives `true` for the whole of
    `C01_intChecks` on this program, and the `links` driver evaluates it on every program of every run
    (tag `int`). -/
def C01_exIntChecks (src : String) : Bool :=
  match frontEnd src with
  | .ok p p' =>
    programNamesOk p && validMain p' && C01_linkChecks p' && C01_labelSafe p' &&
    C01_fragChecks p' && C01_capacity p' &&
    match stages p' with
    | .ok st =>
      C01_intProgB st.s5 && C01_progInRangeB st.s5 &&
      decide (srcRun p' [3, 5] 100 = ⟨[(true, 3)], .done 1⟩) &&
      decide (ofPos (AxCut.Pos.run st.s5 [3, 5] 100) = ⟨[(true, 3)], .done 1⟩)
    | .error _ => false
  | _ => false

set_option maxRecDepth 100000 in
theorem C01_example_int : C01_exIntChecks C01_exIntSrc = true := by decide +kernel

/-- `C01_onMachines` is not vacuous: the default machine configuration is sane, its heap monitor off -/
example : X86.Ref.MachOK ({} : X86.MonCfg).mach ∧ ({} : X86.MonCfg).heap = false :=
  ⟨X86.Ref.machOK_default, rfl⟩

/-- the conclusion's byte string and exit status for this run: "7\n", status 0 -/
example : renderTrace C01_exObs.out = [55, 10] ∧ Runtime.exitStatus (0 : Word).toInt = 0 := by decide

/-- a negative result: exit status 255 for −1 -/
example : Runtime.exitStatus (BitVec.ofInt 64 (-1)).toInt = 255 := by decide

#print axioms C01_composition
#print axioms C01_from_core
#print axioms C01_composition_frag
#print axioms C01_x86_run_of_abs
#print axioms C01_x86_run_int
#print axioms C01_x86_int
#print axioms C01_int_fragment
#print axioms C01_int_from_core
#print axioms C01_composition_unsequenced
#print axioms C01_middle
#print axioms C01_middle_obs
#print axioms C01_middle_forward
#print axioms C01_middle_backward
#print axioms C01_middle_backward_fault
#print axioms C02_sem_statement_false
#print axioms C01_link_fun2core_sem_of_C02
#print axioms C01_link_x86_of_C06
#print axioms traceBytes_eq_render
#print axioms argv_roundtrip
#print axioms compileX86_nargs
#print axioms C01_example_runs
#print axioms C01_example_frag
#print axioms C01_example_int
#print axioms C01_example_abs

end Scc.Props
