/-
  Scc.Props.C01 — property C01 (fixed text): end-to-end correctness for x86-64.
  "For every well-typed Fun program with a valid `main` (at most five integer parameters, integer
   result) and every argument tuple on which the source semantics terminates, the x86-64 executable
   built from the compiler's output — the routine assembled and linked with the generated C driver and
   I/O runtime — writes exactly the bytes the source semantics prescribes and exits with the low byte
   of the prescribed result, provided the heap is large enough …"

  About THE MODELS: the compiler is `Scc.Pipeline.compileAllX86` (Scc/Pipeline.lean, tied to the real
  driver by byte equality of the routine text), the source semantics is `Scc.Pipeline.srcRun` (the Fun
  machine `Scc.Fun.run` on `Sequenced` programs, the Core ς-machine on the translation otherwise,
  DESIGN §4), the target is the x86-64 machine `Scc.X86.run` ON THE EMITTED TEXT, wrapped in the model
  of the C driver and io.c (`Scc.Pipeline.nativeRun`, runtime model of C20).

  * `C02_sem_statement`  the semantic statement of C02 (Fun machine vs Core machine on `compileProg`,
                         for `Sequenced` programs); Props/C02.lean deliberately omits it.
  * `C01_statement`      the full end-to-end statement (def).
  * `C01_composition`    THE COMPOSITION THEOREM: `C01_statement` follows from one named hypothesis per
                         link that is not a theorem yet
                           semantic links:  `C02_sem_statement`, `C03_statement`, `C04_full_statement`,
                                            `X86.C06_statement`
                           typing links (shared with C12): `C12_link_fun2core`, `C12_link_focus`,
                                            `C12_link_shrink`
                         and uses directly the links that ARE theorems: `C15_sound`,
                         `C03_unique_binders_global`, `C04_no_panic`, `C05_linearize_LinTyped`, `C05_T4`
                         (named machine on S4 = positional machine on S5), `C20_current_full` (io.c prints
                         the decimal representation of every value, the driver converts every argument),
                         `exitStatus_eq`; the side conditions "`main` is the first definition and its
                         parameters are integers" of C04 / C05_T4 are PROVED for every stage
                         (Scc/Pipeline/Lemmas.lean `stages_mainHead`), `uniqueIdsCheck` of C04 is derived
                         from C03's theorem (Scc/Pipeline/Bridges.lean).
-/
import Scc.Props.C12
import Scc.Props.C04Sem
import Scc.Props.C06X86
import Scc.Props.C20Full

namespace Scc.Props

open Scc Scc.Pipeline
open Scc.Fun.Check (checkProgram programNamesOk)

/-! ## C02, semantic statement -/

/-- outcomes the properties speak about: a result, or one of the two arithmetic faults -/
def ObsFinished : ObsRes → Prop
  | .done _ => True
  | .stuck w => w = "divByZero" ∨ w = "overflow"
  | .outOfFuel => False

/-- same observable behaviour of two fuel-indexed runs: every finished run of one is matched by a
    run of the other with the same trace and the same outcome, and for the other runs every finite
    trace of one is a prefix of a trace of the other -/
def ObsSame (r1 r2 : Nat → Obs) : Prop :=
  (∀ n, ObsFinished (r1 n).res → ∃ m, r2 m = r1 n) ∧
  (∀ m, ObsFinished (r2 m).res → ∃ n, r1 n = r2 m) ∧
  (∀ n, ∃ m, (r1 n).out <+: (r2 m).out) ∧ (∀ m, ∃ n, (r2 m).out <+: (r1 n).out)

/-- C02 (semantics): for every accepted program in the fragment `Sequenced` (arguments of calls,
    constructors, destructors and operators and codata-typed bound terms are pure) the Core program
    produced by the translation has, on the Core ς-machine, the same output and result as the source
    program on the Fun machine. -/
def C02_sem_statement : Prop :=
  ∀ (p : Fun.Program) (p' : Fun.CheckedProgram) (q2 : Core.Prog),
    programNamesOk p = true → checkProgram p = .ok p' → Fun.Sequenced p' = true →
    Fun2Core.compileProg p' = .ok q2 →
    ∀ args : List Word,
      ObsSame (fun n => ofFun (Fun.run p' args n)) (fun n => ofCore (Core.run q2 args n))

/-! ## C01, the statement -/

/-- C01, full statement.  For every program accepted by the checker with a valid `main`:
    the middle end (S2 … S5) does not fail; and whenever the x86-64 code generator produces a routine
    (it may stop with the capacity error) the reported number of arguments is the arity of `main`, and
    for every argument tuple on which the source semantics finishes with result `v` and trace `t`
    there are a fuel and a heap size such that the x86-64 machine on the routine TEXT finishes without
    fault with the same trace and result `v`; hence (C20) the linked binary started as
    `prog a1 … an` writes exactly the decimal rendering of `t` and exits with status `v mod 256`. -/
def C01_statement : Prop :=
  ∀ (p : Fun.Program) (p' : Fun.CheckedProgram),
    programNamesOk p = true → checkProgram p = .ok p' → validMain p' = true →
    (∃ q5, middleEnd p' = .ok q5) ∧
    ∀ (hooks : Bool) (nargs : Nat) (text : String),
      compileAllX86 hooks 0 p' = .ok (nargs, text) →
      nargs = mainArity p' ∧
      ∀ (args : List Word) (n : Nat) (t : List (Bool × Word)) (v : Word),
        srcRun p' args n = ⟨t, .done v⟩ →
        args.length = nargs ∧
        ∃ (m heapBytes : Nat), ∀ cfg : X86.MonCfg, cfg.mach.heapBytes = heapBytes → cfg.heap = false →
          (X86.run text args m cfg).out = t ∧ (X86.run text args m cfg).res = .done v ∧
          nativeRun text nargs (argvOf args) m cfg = some (renderTrace t, Runtime.exitStatus v.toInt)

/-! ## helper lemmas -/

theorem ofCore_done {b : Core.Behaviour} {t : List (Bool × Word)} {v : Word}
    (h : ofCore b = ⟨t, .done v⟩) : b = ⟨t, .done v⟩ := by
  obtain ⟨out, res⟩ := b
  cases res <;> simp_all [ofCore]

/-- C20 ⇒ the runtime calls of a trace write its decimal rendering -/
theorem traceBytes_eq_render (t : List (Bool × Word)) : traceBytes t = some (renderTrace t) := by
  induction t with
  | nil => rfl
  | cons a r ih =>
    obtain ⟨nl, v⟩ := a
    have hv := C20_current_full.1 v
    cases nl
    · simp [traceBytes, renderTrace, hv.1, ih] at *
    · simp [traceBytes, renderTrace, hv.2, ih] at *

/-- C20 ⇒ the driver hands every integer argument to `asm_main` unchanged -/
theorem argv_roundtrip (args : List Word) :
    ((argvOf args).drop 1).map (fun s => BitVec.ofInt 64 (Runtime.argToParamCur s)) = args := by
  simp only [argvOf, List.drop_succ_cons, List.drop_zero, List.map_map]
  conv => rhs; rw [← List.map_id args]
  apply List.map_congr_left
  intro a _
  have h1 := BitVec.le_toInt a
  have h2 := BitVec.toInt_lt (x := a)
  simp only [Function.comp_apply, id_eq]
  rw [C20_current_full.2 a.toInt (by omega) (by omega), BitVec.ofInt_toInt]

/-- the number of arguments reported by the generic code generator is the length of the first
    definition's parameter list -/
theorem compileX86_nargs {q5 : AxCut.Prog} {hooks : Bool} {c : Nat} {body : List X86.Code} {nargs : Nat}
    (h : X86.compileX86 q5 hooks c = .ok (body, nargs)) :
    ∃ d ds, q5.defs = d :: ds ∧ nargs = d.ctx.length := by
  unfold X86.compileX86 at h
  split at h
  · simp at h
  · rename_i r c' hr
    simp only [Except.ok.injEq] at h
    subst h
    unfold Backend.compile Backend.compileR at hr
    cases hd : q5.defs with
    | nil =>
      rw [hd] at hr
      simp only [throw, throwThe, MonadExceptOf.throw, StateT.run] at hr
      cases hr
    | cons d ds =>
      refine ⟨d, ds, rfl, ?_⟩
      rw [hd] at hr
      simp only [bind, StateT.bind, StateT.run, Except.bind, pure, StateT.pure, Except.pure] at hr
      split at hr
      · simp at hr
      · simp only [Except.ok.injEq, Prod.mk.injEq] at hr
        exact hr.1.2.symm

/-! ## the composition theorem -/

/-- **C01_composition**: the end-to-end statement follows from the per-link statements that are not
    theorems yet. -/
theorem C01_composition
    (h2 : C02_sem_statement) (h3 : C03_statement) (h4 : C04_full_statement)
    (h6 : X86.C06_statement)
    (t2 : C12_link_fun2core) (t3 : C12_link_focus) (t4 : C12_link_shrink) :
    C01_statement := by
  intro p p' hn hc hv
  obtain ⟨st, F⟩ := C12_facts t2 t3 t4 p p' hn hc hv
  obtain ⟨_, m3, m4, m5⟩ := stages_mainHead (validMainK_of_validMain hv) F.ok
  refine ⟨⟨st.s5, middleEnd_ok_iff.2 ⟨st, F.ok, rfl⟩⟩, ?_⟩
  intro hooks nargs text hall
  -- the back end ran on `st.s5`
  obtain ⟨q5, hme, hbe⟩ := compileAllX86_ok_iff.1 hall
  obtain ⟨st', hst', rfl⟩ := middleEnd_ok_iff.1 hme
  rw [F.ok] at hst'
  injection hst' with hst'
  subst hst'
  obtain ⟨body, routine, hcomp, hinto, rfl⟩ := backEndX86_ok_iff.1 hbe
  -- number of arguments
  obtain ⟨d5, ds5, hd5, hk5, hint5⟩ := m5
  obtain ⟨d5', ds5', hd5', hnargs⟩ := compileX86_nargs hcomp
  rw [hd5] at hd5'
  injection hd5' with e1 e2
  subst e1
  have hnk : nargs = mainArity p' := by rw [hnargs, hk5]
  refine ⟨hnk, ?_⟩
  intro args n t v hsrc
  -- (A) source semantics ⟶ Core ς-machine on S2
  have hA : ∃ n2, Core.run st.s2 args n2 = ⟨t, .done v⟩ := by
    unfold srcRun at hsrc
    by_cases hseq : Fun.Sequenced p' = true
    · rw [if_pos hseq] at hsrc
      have hfin : ObsFinished ((fun n => ofFun (Fun.run p' args n)) n).res := by
        simp only [hsrc]; trivial
      obtain ⟨m, hm⟩ := (h2 p p' st.s2 hn hc hseq F.s2ok args).1 n hfin
      simp only [hsrc] at hm
      exact ⟨m, ofCore_done hm⟩
    · rw [if_neg hseq, F.s2ok] at hsrc
      exact ⟨n, ofCore_done hsrc⟩
  obtain ⟨n2, hA⟩ := hA
  -- (B) C03: ς-machine on S2 ⟶ focused machine on S3
  have hB : ∃ n3, Core.fsRun st.s3 args n3 = ⟨t, .done v⟩ := by
    have hobs := (h3 st.s2 F.input2).1 args
    have hterm : Terminates (Core.run st.s2 args) ⟨t, .done v⟩ := ⟨n2, hA, by simp⟩
    obtain ⟨n3, hn3, _⟩ := (hobs.1 _).1 hterm
    rw [F.s3eq]
    exact ⟨n3, hn3⟩
  obtain ⟨n3, hB⟩ := hB
  -- (C) C04: focused machine on S3 ⟶ named AxCut machine on S4
  have hC : ∃ n4, (AxCut.Named.run st.s4 args n4).out = t ∧
      (AxCut.Named.run st.s4 args n4).res = .done v := by
    obtain ⟨d3, ds3, hd3, hname3, _, _⟩ := m3
    have hsame := h4 st.s3 st.s4 args F.scoped3 F.uniqueIds3 ⟨d3, ds3, hd3, hname3⟩ F.s4ok
    have hres : (coreFsRun st.s3 args n3).res = .done v := by
      simp [coreFsRun, coreBehaviour, hB]
    have hout : (coreFsRun st.s3 args n3).out = t := by
      simp [coreFsRun, coreBehaviour, hB]
    obtain ⟨n4, ho, hr⟩ := hsame.1 n3 (.inl ⟨v, hres⟩)
    refine ⟨n4, by rw [ho, hout], ?_⟩
    rcases hr with ⟨v', hv1, hv2⟩ | ⟨⟨w, hw⟩, _⟩
    · rw [hres] at hv1
      injection hv1 with hv1
      rw [hv2, hv1]
    · rw [hres] at hw
      cases hw
  obtain ⟨n4, hC1, hC2⟩ := hC
  -- (D) C05 (theorem): named machine on S4 ⟶ positional machine on S5
  have hD : ∃ n5, AxCut.Pos.run st.s5 args n5 = ⟨t, .done v⟩ := by
    obtain ⟨d4, ds4, hd4, _, hint4⟩ := m4
    have hmain : ∀ d, st.s4.defs.head? = some d → ∀ b ∈ d.ctx, b.chi = .ext ∧ b.ty = .i64 := by
      intro d hd
      rw [hd4] at hd
      simp only [List.head?_cons, Option.some.injEq] at hd
      subst hd
      exact hint4
    have hT4 := C05.C05_T4 st.s4 st.s5 args F.wf4 F.noEnv4 hmain F.s5ok
    have hfin : AxCut.Sim.finishedNamed (AxCut.Named.run st.s4 args n4).res := by
      rw [hC2]; trivial
    obtain ⟨n5, ho, hs⟩ := hT4.1 n4 hfin
    refine ⟨n5, ?_⟩
    rw [hC2] at hs
    cases hb : AxCut.Pos.run st.s5 args n5 with
    | mk out res =>
      rw [hb] at ho hs
      simp only at ho hs
      cases res with
      | done w =>
        have : v = w := hs
        subst this
        rw [ho, hC1]
      | stuck w => exact absurd hs (by simp [AxCut.Sim.sameOutcome])
      | outOfFuel => exact absurd hs (by simp [AxCut.Sim.sameOutcome])
  obtain ⟨n5, hD⟩ := hD
  -- the positional machine ran, so the arity matches
  have hlen : args.length = nargs := by
    apply Classical.byContradiction
    intro hne
    have : AxCut.Pos.run st.s5 args n5 = ⟨[], .stuck (.shape "entry-arity")⟩ := by
      unfold AxCut.Pos.run
      rw [hd5]
      simp only
      rw [if_pos]
      rw [hnargs] at hne
      exact fun h => hne h.symm
    rw [this] at hD
    cases hD
  refine ⟨hlen, ?_⟩
  -- (E) C06: positional machine on S5 ⟶ x86-64 machine on the routine text
  have hE := h6 st.s5 args hooks body routine nargs F.lin5 hcomp hinto n5 v (by rw [hD])
  obtain ⟨m, heapBytes, hE⟩ := hE
  refine ⟨m, heapBytes, ?_⟩
  intro cfg hcfg1 hcfg2
  obtain ⟨hout, hres⟩ := hE cfg hcfg1 hcfg2
  rw [hD] at hout
  simp only at hout
  refine ⟨hout, hres, ?_⟩
  -- (F) C20: the C driver and io.c around the routine
  unfold nativeRun
  have hargv : (argvOf args).length = 1 + nargs := by simp [argvOf, hlen]; omega
  rw [if_neg (by omega)]
  simp only [argv_roundtrip, hres, hout, traceBytes_eq_render]

/-- the exit status of the conclusion is the low byte of the result -/
theorem C01_exit_status (v : Word) : Runtime.exitStatus v.toInt = (v.toInt % 256).toNat :=
  Runtime.exitStatus_eq _

/-! ## non-vacuity

The premises (`programNamesOk`, accepted, `validMain`) hold for `C12_exSrc` (`C12_example_premises`),
and so does every decidable side condition of the links (`C12_example_checks`).  Here: the program is
in the fragment `Sequenced`, the source semantics finishes on the argument 5 (premise of the inner
implication), and every machine of the chain that the kernel can evaluate gives the same observable —
i.e. the instance of each semantic link (`C02_sem_statement`, `C03_statement`, `C04_full_statement`,
`C05_T4`) at this program is true.  (The x86-64 machine keeps its memory in a `Std.HashMap`, which does
not reduce in the kernel; `#eval ofX86 (X86.run text [5] 5000 {})` gives the same observable, and
`runLineNative` the bytes `37 0a` with status 0.) -/

def C01_exObs : Obs := ⟨[(true, 7)], .done 0⟩

def C01_exRuns (src : String) : Bool :=
  match frontEnd src with
  | .ok _ p' =>
    Fun.Sequenced p' &&
    match stages p' with
    | .ok st =>
      decide (srcRun p' [5] 200 = C01_exObs) &&
      decide (ofFun (Fun.run p' [5] 200) = C01_exObs) &&
      decide (ofCore (Core.run st.s2 [5] 200) = C01_exObs) &&
      decide (ofCore (Core.fsRun st.s3 [5] 200) = C01_exObs) &&
      decide (ofNamed (AxCut.Named.run st.s4 [5] 200) = C01_exObs) &&
      decide (ofPos (AxCut.Pos.run st.s5 [5] 200) = C01_exObs) &&
      decide (mainArity p' = 1)
    | .error _ => false
  | _ => false

set_option maxRecDepth 100000 in
theorem C01_example_runs : C01_exRuns C12_exSrc = true := by decide +kernel

/-- the conclusion's byte string and exit status for this run: "7\n", status 0 -/
example : renderTrace C01_exObs.out = [55, 10] ∧ Runtime.exitStatus (0 : Word).toInt = 0 := by decide

/-- a negative result: exit status 255 for −1 -/
example : Runtime.exitStatus (BitVec.ofInt 64 (-1)).toInt = 255 := by decide

#print axioms C01_composition
#print axioms traceBytes_eq_render
#print axioms argv_roundtrip
#print axioms compileX86_nargs
#print axioms C01_example_runs

end Scc.Props
