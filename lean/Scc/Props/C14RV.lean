/-
  Scc.Props.C14RV — property C14 (emitted assembly is well-formed), the RISC-V part:
  "every immediate/shift/offset fits its instruction form, consecutive table entries are
   `jumpLength 1` apart" for the text of the RV64 backend, with the validator `Scc.RV.wfCheck`
  (Scc/RV/Machine.lean: labels defined once, references defined, 12-bit signed immediates of
  `ADDI`/`JALR`/`LW`/`SW`, 64-bit `LI`, contiguous jump tables).

  The label part of C14 (T2 labels defined, T3 labels unique under `LabelSafe`) is backend
  independent and proved in Scc/Props/C14Generic.lean.  Proved here:
  * T1 `C14RV_table_code`, `C14RV_table_stride`: a table is one `JAL X0 <clause label>` per clause
    (`jump_label_fixed`), laid out by the machine at `address(table) + 4 k` = `jump_length k`.
  * T4 (operand ranges), per emitting function: `erase_block`, `acquire_block`, `share_block_n`
    (n ≤ 2047), `load_immediate` (any i64), `add_and_jump` / `jump` (k ≤ 511), all field offsets.
    The bounds are sharp — `C14RV_addAndJump_limit`, `C14RV_share_limit`: the 513-th destructor of a
    codata type, or a substitution making 2049 copies of one object, yields an `ADDI` whose
    immediate does not fit 12 bits (capacity limits of the backend, stated as hypotheses).
  NOT proved (kept as `def C14RV_statement : Prop`): the whole-text statement (`wfCheck` of the routine
  text of every accepted program); T4 for the code of `store`/`load` is only tested (`wf` monitor on
  every generated text, /verif/gen/cross_backend.py).
  NOTE the mnemonics `LW`/`SW` themselves are 32-bit accesses on a real RV64 (C08 header).
-/
import Scc.RV.Lemmas
import Scc.RV.LayoutLemmas

set_option linter.unusedSimpArgs false

namespace Scc.RV

open Scc.AxCut Scc.Backend

/-! ## the statement -/

/-- every type has at most 512 xtors (so that `jump_length` of every tag fits the `ADDI` of `add_and_jump`) -/
def XtorsWithin (p : Prog) : Prop := ∀ d ∈ p.types, d.xtors.length ≤ 512

/-- C14 for RV64 — `LabelSafe` is the hypothesis of C14-T3 (Scc/Props/C14Generic.lean), `callsDefined`
that of C14-T2; a substitution never makes more than 2048 copies of a variable because a context has
at most 14 variables. -/
def C14RV_statement (LabelSafe CallsDefined : Prog → Prop) : Prop :=
  ∀ (p : Prog) (hooks : Bool) (counter nargs : Nat) (text : String),
    LabelSafe p → CallsDefined p → XtorsWithin p →
    compileRoutine p hooks counter = .ok (nargs, text) →
    wfCheck text = .ok ()

/-! ## T1: jump tables -/

def clauseXtors : Clauses → List Ident
  | .nil => []
  | .cons x _ _ rest => x :: clauseXtors rest

/-- utils.rs code_table with the RV backend: exactly one `JAL X0 <base>_<xtor>` per clause, in
clause order, nothing else (no labels, no comments) -/
theorem C14RV_table_code (base : String) : ∀ (cs : Clauses),
    codeTable rvBackend cs base =
      (clauseXtors cs).map fun x => Code.JAL ZERO (clauseLabel base x)
  | .nil => rfl
  | .cons x _ _ rest => by
    simp only [codeTable, clauseXtors, List.map_cons, C14RV_table_code base rest]
    rfl

/-- `jump_length`: entries are 4 bytes apart -/
theorem C14RV_jumpLength (k : Nat) :
    rvBackend.jumpLength k = 4 * (k : Int) ∧
    rvBackend.jumpLength (k + 1) - rvBackend.jumpLength k = rvBackend.jumpLength 1 := by
  simp only [rvBackend, jumpLength]
  constructor
  · trivial
  · omega

/-- In the machine's layout of ANY text that contains a table label directly followed by the table
entries, entry k is at `address(label) + jump_length k` -/
theorem C14RV_table_stride (pre post : List (Nat × Code)) (n0 : Nat) (base : String) (cs : Clauses)
    (lineNo : Nat → Nat) (p : Program)
    (h : layout (pre ++ ((n0, Code.LAB base) ::
          ((clauseXtors cs).mapIdx fun i x => (lineNo i, clauseLabel base x)).map
            fun e => (e.1, Code.JAL ZERO e.2)) ++ post) = .ok p) :
    ∃ i A, (p.items[i]?).map Item.view = some (.LAB base, A) ∧
      ∀ k (hk : k < (clauseXtors cs).length),
        (p.items[i + 1 + k]?).map Item.view =
          some (.JAL ZERO (clauseLabel base (clauseXtors cs)[k]), A + 4 * k) := by
  obtain ⟨i, A, hlab, hent⟩ := layout_table_stride pre post n0 base _ p h
  refine ⟨i, A, hlab, ?_⟩
  intro k hk
  have := hent k (by simpa using hk)
  simpa using this

/-! ## T4: operand ranges -/

def codesOk (l : List Code) : Bool := l.all Code.operandsOk

/-- config.rs: every field offset (and the block size used by the bump allocation) fits 12 bits -/
theorem C14RV_fieldOffset (number field : Nat) (hn : number ≤ 1) (hf : field ≤ fieldsPerBlock) :
    fitsI12 (fieldOffset number field) = true ∧ fitsI12 referenceCountOffset = true ∧
    fitsI12 nextElementOffset = true := by
  simp only [fieldsPerBlock] at hf
  simp only [fitsI12, fieldOffset, address, fieldSlotSize, referenceCountOffset, nextElementOffset]
  refine ⟨?_, by decide, by decide⟩
  simp only [Bool.and_eq_true]
  constructor <;> (apply decide_eq_true; omega)

theorem C14RV_eraseBlock (r : Register) (c : Nat) :
    ∃ code, (rvBackend.eraseBlock r).run c = .ok (code, c + 3) ∧ codesOk code = true := by
  refine ⟨_, rfl, ?_⟩
  simp [codesOk, Code.operandsOk, fitsI12, referenceCountOffset, nextElementOffset, address]

theorem C14RV_acquireBlock (r t : Register) (c : Nat) :
    ∃ code, (acquireBlock r t).run c = .ok (code, c + 13) ∧ codesOk code = true := by
  refine ⟨_, rfl, ?_⟩
  simp [codesOk, Code.operandsOk, fitsI12, referenceCountOffset, nextElementOffset, address,
    fieldOffset, fieldsPerBlock, fieldSlotSize]

theorem C14RV_shareBlockN (r : Register) (n c : Nat) (hn : n ≤ 2047) :
    ∃ code, (rvBackend.shareBlockN r n).run c = .ok (code, c + 1) ∧ codesOk code = true := by
  refine ⟨_, rfl, ?_⟩
  simp [codesOk, Code.operandsOk, fitsI12, referenceCountOffset, address]
  omega

/-- the bound is sharp: sharing 2048 more copies emits `ADD X1 X1 2048` -/
theorem C14RV_share_limit (r : Register) (c : Nat) :
    ∃ code, (rvBackend.shareBlockN r 2048).run c = .ok (code, c + 1) ∧ codesOk code = false := by
  refine ⟨_, rfl, ?_⟩
  simp [codesOk, Code.operandsOk, fitsI12, referenceCountOffset, address]

theorem C14RV_loadImmediate (t : Register) (n : Int)
    (hn : -9223372036854775808 ≤ n ∧ n ≤ 9223372036854775807) :
    codesOk (rvBackend.loadImmediate t n) = true := by
  simp [codesOk, rvBackend, Code.operandsOk, fitsI64, hn.1, hn.2]

theorem C14RV_addAndJump (t : Register) (k : Nat) (hk : k ≤ 511) :
    codesOk (rvBackend.addAndJump t (rvBackend.jumpLength k)) = true := by
  simp [codesOk, rvBackend, addAndJump, jumpLength, Code.operandsOk, fitsI12]
  omega

/-- the bound is sharp: the tag of the 513-th xtor (`k = 512`) gives `ADD X1 t 2048` -/
theorem C14RV_addAndJump_limit (t : Register) :
    codesOk (rvBackend.addAndJump t (rvBackend.jumpLength 512)) = false := by
  simp [codesOk, rvBackend, addAndJump, jumpLength, Code.operandsOk, fitsI12]

theorem C14RV_simple (o : BinOp) (s : IfSort) (t a b : Register) (l : String) (sp : Bool) :
    codesOk (rvBackend.binop o t a b) = true ∧ codesOk (rvBackend.jumpLabelIf s a b l) = true ∧
    codesOk (rvBackend.jumpLabelIfZero s a l) = true ∧ codesOk (rvBackend.mov t a) = true ∧
    codesOk (rvBackend.jump t) = true ∧ codesOk (rvBackend.jumpLabel l) = true ∧
    codesOk (rvBackend.jumpLabelFixed l) = true ∧ codesOk (rvBackend.loadLabel t l) = true ∧
    codesOk (rvBackend.storeTemporary t sp) = true ∧ codesOk (rvBackend.restoreTemporary t sp) = true := by
  cases o <;> cases s <;>
    simp [codesOk, rvBackend, binop, jumpLabelIf, jumpLabelIfZero, Code.operandsOk, fitsI12]

-- non-vacuity of the bounded statements
example : codesOk (rvBackend.addAndJump ⟨7⟩ (rvBackend.jumpLength 511)) = true :=
  C14RV_addAndJump ⟨7⟩ 511 (by decide)
example : codesOk (rvBackend.loadImmediate ⟨5⟩ (-9223372036854775808)) = true :=
  C14RV_loadImmediate ⟨5⟩ _ (by decide)

end Scc.RV

#print axioms Scc.RV.C14RV_table_code
#print axioms Scc.RV.C14RV_jumpLength
#print axioms Scc.RV.C14RV_table_stride
#print axioms Scc.RV.C14RV_fieldOffset
#print axioms Scc.RV.C14RV_eraseBlock
#print axioms Scc.RV.C14RV_acquireBlock
#print axioms Scc.RV.C14RV_shareBlockN
#print axioms Scc.RV.C14RV_share_limit
#print axioms Scc.RV.C14RV_loadImmediate
#print axioms Scc.RV.C14RV_addAndJump
#print axioms Scc.RV.C14RV_addAndJump_limit
#print axioms Scc.RV.C14RV_simple
