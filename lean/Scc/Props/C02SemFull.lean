/-
  Scc.Props.C02SemFull — property C02, SEMANTIC part, IN FULL: the translation Fun → Core (model
  `Scc.Fun2Core.compileProg` of /repo/lang/fun2core) preserves meaning for ALL accepted, sequenced
  programs — including everything the fragment `Fun2Core.Sem.fragOk` of Props/C02Sem.lean excluded:
  destructor calls whose scrutinee is a call or a destructor chain (`mk(n).apply(4)`,
  `s.tail.tail.head`), definitions / destructors / `if` / `case` / `let` / `label` that RETURN codata,
  `new` and codata-typed variables in evaluation position, continuations of codata type shared by
  `if` / `case` (lifted by `share`), labels and covariable parameters of codata types.

  THEOREM
    C02_sem : C02_sem_full_statement
        for every program `p` whose names are identifiers, accepted by the checker
        (`checkProgram p = ok p'`), `Sequenced`, with a valid `main` (`validMain`) that is not called
        (`noMainCall`), without a name `ς` (`C02_noSigmaNames`: the lexer cannot produce one), and its
        translation `q2`: for ALL argument lists, the Fun abstract machine on `p'` and the Core
        ς-machine on `q2` have the same observable behaviour — all four clauses of `C02_ObsSame`
        (results and arithmetic faults with their traces in both directions, traces of diverging
        runs in both directions).  No hypothesis on the translation: `coreClosed q2` is derived.
  How (proof files Scc/Fun2Core/Sem*.lean, SemCod*.lean):
    * the simulation relation between CEK states and Core machine states is extended by the stacks
      that expect a CODATA value (top frame a destructor frame) ~ destructor VALUES `d(Vs; cv)`
      (`KRelD`) and by the destructor `d(⟦args⟧; c)` as a consumer TERM whose pure arguments neither
      machine has evaluated yet (`CRel.dtor`).  The Core machine evaluates these arguments BEFORE it
      runs the scrutinee (and suspends `μ`-abstractions as thunks when the consumer is a `μ~`
      lifted by `share`); the Fun machine evaluates them after the scrutinee has returned.  Both
      orders agree because the arguments are pure (`Sequenced`) and HAVE values: type safety of the
      Fun machine, here for the monomorphic typing `TypedM` of checked programs
      (Scc/Fun2Core/SemCodTyping*.lean: `STM`, preservation `stepM_preserves`, `pureArgsM_typed`).
    * `force_cr` (SemCod3): every consumer of a codata type related to a stack can be forced to a
      destructor value, by recursion on the relation; `ret_cd` (SemCod4): a closure meets a
      destructor frame / value; `bind_cont`, `focus_cons`: covariables of codata type are bound to
      destructor values (thunk entered at once).
    * the typing of the Fun state rides along the simulation (`RT`); it decides, consistently on
      both sides, whether a cut is evaluated producer first or consumer first: `KTM.kind` — a term of
      type τ is evaluated on a stack whose top frame is a destructor frame iff `isCodataTy p' τ`.
    * the decidable side conditions that Props/C02Sem.lean assumed are derived from the checker:
      `good` of every body (`good_of_typed`), distinct names / parameters and closed bodies
      (`Fun_checked_wellformed`), `coreClosed` of the translation (from `C12_link_fun2core_proved`:
      the translation is well-typed, and a typed Core definition mentions only its parameters).
    * a wrong number of arguments: both machines stop at once (`stuck arity`), nothing is printed.
  Remaining restrictions: none beyond the hypotheses of `C02_sem_full_statement` (each of which is
  necessary, see Props/C02Sem.lean: `C02_sem_statement_as_given_false`).
-/
import Scc.Props.C02SemSafe
import Scc.Props.C12Fun2Core
import Scc.Fun2Core.SemCodGood

namespace Scc.Props
open Scc Scc.Pipeline
open Scc.Fun.Check (checkProgram programNamesOk)

/-! ## the side conditions of the simulation hold of every accepted program -/

/-- `progOk` (Scc/Fun2Core/SemProg.lean: `good` bodies, distinct definition names and parameters,
closed bodies, no name `ς`, `main` with integer producer parameters and an integer result) -/
theorem C02_progOk {p : Fun.Program} {p' : Fun.CheckedProgram} (hn : programNamesOk p = true)
    (hck : checkProgram p = .ok p') (hseq : Fun.Sequenced p' = true) (hv : validMain p' = true)
    (hmc : Fun.noMainCall p' = true) (hs : C02_noSigmaNames p' = true) :
    Fun2Core.Sem.progOk p' = true := by
  have hP := Fun2Core.Typed.checkProgram_progM hn hck
  obtain ⟨hnd, hwf⟩ := Fun_checked_wellformed p p' hn hck
  obtain ⟨dm, hfind, _, hsig, hret⟩ := validMain_find hv
  simp only [Fun.Sequenced, List.all_eq_true] at hseq
  simp only [Fun.noMainCall, List.all_eq_true, Bool.not_eq_true'] at hmc
  simp only [C02_noSigmaNames, List.all_eq_true, Bool.and_eq_true] at hs
  have hmain : ∀ d ∈ p'.defs, d.name = "main" → d = dm := by
    intro d hd hname
    have := Fun2Core.Sem.findDef_of_mem hP hd
    rw [hname, hfind] at this
    exact (Option.some.inj this).symm
  simp only [Fun2Core.Sem.progOk, Bool.and_eq_true, List.all_eq_true, decide_eq_true_eq,
    Bool.or_eq_true, bne_iff_ne, ne_eq]
  refine ⟨⟨⟨fun d hd => ?_, hnd⟩, fun d hd => ?_⟩, fun d hd => ?_⟩
  · obtain ⟨h1, h2, _⟩ := hwf d hd
    simp only [Fun2Core.Sem.defOk, Bool.and_eq_true, decide_eq_true_eq]
    exact ⟨⟨⟨⟨Fun2Core.Sem.good_of_typed hP d.body d.ctx d.retTy (hP.defs d hd).body (hseq d hd)
      (hmc d hd), h1⟩, h2⟩, (hs d hd).1⟩, (hs d hd).2⟩
  · by_cases hname : d.name = "main"
    · right
      rw [hmain d hd hname]
      intro b hb
      rw [(hsig b hb).1]; rfl
    · exact .inl hname
  · by_cases hname : d.name = "main"
    · right
      rw [hmain d hd hname]
      exact ⟨fun b hb => by simp [Fun2Core.Sem.isI64T, (hsig b hb).2], by
        simp [Fun2Core.Sem.isI64T, hret]⟩
    · exact .inl hname

/-- every definition of the translation mentions only its parameters: the translation is well-typed
(`C12_link_fun2core_proved`), and a typed statement mentions only variables of its context -/
theorem C02_coreClosed {p : Fun.Program} {p' : Fun.CheckedProgram} {q2 : Core.Prog}
    (hn : programNamesOk p = true) (hck : checkProgram p = .ok p') (hv : validMain p' = true)
    (hmc : Fun.noMainCall p' = true) (hs : C02_noSigmaNames p' = true)
    (hc : Fun2Core.compileProg p' = .ok q2) : Fun2Core.Sem.coreClosed q2 = true := by
  obtain ⟨q, hq, hin, _⟩ := C12_link_fun2core_proved p p' hn hck hv hmc hs
  rw [hc] at hq
  cases hq
  have hwt := hin.typed
  simp only [Core.Prog.wellTyped, List.all_eq_true] at hwt
  simp only [Fun2Core.Sem.coreClosed, List.all_eq_true, List.any_eq_true, decide_eq_true_eq]
  intro D hD b hb
  have := Fun2Core.Typed.stmt_agree D.body D.ctx (hwt D hD) b hb
  exact ⟨b, Fun2Core.Typed.lookupBinding_mem this, rfl⟩

/-! ## a wrong number of arguments -/

theorem C02_bindAll_none : ∀ (names : List String) (vs : List Fun.Value) (env : Fun.Env),
    names.length ≠ vs.length → Fun.bindAll names vs env = none
  | [], [], _, h => absurd rfl h
  | [], _ :: _, _, _ => rfl
  | _ :: _, [], _, _ => rfl
  | x :: xs, v :: vs, env, h => by
    simp only [Fun.bindAll]
    exact C02_bindAll_none xs vs _ (by simpa using h)

theorem C02_bind_arity : ∀ (ctx : Core.Ctx) (Vs : List Core.CVal),
    ctx.length ≠ Vs.length → (Core.Env.bind ([] : Core.CEnv) ctx Vs) = .error .arity
  | [], [], h => absurd rfl h
  | [], _ :: _, _ => rfl
  | _ :: _, [], _ => rfl
  | b :: bs, V :: Vs, h => by
    simp only [Core.Env.bind]
    rw [C02_bind_arity bs Vs (by simpa using h)]

/-- with a wrong number of arguments the Core machine stops at once: `stuck arity` -/
theorem C02_core_run_arity {p' : Fun.CheckedProgram} {q2 : Core.Prog}
    (hc : Fun2Core.compileProg p' = .ok q2) (hp : Fun2Core.Sem.progOk p' = true)
    (hq : Fun2Core.Sem.coreClosed q2 = true) (hpm : Fun2Core.Typed.ProgM p') {dm : Fun.Def}
    (hfind : Fun.findDef p' "main" = some dm) (args : List Word)
    (hlen : args.length ≠ dm.ctx.length) (m : Nat) :
    Core.run q2 args m = ⟨[], .stuck .arity⟩ := by
  open Scc.Fun2Core Scc.Fun2Core.Sem in
  have X := ctx_of_compileProg hc hp hq hpm
  obtain ⟨hdefsok, hnd, hmainprd⟩ := progOk_facts hp
  obtain ⟨hqc, hdefs⟩ := compileProg_defs hc
  obtain ⟨hdm, hname⟩ := findDef_mem hfind
  obtain ⟨ul0, r, hr, hrm⟩ := (compileDefs_mem q2.codataTypes p'.defs _ [] q2.defs hdefs).2 dm hdm
  have hnm : (dm.name == "main") = true := by simp [hname]
  simp only [hnm, if_true] at hr
  obtain ⟨D, x0, τ, hD, hDn, hDc, _, _⟩ := compileMain_facts X.cod hr (hdefsok dm hdm) rfl hrm
  have hid0 := compileDefs_id0 q2.codataTypes p'.defs _ [] q2.defs hdefs (by simp)
  have hfindD : q2.defs.find? (fun d => d.name.name = Core.mainName) = some D := by
    refine find_unique hD (by simp [hDn, hname, Core.mainName]) fun D' hD' hP => ?_
    refine (eq_of_name_eq X.nodup hD hD' ?_).symm
    have h1 : D'.name.name = "main" := by
      have := of_decide_eq_true hP
      simpa [Core.mainName] using this
    have h2 := hid0 D' hD'
    rw [hDn, hname]
    cases hn' : D'.name with
    | mk nm id => rw [hn'] at h1 h2; simp at h1 h2; rw [h1, h2]
  have hentry : (Core.entryEnv D.ctx args : Except Core.Why CEnv) = .error .arity := by
    rw [hDc, entryEnv_eq_bind _ _ (fun b hb' => by
      simp only [compileContext, List.mem_map] at hb'
      obtain ⟨fb, hfb, rfl⟩ := hb'
      simp [compileChi, hmainprd dm hdm hname fb hfb])]
    exact C02_bind_arity _ _ (by
      rw [compileContext_length, List.length_map]
      exact fun e => hlen e.symm)
  unfold Core.run
  simp only [hfindD, hentry]

/-! ## the theorem -/

/-- the equivalence from the simulation, for the arguments on which the Fun run is safe -/
theorem C02_sem_of_safe (p : Fun.Program) (p' : Fun.CheckedProgram) (q2 : Core.Prog)
    (hn : programNamesOk p = true) (hck : checkProgram p = .ok p')
    (hp : Fun2Core.Sem.progOk p' = true) (hc : Fun2Core.compileProg p' = .ok q2)
    (hq : Fun2Core.Sem.coreClosed q2 = true) (args : List Word) (hs : C02_FunSafe p' args) :
    C02_ObsSame (fun n => ofFun (Fun.run p' args n)) (fun n => ofCore (Core.run q2 args n)) := by
  have hpm := Fun2Core.Typed.checkProgram_progM hn hck
  obtain ⟨h1, h2⟩ := Fun2Core.Sem.sem_forward hc hp hq hpm args
  have hs' : Fun2Core.Sem.FunSafe p' args := by
    intro n
    rcases hs n with h | h
    · left
      revert h
      simp only [ofFun]
      cases (Fun.run p' args n).res <;> simp
    · exact .inr (C02_finished_of_obs h)
  obtain ⟨b2, b4⟩ := Fun2Core.Sem.sem_backward hc hp hq hpm args hs'
  refine ⟨fun n hfin => ?_, fun m hfin => ?_, fun n => ?_, fun m => ?_⟩
  · obtain ⟨m, r', hm, hr⟩ := h1 n (C02_finished_of_obs hfin)
    refine ⟨m, ?_⟩
    simp only [hm]
    exact C02_obs_of_match hr
  · have hne : (Core.run q2 args m).res ≠ .outOfFuel := by
      intro e
      simp only [ofCore, e, C02_ObsFinished] at hfin
    obtain ⟨n, r, hn', hr⟩ := b2 m hne
    refine ⟨n, ?_⟩
    simp only [hn']
    exact (C02_obs_of_match hr).symm
  · obtain ⟨m, hm⟩ := h2 n
    exact ⟨m, hm⟩
  · obtain ⟨n, hn'⟩ := b4 m
    exact ⟨n, hn'⟩

/-- **C02, semantic part (Fun → Core preserves meaning), in full**: for every accepted, sequenced
program with a valid `main` that is not called and no name `ς`, whose translation is `q2`, and all
arguments: the Fun machine on the program and the Core ς-machine on `q2` have the same observable
behaviour — all four clauses of `ObsSame` -/
theorem C02_sem : C02_sem_full_statement := by
  intro p p' q2 hn hck hseq hv hmc hs hc args
  have hp := C02_progOk hn hck hseq hv hmc hs
  have hq := C02_coreClosed hn hck hv hmc hs hc
  by_cases hlen : args.length = mainArity p'
  · -- the right number of arguments: type safety + simulation
    refine C02_sem_of_safe p p' q2 hn hck hp hc hq args ?_
    refine C02_funSafe p p' hn hck hv args ?_
    obtain ⟨dm, hfind, hl, _, _⟩ := validMain_find hv
    have hf : p'.defs.find? (fun d => d.name == "main") = some dm := hfind
    rw [hf]
    simpa [hl] using hlen
  · -- a wrong number of arguments: both machines stop at once
    obtain ⟨dm, hfind, hl, _, _⟩ := validMain_find hv
    have hlen' : args.length ≠ dm.ctx.length := by rw [hl]; exact hlen
    have hfun : ∀ n, Fun.run p' args n = ⟨[], .stuck (.arity "main")⟩ := by
      intro n
      have hb : Fun.bindAll (dm.ctx.map (·.var)) (args.map .int) [] = none :=
        C02_bindAll_none _ _ _ (by simpa using fun e => hlen' e.symm)
      simp [Fun.run, Fun.initState, hfind, hb]
    have hcore := C02_core_run_arity hc hp hq (Fun2Core.Typed.checkProgram_progM hn hck) hfind args hlen'
    have hnf : ¬ C02_ObsFinished (Obs.res ⟨[], ObsRes.stuck (Fun.Why.arity "main").toString⟩) := by
      intro h
      rcases h with h | h <;>
        (have h1 := congrArg String.toList h; simp [Fun.Why.toString] at h1)
    refine ⟨fun n hfin => ?_, fun m hfin => ?_, fun n => ⟨0, ?_⟩, fun m => ⟨0, ?_⟩⟩
    · simp only [hfun n, ofFun] at hfin
      exact absurd hfin hnf
    · simp only [hcore m, ofCore, Core.Why.render, C02_ObsFinished] at hfin
      rcases hfin with h | h <;> exact absurd h (by decide)
    · simp [hfun n, hcore 0, ofFun, ofCore]
    · simp [hfun 0, hcore m, ofFun, ofCore]

/-- the forward half in the shape of the end-to-end composition (clause 1 of `ObsSame`), without the
fragment hypothesis of `C02_sem_forward_link` -/
theorem C02_sem_forward_full (p : Fun.Program) (p' : Fun.CheckedProgram) (q2 : Core.Prog)
    (hn : programNamesOk p = true) (hck : checkProgram p = .ok p') (hseq : Fun.Sequenced p' = true)
    (hv : validMain p' = true) (hmc : Fun.noMainCall p' = true) (hs : C02_noSigmaNames p' = true)
    (hc : Fun2Core.compileProg p' = .ok q2) (args : List Word) (n : Nat)
    (hfin : C02_ObsFinished (ofFun (Fun.run p' args n)).res) :
    ∃ m, ofCore (Core.run q2 args m) = ofFun (Fun.run p' args n) :=
  (C02_sem p p' q2 hn hck hseq hv hmc hs hc args).1 n hfin

/-! ## non-vacuity: programs outside the old fragment -/

/-- a stream (codata) produced by a recursive function that RETURNS codata, consumed through a
destructor chain `s.tail.tail.head`, a destructor call on a call `mk(n).apply(4)`, an `if` that
returns a closure and shares its destructor continuation; prints 7, 9, 26 and returns 0 on the argument 5 -/
def C02Full_exSrc : String :=
  "codata Stream[A] { head : A, tail : Stream[A] }
   codata Fun[A, B] { apply(x : A) : B }
   def from(n : i64) : Stream[i64] { new { head => n, tail => from(n + 1) } }
   def mk(k : i64) : Fun[i64, i64] { new { apply(x) => x + k } }
   def pick(b : i64, f : Fun[i64, i64], g : Fun[i64, i64]) : Fun[i64, i64] { if b == 0 { f } else { g } }
   def main(n : i64) : i64 {
     println_i64(from(n).tail[i64].tail[i64].head[i64]);
     println_i64(mk(n).apply[i64, i64](4));
     let f : Fun[i64, i64] = new { apply(x) => x + n };
     let g : Fun[i64, i64] = new { apply(x) => x * n };
     println_i64((if n == 5 { pick(0, f, g) } else { pick(1, f, g) }).apply[i64, i64](21));
     0 }"

/-- the hypotheses of `C02_sem` hold for the example, it is NOT in the old fragment `fragOk`, and
both machines print 7, 9, 26 and return 0 on the argument 5 -/
def C02Full_exCheck (src : String) : Bool :=
  match frontEnd src with
  | .ok _ p' =>
    Fun.Sequenced p' && validMain p' && Fun.noMainCall p' && C02_noSigmaNames p' &&
    !Fun2Core.Sem.fragOk p' &&
    match Fun2Core.compileProg p' with
    | .ok q =>
      decide (ofFun (Fun.run p' [5] 600) = ⟨[(true, 7), (true, 9), (true, 26)], .done 0⟩) &&
      decide (ofCore (Core.run q [5] 1200) = ⟨[(true, 7), (true, 9), (true, 26)], .done 0⟩)
    | .error _ => false
  | _ => false

set_option maxRecDepth 100000 in
theorem C02Full_example : C02Full_exCheck C02Full_exSrc = true := by decide +kernel

#print axioms C02_progOk
#print axioms C02_coreClosed
#print axioms C02_sem
#print axioms C02_sem_forward_full
#print axioms C02Full_example

end Scc.Props
