/-
  Scc.Props.C10RVAll — property C10 (heap footprint bounded by peak live data) ON CONCRETE RV64 EXECUTIONS OF ALL
  PROGRAMS — integers, data types AND CLOSURES: the port of Props/C10X86All.lean to the RISC-V backend, over the
  three-way relation `Scc.RV.Ref.Rel3` of Props/C08RVClo.lean (Scc/RV/Conc*.lean), with the side hypotheses
  discharged as in `C08_programs_live`.

  C10 (fixed text): "Generated code takes fresh memory from the unused part of the heap only when both free
  lists are empty, so at every moment the highest heap address ever written lies at most a small constant
  number of blocks above the peak number of simultaneously reachable blocks. A computation that repeatedly
  builds and drops structures therefore runs in space independent of the number of repetitions."

  NOTIONS.  The machine: `step` / `stepN` / `initState` as in Props/C09RVAll.lean; `runLines lines args fuel mc` is
  what `RV.run` does after `parseText` (Scc/RV/RefRun.lean).  `Conc.HeapShapeAt mc X below inUse` (raw machine
  state): the heap of `X` is consistent (`InvW` for some roots) with `below` blocks below the allocation frontier,
  `inUse` of which are neither on the reusable nor on the deferred free list.  `maxHeapWritten`: the machine's own
  record of the highest heap byte offset stored to.  `Conc.PeakAtMost … Pk C` — THE PEAK over the statement
  boundaries `Conc.BoundaryOf` of the machine's run.  `Conc.withHeapBytes mc b`: `mc` with a heap of `b` bytes.
  THE CONSTANT `A + 2`, `A = progMaxAlloc p`: the largest number of fields of a `let` OR OF VARIABLES CAPTURED BY A
  `create` of the program — the environment of a closure is stored by the same `Memory::store` as the fields of
  an object, and the memory contract asks for `A + 1` blocks of room before it.

  PROVED (no `sorry`; axioms propext, Classical.choice, Quot.sound):
  * `C10_rv_frontier_bound_all`  under `PeakAtMost Pk`, in a heap of at least `64·(Pk + A + 2)` bytes, the machine
                              passes through a boundary state for every state of the terminating positional run,
                              and at each at most `Pk + 1` blocks lie below the frontier (fresh memory is taken
                              only when both free lists are empty: `FrPk`, also through `create`).
  * `C10_rv_every_prefix_all`    the same for every prefix (any number `fuel` of steps) of every run.
  * `C10_rv_programs`         THEOREM A ∘ B under the footprint bound instead of the coarse room hypothesis
                              `128 + 64·15·fuel` of `C08_programs_live`: `64·(Pk + A + 2) ≤ heapBytes` and
                              `PeakAtMost Pk` suffice for a run of ANY length (same result), and the highest heap
                              address written lies inside the heap region.
  * `C10_rv_footprint_all`    THE FOOTPRINT: in ANY heap of at least `64·(Pk + A + 2)` bytes the run ends with the
                              same result and `maxHeapWritten ≤ 64·(Pk + A + 2)` — the highest heap address written
                              is at most `Pk + A + 2` blocks above the heap base, independent of the length of the
                              run and of the size of the heap.  `C10_rv_footprint_all_lines`: side hypotheses
                              explicit.  `C10_rv_coarse_all`: `Pk = A·fuel + 1`, no peak hypothesis.
  * `C10_rv_size_all`         C10 IN TERMS OF THE SOURCE-LEVEL DATA, terminating runs: let `D` bound the number of
                              fields of the object AND CLOSURE values held by the variables of the positional machine
                              (`valsFields st.env ≤ D` for every reachable state).  Then in ANY heap of at least
                              `64·(D + A + 2)` bytes the run ends with the result of the positional machine and the
                              highest heap address written is at most `D + A + 2` blocks above the heap base.
  * `C10_rv_size_every_prefix`   … and for every prefix of every run (terminating or not) the machine passes through
                              a boundary for every state of the prefix with at most `D + 1` blocks below the
                              frontier and `maxHeapWritten ≤ heapBytes` there.
  * `C10_rv_size_all_fuel`    … AND EVERY AMOUNT OF MACHINE FUEL (the form of `C10_x86_size_all`): in ANY heap of at least
                              `64·(D + A + 2)` bytes, for EVERY amount `fuel'` of machine fuel (below `2^64/(M + 1)`,
                              `M = progMaxSize p`), terminating run or not, provided the positional machine never gets
                              stuck: the result of `runLines` is `outOfFuel` or `done v` (the result of the
                              positional machine) and the highest heap address written is at most `D + A + 2` blocks
                              above the heap base.  Progress: every `call` / `invoke` consumes at least one unit of
                              fuel (`ReachP`, Scc/RV/ConcJump.lean), every other step of the positional machine moves
                              to a smaller statement.  `C10_rv_size_all_fuel_statement` (the statement as a
                              `def : Prop`) is PROVED: `C10_rv_size_all_fuel_proved`.
  * `C10_rv_footprint_all_text`, `C10_rv_size_all_fuel_text`  ON THE TEXT the backend prints, for the machine's entry
                              point `RV.run` (loader: `C14R_routine_loads`, Props/C14LoaderRV.lean, from the decidable
                              names check): `(run (intoRoutine instrs) args fuel' mc).maxHeapWritten ≤ 64·(… + A + 2)`.
  * `C10_rv_cloLoop_all_fuel` NON-VACUITY: the closure loop runs FOREVER in four blocks — for every fuel below 2^59 the
                              machine is still running and has written at most 256 bytes of its heap.
-/
import Scc.Props.C09RVAll
import Scc.RV.ConcAllFuel

namespace Scc.RV
open Scc.AxCut Scc.AxCut.Pos Scc.Backend Scc.Backend.Abs Scc.RV.Ref
open Scc.Props.C06Generic (Reachable CodeFits statesOf)
open Scc.Props.C14Generic (LabelSafe)
open Scc.X86.Ref.K (AllocLe progMaxAlloc allocLe_progMaxAlloc)
open Scc.X86.Conc (valsFields stmtSize progMaxSize stmtSize_le_progMaxSize)
open Scc.RV.Conc (BChain BoundaryOf HeapShapeAt initState withHeapBytes sub_withHeapBytes runLines_larger_heap
  stepN_mhw mhwOK_init)

/-- the peak hypothesis is trivial for `Pk = C`: the blocks in use lie below the frontier -/
theorem C10_rv_peak_trivial_all (p : AxCut.Prog) (hooks : Bool) (ks : List Code) (ops : List MockOp)
    (mc : MonCfg) (pr : RV.Program) (X00 : State) (C : Nat) :
    Conc.PeakAtMost p hooks ks ops mc pr X00 C C :=
  Conc.peakAtMost_trivial p hooks ks ops mc pr X00 C

/-! ## the frontier bound -/

/-- THE FRONTIER BOUND ON THE MACHINE, all programs: if at no statement boundary more than `Pk` blocks are in use,
then in a heap of `64·(Pk + A + 2)` bytes the machine passes, in order and without fault, through a boundary state
for EVERY state of the terminating positional run, and at each of them the heap is consistent with at most
`Pk + 1` blocks below the allocation frontier. -/
theorem C10_rv_frontier_bound_all (p : AxCut.Prog) (args : List Word) (hooks : Bool) (instrs hdr : List Code)
    (nargs cX : Nat) (d0 : Def) (ops : List MockOp) (c' : Nat)
    (hsafe : LabelSafe p = true) (htp : LinTypedProg p)
    (hcompM : (compile mockSym hooks p).run 0 = .ok ((ops, nargs), c')) (hfit : CodeFits ops)
    {counter : Nat} (hcompX : (compile rvBackend hooks p).run counter = .ok ((instrs, nargs), cX))
    (hnd : (labs (instrs ++ [Code.LAB "cleanup"])).Nodup) (hfitX : codeBase + 4 * instrs.length < 2 ^ 64)
    (hd : p.defs.head? = some d0) (hentry : ∀ b ∈ d0.ctx, b.chi = .ext ∧ b.ty = .i64)
    (hcap : ∀ st, Reachable p ⟨d0.ctx, args.map .int, d0.body⟩ st → st.ctx.length ≤ maxVariables)
    (fuel : Nat) (v : Word) (hfuel : fuel + 1 < 2 ^ 64)
    (hrun : (Pos.run p args fuel).res = .done v)
    (mc : MonCfg) (hheap : mc.heap = false) (htop : heapBase + mc.heapBytes ≤ 2 ^ 63)
    (Pk : Nat) (hbytes : 64 * (Pk + progMaxAlloc p + 2) ≤ mc.heapBytes)
    (lines : List (Nat × Code)) (hhdr : ∀ c ∈ hdr, c.isComment = true)
    (hlines : (lines.map (·.2)).map stripC = (hdr ++ instrs ++ [Code.LAB "cleanup"]).map stripC)
    (hhook : ∀ x ∈ lines, ¬ badHook x.2)
    (hP : ∀ pr e regs, layout lines = .ok pr → pr.entry = some e → entryRegs args = some regs →
      Conc.PeakAtMost p hooks (keptOf lines) ops mc pr (initState regs e) Pk (progMaxAlloc p * fuel + 1)) :
    ∃ pr e regs, layout lines = .ok pr ∧ pr.entry = some e ∧ entryRegs args = some regs ∧
      ∃ X0, stepN pr mc 1 (initState regs e) = .inl X0 ∧
        BChain pr mc
          (fun st X => BoundaryOf p hooks (keptOf lines) ops mc st X ∧
            ∃ below inUse, HeapShapeAt mc X below inUse ∧ below ≤ Pk + 1 ∧ inUse ≤ Pk)
          (statesOf p fuel ⟨d0.ctx, args.map .int, d0.body⟩) X0 := by
  obtain ⟨pr, e, regs, hlay, he, hregs, X0, n, XL, r, h0, hch, _⟩ := Conc.programs_peak p args hooks instrs hdr nargs
    cX d0 ops c' hsafe htp hcompM hfit hcompX hnd hfitX hd hentry hcap fuel v hfuel hrun mc hheap htop Pk
    (progMaxAlloc p) (allocLe_progMaxAlloc p) hbytes lines hhdr hlines hhook hP
  exact ⟨pr, e, regs, hlay, he, hregs, X0, h0, hch⟩

/-- THE FRONTIER BOUND FOR EVERY PREFIX OF EVERY RUN (terminating or not), all programs: for ANY number `fuel` of
steps of the positional machine the machine reaches, without fault, a boundary state for every state of the
prefix, with at most `Pk + 1` blocks below the frontier at each; the highest heap address written so far lies
inside the heap region -/
theorem C10_rv_every_prefix_all (p : AxCut.Prog) (args : List Word) (hooks : Bool) (instrs hdr : List Code)
    (nargs cX : Nat) (d0 : Def) (ops : List MockOp) (c' : Nat)
    (hsafe : LabelSafe p = true) (htp : LinTypedProg p)
    (hcompM : (compile mockSym hooks p).run 0 = .ok ((ops, nargs), c')) (hfit : CodeFits ops)
    {counter : Nat} (hcompX : (compile rvBackend hooks p).run counter = .ok ((instrs, nargs), cX))
    (hnd : (labs (instrs ++ [Code.LAB "cleanup"])).Nodup) (hfitX : codeBase + 4 * instrs.length < 2 ^ 64)
    (hd : p.defs.head? = some d0) (hentry : ∀ b ∈ d0.ctx, b.chi = .ext ∧ b.ty = .i64)
    (hlen : d0.ctx.length = args.length)
    (hcap : ∀ st, Reachable p ⟨d0.ctx, args.map .int, d0.body⟩ st → st.ctx.length ≤ maxVariables)
    (fuel : Nat) (hfuel : fuel + 1 < 2 ^ 64)
    (mc : MonCfg) (hheap : mc.heap = false) (htop : heapBase + mc.heapBytes ≤ 2 ^ 63)
    (Pk : Nat) (hbytes : 64 * (Pk + progMaxAlloc p + 2) ≤ mc.heapBytes)
    (lines : List (Nat × Code)) (hhdr : ∀ c ∈ hdr, c.isComment = true)
    (hlines : (lines.map (·.2)).map stripC = (hdr ++ instrs ++ [Code.LAB "cleanup"]).map stripC)
    (hhook : ∀ x ∈ lines, ¬ badHook x.2)
    (hP : ∀ pr e regs, layout lines = .ok pr → pr.entry = some e → entryRegs args = some regs →
      Conc.PeakAtMost p hooks (keptOf lines) ops mc pr (initState regs e) Pk (progMaxAlloc p * fuel + 1)) :
    ∃ pr e regs, layout lines = .ok pr ∧ pr.entry = some e ∧ entryRegs args = some regs ∧
      ∃ X0, stepN pr mc 1 (initState regs e) = .inl X0 ∧ X0.maxHeapWritten ≤ mc.heapBytes ∧
        BChain pr mc
          (fun st X => BoundaryOf p hooks (keptOf lines) ops mc st X ∧
            ∃ below inUse, HeapShapeAt mc X below inUse ∧ below ≤ Pk + 1 ∧ inUse ≤ Pk)
          (statesOf p fuel ⟨d0.ctx, args.map .int, d0.body⟩) X0 := by
  obtain ⟨pr, e, regs, hlay, he, hregs, X0, h0, hch⟩ := Conc.programs_prefix p args hooks instrs hdr nargs cX d0 ops
    c' hsafe htp hcompM hfit hcompX hnd hfitX hd hentry hlen hcap fuel hfuel mc hheap htop Pk (progMaxAlloc p)
    (allocLe_progMaxAlloc p) hbytes lines hhdr hlines hhook hP
  exact ⟨pr, e, regs, hlay, he, hregs, X0, h0, (stepN_mhw hheap 1 h0).2 (mhwOK_init mc regs e), hch⟩

/-! ## the run under the footprint bound -/

/-- THEOREM A ∘ THEOREM B FOR ALL PROGRAMS UNDER THE FOOTPRINT BOUND, on parsed lines, side hypotheses explicit:
`C08_programs` with its room hypothesis `128 + 64·15·fuel ≤ heapBytes` replaced by `64·(Pk + A + 2) ≤ heapBytes`
and the peak hypothesis — a heap that holds the peak is enough for a run of any length; and the machine's record
of the highest heap address written stays inside the heap region. -/
theorem C10_rv_programs_lines (p : AxCut.Prog) (args : List Word) (hooks : Bool) (instrs hdr : List Code)
    (nargs cX : Nat) (d0 : Def) (ops : List MockOp) (c' : Nat)
    (hsafe : LabelSafe p = true) (htp : LinTypedProg p)
    (hcompM : (compile mockSym hooks p).run 0 = .ok ((ops, nargs), c')) (hfit : CodeFits ops)
    {counter : Nat} (hcompX : (compile rvBackend hooks p).run counter = .ok ((instrs, nargs), cX))
    (hnd : (labs (instrs ++ [Code.LAB "cleanup"])).Nodup) (hfitX : codeBase + 4 * instrs.length < 2 ^ 64)
    (hd : p.defs.head? = some d0) (hentry : ∀ b ∈ d0.ctx, b.chi = .ext ∧ b.ty = .i64)
    (hcap : ∀ st, Reachable p ⟨d0.ctx, args.map .int, d0.body⟩ st → st.ctx.length ≤ maxVariables)
    (fuel : Nat) (v : Word) (hfuel : fuel + 1 < 2 ^ 64)
    (hrun : (Pos.run p args fuel).res = .done v)
    (mc : MonCfg) (hheap : mc.heap = false) (htop : heapBase + mc.heapBytes ≤ 2 ^ 63)
    (Pk : Nat) (hbytes : 64 * (Pk + progMaxAlloc p + 2) ≤ mc.heapBytes)
    (lines : List (Nat × Code)) (hhdr : ∀ c ∈ hdr, c.isComment = true)
    (hlines : (lines.map (·.2)).map stripC = (hdr ++ instrs ++ [Code.LAB "cleanup"]).map stripC)
    (hhook : ∀ x ∈ lines, ¬ badHook x.2)
    (hP : ∀ pr e regs, layout lines = .ok pr → pr.entry = some e → entryRegs args = some regs →
      Conc.PeakAtMost p hooks (keptOf lines) ops mc pr (initState regs e) Pk (progMaxAlloc p * fuel + 1)) :
    ∃ fuel', (runLines lines args fuel' mc).res = .done v ∧
      (runLines lines args fuel' mc).maxHeapWritten ≤ mc.heapBytes :=
  Conc.programs_peak_lines p args hooks instrs hdr nargs cX d0 ops c' hsafe htp hcompM hfit hcompX hnd hfitX hd hentry
    hcap fuel v hfuel hrun mc hheap htop Pk (progMaxAlloc p) (allocLe_progMaxAlloc p) hbytes lines hhdr hlines hhook hP

theorem C10_withHeapBytes_top {mc : MonCfg} {b : Nat} (htop : heapBase + mc.heapBytes ≤ 2 ^ 63)
    (hb : b ≤ mc.heapBytes) : heapBase + (withHeapBytes mc b).heapBytes ≤ 2 ^ 63 := by
  show heapBase + b ≤ 2 ^ 63
  omega

/-- C10, THE FOOTPRINT ON THE MACHINE, all programs, on parsed lines: let at no statement boundary of the run in a
heap of `64·(Pk + A + 2)` bytes more than `Pk` blocks be in use.  Then in ANY heap at least that large the run
reproduces the result of the positional machine, and the highest heap address ever written lies at most
`Pk + A + 2` blocks above the heap base — independent of the length of the run and of the size of the heap. -/
theorem C10_rv_footprint_all_lines (p : AxCut.Prog) (args : List Word) (hooks : Bool) (instrs hdr : List Code)
    (nargs cX : Nat) (d0 : Def) (ops : List MockOp) (c' : Nat)
    (hsafe : LabelSafe p = true) (htp : LinTypedProg p)
    (hcompM : (compile mockSym hooks p).run 0 = .ok ((ops, nargs), c')) (hfit : CodeFits ops)
    {counter : Nat} (hcompX : (compile rvBackend hooks p).run counter = .ok ((instrs, nargs), cX))
    (hnd : (labs (instrs ++ [Code.LAB "cleanup"])).Nodup) (hfitX : codeBase + 4 * instrs.length < 2 ^ 64)
    (hd : p.defs.head? = some d0) (hentry : ∀ b ∈ d0.ctx, b.chi = .ext ∧ b.ty = .i64)
    (hcap : ∀ st, Reachable p ⟨d0.ctx, args.map .int, d0.body⟩ st → st.ctx.length ≤ maxVariables)
    (fuel : Nat) (v : Word) (hfuel : fuel + 1 < 2 ^ 64)
    (hrun : (Pos.run p args fuel).res = .done v)
    (mc : MonCfg) (hheap : mc.heap = false) (htop : heapBase + mc.heapBytes ≤ 2 ^ 63)
    (Pk : Nat) (hbytes : 64 * (Pk + progMaxAlloc p + 2) ≤ mc.heapBytes)
    (lines : List (Nat × Code)) (hhdr : ∀ c ∈ hdr, c.isComment = true)
    (hlines : (lines.map (·.2)).map stripC = (hdr ++ instrs ++ [Code.LAB "cleanup"]).map stripC)
    (hhook : ∀ x ∈ lines, ¬ badHook x.2)
    (hP : ∀ pr e regs, layout lines = .ok pr → pr.entry = some e → entryRegs args = some regs →
      Conc.PeakAtMost p hooks (keptOf lines) ops (withHeapBytes mc (64 * (Pk + progMaxAlloc p + 2))) pr
        (initState regs e) Pk (progMaxAlloc p * fuel + 1)) :
    ∃ fuel', (runLines lines args fuel' mc).res = .done v ∧
      (runLines lines args fuel' mc).maxHeapWritten ≤ 64 * (Pk + progMaxAlloc p + 2) := by
  obtain ⟨fuel', h2, h3⟩ := C10_rv_programs_lines p args hooks instrs hdr nargs cX d0 ops c' hsafe htp hcompM hfit
    hcompX hnd hfitX hd hentry hcap fuel v hfuel hrun (withHeapBytes mc (64 * (Pk + progMaxAlloc p + 2))) hheap
    (C10_withHeapBytes_top htop hbytes) Pk (Nat.le_refl _) lines hhdr hlines hhook hP
  have e := runLines_larger_heap (sub_withHeapBytes hheap hbytes) lines args fuel' v h2
  exact ⟨fuel', by rw [e]; exact h2, by rw [e]; exact h3⟩

/-- THEOREM A ∘ THEOREM B FOR ALL PROGRAMS UNDER THE FOOTPRINT BOUND, side hypotheses discharged: the hypotheses of
`C08_programs_live` with the room hypothesis replaced by the footprint bound (the peak hypothesis for the mock
code and the program the loader lays out; `fuel + 1 < 2^64`) -/
theorem C10_rv_programs (p : AxCut.Prog) (args : List Word) (hooks : Bool) (instrs hdr : List Code)
    (nargs cX : Nat) (d0 : Def)
    (hsafe : LabelSafe p = true) (htp : LinTypedProg p) (hsize : C08_sizeCheck p = true)
    (hlive : LiveAtMost maxVariables p)
    {counter : Nat} (hcompX : (compile rvBackend hooks p).run counter = .ok ((instrs, nargs), cX))
    (hfitX : codeBase + 4 * instrs.length < 2 ^ 64)
    (hd : p.defs.head? = some d0) (hentry : ∀ b ∈ d0.ctx, b.chi = .ext ∧ b.ty = .i64)
    (fuel : Nat) (v : Word) (hfuel : fuel + 1 < 2 ^ 64)
    (hrun : (Pos.run p args fuel).res = .done v)
    (mc : MonCfg) (hheap : mc.heap = false) (htop : heapBase + mc.heapBytes ≤ 2 ^ 63)
    (Pk : Nat) (hbytes : 64 * (Pk + progMaxAlloc p + 2) ≤ mc.heapBytes)
    (lines : List (Nat × Code)) (hhdr : ∀ c ∈ hdr, c.isComment = true)
    (hlines : (lines.map (·.2)).map stripC = (hdr ++ instrs ++ [Code.LAB "cleanup"]).map stripC)
    (hhook : ∀ x ∈ lines, ¬ badHook x.2)
    (hP : ∀ ops c' pr e regs, (compile mockSym hooks p).run 0 = .ok ((ops, nargs), c') →
      layout lines = .ok pr → pr.entry = some e → entryRegs args = some regs →
      Conc.PeakAtMost p hooks (keptOf lines) ops mc pr (initState regs e) Pk (progMaxAlloc p * fuel + 1)) :
    ∃ fuel', (runLines lines args fuel' mc).res = .done v ∧
      (runLines lines args fuel' mc).maxHeapWritten ≤ mc.heapBytes := by
  obtain ⟨ops, c', hcompM, hfit, hnd, hcap⟩ := C09_rv_setup p args hooks instrs nargs cX d0 hsafe htp hsize hlive
    hcompX hd
  exact C10_rv_programs_lines p args hooks instrs hdr nargs cX d0 ops c' hsafe htp hcompM hfit hcompX hnd hfitX hd
    hentry hcap fuel v hfuel hrun mc hheap htop Pk hbytes lines hhdr hlines hhook
    (fun pr e regs h1 h2 h3 => hP ops c' pr e regs hcompM h1 h2 h3)

/-- C10, THE FOOTPRINT, ALL PROGRAMS, side hypotheses discharged (the hypotheses of `C08_programs_live`): the
machine on the lines of the routine reproduces the result and never writes above `Pk + A + 2` blocks of its heap:
the highest heap address written is at most `64·(Pk + A + 2)` above the heap base -/
theorem C10_rv_footprint_all (p : AxCut.Prog) (args : List Word) (hooks : Bool) (instrs hdr : List Code)
    (nargs cX : Nat) (d0 : Def)
    (hsafe : LabelSafe p = true) (htp : LinTypedProg p) (hsize : C08_sizeCheck p = true)
    (hlive : LiveAtMost maxVariables p)
    {counter : Nat} (hcompX : (compile rvBackend hooks p).run counter = .ok ((instrs, nargs), cX))
    (hfitX : codeBase + 4 * instrs.length < 2 ^ 64)
    (hd : p.defs.head? = some d0) (hentry : ∀ b ∈ d0.ctx, b.chi = .ext ∧ b.ty = .i64)
    (fuel : Nat) (v : Word) (hfuel : fuel + 1 < 2 ^ 64)
    (hrun : (Pos.run p args fuel).res = .done v)
    (mc : MonCfg) (hheap : mc.heap = false) (htop : heapBase + mc.heapBytes ≤ 2 ^ 63)
    (Pk : Nat) (hbytes : 64 * (Pk + progMaxAlloc p + 2) ≤ mc.heapBytes)
    (lines : List (Nat × Code)) (hhdr : ∀ c ∈ hdr, c.isComment = true)
    (hlines : (lines.map (·.2)).map stripC = (hdr ++ instrs ++ [Code.LAB "cleanup"]).map stripC)
    (hhook : ∀ x ∈ lines, ¬ badHook x.2)
    (hP : ∀ ops c' pr e regs, (compile mockSym hooks p).run 0 = .ok ((ops, nargs), c') →
      layout lines = .ok pr → pr.entry = some e → entryRegs args = some regs →
      Conc.PeakAtMost p hooks (keptOf lines) ops (withHeapBytes mc (64 * (Pk + progMaxAlloc p + 2))) pr
        (initState regs e) Pk (progMaxAlloc p * fuel + 1)) :
    ∃ fuel', (runLines lines args fuel' mc).res = .done v ∧
      (runLines lines args fuel' mc).maxHeapWritten ≤ 64 * (Pk + progMaxAlloc p + 2) := by
  obtain ⟨ops, c', hcompM, hfit, hnd, hcap⟩ := C09_rv_setup p args hooks instrs nargs cX d0 hsafe htp hsize hlive
    hcompX hd
  exact C10_rv_footprint_all_lines p args hooks instrs hdr nargs cX d0 ops c' hsafe htp hcompM hfit hcompX hnd hfitX
    hd hentry hcap fuel v hfuel hrun mc hheap htop Pk hbytes lines hhdr hlines hhook
    (fun pr e regs h1 h2 h3 => hP ops c' pr e regs hcompM h1 h2 h3)

/-- with `Pk = A·fuel + 1` the peak hypothesis is trivial: the footprint of a terminating run of ANY program in
terms of its length -/
theorem C10_rv_coarse_all (p : AxCut.Prog) (args : List Word) (hooks : Bool) (instrs hdr : List Code)
    (nargs cX : Nat) (d0 : Def)
    (hsafe : LabelSafe p = true) (htp : LinTypedProg p) (hsize : C08_sizeCheck p = true)
    (hlive : LiveAtMost maxVariables p)
    {counter : Nat} (hcompX : (compile rvBackend hooks p).run counter = .ok ((instrs, nargs), cX))
    (hfitX : codeBase + 4 * instrs.length < 2 ^ 64)
    (hd : p.defs.head? = some d0) (hentry : ∀ b ∈ d0.ctx, b.chi = .ext ∧ b.ty = .i64)
    (fuel : Nat) (v : Word) (hfuel : fuel + 1 < 2 ^ 64)
    (hrun : (Pos.run p args fuel).res = .done v)
    (mc : MonCfg) (hheap : mc.heap = false) (htop : heapBase + mc.heapBytes ≤ 2 ^ 63)
    (hbytes : 64 * (progMaxAlloc p * fuel + 1 + progMaxAlloc p + 2) ≤ mc.heapBytes)
    (lines : List (Nat × Code)) (hhdr : ∀ c ∈ hdr, c.isComment = true)
    (hlines : (lines.map (·.2)).map stripC = (hdr ++ instrs ++ [Code.LAB "cleanup"]).map stripC)
    (hhook : ∀ x ∈ lines, ¬ badHook x.2) :
    ∃ fuel', (runLines lines args fuel' mc).res = .done v ∧
      (runLines lines args fuel' mc).maxHeapWritten ≤ 64 * (progMaxAlloc p * fuel + 1 + progMaxAlloc p + 2) :=
  C10_rv_footprint_all p args hooks instrs hdr nargs cX d0 hsafe htp hsize hlive hcompX hfitX hd hentry fuel v hfuel
    hrun mc hheap htop (progMaxAlloc p * fuel + 1) hbytes lines hhdr hlines hhook
    (fun _ _ _ _ _ _ _ _ _ => C10_rv_peak_trivial_all _ _ _ _ _ _ _ _)

/-! ## C10 in terms of the source-level data -/

/-- C10, TERMINATING RUNS OF ALL PROGRAMS, IN TERMS OF THE DATA OF THE POSITIONAL MACHINE: if the object and closure
values held by the variables never have more than `D` fields in total (over all reachable states of the AxCut
positional machine), then in any heap of at least `64·(D + A + 2)` bytes the machine returns the result of the
positional machine and has never written above `D + A + 2` blocks of its heap. -/
theorem C10_rv_size_all (p : AxCut.Prog) (args : List Word) (hooks : Bool) (instrs hdr : List Code)
    (nargs cX : Nat) (d0 : Def)
    (hsafe : LabelSafe p = true) (htp : LinTypedProg p) (hsize : C08_sizeCheck p = true)
    (hlive : LiveAtMost maxVariables p)
    {counter : Nat} (hcompX : (compile rvBackend hooks p).run counter = .ok ((instrs, nargs), cX))
    (hfitX : codeBase + 4 * instrs.length < 2 ^ 64)
    (hd : p.defs.head? = some d0) (hentry : ∀ b ∈ d0.ctx, b.chi = .ext ∧ b.ty = .i64)
    (D : Nat) (hD : ∀ st, Reachable p ⟨d0.ctx, args.map .int, d0.body⟩ st → valsFields st.env ≤ D)
    (fuel : Nat) (v : Word) (hfuel : fuel + 1 < 2 ^ 64)
    (hrun : (Pos.run p args fuel).res = .done v)
    (mc : MonCfg) (hheap : mc.heap = false) (htop : heapBase + mc.heapBytes ≤ 2 ^ 63)
    (hbytes : 64 * (D + progMaxAlloc p + 2) ≤ mc.heapBytes)
    (lines : List (Nat × Code)) (hhdr : ∀ c ∈ hdr, c.isComment = true)
    (hlines : (lines.map (·.2)).map stripC = (hdr ++ instrs ++ [Code.LAB "cleanup"]).map stripC)
    (hhook : ∀ x ∈ lines, ¬ badHook x.2) :
    ∃ fuel', (runLines lines args fuel' mc).res = .done v ∧
      (runLines lines args fuel' mc).maxHeapWritten ≤ 64 * (D + progMaxAlloc p + 2) := by
  obtain ⟨ops, c', hcompM, hfit, hnd, hcap⟩ := C09_rv_setup p args hooks instrs nargs cX d0 hsafe htp hsize hlive
    hcompX hd
  obtain ⟨fuel', h2, h3⟩ := Conc.programs_peak_gen_lines p args hooks instrs hdr nargs cX d0 ops c' hsafe htp hcompM
    hfit hcompX hnd hfitX hd hentry hcap fuel v hfuel hrun (withHeapBytes mc (64 * (D + progMaxAlloc p + 2))) hheap
    (C10_withHeapBytes_top htop hbytes) D (progMaxAlloc p) (allocLe_progMaxAlloc p) (Nat.le_refl _) lines hhdr hlines
    hhook (fun _ _ _ _ _ _ => Conc.peakHyp_of_data hD)
  have e := runLines_larger_heap (sub_withHeapBytes hheap hbytes) lines args fuel' v h2
  exact ⟨fuel', by rw [e]; exact h2, by rw [e]; exact h3⟩

/-- … AND EVERY PREFIX OF EVERY RUN (terminating or not): the machine passes through a boundary for every state of
the prefix; at each of them at most `D + 1` blocks lie below the allocation frontier -/
theorem C10_rv_size_every_prefix (p : AxCut.Prog) (args : List Word) (hooks : Bool) (instrs hdr : List Code)
    (nargs cX : Nat) (d0 : Def)
    (hsafe : LabelSafe p = true) (htp : LinTypedProg p) (hsize : C08_sizeCheck p = true)
    (hlive : LiveAtMost maxVariables p)
    {counter : Nat} (hcompX : (compile rvBackend hooks p).run counter = .ok ((instrs, nargs), cX))
    (hfitX : codeBase + 4 * instrs.length < 2 ^ 64)
    (hd : p.defs.head? = some d0) (hentry : ∀ b ∈ d0.ctx, b.chi = .ext ∧ b.ty = .i64)
    (hargs : args.length = nargs)
    (D : Nat) (hD : ∀ st, Reachable p ⟨d0.ctx, args.map .int, d0.body⟩ st → valsFields st.env ≤ D)
    (fuel : Nat) (hfuel : fuel + 1 < 2 ^ 64)
    (mc : MonCfg) (hheap : mc.heap = false) (htop : heapBase + mc.heapBytes ≤ 2 ^ 63)
    (hbytes : 64 * (D + progMaxAlloc p + 2) ≤ mc.heapBytes)
    (lines : List (Nat × Code)) (hhdr : ∀ c ∈ hdr, c.isComment = true)
    (hlines : (lines.map (·.2)).map stripC = (hdr ++ instrs ++ [Code.LAB "cleanup"]).map stripC)
    (hhook : ∀ x ∈ lines, ¬ badHook x.2) :
    ∃ ops c' pr e regs, (compile mockSym hooks p).run 0 = .ok ((ops, nargs), c') ∧
      layout lines = .ok pr ∧ pr.entry = some e ∧ entryRegs args = some regs ∧
      ∃ X0, stepN pr mc 1 (initState regs e) = .inl X0 ∧
        BChain pr mc
          (fun st X => BoundaryOf p hooks (keptOf lines) ops mc st X ∧
            ∃ below inUse, HeapShapeAt mc X below inUse ∧ below ≤ D + 1)
          (statesOf p fuel ⟨d0.ctx, args.map .int, d0.body⟩) X0 := by
  obtain ⟨ops, c', hcompM, hfit, hnd, hcap⟩ := C09_rv_setup p args hooks instrs nargs cX d0 hsafe htp hsize hlive
    hcompX hd
  have hlen : d0.ctx.length = args.length := by
    rw [hargs]; exact (C08_compile_nargs rvBackend hooks p counter instrs nargs cX hcompX d0 hd).symm
  obtain ⟨pr, e, regs, hlay, he, hregs, X0, h0, hch⟩ := Conc.programs_prefix_gen p args hooks instrs hdr nargs cX d0
    ops c' hsafe htp hcompM hfit hcompX hnd hfitX hd hentry hlen hcap fuel hfuel mc hheap htop D (progMaxAlloc p)
    (allocLe_progMaxAlloc p) hbytes lines hhdr hlines hhook (fun _ _ _ _ _ _ => Conc.peakHyp_of_data hD)
  exact ⟨ops, c', pr, e, regs, hcompM, hlay, he, hregs, X0, h0, hch⟩

/-- C10, ALL RUNS OF ALL PROGRAMS, EVERY AMOUNT OF MACHINE FUEL, IN TERMS OF THE DATA OF THE POSITIONAL MACHINE: if the
object and closure values held by the variables never have more than `D` fields in total (over all reachable states
of the AxCut positional machine) and the positional machine never gets stuck, then in any heap of at least
`64·(D + A + 2)` bytes the machine, for every amount of fuel (below `2^64 / (M + 1)`, `M = progMaxSize p`), is
still running or has returned the result of the positional machine, and has never written above `D + A + 2`
blocks of its heap. -/
theorem C10_rv_size_all_fuel (p : AxCut.Prog) (args : List Word) (hooks : Bool) (instrs hdr : List Code)
    (nargs cX : Nat) (d0 : Def)
    (hsafe : LabelSafe p = true) (htp : LinTypedProg p) (hsize : C08_sizeCheck p = true)
    (hlive : LiveAtMost maxVariables p)
    {counter : Nat} (hcompX : (compile rvBackend hooks p).run counter = .ok ((instrs, nargs), cX))
    (hfitX : codeBase + 4 * instrs.length < 2 ^ 64)
    (hd : p.defs.head? = some d0) (hentry : ∀ b ∈ d0.ctx, b.chi = .ext ∧ b.ty = .i64)
    (hargs : args.length = nargs)
    (hnostuck : ∀ fuel w, (Pos.run p args fuel).res ≠ .stuck w)
    (D : Nat) (hD : ∀ st, Reachable p ⟨d0.ctx, args.map .int, d0.body⟩ st → valsFields st.env ≤ D)
    (mc : MonCfg) (hheap : mc.heap = false) (htop : heapBase + mc.heapBytes ≤ 2 ^ 63)
    (hbytes : 64 * (D + progMaxAlloc p + 2) ≤ mc.heapBytes)
    (lines : List (Nat × Code)) (hhdr : ∀ c ∈ hdr, c.isComment = true)
    (hlines : (lines.map (·.2)).map stripC = (hdr ++ instrs ++ [Code.LAB "cleanup"]).map stripC)
    (hhook : ∀ x ∈ lines, ¬ badHook x.2)
    (fuel' : Nat) (hf : fuel' * (progMaxSize p + 1) + stmtSize d0.body + 1 < 2 ^ 64) :
    ((runLines lines args fuel' mc).res = .outOfFuel ∨
      ∃ v, (Pos.run p args (fuel' * (progMaxSize p + 1) + stmtSize d0.body)).res = .done v ∧
        (runLines lines args fuel' mc).res = .done v) ∧
    (runLines lines args fuel' mc).maxHeapWritten ≤ 64 * (D + progMaxAlloc p + 2) := by
  obtain ⟨ops, c', hcompM, hfit, hnd, hcap⟩ := C09_rv_setup p args hooks instrs nargs cX d0 hsafe htp hsize hlive
    hcompX hd
  have hlen : d0.ctx.length = args.length := by
    rw [hargs]; exact (C08_compile_nargs rvBackend hooks p counter instrs nargs cX hcompX d0 hd).symm
  exact Conc.programs_dsize_all p args hooks instrs hdr nargs cX d0 ops c' hsafe htp hcompM hfit hcompX hnd hfitX hd
    hentry hlen hcap hnostuck D hD mc hheap htop (progMaxAlloc p) (progMaxSize p) (allocLe_progMaxAlloc p)
    (stmtSize_le_progMaxSize p) hbytes lines hhdr hlines hhook fuel' hf

/-- the statement of `C10_rv_size_all_fuel` as a proposition (first kept as a `def : Prop`) -/
def C10_rv_size_all_fuel_statement : Prop :=
  ∀ (p : AxCut.Prog) (args : List Word) (hooks : Bool) (instrs hdr : List Code) (nargs cX : Nat) (d0 : Def),
    LabelSafe p = true → LinTypedProg p → C08_sizeCheck p = true → LiveAtMost maxVariables p →
    ∀ (counter : Nat), (compile rvBackend hooks p).run counter = .ok ((instrs, nargs), cX) →
    codeBase + 4 * instrs.length < 2 ^ 64 →
    p.defs.head? = some d0 → (∀ b ∈ d0.ctx, b.chi = .ext ∧ b.ty = .i64) → args.length = nargs →
    (∀ fuel w, (Pos.run p args fuel).res ≠ .stuck w) →
    ∀ (D : Nat), (∀ st, Reachable p ⟨d0.ctx, args.map .int, d0.body⟩ st → valsFields st.env ≤ D) →
    ∀ (mc : MonCfg), mc.heap = false → heapBase + mc.heapBytes ≤ 2 ^ 63 →
    64 * (D + progMaxAlloc p + 2) ≤ mc.heapBytes →
    ∀ (lines : List (Nat × Code)), (∀ c ∈ hdr, c.isComment = true) →
    (lines.map (·.2)).map stripC = (hdr ++ instrs ++ [Code.LAB "cleanup"]).map stripC →
    (∀ x ∈ lines, ¬ badHook x.2) →
    ∀ (fuel' : Nat), fuel' * (progMaxSize p + 1) + stmtSize d0.body + 1 < 2 ^ 64 →
      ((runLines lines args fuel' mc).res = .outOfFuel ∨
        ∃ v, (Pos.run p args (fuel' * (progMaxSize p + 1) + stmtSize d0.body)).res = .done v ∧
          (runLines lines args fuel' mc).res = .done v) ∧
      (runLines lines args fuel' mc).maxHeapWritten ≤ 64 * (D + progMaxAlloc p + 2)

theorem C10_rv_size_all_fuel_proved : C10_rv_size_all_fuel_statement :=
  fun p args hooks instrs hdr nargs cX d0 hsafe htp hsize hlive _ hcompX hfitX hd hentry hargs hnostuck D hD mc hheap
      htop hbytes lines hhdr hlines hhook fuel' hf =>
    C10_rv_size_all_fuel p args hooks instrs hdr nargs cX d0 hsafe htp hsize hlive hcompX hfitX hd hentry hargs
      hnostuck D hD mc hheap htop hbytes lines hhdr hlines hhook fuel' hf

/-! ## on the text of the routine -/

/-- C10, THE FOOTPRINT, ALL PROGRAMS, ON THE TEXT the backend prints: `RV.run` on `intoRoutine instrs` reproduces
the result and never writes above `Pk + A + 2` blocks of its heap (the peak hypothesis: for the lines the machine's
own parser reads from the text) -/
theorem C10_rv_footprint_all_text (p : AxCut.Prog) (args : List Word) (hooks : Bool) (counter : Nat)
    (instrs : List Code) (nargs cX : Nat) (d0 : Def)
    (hsafe : LabelSafe p = true) (htp : LinTypedProg p) (hsize : C08_sizeCheck p = true)
    (hlive : LiveAtMost maxVariables p) (hnames : C14R_namesTextSafe p = true)
    (hcompX : (compile rvBackend hooks p).run counter = .ok ((instrs, nargs), cX))
    (hfitX : codeBase + 4 * instrs.length < 2 ^ 64)
    (hd : p.defs.head? = some d0) (hentry : ∀ b ∈ d0.ctx, b.chi = .ext ∧ b.ty = .i64)
    (fuel : Nat) (v : Word) (hfuel : fuel + 1 < 2 ^ 64)
    (hrun : (Pos.run p args fuel).res = .done v)
    (mc : MonCfg) (hheap : mc.heap = false) (hwf : mc.wf = false) (htop : heapBase + mc.heapBytes ≤ 2 ^ 63)
    (Pk : Nat) (hbytes : 64 * (Pk + progMaxAlloc p + 2) ≤ mc.heapBytes)
    (hP : ∀ lines ops c' pr e regs, parseText (intoRoutine instrs) = .ok lines →
      (compile mockSym hooks p).run 0 = .ok ((ops, nargs), c') →
      layout lines = .ok pr → pr.entry = some e → entryRegs args = some regs →
      Conc.PeakAtMost p hooks (keptOf lines) ops (withHeapBytes mc (64 * (Pk + progMaxAlloc p + 2))) pr
        (initState regs e) Pk (progMaxAlloc p * fuel + 1)) :
    ∃ fuel', (run (intoRoutine instrs) args fuel' mc).res = .done v ∧
      (run (intoRoutine instrs) args fuel' mc).maxHeapWritten ≤ 64 * (Pk + progMaxAlloc p + 2) := by
  obtain ⟨lines, hparse, hlines, hhook⟩ := C14R_routine_loads hnames hcompX
  obtain ⟨fuel', h1, h2⟩ := C10_rv_footprint_all p args hooks instrs [Code.COMMENT "actual code"] nargs cX d0 hsafe
    htp hsize hlive hcompX hfitX hd hentry fuel v hfuel hrun mc hheap htop Pk hbytes lines
    (fun c hc => by simp at hc; subst hc; rfl) hlines hhook
    (fun ops c' pr e regs g1 g2 g3 g4 => hP lines ops c' pr e regs hparse g1 g2 g3 g4)
  exact ⟨fuel', by rw [run_eq_runLines hparse args fuel' mc hwf]; exact h1,
    by rw [run_eq_runLines hparse args fuel' mc hwf]; exact h2⟩

/-- C10, ALL RUNS OF ALL PROGRAMS, EVERY AMOUNT OF MACHINE FUEL, ON THE TEXT the backend prints: `RV.run` on
`intoRoutine instrs`, in any heap of at least `64·(D + A + 2)` bytes, for every amount of fuel (below
`2^64 / (M + 1)`), is still running or has returned the result of the positional machine, and the highest heap
address it has written is at most `D + A + 2` blocks above the heap base. -/
theorem C10_rv_size_all_fuel_text (p : AxCut.Prog) (args : List Word) (hooks : Bool) (counter : Nat)
    (instrs : List Code) (nargs cX : Nat) (d0 : Def)
    (hsafe : LabelSafe p = true) (htp : LinTypedProg p) (hsize : C08_sizeCheck p = true)
    (hlive : LiveAtMost maxVariables p) (hnames : C14R_namesTextSafe p = true)
    (hcompX : (compile rvBackend hooks p).run counter = .ok ((instrs, nargs), cX))
    (hfitX : codeBase + 4 * instrs.length < 2 ^ 64)
    (hd : p.defs.head? = some d0) (hentry : ∀ b ∈ d0.ctx, b.chi = .ext ∧ b.ty = .i64)
    (hargs : args.length = nargs)
    (hnostuck : ∀ fuel w, (Pos.run p args fuel).res ≠ .stuck w)
    (D : Nat) (hD : ∀ st, Reachable p ⟨d0.ctx, args.map .int, d0.body⟩ st → valsFields st.env ≤ D)
    (mc : MonCfg) (hheap : mc.heap = false) (hwf : mc.wf = false) (htop : heapBase + mc.heapBytes ≤ 2 ^ 63)
    (hbytes : 64 * (D + progMaxAlloc p + 2) ≤ mc.heapBytes)
    (fuel' : Nat) (hf : fuel' * (progMaxSize p + 1) + stmtSize d0.body + 1 < 2 ^ 64) :
    ((run (intoRoutine instrs) args fuel' mc).res = .outOfFuel ∨
      ∃ v, (Pos.run p args (fuel' * (progMaxSize p + 1) + stmtSize d0.body)).res = .done v ∧
        (run (intoRoutine instrs) args fuel' mc).res = .done v) ∧
    (run (intoRoutine instrs) args fuel' mc).maxHeapWritten ≤ 64 * (D + progMaxAlloc p + 2) := by
  obtain ⟨lines, hparse, hlines, hhook⟩ := C14R_routine_loads hnames hcompX
  rw [run_eq_runLines hparse args fuel' mc hwf]
  exact C10_rv_size_all_fuel p args hooks instrs [Code.COMMENT "actual code"] nargs cX d0 hsafe htp hsize hlive hcompX
    hfitX hd hentry hargs hnostuck D hD mc hheap htop hbytes lines (fun c hc => by simp at hc; subst hc; rfl) hlines
    hhook fuel' hf

/-! ### non-vacuity: the closure program of Props/C08RVClo.lean in the default configuration (a 32 MiB heap) -/

/-- every hypothesis of `C10_rv_coarse_all` holds for the closure program started with x = 37 (one variable per
closure environment / one field per object, the trivial peak `1·20 + 1`): the machine on the canonical lines of the
routine returns 42 and never writes above 64·24 bytes of its heap -/
example : ∃ fuel',
    (runLines (canonLines [Code.COMMENT "actual code"] C08_cloInstrs) [37] fuel' {}).res = .done 42 ∧
    (runLines (canonLines [Code.COMMENT "actual code"] C08_cloInstrs) [37] fuel' {}).maxHeapWritten ≤
      64 * (1 * 20 + 1 + 1 + 2) := by
  have hcompX : ∃ k, (compile rvBackend true C08_cloProg).run 0 = .ok ((C08_cloInstrs, 1), k) := by
    rw [← rvBackendF_eq]; exact ⟨_, rfl⟩
  obtain ⟨cX, hcompX⟩ := hcompX
  have hrun : (Pos.run C08_cloProg [37] 20).res = .done 42 := by decide
  have e1 : progMaxAlloc C08_cloProg = 1 := by decide
  have key := C10_rv_coarse_all C08_cloProg [37] true C08_cloInstrs [Code.COMMENT "actual code"] 1 cX C08_cloMain
    (by decide) (linTypedCheck_sound C08_cloProg rfl) (by decide) C08_cloProg_live
    hcompX C08_cloInstrs_fits rfl (by decide) 20 42 (by decide) hrun {} rfl (by decide) (by rw [e1]; decide)
    _ (fun c hc => by simp at hc; subst hc; rfl) (canonLines_codes _ _) (canonLines_hooks _ _)
  rw [e1] at key
  exact key

/-- THE CLOSURE PROGRAM IN FIVE BLOCKS (`D = 2`: at no state do the variables hold more than two fields of object
and closure data — the box holds the closure, which captures `x`): the machine returns 42 and never writes above
320 bytes of its heap -/
theorem C10_rv_cloProg_footprint : ∃ fuel',
    (runLines (canonLines [Code.COMMENT "actual code"] C08_cloInstrs) [37] fuel' {}).res = .done 42 ∧
    (runLines (canonLines [Code.COMMENT "actual code"] C08_cloInstrs) [37] fuel' {}).maxHeapWritten ≤ 320 := by
  have hcompX : ∃ k, (compile rvBackend true C08_cloProg).run 0 = .ok ((C08_cloInstrs, 1), k) := by
    rw [← rvBackendF_eq]; exact ⟨_, rfl⟩
  obtain ⟨cX, hcompX⟩ := hcompX
  have hrun : (Pos.run C08_cloProg [37] 20).res = .done 42 := by decide
  have e1 : progMaxAlloc C08_cloProg = 1 := by decide
  have key := C10_rv_size_all C08_cloProg [37] true C08_cloInstrs [Code.COMMENT "actual code"] 1 cX C08_cloMain
    (by decide) (linTypedCheck_sound C08_cloProg rfl) (by decide) C08_cloProg_live
    hcompX C08_cloInstrs_fits rfl (by decide) 2
    (Scc.X86.C10_dataSize_of_run C08_cloProg 20 _ 2 (by decide) (by decide)) 20 42 (by decide) hrun {} rfl
    (by decide) (by rw [e1]; decide)
    _ (fun c hc => by simp at hc; subst hc; rfl) (canonLines_codes _ _) (canonLines_hooks _ _)
  rw [e1] at key
  exact key

/-- THE CLOSURE LOOP RUNS IN FOUR BLOCKS, FOREVER (the loop of Props/C13X86All.lean; it never terminates): for EVERY
number `k` of steps of the positional machine the RV64 machine passes through a boundary for each of the first `k`
states, and at each of them at most 2 blocks lie below the allocation frontier — the environment block of the
closure is reused in every round: space independent of the number of repetitions -/
theorem C10_rv_cloLoop_constant_space (k : Nat) (hk : k + 1 < 2 ^ 64) :
    ∃ ops c' pr e regs, (compile mockSym true Scc.X86.C13_cloLoopProg).run 0 = .ok ((ops, 1), c') ∧
      layout (canonLines [Code.COMMENT "actual code"] C09R_loopInstrs) = .ok pr ∧ pr.entry = some e ∧
      entryRegs [5] = some regs ∧
      ∃ X0, stepN pr {} 1 (initState regs e) = .inl X0 ∧
        BChain pr {} (fun st X =>
            BoundaryOf Scc.X86.C13_cloLoopProg true
              (keptOf (canonLines [Code.COMMENT "actual code"] C09R_loopInstrs)) ops {} st X ∧
            ∃ below inUse, HeapShapeAt {} X below inUse ∧ below ≤ 1 + 1)
          (statesOf Scc.X86.C13_cloLoopProg k Scc.X86.C13_cloS0) X0 := by
  have hcompX : ∃ c, (compile rvBackend true Scc.X86.C13_cloLoopProg).run 0 = .ok ((C09R_loopInstrs, 1), c) := by
    rw [← rvBackendF_eq]; exact ⟨_, rfl⟩
  obtain ⟨cX, hcompX⟩ := hcompX
  have e1 := Scc.X86.C13_cloLoop_consts.1
  exact C10_rv_size_every_prefix Scc.X86.C13_cloLoopProg [5] true C09R_loopInstrs [Code.COMMENT "actual code"] 1
    cX Scc.X86.C13_cloLoopMain (by decide) (linTypedCheck_sound Scc.X86.C13_cloLoopProg rfl) (by decide)
    C09R_loopProg_live hcompX C09R_loopInstrs_fits rfl (by decide) rfl 1 Scc.X86.C13_cloLoop_size k hk
    {} rfl (by decide) (by rw [e1]; decide) _ (fun c hc => by simp at hc; subst hc; rfl) (canonLines_codes _ _)
    (canonLines_hooks _ _)

/-- THE CLOSURE LOOP RUNS FOREVER IN FOUR BLOCKS: `main(x) { create f = (x){ Ap(a) => main(a) }; lit n <- 5;
invoke f Ap(n) }` (Props/C13X86All.lean), started with x = 5 in the default configuration (a 32 MiB heap): for
EVERY fuel below 2^59 the RV64 machine on the canonical lines of the emitted routine is still running (`outOfFuel`:
it never faults and never returns) and the highest heap address it has written lies at most 256 bytes above the
heap base — the environment block of the closure is reused in every round: space independent of the number of
repetitions. -/
theorem C10_rv_cloLoop_all_fuel (fuel' : Nat) (hf : fuel' < 2 ^ 59) :
    (runLines (canonLines [Code.COMMENT "actual code"] C09R_loopInstrs) [5] fuel' {}).res = .outOfFuel ∧
    (runLines (canonLines [Code.COMMENT "actual code"] C09R_loopInstrs) [5] fuel' {}).maxHeapWritten ≤ 256 := by
  have hcompX : ∃ c, (compile rvBackend true Scc.X86.C13_cloLoopProg).run 0 = .ok ((C09R_loopInstrs, 1), c) := by
    rw [← rvBackendF_eq]; exact ⟨_, rfl⟩
  obtain ⟨cX, hcompX⟩ := hcompX
  obtain ⟨e1, e2, e3⟩ := Scc.X86.C13_cloLoop_consts
  have key := C10_rv_size_all_fuel Scc.X86.C13_cloLoopProg [5] true C09R_loopInstrs [Code.COMMENT "actual code"] 1
    cX Scc.X86.C13_cloLoopMain (by decide) (linTypedCheck_sound Scc.X86.C13_cloLoopProg rfl) (by decide)
    C09R_loopProg_live hcompX C09R_loopInstrs_fits rfl (by decide) rfl Scc.X86.C13_cloLoop_nostuck 1
    Scc.X86.C13_cloLoop_size {} rfl (by decide) (by rw [e1]; decide) _
    (fun c hc => by simp at hc; subst hc; rfl) (canonLines_codes _ _) (canonLines_hooks _ _)
    fuel' (by rw [e2, e3]; omega)
  rw [e1] at key
  refine ⟨?_, key.2⟩
  rcases key.1 with h | ⟨v, hdone, _⟩
  · exact h
  · exfalso
    have hrs : Pos.run Scc.X86.C13_cloLoopProg [5]
        (fuel' * (progMaxSize Scc.X86.C13_cloLoopProg + 1) + stmtSize Scc.X86.C13_cloLoopMain.body) =
        Pos.runState Scc.X86.C13_cloLoopProg _ Scc.X86.C13_cloS0 [] := Scc.X86.Conc.run_eq_runState rfl rfl _
    have := (Scc.X86.C13_cloLoop_runs
      (fuel' * (progMaxSize Scc.X86.C13_cloLoopProg + 1) + stmtSize Scc.X86.C13_cloLoopMain.body) []).1
    rw [← hrs, hdone] at this
    cases this

/-- THE CLOSURE LOOP ON THE TEXT: `RV.run` on the text the backend prints for the closure loop, started with x = 5 in
the default configuration: for EVERY fuel below 2^59 it is still running and has written at most 256 bytes of its
heap -/
theorem C10_rv_cloLoop_all_fuel_text (fuel' : Nat) (hf : fuel' < 2 ^ 59) :
    (run (intoRoutine C09R_loopInstrs) [5] fuel' {}).res = .outOfFuel ∧
    (run (intoRoutine C09R_loopInstrs) [5] fuel' {}).maxHeapWritten ≤ 256 := by
  have hcompX : ∃ c, (compile rvBackend true Scc.X86.C13_cloLoopProg).run 0 = .ok ((C09R_loopInstrs, 1), c) := by
    rw [← rvBackendF_eq]; exact ⟨_, rfl⟩
  obtain ⟨cX, hcompX⟩ := hcompX
  obtain ⟨e1, e2, e3⟩ := Scc.X86.C13_cloLoop_consts
  have key := C10_rv_size_all_fuel_text Scc.X86.C13_cloLoopProg [5] true 0 C09R_loopInstrs 1
    cX Scc.X86.C13_cloLoopMain (by decide) (linTypedCheck_sound Scc.X86.C13_cloLoopProg rfl) (by decide)
    C09R_loopProg_live (by decide) hcompX C09R_loopInstrs_fits rfl (by decide) rfl Scc.X86.C13_cloLoop_nostuck 1
    Scc.X86.C13_cloLoop_size {} rfl rfl (by decide) (by rw [e1]; decide) fuel' (by rw [e2, e3]; omega)
  rw [e1] at key
  refine ⟨?_, key.2⟩
  rcases key.1 with h | ⟨v, hdone, _⟩
  · exact h
  · exfalso
    have hrs : Pos.run Scc.X86.C13_cloLoopProg [5]
        (fuel' * (progMaxSize Scc.X86.C13_cloLoopProg + 1) + stmtSize Scc.X86.C13_cloLoopMain.body) =
        Pos.runState Scc.X86.C13_cloLoopProg _ Scc.X86.C13_cloS0 [] := Scc.X86.Conc.run_eq_runState rfl rfl _
    have := (Scc.X86.C13_cloLoop_runs
      (fuel' * (progMaxSize Scc.X86.C13_cloLoopProg + 1) + stmtSize Scc.X86.C13_cloLoopMain.body) []).1
    rw [← hrs, hdone] at this
    cases this

end Scc.RV

#print axioms Scc.RV.C10_rv_peak_trivial_all
#print axioms Scc.RV.C10_rv_frontier_bound_all
#print axioms Scc.RV.C10_rv_every_prefix_all
#print axioms Scc.RV.C10_rv_programs_lines
#print axioms Scc.RV.C10_rv_footprint_all_lines
#print axioms Scc.RV.C10_rv_programs
#print axioms Scc.RV.C10_rv_footprint_all
#print axioms Scc.RV.C10_rv_coarse_all
#print axioms Scc.RV.C10_rv_size_all
#print axioms Scc.RV.C10_rv_size_every_prefix
#print axioms Scc.RV.C10_rv_cloProg_footprint
#print axioms Scc.RV.C10_rv_cloLoop_constant_space
#print axioms Scc.RV.C10_rv_size_all_fuel
#print axioms Scc.RV.C10_rv_size_all_fuel_proved
#print axioms Scc.RV.C10_rv_cloLoop_all_fuel
#print axioms Scc.RV.C10_rv_footprint_all_text
#print axioms Scc.RV.C10_rv_size_all_fuel_text
#print axioms Scc.RV.C10_rv_cloLoop_all_fuel_text
