/-
  Scc.Props.C09X86Mon — property C09 in terms of THE EXECUTABLE HEAP MONITOR, ALL PROGRAMS (data types and
  closures), EVERY AMOUNT OF MACHINE FUEL: towards `C09_x86_monitor_statement` (Props/C09X86.lean, a `def : Prop`):
  "the run of the SPEC machine with the heap monitor on never ends in a report `inv:` of the heap monitor".

  GAP (4b) IS CLOSED HERE.  Every machine state strictly between two statement boundaries — and every state of the
  header of the routine, the state the `jmp reg` of an `invoke` lands on, the last state (at `ret`) — is NOT at a
  `#ctx` comment, so the monitor does not look there.  Proof: the step lemmas of all eleven statement forms, of the
  header and of `exit` export `Ref.Mid` (Scc/X86/ConcKMid.lean: the program counters of the states in between; the
  blocks of the generated code contain no `#ctx` comment: Scc/X86/ConcKNoCtx.lean, for `code.rs`, `memory.rs`,
  `substitute`, the hook itself excluded) — `Ref.K.step3M` (Scc/X86/ConcKMStep.lean); `ConcK.run3_monD` /
  `run3_monP` (Scc/X86/ConcKMRun.lean) carry `PassUpto` (the monitor returns `.ok` at every state visited) along
  terminating runs and runs that are still going; `ConcK.programs_monitor` (Scc/X86/ConcKMon.lean) composes them with
  the run loop (`runLoop_no_invFail`: `step` itself never produces `inv:`).

  PROVED (no `sorry`; axioms propext, Classical.choice, Quot.sound):
  * `C09_x86_monitor_never_fires`   under the hypotheses of `C06_programs_text` (label-safe, linearly typed,
        `C06_x86Checks`, compiled WITH HOOKS), the positional machine never stuck, at most `D` fields of object and
        closure data held by the variables, a heap of `64·(D + A + 2)` bytes, names of `op` targets and `call`
        labels not starting with `#` (`K.AllHF`), on items that carry the routine with its comment texts, and THE
        TWO HYPOTHESES ABOUT THE RUN `ConcK.HooksParse`, `ConcK.WindowOK (D + 1)`:
        `(runItems items args fuel' cfg).res ≠ .invFail what ln` for every fuel (below `2^64 / (M + 1)`) and every
        monitor configuration (`cfg.heap = true` included).  `C09_x86_monitor_never_fires_text`: on the printed text.
  * `C09_x86_monitor_never_fires_small`   `D ≤ 6`: the window hypothesis is discharged (at most 7 blocks below the
        frontier: the frontier block is always inside the window).
  * `C09_x86_monitor_never_fires_closed`  `D ≤ 6` and no hook of the routine lists more than one variable
        (`ConcK.hooksOneVar routine = true`, decidable): NO hypothesis about the run is left.
  * `C09_thunkLoop_monitor_never_fires`   NON-VACUITY: a loop that creates a closure, invokes it through `jmp reg`,
        frees its environment and calls itself, forever — with the heap monitor ON, for every fuel below 2^61 the
        machine does not end in a report of the heap monitor.

  WHAT REMAINS of `C09_x86_monitor_statement`:
  (3)  THE WINDOW (`ConcK.WindowOK`): `frontier + 64 ≤ heapBase + maxHeapWritten + 512` at the boundaries — a fact
       about the write history; discharged only while at most 7 blocks lie below the frontier.
  (4c) THE HOOKS PARSE (`ConcK.HooksParse`): the kinds the monitor's parser reads from the hook at the program
       counter are those of the positional state's context.  True when the names of the variables of the
       GENERATOR's context have no blanks (`C09_parseCtx_hook`); but the relation `Ref.K.Rel3` (and the closure
       invariant `XV`, which hides the context the methods of a closure were generated with) do not track names,
       only `Ctx.keys`.  NOTE: the hypothesis `hparse` of `C09_x86_monitor_boundary` / `C09_x86_monitor_boundary_all`
       ("for EVERY context Γ whose hook comment is in the routine the parser reads `ctxKinds Γ`") is NOT
       satisfiable for a routine with a hook of two variables: the hook `#ctx [x_1:ext f_2:cns]` is also the hook
       of the one-variable context `["x_1:ext f"_2 : cns]`, whose kinds are `[true]`, not `[false, true]`.
       `ConcK.HooksParse` asks for the parse at the program counter only; discharged here for routines whose
       hooks list at most one variable.
  (5)  the side hypotheses: `LabelSafe`, `C06_x86Checks`, sane machine configurations, `K.AllHF`, the positional
       machine does not get stuck (division by zero), the room hypothesis (`D`), fuel below `2^64 / (M + 1)`, and
       items that carry the comment texts of the routine (`items.map (·.1) = routine`; `parseText ∘ printProg` is
       only proved to give them back up to the comment texts).
-/
import Scc.Props.C09X86All
import Scc.X86.ConcKMon

namespace Scc.X86
open Scc.AxCut Scc.AxCut.Pos Scc.Backend Scc.Backend.Abs Scc.X86.Ref
open Scc.Props.C06Generic (Reachable CodeFits)
open Scc.Props.C14Generic (LabelSafe)
open Scc.X86.Ref.K (AllocLe progMaxAlloc allocLe_progMaxAlloc)
open Scc.X86.Conc (ctxKinds valsFields stmtSize progMaxSize stmtSize_le_progMaxSize)

/-- THE HEAP MONITOR NEVER REPORTS, all programs, every amount of machine fuel, under the two hypotheses about the
run (`HooksParse`: the hook at the program counter parses; `WindowOK`: gap (3)). -/
theorem C09_x86_monitor_never_fires (p : AxCut.Prog) (args : List Word) (body routine : List Code)
    (nargs : Nat) (d0 : Def)
    (hsafe : LabelSafe p = true) (htp : LinTypedProg p) (hchk : C06_x86Checks p = true)
    (hcompX : compileX86 p true 0 = .ok (body, nargs)) (hrout : intoRoutine body nargs = .ok routine)
    (hd : p.defs.head? = some d0) (hargs : args.length = nargs)
    (hnostuck : ∀ fuel w, (Pos.run p args fuel).res ≠ .stuck w)
    (hHF : ∀ d ∈ p.defs, Ref.K.AllHF d.body)
    (D : Nat) (hD : ∀ st, Reachable p ⟨d0.ctx, args.map .int, d0.body⟩ st → valsFields st.env ≤ D)
    (cfg : MonCfg) (MO : MachOK cfg.mach) (hk : cfg.consts = consts)
    (hb8 : cfg.mach.heapBase % 8 = 0) (hb0 : 0 < cfg.mach.heapBase)
    (hbytes : 64 * (D + progMaxAlloc p + 2) ≤ cfg.mach.heapBytes)
    (hfitX : addrAt cfg.mach.codeBase routine routine.length < 2 ^ 64)
    (fuel' : Nat) (hf : fuel' * (progMaxSize p + 1) + stmtSize d0.body + 1 < 2 ^ 64)
    (items : List (Code × Nat)) (hitems : items.map (·.1) = routine)
    (hHook : ∀ ops, ConcK.HooksParse p routine ops cfg items args ⟨d0.ctx, args.map .int, d0.body⟩)
    (hWin : ∀ ops, ConcK.WindowOK p routine ops cfg items args (D + 1)) :
    ∀ what ln, (runItems items args fuel' cfg).res ≠ .invFail what ln := by
  obtain ⟨ops, c', items0, S⟩ := C06_setup_of_checks p args true body routine nargs d0 hsafe htp hchk hcompX hrout hd
  exact ConcK.programs_monitor_size p args body routine nargs d0 ops c' hsafe htp S.progOK S.compM S.fit
    hcompX hrout S.nd hd S.entry (by rw [← S.nargs, hargs]) S.cap hnostuck hHF D hD cfg MO hk hb8 hb0
    (progMaxAlloc p) (progMaxSize p) (allocLe_progMaxAlloc p) (stmtSize_le_progMaxSize p) hbytes items hitems
    hfitX fuel' hf (hHook ops) (hWin ops)

/-- … on the printed text of the routine, if the machine's parser gives the routine back with its comment texts -/
theorem C09_x86_monitor_never_fires_text (p : AxCut.Prog) (args : List Word) (body routine : List Code)
    (nargs : Nat) (d0 : Def)
    (hsafe : LabelSafe p = true) (htp : LinTypedProg p) (hchk : C06_x86Checks p = true)
    (hcompX : compileX86 p true 0 = .ok (body, nargs)) (hrout : intoRoutine body nargs = .ok routine)
    (hd : p.defs.head? = some d0) (hargs : args.length = nargs)
    (hnostuck : ∀ fuel w, (Pos.run p args fuel).res ≠ .stuck w)
    (hHF : ∀ d ∈ p.defs, Ref.K.AllHF d.body)
    (D : Nat) (hD : ∀ st, Reachable p ⟨d0.ctx, args.map .int, d0.body⟩ st → valsFields st.env ≤ D)
    (cfg : MonCfg) (MO : MachOK cfg.mach) (hk : cfg.consts = consts)
    (hb8 : cfg.mach.heapBase % 8 = 0) (hb0 : 0 < cfg.mach.heapBase)
    (hbytes : 64 * (D + progMaxAlloc p + 2) ≤ cfg.mach.heapBytes)
    (hfitX : addrAt cfg.mach.codeBase routine routine.length < 2 ^ 64)
    (fuel' : Nat) (hf : fuel' * (progMaxSize p + 1) + stmtSize d0.body + 1 < 2 ^ 64)
    (items : List (Code × Nat)) (hparse : parseText (printProg routine) = .ok items)
    (hitems : items.map (·.1) = routine)
    (hHook : ∀ ops, ConcK.HooksParse p routine ops cfg items args ⟨d0.ctx, args.map .int, d0.body⟩)
    (hWin : ∀ ops, ConcK.WindowOK p routine ops cfg items args (D + 1)) :
    ∀ what ln, (run (printProg routine) args fuel' cfg).res ≠ .invFail what ln := by
  rw [run_eq_runItems hparse]
  exact C09_x86_monitor_never_fires p args body routine nargs d0 hsafe htp hchk hcompX hrout hd hargs hnostuck hHF D
    hD cfg MO hk hb8 hb0 hbytes hfitX fuel' hf items hitems hHook hWin

/-- SMALL HEAPS: if the variables never hold more than `D ≤ 6` fields of object and closure data, the window
hypothesis is discharged — only the hypothesis that the hooks parse is left. -/
theorem C09_x86_monitor_never_fires_small (p : AxCut.Prog) (args : List Word) (body routine : List Code)
    (nargs : Nat) (d0 : Def)
    (hsafe : LabelSafe p = true) (htp : LinTypedProg p) (hchk : C06_x86Checks p = true)
    (hcompX : compileX86 p true 0 = .ok (body, nargs)) (hrout : intoRoutine body nargs = .ok routine)
    (hd : p.defs.head? = some d0) (hargs : args.length = nargs)
    (hnostuck : ∀ fuel w, (Pos.run p args fuel).res ≠ .stuck w)
    (hHF : ∀ d ∈ p.defs, Ref.K.AllHF d.body)
    (D : Nat) (hD6 : D ≤ 6)
    (hD : ∀ st, Reachable p ⟨d0.ctx, args.map .int, d0.body⟩ st → valsFields st.env ≤ D)
    (cfg : MonCfg) (MO : MachOK cfg.mach) (hk : cfg.consts = consts)
    (hb8 : cfg.mach.heapBase % 8 = 0) (hb0 : 0 < cfg.mach.heapBase)
    (hbytes : 64 * (D + progMaxAlloc p + 2) ≤ cfg.mach.heapBytes)
    (hfitX : addrAt cfg.mach.codeBase routine routine.length < 2 ^ 64)
    (fuel' : Nat) (hf : fuel' * (progMaxSize p + 1) + stmtSize d0.body + 1 < 2 ^ 64)
    (items : List (Code × Nat)) (hitems : items.map (·.1) = routine)
    (hHook : ∀ ops, ConcK.HooksParse p routine ops cfg items args ⟨d0.ctx, args.map .int, d0.body⟩) :
    ∀ what ln, (runItems items args fuel' cfg).res ≠ .invFail what ln :=
  C09_x86_monitor_never_fires p args body routine nargs d0 hsafe htp hchk hcompX hrout hd hargs hnostuck hHF D
    hD cfg MO hk hb8 hb0 hbytes hfitX fuel' hf items hitems hHook
    (fun ops => ConcK.windowOK_small p routine ops cfg items args (by omega))

/-- NO HYPOTHESIS ABOUT THE RUN: small heaps (`D ≤ 6`) and hooks that list at most one variable (a decidable
condition on the routine). -/
theorem C09_x86_monitor_never_fires_closed (p : AxCut.Prog) (args : List Word) (body routine : List Code)
    (nargs : Nat) (d0 : Def)
    (hsafe : LabelSafe p = true) (htp : LinTypedProg p) (hchk : C06_x86Checks p = true)
    (hcompX : compileX86 p true 0 = .ok (body, nargs)) (hrout : intoRoutine body nargs = .ok routine)
    (hd : p.defs.head? = some d0) (hargs : args.length = nargs)
    (hnostuck : ∀ fuel w, (Pos.run p args fuel).res ≠ .stuck w)
    (hHF : ∀ d ∈ p.defs, Ref.K.AllHF d.body)
    (hone : ConcK.hooksOneVar routine = true)
    (D : Nat) (hD6 : D ≤ 6)
    (hD : ∀ st, Reachable p ⟨d0.ctx, args.map .int, d0.body⟩ st → valsFields st.env ≤ D)
    (cfg : MonCfg) (MO : MachOK cfg.mach) (hk : cfg.consts = consts)
    (hb8 : cfg.mach.heapBase % 8 = 0) (hb0 : 0 < cfg.mach.heapBase)
    (hbytes : 64 * (D + progMaxAlloc p + 2) ≤ cfg.mach.heapBytes)
    (hfitX : addrAt cfg.mach.codeBase routine routine.length < 2 ^ 64)
    (fuel' : Nat) (hf : fuel' * (progMaxSize p + 1) + stmtSize d0.body + 1 < 2 ^ 64)
    (items : List (Code × Nat)) (hitems : items.map (·.1) = routine) :
    ∀ what ln, (runItems items args fuel' cfg).res ≠ .invFail what ln :=
  C09_x86_monitor_never_fires_small p args body routine nargs d0 hsafe htp hchk hcompX hrout hd hargs hnostuck hHF D
    hD6 hD cfg MO hk hb8 hb0 hbytes hfitX fuel' hf items hitems
    (fun _ => ConcK.hooksParse_of_hparse (ConcK.hparse_of_oneVar hone))

/-! ## non-vacuity: a loop that creates a closure and invokes it forever, the heap monitor ON -/

def C09_tThunk : Ty := .decl ⟨"Thunk", 0⟩
def C09_thunkDecl : TypeDecl := { name := ⟨"Thunk", 0⟩, xtors := [⟨⟨"Force", 0⟩, []⟩] }

/-- main(x) { create t : Thunk = (x){ Force() => main(x) }; invoke t Force() } -/
def C09_thunkMain : Def :=
  { name := ⟨"main", 0⟩, ctx := [⟨⟨"x", 1⟩, .ext, .i64⟩],
    body := .create ⟨"t", 2⟩ C09_tThunk (some [⟨⟨"x", 1⟩, .ext, .i64⟩])
      (.cons ⟨"Force", 0⟩ [] (.call ⟨"main", 0⟩ [⟨⟨"x", 1⟩, .ext, .i64⟩]) .nil)
      (.invoke ⟨"t", 2⟩ ⟨"Force", 0⟩ C09_tThunk []) none none }

def C09_thunkProg : AxCut.Prog := { defs := [C09_thunkMain], types := [C09_thunkDecl], maxId := 204 }

def C09_thunkBody : List Code :=
  match compileX86 C09_thunkProg true 0 with
  | .ok (body, _) => body
  | .error _ => []

def C09_thunkRoutine : List Code :=
  match intoRoutine C09_thunkBody 1 with
  | .ok r => r
  | .error _ => []

def C09_thunkClo : Pos.Value :=
  .clo [⟨⟨"x", 1⟩, .ext, .i64⟩] [.int 5] (.cons ⟨"Force", 0⟩ [] (.call ⟨"main", 0⟩ [⟨⟨"x", 1⟩, .ext, .i64⟩]) .nil)

/-- the three states of the loop (started with x = 5) -/
def C09_thunkS0 : Pos.State := ⟨C09_thunkMain.ctx, [.int 5], C09_thunkMain.body⟩
def C09_thunkS1 : Pos.State :=
  ⟨[⟨⟨"t", 2⟩, .cns, C09_tThunk⟩], [C09_thunkClo], .invoke ⟨"t", 2⟩ ⟨"Force", 0⟩ C09_tThunk []⟩
def C09_thunkS2 : Pos.State :=
  ⟨[⟨⟨"x", 1⟩, .ext, .i64⟩], [.int 5], .call ⟨"main", 0⟩ [⟨⟨"x", 1⟩, .ext, .i64⟩]⟩

theorem C09_thunk_step0 : Pos.step C09_thunkProg C09_thunkS0 = .next C09_thunkS1 none := by rfl
theorem C09_thunk_step1 : Pos.step C09_thunkProg C09_thunkS1 = .next C09_thunkS2 none := by rfl
theorem C09_thunk_step2 : Pos.step C09_thunkProg C09_thunkS2 = .next C09_thunkS0 none := by rfl

theorem C09_thunk_reachable (st : Pos.State) (h : Reachable C09_thunkProg C09_thunkS0 st) :
    st = C09_thunkS0 ∨ st = C09_thunkS1 ∨ st = C09_thunkS2 := by
  induction h with
  | refl => exact Or.inl rfl
  | step _ hs ih =>
    rcases ih with rfl | rfl | rfl
    · rw [C09_thunk_step0] at hs; injection hs with e; exact Or.inr (Or.inl e.symm)
    · rw [C09_thunk_step1] at hs; injection hs with e; exact Or.inr (Or.inr e.symm)
    · rw [C09_thunk_step2] at hs; injection hs with e; exact Or.inl e.symm

theorem C09_thunk_runs : ∀ (fuel : Nat) (acc : List (Bool × Word)),
    (Pos.runState C09_thunkProg fuel C09_thunkS0 acc).res = .outOfFuel ∧
    (Pos.runState C09_thunkProg fuel C09_thunkS1 acc).res = .outOfFuel ∧
    (Pos.runState C09_thunkProg fuel C09_thunkS2 acc).res = .outOfFuel
  | 0, acc => ⟨rfl, rfl, rfl⟩
  | fuel + 1, acc => by
    obtain ⟨h0, h1, h2⟩ := C09_thunk_runs fuel acc
    refine ⟨?_, ?_, ?_⟩
    · simp only [Pos.runState, C09_thunk_step0]; exact h1
    · simp only [Pos.runState, C09_thunk_step1]; exact h2
    · simp only [Pos.runState, C09_thunk_step2]; exact h0

theorem C09_thunk_nostuck (fuel : Nat) (w : Pos.Why) : (Pos.run C09_thunkProg [5] fuel).res ≠ .stuck w := by
  intro h
  have hrs : Pos.run C09_thunkProg [5] fuel = Pos.runState C09_thunkProg fuel C09_thunkS0 [] :=
    Conc.run_eq_runState (p := C09_thunkProg) (d0 := C09_thunkMain) rfl rfl fuel
  rw [hrs, (C09_thunk_runs fuel []).1] at h
  cases h

theorem C09_thunk_size (st : Pos.State) (h : Reachable C09_thunkProg C09_thunkS0 st) : valsFields st.env ≤ 1 := by
  rcases C09_thunk_reachable st h with rfl | rfl | rfl <;> decide

set_option maxRecDepth 100000 in
theorem C09_thunkProg_checks : C06_x86Checks C09_thunkProg = true := by decide +kernel

set_option maxRecDepth 100000 in
theorem C09_thunkRoutine_fits :
    addrAt ({} : MachCfg).codeBase C09_thunkRoutine C09_thunkRoutine.length < 2 ^ 64 := by decide

theorem C09_thunk_consts : progMaxAlloc C09_thunkProg = 1 ∧ progMaxSize C09_thunkProg = 4 ∧
    stmtSize C09_thunkMain.body = 4 := by decide

set_option maxRecDepth 100000 in
/-- every hook of the routine of the loop lists one variable -/
theorem C09_thunk_hooksOneVar : ConcK.hooksOneVar C09_thunkRoutine = true := by decide +kernel

theorem C09_thunk_allHF : ∀ d ∈ C09_thunkProg.defs, Ref.K.AllHF d.body := by
  intro d hd
  simp only [C09_thunkProg, List.mem_singleton] at hd
  subst hd
  simp [C09_thunkMain, Ref.K.AllHF, Ref.K.ClausesHF, Ref.HashFree]

/-- THE HEAP MONITOR NEVER REPORTS ON THE THUNK LOOP: the machine WITH THE HEAP MONITOR ON, on the items of the
routine of the loop (hooks on), started with x = 5: for EVERY fuel below 2^61 the run does not end in a report of
the heap monitor — the program does not terminate: it allocates the environment of a closure, invokes the closure
through `jmp reg` (landing behind the `#ctx` hook of the method), frees the environment and calls itself, forever;
the monitor runs `heapCheck` at the three statement boundaries of every iteration. -/
theorem C09_thunkLoop_monitor_never_fires (fuel' : Nat) (hf : fuel' < 2 ^ 61) (what : String) (ln : Nat) :
    (runItems (C09_thunkRoutine.map fun c => (c, 0)) [5] fuel' { heap := true }).res ≠ .invFail what ln := by
  obtain ⟨e1, e2, e3⟩ := C09_thunk_consts
  exact C09_x86_monitor_never_fires_closed C09_thunkProg [5] C09_thunkBody C09_thunkRoutine 1 C09_thunkMain
    (by decide) (linTypedCheck_sound C09_thunkProg rfl) C09_thunkProg_checks rfl rfl rfl rfl
    C09_thunk_nostuck C09_thunk_allHF C09_thunk_hooksOneVar 1 (by decide) C09_thunk_size
    { heap := true } machOK_default rfl (by decide) (by decide) (by rw [e1]; decide) C09_thunkRoutine_fits
    fuel' (by rw [e2, e3]; omega) _ (by simp [Function.comp_def]) what ln

end Scc.X86

#print axioms Scc.X86.C09_x86_monitor_never_fires
#print axioms Scc.X86.C09_x86_monitor_never_fires_text
#print axioms Scc.X86.C09_x86_monitor_never_fires_small
#print axioms Scc.X86.C09_x86_monitor_never_fires_closed
#print axioms Scc.X86.C09_thunkLoop_monitor_never_fires
