/-
  Scc.StringLemmas — lemmas about the core `String` functions that the assembly loaders
  (Scc/X86/Machine.lean `parseText`, Scc/A64/Machine.lean) use, proved FROM THE DEFINITIONS of the
  reference implementations in core (Init/Data/String/Basic.lean `Pos.Raw.utf8GetAux`,
  `Pos.Raw.extract.go₁/go₂`, Init/Data/String/Legacy.lean `splitOnAux`).  Core has no lemmas about the
  legacy `String.splitOn`; this file provides

  * `utf8Len` (byte length of a character list) and the "valid position" lemmas
    `get_of_valid`, `next_of_valid`, `atEnd_of_valid`, `extract_of_valid`;
  * `splitList c l` — the proof-friendly splitting of a character list at every occurrence of `c` —
    and `splitOn_singleton : s.splitOn (String.singleton c) = (splitList c s.toList).map String.ofList`
    (exhaustive reasoning on `String.splitOnAux`, for EVERY string and EVERY single-character
    separator);
  * `splitList_intercalate` / `splitOn_intercalate`: splitting the `intercalate` of pieces that do not
    contain the separator gives the pieces back (`ls ≠ []`; for `ls = []` the result is `[""]`, as
    the implementation has it: `splitOn_intercalate_nil`);
  * `splitLines` and `splitLines_eq : splitLines s = s.splitOn "\n"`.

  Proof file: core imports only.
-/

namespace Scc.Str

open String (Pos.Raw)

set_option linter.unusedSimpArgs false

/-! ## byte length of a list of characters -/

def utf8Len : List Char → Nat
  | [] => 0
  | c :: cs => c.utf8Size + utf8Len cs

@[simp] theorem utf8Len_nil : utf8Len [] = 0 := rfl
@[simp] theorem utf8Len_cons (c : Char) (cs : List Char) : utf8Len (c :: cs) = c.utf8Size + utf8Len cs := rfl

theorem utf8Len_append (a b : List Char) : utf8Len (a ++ b) = utf8Len a + utf8Len b := by
  induction a with
  | nil => simp
  | cons c cs ih => simp [ih, Nat.add_assoc]

theorem utf8ByteSize_ofList (l : List Char) : (String.ofList l).utf8ByteSize = utf8Len l := by
  induction l with
  | nil => simp [String.ofList_nil]
  | cons c cs ih =>
    rw [String.ofList_cons, String.utf8ByteSize_append, String.utf8ByteSize_singleton, ih]; rfl

theorem utf8ByteSize_eq (s : String) : s.utf8ByteSize = utf8Len s.toList := by
  rw [← utf8ByteSize_ofList, String.ofList_toList]

theorem utf8Len_pos_of_ne_nil {l : List Char} (h : l ≠ []) : 0 < utf8Len l := by
  cases l with
  | nil => exact absurd rfl h
  | cons c cs => have := Char.utf8Size_pos c; simp only [utf8Len_cons]; omega

/-! ## positions at a character boundary -/

theorem utf8GetAux_of_valid (cs cs' : List Char) (i p : Nat) (hp : i + utf8Len cs = p) :
    Pos.Raw.utf8GetAux (cs ++ cs') ⟨i⟩ ⟨p⟩ = cs'.headD default := by
  induction cs generalizing i with
  | nil =>
    simp only [utf8Len_nil, Nat.add_zero] at hp
    subst hp
    cases cs' with
    | nil => rfl
    | cons c cs' => simp [Pos.Raw.utf8GetAux]
  | cons c cs ih =>
    simp only [utf8Len_cons] at hp
    have hne : (⟨i⟩ : Pos.Raw) ≠ ⟨p⟩ := by
      intro h
      have := Char.utf8Size_pos c
      have : i = p := congrArg Pos.Raw.byteIdx h
      omega
    simp only [List.cons_append, Pos.Raw.utf8GetAux, hne, if_false]
    rw [Pos.Raw.add_char_eq]
    exact ih (i + c.utf8Size) (by omega)

theorem get_of_valid (cs cs' : List Char) :
    Pos.Raw.get (String.ofList (cs ++ cs')) ⟨utf8Len cs⟩ = cs'.headD default := by
  unfold Pos.Raw.get
  rw [String.toList_ofList]
  exact utf8GetAux_of_valid cs cs' 0 _ (by simp)

theorem next_of_valid (cs : List Char) (c : Char) (cs' : List Char) :
    Pos.Raw.next (String.ofList (cs ++ c :: cs')) ⟨utf8Len cs⟩ = ⟨utf8Len cs + c.utf8Size⟩ := by
  unfold Pos.Raw.next
  rw [get_of_valid]; rfl

theorem atEnd_of_valid (cs cs' : List Char) :
    Pos.Raw.atEnd (String.ofList (cs ++ cs')) ⟨utf8Len cs⟩ = true ↔ cs' = [] := by
  unfold Pos.Raw.atEnd
  simp only [utf8ByteSize_ofList, utf8Len_append, ge_iff_le, decide_eq_true_eq]
  constructor
  · intro h
    cases cs' with
    | nil => rfl
    | cons c cs' => have := Char.utf8Size_pos c; simp only [utf8Len_cons] at h; omega
  · rintro rfl; simp

theorem extract_go₂_of_valid (m r : List Char) (i e : Nat) (he : i + utf8Len m = e) :
    Pos.Raw.extract.go₂ (m ++ r) ⟨i⟩ ⟨e⟩ = m := by
  induction m generalizing i with
  | nil =>
    simp only [utf8Len_nil, Nat.add_zero] at he
    subst he
    cases r with
    | nil => rfl
    | cons c r => simp [Pos.Raw.extract.go₂]
  | cons c m ih =>
    simp only [utf8Len_cons] at he
    have hne : (⟨i⟩ : Pos.Raw) ≠ ⟨e⟩ := by
      intro h
      have := Char.utf8Size_pos c
      have : i = e := congrArg Pos.Raw.byteIdx h
      omega
    simp only [List.cons_append, Pos.Raw.extract.go₂, hne, if_false]
    rw [Pos.Raw.add_char_eq, ih (i + c.utf8Size) (by omega)]

theorem extract_go₁_of_valid (l m r : List Char) (i b e : Nat) (hb : i + utf8Len l = b)
    (he : b + utf8Len m = e) :
    Pos.Raw.extract.go₁ (l ++ m ++ r) ⟨i⟩ ⟨b⟩ ⟨e⟩ = m := by
  induction l generalizing i with
  | nil =>
    simp only [utf8Len_nil, Nat.add_zero] at hb
    subst hb
    simp only [List.nil_append]
    cases hm : m ++ r with
    | nil =>
      have : m = [] := (List.append_eq_nil_iff.1 hm).1
      subst this; rfl
    | cons c t =>
      simp only [Pos.Raw.extract.go₁, if_true]
      rw [← hm]
      exact extract_go₂_of_valid m r i e he
  | cons c l ih =>
    simp only [utf8Len_cons] at hb
    have hne : (⟨i⟩ : Pos.Raw) ≠ ⟨b⟩ := by
      intro h
      have := Char.utf8Size_pos c
      have : i = b := congrArg Pos.Raw.byteIdx h
      omega
    simp only [List.cons_append, Pos.Raw.extract.go₁, hne, if_false]
    rw [Pos.Raw.add_char_eq]
    exact ih (i + c.utf8Size) (by omega)

theorem extract_of_valid (l m r : List Char) :
    Pos.Raw.extract (String.ofList (l ++ m ++ r)) ⟨utf8Len l⟩ ⟨utf8Len l + utf8Len m⟩ = String.ofList m := by
  unfold Pos.Raw.extract
  by_cases hm : m = []
  · subst hm; simp [String.ofList_nil]
  · have := utf8Len_pos_of_ne_nil hm
    have hlt : ¬ (utf8Len l ≥ utf8Len l + utf8Len m) := by omega
    simp only [hlt, if_false, String.toList_ofList]
    exact congrArg String.ofList (extract_go₁_of_valid l m r 0 _ _ (by simp) rfl)

/-! ## splitting a list of characters at a separator character -/

/-- `splitAux c cur l`: the pieces of `cur ++ l` when `cur` (no separator inside) is the piece being
    read -/
def splitAux (c : Char) : List Char → List Char → List (List Char)
  | cur, [] => [cur]
  | cur, x :: xs => if x = c then cur :: splitAux c [] xs else splitAux c (cur ++ [x]) xs

/-- the pieces of `l` between the occurrences of `c` (always at least one piece) -/
def splitList (c : Char) (l : List Char) : List (List Char) := splitAux c [] l

theorem splitAux_append_of_not_mem (c : Char) (cur a rest : List Char) (ha : c ∉ a) :
    splitAux c cur (a ++ rest) = splitAux c (cur ++ a) rest := by
  induction a generalizing cur with
  | nil => simp
  | cons x xs ih =>
    have hx : x ≠ c := fun h => ha (by simp [h])
    have hxs : c ∉ xs := fun h => ha (by simp [h])
    simp only [List.cons_append, splitAux, hx, if_false]
    rw [ih _ hxs]; simp

theorem splitAux_of_not_mem (c : Char) (cur a : List Char) (ha : c ∉ a) :
    splitAux c cur a = [cur ++ a] := by
  have := splitAux_append_of_not_mem c cur a [] ha
  simpa [splitAux] using this

theorem splitAux_sep (c : Char) (cur a rest : List Char) (ha : c ∉ a) :
    splitAux c cur (a ++ c :: rest) = (cur ++ a) :: splitAux c [] rest := by
  rw [splitAux_append_of_not_mem c cur a _ ha]; simp [splitAux]

/-- splitting the `intercalate` of separator-free pieces gives the pieces back -/
theorem splitList_intercalate (c : Char) (l : List Char) (ls : List (List Char))
    (h : ∀ x ∈ l :: ls, c ∉ x) :
    splitList c ([c].intercalate (l :: ls)) = l :: ls := by
  unfold splitList
  induction ls generalizing l with
  | nil =>
    have : [c].intercalate [l] = l := by simp [List.intercalate, List.intersperse]
    rw [this, splitAux_of_not_mem c [] l (h l (by simp))]; simp
  | cons l2 ls ih =>
    have e : [c].intercalate (l :: l2 :: ls) = l ++ c :: [c].intercalate (l2 :: ls) := by
      simp [List.intercalate, List.intersperse]
    rw [e, splitAux_sep c [] l _ (h l (by simp)), ih l2 (fun x hx => h x (by simp at hx ⊢; right; exact hx))]
    simp

theorem splitList_nil (c : Char) : splitList c [] = [[]] := rfl

/-! ## `String.splitOn` with a single-character separator -/

theorem splitOnAux_singleton (c : Char) (pre cur rest : List Char) (r : List String) :
    String.splitOnAux (String.ofList (pre ++ cur ++ rest)) (String.singleton c)
        ⟨utf8Len pre⟩ ⟨utf8Len pre + utf8Len cur⟩ 0 r
      = r.reverse ++ (splitAux c cur rest).map String.ofList := by
  induction rest generalizing pre cur r with
  | nil =>
    rw [String.splitOnAux]
    have hend : Pos.Raw.atEnd (String.ofList (pre ++ cur ++ [])) ⟨utf8Len pre + utf8Len cur⟩ = true := by
      rw [← utf8Len_append]; exact (atEnd_of_valid (pre ++ cur) []).2 rfl
    simp only [hend, if_true]
    have := extract_of_valid pre cur []
    rw [this]; simp [splitAux]
  | cons x xs ih =>
    rw [String.splitOnAux]
    have hend : Pos.Raw.atEnd (String.ofList (pre ++ cur ++ x :: xs)) ⟨utf8Len pre + utf8Len cur⟩ = false := by
      rw [← utf8Len_append]
      cases h : Pos.Raw.atEnd (String.ofList (pre ++ cur ++ x :: xs)) ⟨utf8Len (pre ++ cur)⟩ with
      | false => rfl
      | true => exact absurd ((atEnd_of_valid (pre ++ cur) (x :: xs)).1 h) (by simp)
    have hget : Pos.Raw.get (String.ofList (pre ++ cur ++ x :: xs)) ⟨utf8Len pre + utf8Len cur⟩ = x := by
      rw [← utf8Len_append]; exact get_of_valid (pre ++ cur) (x :: xs)
    have hnext : Pos.Raw.next (String.ofList (pre ++ cur ++ x :: xs)) ⟨utf8Len pre + utf8Len cur⟩
        = ⟨utf8Len pre + utf8Len cur + x.utf8Size⟩ := by
      rw [← utf8Len_append]; exact next_of_valid (pre ++ cur) x xs
    have hsepget : Pos.Raw.get (String.singleton c) 0 = c := by
      have := get_of_valid [] [c]
      simpa [String.ofList_cons, String.ofList_nil] using this
    have hsepnext : Pos.Raw.next (String.singleton c) 0 = ⟨c.utf8Size⟩ := by
      unfold Pos.Raw.next; rw [hsepget, Pos.Raw.add_char_eq]; simp
    have hsepend : Pos.Raw.atEnd (String.singleton c) ⟨c.utf8Size⟩ = true := by
      unfold Pos.Raw.atEnd; simp [String.utf8ByteSize_singleton]
    simp only [hend, Bool.false_eq_true, if_false, hget, hsepget, hnext, hsepnext, hsepend, if_true]
    by_cases hx : x = c
    · subst hx
      simp only [beq_self_eq_true, if_true, splitAux]
      have e1 : (⟨utf8Len pre + utf8Len cur + x.utf8Size⟩ : Pos.Raw).unoffsetBy ⟨x.utf8Size⟩
          = ⟨utf8Len pre + utf8Len cur⟩ := by
        simp [Pos.Raw.unoffsetBy]
      rw [e1]
      have e2 : Pos.Raw.extract (String.ofList (pre ++ cur ++ x :: xs)) ⟨utf8Len pre⟩
          ⟨utf8Len pre + utf8Len cur⟩ = String.ofList cur := extract_of_valid pre cur (x :: xs)
      rw [e2]
      have e3 : pre ++ cur ++ x :: xs = (pre ++ cur ++ [x]) ++ [] ++ xs := by simp
      have e4 : utf8Len pre + utf8Len cur + x.utf8Size = utf8Len (pre ++ cur ++ [x]) := by
        simp [utf8Len_append, Nat.add_assoc]
      rw [e3, e4]
      have := ih (pre ++ cur ++ [x]) [] (String.ofList cur :: r)
      simp only [utf8Len_nil, Nat.add_zero] at this
      rw [this]; simp
    · have hb : (x == c) = false := by simpa using hx
      simp only [hb, Bool.false_eq_true, if_false, splitAux, hx]
      have e1 : (⟨utf8Len pre + utf8Len cur⟩ : Pos.Raw).unoffsetBy 0 = ⟨utf8Len pre + utf8Len cur⟩ := by
        simp [Pos.Raw.unoffsetBy]
      rw [e1, hnext]
      have e3 : pre ++ cur ++ x :: xs = pre ++ (cur ++ [x]) ++ xs := by simp
      have e4 : utf8Len pre + utf8Len cur + x.utf8Size = utf8Len pre + utf8Len (cur ++ [x]) := by
        simp [utf8Len_append, Nat.add_assoc]
      rw [e3, e4]
      exact ih pre (cur ++ [x]) r

theorem singleton_ne_empty (c : Char) : String.singleton c ≠ "" := by
  intro h
  have := congrArg String.toList h
  simp at this

/-- `String.splitOn` with a one-character separator, for every string -/
theorem splitOn_singleton (s : String) (c : Char) :
    s.splitOn (String.singleton c) = (splitList c s.toList).map String.ofList := by
  unfold String.splitOn
  have hne : (String.singleton c == "") = false := by
    have := singleton_ne_empty c
    simp [this]
  simp only [hne, Bool.false_eq_true, if_false]
  have := splitOnAux_singleton c [] [] s.toList []
  simp only [List.nil_append, utf8Len_nil, Nat.add_zero, String.ofList_toList, List.reverse_nil] at this
  exact this

/-- splitting the `intercalate` of separator-free strings gives the strings back (`ls ≠ []`) -/
theorem splitOn_intercalate (c : Char) (l : String) (ls : List String)
    (h : ∀ x ∈ l :: ls, c ∉ x.toList) :
    ((String.singleton c).intercalate (l :: ls)).splitOn (String.singleton c) = l :: ls := by
  rw [splitOn_singleton, String.toList_intercalate]
  have : (String.singleton c).toList = [c] := String.toList_singleton c
  rw [this, List.map_cons, splitList_intercalate c l.toList (ls.map String.toList)]
  · simp [String.ofList_toList]
  · intro x hx
    simp only [List.mem_cons, List.mem_map] at hx
    rcases hx with rfl | ⟨y, hy, rfl⟩
    · exact h l (by simp)
    · exact h y (by simp [hy])

/-- the empty list of pieces: `intercalate` gives `""`, which splits into ONE empty piece -/
theorem splitOn_intercalate_nil (c : Char) :
    ((String.singleton c).intercalate []).splitOn (String.singleton c) = [""] := by
  rw [splitOn_singleton]
  simp [String.intercalate, splitList_nil, String.ofList_nil]


/-! ## `intercalate` of `intercalate`s -/

theorem intercalate_nil' {α : Type} (sep : List α) : sep.intercalate ([] : List (List α)) = [] := by
  simp [List.intercalate]

theorem intercalate_singleton' {α : Type} (sep x : List α) : sep.intercalate [x] = x := by
  simp [List.intercalate, List.intersperse]

theorem intercalate_cons_cons' {α : Type} (sep x y : List α) (r : List (List α)) :
    sep.intercalate (x :: y :: r) = x ++ sep ++ sep.intercalate (y :: r) := by
  simp [List.intercalate, List.intersperse]

theorem intercalate_append' {α : Type} (sep : List α) (a b : List (List α)) (ha : a ≠ []) (hb : b ≠ []) :
    sep.intercalate (a ++ b) = sep.intercalate a ++ sep ++ sep.intercalate b := by
  induction a with
  | nil => exact absurd rfl ha
  | cons x xs ih =>
    cases xs with
    | nil =>
      cases b with
      | nil => exact absurd rfl hb
      | cons y ys => simp [intercalate_cons_cons', intercalate_singleton']

    | cons x2 xs =>
      rw [List.cons_append, List.cons_append, intercalate_cons_cons', ← List.cons_append, ih (by simp),
        intercalate_cons_cons']
      simp [List.append_assoc]

/-- a text printed chunk by chunk, every chunk itself a non-empty list of pieces joined by the same
    separator, is the `intercalate` of all the pieces -/
theorem intercalate_flatten' {α : Type} (sep : List α) (L : List (List (List α))) (h : ∀ l ∈ L, l ≠ []) :
    sep.intercalate (L.map (fun l => sep.intercalate l)) = sep.intercalate L.flatten := by
  induction L with
  | nil => simp
  | cons l L ih =>
    cases L with
    | nil => simp [intercalate_singleton']
    | cons l2 L =>
      have hl : l ≠ [] := h l (by simp)
      have hl2 : l2 ≠ [] := h l2 (by simp)
      have hfl : (l2 :: L).flatten ≠ [] := by
        cases l2 with
        | nil => exact absurd rfl hl2
        | cons _ _ => simp
      rw [List.map_cons, List.map_cons, intercalate_cons_cons', ← List.map_cons,
        ih (fun x hx => h x (by simp at hx ⊢; right; exact hx))]
      show _ = sep.intercalate (l ++ (l2 :: L).flatten)
      rw [intercalate_append' sep l _ hl hfl]

/-- splitting a text that is printed chunk by chunk (every chunk a non-empty list of separator-free
    lines joined by the separator) gives the lines of all the chunks -/
theorem splitOn_intercalate_chunks {α : Type} (c : Char) (f : α → List String) (xs : List α) (hx : xs ≠ [])
    (hne : ∀ x ∈ xs, f x ≠ []) (hfree : ∀ x ∈ xs, ∀ l ∈ f x, c ∉ l.toList) :
    ((String.singleton c).intercalate (xs.map (fun x => (String.singleton c).intercalate (f x)))).splitOn
        (String.singleton c) = xs.flatMap f := by
  have hflat : xs.flatMap f ≠ [] := by
    cases xs with
    | nil => exact absurd rfl hx
    | cons x xs =>
      have := hne x (by simp)
      cases hfx : f x with
      | nil => exact absurd hfx this
      | cons _ _ => simp [List.flatMap_cons, hfx]
  rw [splitOn_singleton, String.toList_intercalate, String.toList_singleton, List.map_map]
  have e1 : (String.toList ∘ fun x => (String.singleton c).intercalate (f x))
      = fun x => [c].intercalate ((f x).map String.toList) := by
    funext x; simp [String.toList_intercalate, String.toList_singleton]
  rw [e1]
  have e2 : xs.map (fun x => [c].intercalate ((f x).map String.toList))
      = (xs.map (fun x => (f x).map String.toList)).map (fun l => [c].intercalate l) := by
    rw [List.map_map]; rfl
  rw [e2, intercalate_flatten' [c] _ (by
    intro l hl
    obtain ⟨x, hxm, rfl⟩ := List.mem_map.1 hl
    have := hne x hxm
    cases hfx : f x with
    | nil => exact absurd hfx this
    | cons _ _ => simp)]
  have e3 : (xs.map (fun x => (f x).map String.toList)).flatten = (xs.flatMap f).map String.toList := by
    simp [List.flatMap, List.map_flatten, List.map_map, Function.comp_def]
  rw [e3]
  cases hfl : xs.flatMap f with
  | nil => exact absurd hfl hflat
  | cons l ls =>
    rw [List.map_cons, splitList_intercalate c l.toList (ls.map String.toList)]
    · simp [String.ofList_toList]
    · intro y hy
      have hmem : ∀ z ∈ l :: ls, c ∉ z.toList := by
        intro z hz
        rw [← hfl] at hz
        obtain ⟨x, hxm, hzx⟩ := List.mem_flatMap.1 hz
        exact hfree x hxm z hzx
      simp only [List.mem_cons, List.mem_map] at hy
      rcases hy with rfl | ⟨z, hz, rfl⟩
      · exact hmem l (by simp)
      · exact hmem z (by simp [hz])

/-! ## lines -/

/-- proof-friendly line splitting: the pieces of the text between line breaks -/
def splitLines (s : String) : List String := (splitList '\n' s.toList).map String.ofList

theorem newline_eq : "\n" = String.singleton '\n' := rfl

theorem splitLines_eq (s : String) : splitLines s = s.splitOn "\n" := by
  rw [newline_eq, splitOn_singleton]; rfl

theorem splitOn_newline_intercalate (l : String) (ls : List String)
    (h : ∀ x ∈ l :: ls, '\n' ∉ x.toList) :
    ("\n".intercalate (l :: ls)).splitOn "\n" = l :: ls := by
  rw [newline_eq]; exact splitOn_intercalate '\n' l ls h

end Scc.Str
