/-
  sccmodel — line-protocol driver of the Lean models (one request per stdin line; every reply is
  one or more lines followed by a line `END`).  Imports model/spec files only (no Mathlib).
-/
import Scc.Runtime.Current
import Scc.Sexp
import Scc.Fun.Syntax
import Scc.Core.Syntax
import Scc.AxCut.Syntax
import Scc.Fun2Core.Model
import Scc.Core.Uniquify
import Scc.Core.Focus
import Scc.Core2AxCut.Model
import Scc.PMoves.Model
import Scc.PMoves.Backends

open Scc

def fuelOf (s : String) : Nat := s.length + 10

/-- `sx <kind> <file>`: read a dump, parse it into the Lean syntax, render it again. -/
def roundtrip (kind : String) (text : String) : String :=
  match Sexp.parse text with
  | none => "ERR sexp"
  | some sx =>
    let fuel := fuelOf text
    match kind with
    | "fun" => match Fun.readProgram fuel sx with
      | some p => "OK " ++ p.toSexp.render | none => "ERR read"
    | "checked" => match Fun.readChecked fuel sx with
      | some p => "OK " ++ p.toSexp.render | none => "ERR read"
    | "core" => match Core.readProg fuel sx with
      | some p => "OK " ++ p.toSexp.render | none => "ERR read"
    | "fscore" => match Core.readFsProg fuel sx with
      | some p => "OK " ++ p.toSexp.render | none => "ERR read"
    | "axcut" => match AxCut.readProg fuel sx with
      | some p => "OK " ++ p.toSexp.render | none => "ERR read"
    | _ => "ERR kind"

def dispatch (line : String) : IO String := do
  let line := line.trimAscii.toString
  match line.splitOn " " with
  | "rt" :: rest => pure (Scc.Runtime.handleLineCur (" ".intercalate rest))
  | "pmoves" :: rest =>
    let l := " ".intercalate rest
    pure (if l.startsWith "pm " || l.startsWith "subst " then Scc.PMoves.handleLine l else Scc.PMoves.handleLineBackends l)
  | ["stage", pass, file] => do
    let text ← IO.FS.readFile file
    match pass with
    | "fun2core" => pure (Scc.Fun2Core.runLine text)
    | "uniquify" => pure (Scc.Core.runLineUniquify text)
    | "focus" => pure (Scc.Core.runLineFocus text)
    | "shrink" => pure (Scc.Core2AxCut.runLine text)
    | _ => pure "ERR unknown pass"
  | ["sx", kind, file] => do
    let text ← IO.FS.readFile file
    pure (roundtrip kind text)
  | _ => pure "ERR unknown component"

partial def loop (h : IO.FS.Stream) (out : IO.FS.Stream) : IO Unit := do
  let line ← h.getLine
  if line.isEmpty then return ()
  let reply ← try dispatch line catch e => pure s!"ERR io {e}"
  out.putStrLn reply
  out.putStrLn "END"
  out.flush
  loop h out

def main : IO Unit := do
  loop (← IO.getStdin) (← IO.getStdout)
