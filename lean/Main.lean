/-
  sccmodel — line-protocol driver of the Lean models (one request per stdin line; every reply is
  one or more lines followed by a line `END`).  Imports model/spec files only (no Mathlib).
-/
import Scc.Runtime.Current

def dispatch (line : String) : String :=
  let line := line.trimAscii.toString
  match line.splitOn " " with
  | "rt" :: rest => Scc.Runtime.handleLineCur (" ".intercalate rest)
  | _ => "ERR unknown component"

partial def loop (h : IO.FS.Stream) (out : IO.FS.Stream) : IO Unit := do
  let line ← h.getLine
  if line.isEmpty then return ()
  out.putStrLn (dispatch line)
  out.putStrLn "END"
  out.flush
  loop h out

def main : IO Unit := do
  loop (← IO.getStdin) (← IO.getStdout)
