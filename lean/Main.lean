/-
  sccmodel — line-protocol driver of the Lean models (one request per stdin line; every reply is
  one or more lines followed by a line `END`).  Imports model/spec files only (no Mathlib).
-/
import Scc.Runtime.Current
import Scc.Sexp
import Scc.Fun.Syntax
import Scc.Core.Syntax
import Scc.AxCut.Syntax
import Scc.Fun.Parse
import Scc.Fun.Print
import Scc.Fun.Check
import Scc.Fun.Sem
import Scc.Fun2Core.Model
import Scc.Core.Uniquify
import Scc.Core.Focus
import Scc.Core.Sem
import Scc.Core.Unique
import Scc.Core.Typing
import Scc.Core2AxCut.Model
import Scc.Core2AxCut.FsTyping
import Scc.AxCut.Linearize
import Scc.AxCut.SemNamed
import Scc.AxCut.SemPos
import Scc.AxCut.LinTyping
import Scc.AxCut.TypingNamed
import Scc.PMoves.Model
import Scc.PMoves.Backends
import Scc.Heap.Model
import Scc.Backend.Mock
import Scc.Backend.AbstractMachine
import Scc.X86.Machine
import Scc.A64.Machine
import Scc.RV.Machine
import Scc.X86.Backend
import Scc.A64.Backend
import Scc.RV.Backend
import Scc.Fun2Core.Hygiene
import Scc.Fun.ZeroEdge
import Scc.Fun.MainCall
import Scc.Props.C14Generic
import Scc.Pipeline
import Scc.Pipeline.Links
import Scc.Props.C14RVFinal

open Scc

def fuelOf (s : String) : Nat := s.length + 10

/-- `sx <kind> <file>`: read a dump, parse it into the Lean syntax, render it again. -/
def roundtrip (kind : String) (text : String) : String :=
  match Sexp.parse text with
  | none => "ERR sexp"
  | some sx =>
    let fuel := fuelOf text
    match kind with
    | "fun" => match Fun.readProgram fuel sx with
      | some p => "OK " ++ p.toSexp.render | none => "ERR read"
    | "checked" => match Fun.readChecked fuel sx with
      | some p => "OK " ++ p.toSexp.render | none => "ERR read"
    | "core" => match Core.readProg fuel sx with
      | some p => "OK " ++ p.toSexp.render | none => "ERR read"
    | "fscore" => match Core.readFsProg fuel sx with
      | some p => "OK " ++ p.toSexp.render | none => "ERR read"
    | "axcut" => match AxCut.readProg fuel sx with
      | some p => "OK " ++ p.toSexp.render | none => "ERR read"
    | _ => "ERR kind"

/-- comma-separated signed decimals -/
def parseWords (args : String) : Option (List (BitVec 64)) :=
  let ws := (args.splitOn ",").filter (· ≠ "")
  ws.mapM fun w => w.toInt?.map (BitVec.ofInt 64)

def linCheckLine (dump : String) : String :=
  match Sexp.parse dump with
  | none => "ERR sexp"
  | some sx =>
    match AxCut.readProg (dump.length + 10) sx with
    | none => "ERR read"
    | some p =>
      match AxCut.linTypedCheck p with
      | .ok () => "OK"
      | .error e => "ILL " ++ e

def dispatch (line : String) : IO String := do
  let line := line.trimAscii.toString
  match line.splitOn " " with
  | "rt" :: rest => pure (Scc.Runtime.handleLineCur (" ".intercalate rest))
  | "pmoves" :: rest =>
    let l := " ".intercalate rest
    pure (if l.startsWith "pm " || l.startsWith "subst " then Scc.PMoves.handleLine l else Scc.PMoves.handleLineBackends l)
  | "heap" :: rest => pure (Scc.Heap.handleLine (" ".intercalate rest))
  | ["stage", pass, file] => do
    let text ← IO.FS.readFile file
    match pass with
    | "parse" => pure (Scc.Fun.Parse.runLineParse text)
    | "parsefixed" => pure (Scc.Fun.Parse.runLineParseFixed text)
    | "check" => pure (Scc.Fun.Check.runLineCheck text)
    | "fun2core" => pure (Scc.Fun2Core.runLine text)
    | "uniquify" => pure (Scc.Core.runLineUniquify text)
    | "focus" => pure (Scc.Core.runLineFocus text)
    | "shrink" => pure (Scc.Core2AxCut.runLine text)
    | "linearize" => pure (Scc.AxCut.runLine text)
    | _ => pure "ERR unknown pass"
  | ["mock", file, hooks, c0] => do
    let text ← IO.FS.readFile file
    pure (Scc.Backend.runLineMock text (hooks == "1") c0.toNat!)
  | ["codegen", arch, file, hooks, c0] => do
    let text ← IO.FS.readFile file
    match arch with
    | "x86" => pure (Scc.X86.runLineCodegen text (hooks == "1") c0.toNat!)
    | "a64" => pure (Scc.A64.runLineCodegen text (hooks == "1") c0.toNat!)
    | "rv" => pure (Scc.RV.runLineCodegen text (hooks == "1") c0.toNat!)
    | _ => pure "ERR unknown arch"
  | ["sem", machine, file, args, fuel] => do
    let text ← IO.FS.readFile file
    let args := if args == "-" then "" else args
    let fuel := fuel.toNat!
    match machine with
    | "fun" => pure (Scc.Fun.runLine text args fuel)
    | "core" => match parseWords args with
      | some as => pure (Scc.Core.runLineCore text as fuel) | none => pure "ERR args"
    | "fs" => match parseWords args with
      | some as => pure (Scc.Core.runLineFs text as fuel) | none => pure "ERR args"
    | "named" => pure (Scc.AxCut.Named.runLineNamed text (args.replace "," " ") fuel false)
    | "namedlin" => pure (Scc.AxCut.Named.runLineNamed text (args.replace "," " ") fuel true)
    | "pos" => pure (Scc.AxCut.Pos.runLinePos text args fuel)
    | "abs" => pure (Scc.Backend.Abs.runLineAbs text args fuel)
    | _ => pure "ERR unknown machine"
  | ["asm", arch, file, args, fuel, mon] => do
    let text ← IO.FS.readFile file
    let args := if args == "-" then "" else args.replace "," " "
    match arch with
    | "x86" => pure (Scc.X86.runLine text args fuel.toNat! mon)
    | "a64" => pure (Scc.A64.runLine text args fuel.toNat! mon)
    | "rv" => pure (Scc.RV.runLine text args fuel.toNat! mon)
    | _ => pure "ERR unknown arch"
  | ["wf", arch, file] => do
    let text ← IO.FS.readFile file
    match arch with
    | "x86" => pure (match Scc.X86.wfCheck text with | .ok () => "OK" | .error e => "ILL " ++ e)
    | "a64" => pure (Scc.A64.wfLine text)
    | "rv" => pure (match Scc.RV.wfCheck text with | .ok () => "OK" | .error e => "ILL " ++ e)
    | _ => pure "ERR unknown arch"
  | ["typ", kind, file] => do
    let text ← IO.FS.readFile file
    match kind with
    | "seq" => pure (Scc.Fun.sequencedLine text)
    | "nomaincall" => pure (Scc.Fun.noMainCallLine text)
    | "hyg" => pure (Scc.Fun2Core.hygLine text)
    | "zeroedge" => pure (Scc.Fun.Parse.zeroEdgeLine text)
    | "core" => pure (Scc.Core.runLineWellTyped text)
    | "fs" => pure (Scc.Core2AxCut.checkFsLine text)
    | "unique" => pure (Scc.Core.runLineUniqueCheck text)
    | "ax" => pure (Scc.AxCut.Named.checkLine text)
    | "lin" => pure (linCheckLine text)
    | "rvplainnames" =>
      -- the RV validator identifies the clause labels of a table by a string prefix: claimed only for names
      -- without `_<digit>` segments (decidable `C14RV_plainNames`, Props/C14RVFinal.lean; witness `C14RV_falseAlarm`)
      match Sexp.parse text with
      | none => pure "ERR sexp"
      | some sx =>
        match AxCut.readProg (text.length + 10) sx with
        | none => pure "ERR read"
        | some p => pure ("OK " ++ toString (Scc.RV.C14RV_plainNames p))
    | "labelsafe" =>
      match Sexp.parse text with
      | none => pure "ERR sexp"
      | some sx =>
        match AxCut.readProg (text.length + 10) sx with
        | none => pure "ERR read"
        | some p => pure ("OK " ++ toString (Scc.Props.C14Generic.LabelSafe p))
    | _ => pure "ERR unknown checker"
  | ["fmttok", dumpFile, textFile] => do
    pure (Scc.Fun.Print.runLineFmtTokens (← IO.FS.readFile dumpFile) (← IO.FS.readFile textFile))
  | ["sx", kind, file] => do
    let text ← IO.FS.readFile file
    pure (roundtrip kind text)
  | ["pipeline", file, hooks, c0] => do
    -- the COMPOSED model (Scc/Pipeline.lean, the object of C01_composition): S1 dump -> x86-64 routine text
    pure (Scc.Pipeline.runLinePipelineWith (hooks == "1") c0.toNat! (← IO.FS.readFile file))
  | ["links", file] => do
    pure (Scc.Pipeline.Links.linksLine (← IO.FS.readFile file))
  | ["e2e", file, args, f1, f2] => do
    -- model-only instance of C01_statement: source run, x86 machine run and native rendering of the model's own text
    let src ← IO.FS.readFile file
    let ws := if args == "-" then some [] else ((args.splitOn ",").filter (· ≠ "")).mapM fun w => w.toInt?.map (BitVec.ofInt 64)
    match ws, Scc.Pipeline.frontEnd src with
    | some a, .ok _ p' =>
      if !Scc.Pipeline.validMain p' then pure "NOVALIDMAIN"
      else match Scc.Pipeline.compileAllX86 true 0 p' with
        | .error e => pure ("PANIC " ++ e)
        | .ok (n, text) =>
          pure ("SRC " ++ (Scc.Pipeline.srcRun p' a f1.toNat!).render ++
            " X86 " ++ (Scc.Pipeline.ofX86 (Scc.X86.run text a f2.toNat! {})).render ++
            " NATIVE " ++ Scc.Pipeline.runLineNative text n a f2.toNat!)
    | none, _ => pure "ERR args"
    | _, _ => pure "REJECTED"
  | _ => pure "ERR unknown component"

partial def loop (h : IO.FS.Stream) (out : IO.FS.Stream) : IO Unit := do
  let line ← h.getLine
  if line.isEmpty then return ()
  let reply ← try dispatch line catch e => pure s!"ERR io {e}"
  out.putStrLn reply
  out.putStrLn "END"
  out.flush
  loop h out

def main : IO Unit := do
  loop (← IO.getStdin) (← IO.getStdout)
