-- Root of the `Scc` library: imports every component that must build.
import Scc.Runtime.Model
import Scc.Runtime.Proofs
import Scc.Props.C20
