"""C17 — compilation is deterministic (hash seeds, environment, earlier compilations)."""
import os
import re
import subprocess
import sys

import common
import pipeline
import regen
from common import Check, WORK, log

THEOREMS_HASH = ["Scc.Props.C17_hash_sites_whitelisted"]
THEOREMS_LABELS = ["Scc.Props.C17Labels.label_counter_independent", "Scc.Props.C17Labels.label_counter_independent_generic", "Scc.Props.C17Labels.label_counter_two_starts"]

canon_labels = common.canon_labels


def run_proc(files, env_extra, cwd):
    """one fresh harness process compiling the given files in order; returns {file: {stage: payload}}"""
    env = dict(common.ENV)
    env.update(env_extra)
    req = "".join("stages %s 6\n" % f for f in files)
    p = subprocess.run([common.HARNESS_BIN], input=req, capture_output=True, text=True, env=env, cwd=cwd, timeout=600)
    res = {}
    cur = []
    it = iter(files)
    for l in p.stdout.split("\n"):
        if l == "END":
            res[next(it)] = pipeline.parse_stages(cur)
            cur = []
        elif l:
            cur.append(l)
    return res


def mangled_type_names(st):
    return common.mangled_type_names(*[st[k][1] for k in ("S4", "S5") if k in st and st[k][0] == "OK"])


def main():
    chk = Check("C17", level="proof")
    chk.checker_cmd = "lake build Scc.Props.C17Hash Scc.Props.C17Labels; multi-process byte comparison of all stage dumps"
    chk.trusted = [
        "Lean 4.33 kernel; axioms propext, Classical.choice, Quot.sound only",
        "bin/regen hash-iteration scanner (regex over the Rust sources; over-approximates by name)",
        "Rust std RandomState re-seeds per process (used to vary the hidden hash seed)",
    ]
    chk.assumptions = [
        "determinism of the Lean models is by construction; the hidden inputs of the implementation are the hash iteration order and the process-global label counter",
        "diagnostics (which of several errors is reported first) are not part of the compared output",
    ]
    chk.rule = (
        "each program is compiled in K fresh processes (fresh hash seeds) with different environments, cwd and "
        "different programs compiled before it; all printable stages S1..S5 must be byte-identical, assembly "
        "identical after renumbering generated labels by first occurrence; non-trivial = program with >= 2 type instances"
    )
    facts, errors = regen.regen(["hashsites"])
    chk.notes["hash_iteration_sites"] = len(facts.get("hashsites", {}).get("hash_iteration_sites", []))
    chk.obligation("regen:hashsites", "translator", not errors, str(errors))
    ok_h, herr = common.build_harness()
    chk.obligation("build:harness", "build", ok_h, herr[-300:])
    okm, outm = common.lake_build(["sccmodel"])
    chk.obligation("build:sccmodel", "build", okm, outm[-400:])
    ok_h = ok_h and okm
    ok1, _, out1 = common.prove(chk, "C17", ["Scc.Generated.HashSites", "Scc.Props.C17Hash"], THEOREMS_HASH)
    ok2 = True
    out2 = ""
    if os.path.exists(os.path.join(common.LEAN, "Scc/Props/C17Labels.lean")):
        ok2, _, out2 = common.prove(chk, "C17", ["Scc.Props.C17Labels"], THEOREMS_LABELS)
    found = False
    if ok_h:
        files = pipeline.repo_programs() + pipeline.corpus_programs()
        gdir = os.path.join(WORK, "c17_gen")
        n_gen = 40 if chk.tier == "quick" else 400
        subprocess.run(["python3", os.path.join(common.VERIF, "gen", "gen_fun.py"), str(chk.seed), str(n_gen), gdir], check=True)
        files += sorted(os.path.join(gdir, f) for f in os.listdir(gdir) if f.endswith(".sc"))
        if chk.tier == "quick":
            must = [f for f in files if "/corpus/check/" in f or "/corpus/regress/" in f]  # name-collision / prefix shapes: never sampled away
            rest = [f for f in files if f not in set(must)]
            files = must + rest[:: max(1, len(rest) // 60)]
        K = 6 if chk.tier == "quick" else 12
        envs = [{}, {"LANG": "C"}, {"LANG": "de_DE.UTF-8", "TERM": "dumb"}, {"RUST_BACKTRACE": "1"}, {"HOME": "/nonexistent"}, {"TZ": "Asia/Tokyo"}]
        runs = []
        for k in range(K):
            order = list(files)
            if k % 3 == 1:
                order.reverse()
            elif k % 3 == 2:
                chk.rng.shuffle(order)
            cwd = os.path.join(WORK, "c17_cwd%d" % k)
            os.makedirs(cwd, exist_ok=True)
            runs.append(run_proc(order, envs[k % len(envs)], cwd))
        mdl = common.model()
        for f in files:
            base = runs[0].get(f)
            if not base:
                continue
            ninst = 0
            if "S1" in base and base["S1"][0] == "OK":
                ninst = base["S1"][1].count("(data ") + base["S1"][1].count("(codata ")
            chk.count(f, nontrivial=ninst >= 2)
            tnames = mangled_type_names(base)
            # label canonicalisation (needed because the processes compile the files in different orders, i.e.
            # with different label-counter values) is ill-defined when user names imitate generated labels
            # (`B_19`): for such programs (decidable condition LabelSafe of Props/C14Generic) the assembly
            # stages are compared only up to S5; the counter-independence theorem has the same hypothesis
            label_safe = True
            if "S5" in base and base["S5"][0] == "OK":
                sp = os.path.join(WORK, "c17_S5.sexp")
                open(sp, "w").write(base["S5"][1])
                rep = mdl.ask("typ labelsafe %s" % sp)
                label_safe = not (rep and rep[0] == "OK false")
                if not label_safe:
                    chk.notes["label_unsafe_programs"] = chk.notes.get("label_unsafe_programs", 0) + 1
            for k in range(1, K):
                other = runs[k].get(f)
                if not other:
                    continue
                for stage in ("S0", "S1", "S2", "S2u", "S3", "S4", "S5", "S6x", "S7x", "S6a", "S7a", "S7r"):
                    a, b = base.get(stage), other.get(stage)
                    if a is None and b is None:
                        continue
                    if not label_safe and stage[:2] in ("S6", "S7"):
                        continue
                    chk.corr["compared"] += 1
                    if a is None or b is None or a[0] != b[0]:
                        same = False
                    elif stage[:2] in ("S6", "S7"):
                        same = canon_labels(a[1], tnames) == canon_labels(b[1], tnames)
                    elif a[0] in ("DIAG", "PANIC"):
                        same = True  # which diagnostic text is not compared
                    else:
                        same = a[1] == b[1]
                    if not same:
                        found = True
                        chk.corr["disagreements"] += 1
                        chk.impl_oracle_failures.append({"file": f, "stage": stage, "process": k})
                        key = "types-in-hash-order" if stage == "S1" or (a and b and a[0] == "OK" and pipeline.canon(a[1]) == pipeline.canon(b[1])) else "nondeterministic-output:" + stage
                        chk.violation(key, "stage %s of %s differs between two processes" % (stage, f),
                                      "nondet_%s_%s.txt" % (os.path.basename(f), stage),
                                      "file=%s\nstage=%s\nprocess0=%s\nprocess%d=%s\nreplay: run `stages %s` in several fresh scc-harness processes and compare\n"
                                      % (f, stage, (a or ("", ""))[1][:3000], k, (b or ("", ""))[1][:3000], f))
                        break
        mdl.close()
        # --- the command-line tool: the file written for a stage must not depend on WHICH command (history of
        #     stages computed earlier in the same process) produced it: `scc shrink f` vs `scc codegen --print-ir f ..`
        okc, cerr = common.build_cli()
        chk.obligation("build:scc-cli", "build", okc, cerr[-300:])
        if okc:
            import shutil

            sample = [f for f in files if "/corpus/" in f or "/examples/" in f][:: (4 if chk.tier == "quick" else 1)][:60]
            n_cli = 0
            for f in sample:
                base = os.path.splitext(os.path.basename(f))[0]
                outs = {}
                for hist in (["compile"], ["focus"], ["shrink"], ["linearize"], ["codegen", "--print-ir", "@", "rv64"], ["codegen", "--print-ir", "@", "x86-64"], ["codegen", "--print-ir", "@", "aarch64"]):
                    wd = os.path.join(WORK, "c17_cli")
                    shutil.rmtree(wd, ignore_errors=True)
                    os.makedirs(wd)
                    shutil.copy(f, os.path.join(wd, base + ".sc"))
                    argv = [a if a != "@" else base + ".sc" for a in hist] if "@" in hist else hist + [base + ".sc"]
                    stc, _, errc = common.run_cli(argv, cwd=wd)
                    for stage in ("compiled", "focused", "shrunk", "linearized"):
                        pth = os.path.join(wd, "target_scc", stage, base + ".txt")
                        if os.path.exists(pth):
                            outs.setdefault(stage, {})[" ".join(hist)] = open(pth, errors="replace").read()
                n_cli += 1
                chk.count((f, "cli-histories"))
                for stage, byhist in outs.items():
                    vals = list(byhist.items())
                    for hname, text in vals[1:]:
                        chk.corr["compared"] += 1
                        if text != vals[0][1]:
                            found = True
                            chk.corr["disagreements"] += 1
                            chk.impl_oracle_failures.append({"file": f, "stage": stage, "histories": [vals[0][0], hname]})
                            chk.violation("cli-history:" + stage, "the %s file of %s differs between `scc %s` and `scc %s`" % (stage, os.path.basename(f), vals[0][0], hname),
                                          "clihist_%s_%s.txt" % (stage, base), "file=%s\nstage=%s\n--- scc %s\n%s\n--- scc %s\n%s\n" % (f, stage, vals[0][0], vals[0][1][:4000], hname, text[:4000]))
                            break
            chk.notes["cli_history_programs"] = n_cli
        chk.sample({"file": files[0], "processes": K})
    chk.obligation("oracle:multi-process-byte-equality", "correspondence", chk.corr["disagreements"] == 0,
                   "%d stage comparisons, %d differences" % (chk.corr["compared"], chk.corr["disagreements"]))
    if (errors or not ok1 or not ok2) and not chk.has_failing_input():
        what = [("%s (%s): %s" % (n, r, d)) for n, r, ok, d in chk.obligations if not ok]
        chk.violation("C17:unproved", "proof obligations broken, no differing run found: " + "; ".join(what)[:500],
                      "unproved.txt", "\n".join(what) + "\n" + (out1 + out2)[-3000:], found_input=False)
    return chk.finish()


if __name__ == "__main__":
    raise SystemExit(main())
