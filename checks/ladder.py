"""The semantic ladder: one program, one argument tuple, every stage run on its abstract machine
(spec layer, in Lean) — Fun machine on S1, Core sigma-machine on S2/S2u, focused machine on S3, AxCut named
machine on S4/S5, AxCut positional machine on S5, x86-64 / AArch64 (/ RV64) machine models on the
emitted text.  All outcomes must agree; a disagreement is attributed to the pass between the two
stages.  Also: the decidable typing / scoping checkers run on the IMPLEMENTATION's dumps."""
import os
import re

import common
import pipeline

# (stage, machine request name)
RUNGS = [
    ("S1", "fun"),
    ("S2", "core"),
    ("S2u", "core"),
    ("S3", "fs"),
    ("S4", "named"),
    ("S5", "namedlin"),
    ("S5", "pos"),
]
ASM = [("S7x", "x86"), ("S7a", "a64")]

# which property owns the step between rung i and rung i+1
STEP_OWNER = {
    ("S1:fun", "S2:core"): "C02",
    ("S2:core", "S2u:core"): "C03",
    ("S2u:core", "S3:fs"): "C03",
    ("S3:fs", "S4:named"): "C04",
    ("S4:named", "S5:namedlin"): "C05",
    ("S5:namedlin", "S5:pos"): "C05",
    ("S5:pos", "S7x:x86"): "C06",
    ("S5:pos", "S7a:a64"): "C07",
    ("S5:pos", "S7r:rv"): "C08",
}

TYPECHECKS = [
    # (stage, checker, owner property of a failure)
    ("S2", "core", "C02"),
    ("S2u", "core", "C03"),
    ("S3", "fs", "C03"),
    ("S3", "unique", "C03"),
    ("S4", "ax", "C04"),
    ("S5", "lin", "C05"),
]


def norm_behaviour(line):
    """-> ('1:55,0:-73', 'done:300') | None when not a behaviour line"""
    if line is None:
        return None
    m = re.search(r"out=\[(.*?)\] res=(.*?)(?: steps=| maxheap=|$)", line)
    if not m:
        return None
    out = []
    for it in [x for x in m.group(1).split(",") if x]:
        a, b = it.split(":", 1)
        out.append(("1" if a in ("1", "nl") else "0") + ":" + b)
    res = m.group(2).strip().replace("done ", "done:").replace("stuck ", "stuck:")
    if res.startswith("stuck"):
        # reasons are worded differently per machine: keep the class only
        low = res.lower()
        if "zero" in low:
            res = "stuck:divByZero"
        elif "overflow" in low:
            res = "stuck:overflow"
    if res.startswith("fault:div-by-zero"):
        res = "stuck:divByZero"
    if res.startswith("fault:div-overflow"):
        res = "stuck:overflow"
    return (",".join(out), res)


class Ladder:
    def __init__(self, tag, fuel=200000, asm_fuel=400000):
        self.h = common.harness()
        self.m = common.model()
        self.dir = os.path.join(common.WORK, "ladder_" + tag)
        os.makedirs(self.dir, exist_ok=True)
        self.fuel = fuel
        self.asm_fuel = asm_fuel

    def stages(self, path):
        rep = self.h.ask("stages %s 6" % path)
        if rep is None:
            self.h = common.harness()
            return None
        return pipeline.parse_stages(rep)

    def ask(self, req):
        rep = self.m.ask(req)
        if rep is None:
            self.m = common.model()
            return None
        return "\n".join(rep) if rep else ""

    def dump(self, st, stage, ext="sexp"):
        p = os.path.join(self.dir, "%s.%s" % (stage, ext))
        with open(p, "w") as f:
            f.write(st[stage][1])
        return p

    def asm_text(self, st, stage):
        """payload of S7x/S7a: the text (S6x has `<nargs> <text>`)"""
        return st[stage][1]

    def run_rungs(self, st, args, rungs=RUNGS, asm=ASM, mon="heap"):
        """returns list of (label, behaviour or None, raw line)"""
        res = []
        a = ",".join(str(x) for x in args) if args else "-"
        for stage, mach in rungs:
            if stage not in st or st[stage][0] != "OK":
                continue
            p = self.dump(st, stage)
            line = self.ask("sem %s %s %s %d" % (mach, p, a, self.fuel))
            res.append(("%s:%s" % (stage, mach), norm_behaviour(line), line))
        for stage, arch in asm:
            if stage not in st or st[stage][0] != "OK":
                continue
            p = os.path.join(self.dir, "%s.asm" % stage)
            with open(p, "w") as f:
                f.write(self.asm_text(st, stage))
            line = self.ask("asm %s %s %s %d %s" % (arch, p, a, self.asm_fuel, mon))
            res.append(("%s:%s" % (stage, arch), norm_behaviour(line), line))
        return res

    def sequenced(self, st):
        if "S1" not in st or st["S1"][0] != "OK":
            return False
        line = self.ask("typ seq %s" % self.dump(st, "S1"))
        return line == "OK true"

    def typechecks(self, st, which=TYPECHECKS):
        out = []
        for stage, checker, owner in which:
            if stage not in st or st[stage][0] != "OK":
                continue
            line = self.ask("typ %s %s" % (checker, self.dump(st, stage)))
            ok = line in ("OK", "OK true")
            out.append((stage, checker, owner, ok, line))
        return out

    def close(self):
        self.h.close()
        self.m.close()


def disagreements(rungs, sequenced):
    """compare consecutive comparable rungs; yields (owner, labelA, labelB, behA, behB)"""
    out = []
    sem = [(l, b) for (l, b, raw) in rungs if not l.startswith("S7")]
    asm = [(l, b) for (l, b, raw) in rungs if l.startswith("S7")]

    def comparable(b):
        return b is not None and b[1] != "outOfFuel"

    def type_error(b):
        # stuck for a reason other than an arithmetic fault: the program at that stage is ill-typed / ill-scoped,
        # so it has no behaviour that LATER stages have to preserve (the step that produced it is to blame)
        return b[1].startswith("stuck") and b[1] not in ("stuck:divByZero", "stuck:overflow")

    prev = None
    for l, b in sem:
        if l == "S1:fun" and not sequenced:
            continue
        if not comparable(b):
            continue
        if prev is not None and type_error(prev[1]):
            break
        if prev is not None and prev[1] != b:
            owner = STEP_OWNER.get((prev[0], l), "C12")
            out.append((owner, prev[0], l, prev[1], b))
        prev = (l, b)
    pos = next(((l, b) for l, b in sem if l == "S5:pos" and comparable(b)), None)
    if pos and not type_error(pos[1]):  # a stuck AxCut program (ill-typed input) has no behaviour to preserve
        for l, b in asm:
            if b is None:
                continue  # the machine model did not answer in time / could not parse: not a semantic verdict
            elif comparable(b) and b != pos[1]:
                out.append((STEP_OWNER.get((pos[0], l), "C06"), pos[0], l, pos[1], b))
    return out
