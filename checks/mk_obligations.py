#!/usr/bin/env python3
"""(Re)generate obligations.json from the property files: every `theorem` declared in
lean/Scc/Props/<file>.lean (full names via the namespace stack) becomes an obligation of the
properties that file serves.  Run after adding/changing property files; the result is committed."""
import json, os, re
VERIF = os.path.dirname(os.path.dirname(os.path.abspath(__file__)))
PROPS = os.path.join(VERIF, "lean", "Scc", "Props")
# property -> list of (props file, extra modules that must build: the executable models the tie uses)
FILES = {
    "C02": [("C02", ["Scc.Fun2Core.Model", "Scc.Fun2Core.Hygiene", "Scc.Fun.Sem", "Scc.Core.Sem"]), ("C02Sem", ["Scc.Fun.MainCall"]), ("C02SemSafe", []), ("C02SemFull", []), ("FunSafety", [])],
    "C03": [("C03", ["Scc.Core.Uniquify", "Scc.Core.Focus", "Scc.Core.Sem", "Scc.Core.Unique"])],
    "C04": [("C04", ["Scc.Core2AxCut.Model", "Scc.Core2AxCut.FsTyping", "Scc.AxCut.SemNamed", "Scc.AxCut.TypingNamed"]), ("C04Sem", []), ("C04Strong", [])],
    "C05": [("C05", ["Scc.AxCut.Linearize", "Scc.AxCut.SemPos", "Scc.AxCut.LinTyping"]), ("C05Strong", [])],
    "C06": [("C06Generic", ["Scc.Backend.Generic", "Scc.Backend.Mock", "Scc.Backend.AbstractMachine"]), ("C06X86", ["Scc.X86.Backend", "Scc.X86.Machine"]), ("C06X86Heap", []), ("C06X86Full", []), ("C09Refine", [])],
    "C07": [("C06Generic", ["Scc.Backend.Generic"]), ("C07A64", ["Scc.A64.Backend", "Scc.A64.Machine"]), ("C07A64Int", []), ("C07A64Heap", []), ("C07A64Full", [])],
    "C08": [("C06Generic", ["Scc.Backend.Generic"]), ("C08RV", ["Scc.RV.Backend", "Scc.RV.Machine"]), ("C08RVInt", []), ("C08RVHeap", []), ("C08RVClo", [])],
    "C09": [("C09", ["Scc.Heap.Model", "Scc.Heap.Inv"]), ("C09Refine", []), ("C09X86", []), ("C09X86All", []), ("C09X86Mon", []), ("C09A64All", []), ("C09A64Mon", []), ("C09RVAll", [])],
    "C10": [("C10", ["Scc.Heap.Model"]), ("C10X86", []), ("C10X86All", []), ("C10A64All", []), ("C10RVAll", [])],
    "C13": [("C13X86", ["Scc.X86.Machine"]), ("C13A64", ["Scc.A64.Machine"]), ("C13Loader", []), ("C13X86Data", []), ("C13X86All", []), ("C13A64All", []), ("C13A64Div", []), ("C13X86Div", [])],
    "C14": [("C14Generic", []), ("C14X86", []), ("C14A64", []), ("C14RV", []), ("C14Loader", []), ("C14LoaderA64", []), ("C14LoaderA64Names", []), ("C14LoaderA64Compose", []), ("C14LoaderRV", []), ("C14X86Final", []), ("C14A64Final", []), ("C14RVFinal", [])],
    "C15": [("C15", ["Scc.Fun.Check", "Scc.Fun.Typing"])],
    "C16": [("C16", ["Scc.Fun.Lex", "Scc.Fun.Parse", "Scc.Fun.Print"]), ("C18Cur", ["Scc.Generated.Parser"])],
    "C18": [("C18", ["Scc.Fun.Parse"]), ("C18Cur", ["Scc.Generated.Parser"]), ("C12Codegen", []), ("C12Final", []), ("C18Fuel", []), ("FunSafety", [])],
    "C19": [("C19", ["Scc.Fun2Core.Size"]), ("C19Shrink", []), ("C19Rest", [])],
    # C12 = the chain of preservation/no-panic theorems of the individual passes
    "C12": [("C12Final", []), ("C12", ["Scc.Pipeline"]), ("C12Codegen", []), ("C12Fun2Core", []), ("C12Fun2CoreStrict", []), ("C12Mid", []), ("C15", ["Scc.Fun.Check"]), ("C02", ["Scc.Fun2Core.Model"]), ("C03", ["Scc.Core.Focus"]), ("C04", ["Scc.Core2AxCut.Model"]), ("C05", ["Scc.AxCut.Linearize"])],
    # C01 = composition theorem over the whole pipeline model + its links
    "C01": [("NonVacuity", []), ("C01End", []), ("C01Final", []), ("C01", ["Scc.Pipeline"]), ("C01Checks", []), ("C01Loader", []), ("C06Capacity", []), ("C06X86Heap", []), ("C12", []), ("C20Full", []), ("C02Sem", []), ("C02SemSafe", []), ("C02SemFull", []), ("C06X86Full", []), ("C03", []), ("C04Sem", []), ("C06Generic", [])],
}

def theorems(path):
    ns = []
    out = []
    for l in open(path).read().split("\n"):
        m = re.match(r"^namespace\s+(\S+)", l)
        if m:
            ns.append(m.group(1)); continue
        m = re.match(r"^end\s+(\S+)", l)
        if m and ns and ns[-1] == m.group(1):
            ns.pop(); continue
        m = re.match(r"^(?:@\[[^\]]*\]\s*)?theorem\s+([^\s:({\[]+)", l)
        if m:
            out.append(".".join(ns + [m.group(1)]))
    return out

def main():
    res = {}
    for prop, files in FILES.items():
        items = []
        for f, extra in files:
            p = os.path.join(PROPS, f + ".lean")
            if not os.path.exists(p):
                continue
            items.append({"modules": extra + ["Scc.Props." + f], "theorems": theorems(p)})
        if items:
            res[prop] = items
    json.dump(res, open(os.path.join(VERIF, "obligations.json"), "w"), indent=1)
    for k, v in res.items():
        print(k, sum(len(i["theorems"]) for i in v), "theorems in", [i["modules"][-1] for i in v])

if __name__ == "__main__":
    main()
