"""C01 — the compiled x86-64 executable behaves exactly like the source program (end to end)."""
import json
import os
import shutil
import subprocess

import common
import ladder
import native
import pipeline
import stagecheck
from common import Check, WORK


def main():
    chk = Check("C01", level="proof")
    obl = json.load(open(os.path.join(common.VERIF, "obligations.json"))).get("C01", [])
    chk.checker_cmd = "lake build " + " ".join(sorted({m for o in obl for m in o["modules"]})) + " sccmodel; lake env lean Scc/Audit/*.lean"
    chk.trusted = [
        "Lean 4.33 kernel; axioms propext, Classical.choice, Quot.sound only",
        "the composition is as strong as its links: C02 (hygiene proved, semantics by oracle), C03 (uniqueness proved; focusing semantics by oracle), C04 (no-panic/lifting proved; semantics by oracle), C05 (full), C06 (per-method contracts + generic simulation of heap-free statements; rest by oracle), C20 (full)",
        "GNU as, gcc, glibc, the Linux kernel (exit status) for the native runs; the NASM->GAS transliteration (syntax only; `jmp near` kept as 5-byte e9)",
        "Fun reference semantics Scc/Fun/Sem.lean (spec) on the effect-sequenced fragment; the Core sigma-machine otherwise",
    ]
    chk.assumptions = ["enough heap (32 MiB driver default)", "programs terminate within the fuel of the abstract machines"]
    chk.rule = (
        "every program is compiled by the REAL compiler to x86-64, assembled (GNU as), linked with the REAL io.c and the "
        "REAL generated C driver and run natively with decimal command-line arguments; stdout bytes and exit status "
        "must equal the rendering of the source semantics (Fun abstract machine for effect-sequenced programs, Core "
        "machine otherwise) through the decimal spec of C20 and `result mod 256`; inputs: repository examples and "
        "end-to-end tests with their expected outputs, corpus, boundary family, seeded generated programs; "
        "non-trivial = distinct (program, argument tuple) that terminates"
    )
    ok_h, herr = common.build_harness()
    chk.obligation("build:harness", "build", ok_h, herr[-300:])
    okm, outm = common.lake_build(["sccmodel"])
    chk.obligation("build:sccmodel", "build", okm, outm[-400:])
    proofs_ok = True
    plog = ""
    for o in obl:
        okp, _, out = common.prove(chk, "C01", o["modules"], o["theorems"])
        proofs_ok = proofs_ok and okp
        plog += out[-1500:]
    found = False
    if ok_h and okm:
        quick = chk.tier == "quick"
        lad = ladder.Ladder("C01")
        d = os.path.join(WORK, "c01")
        shutil.rmtree(d, ignore_errors=True)
        os.makedirs(d)
        bdir = os.path.join(WORK, "boundary_C01")
        subprocess.run(["python3", os.path.join(common.VERIF, "gen", "gen_boundary.py"), bdir], check=True, capture_output=True)
        files = sorted(os.path.join(bdir, f) for f in os.listdir(bdir) if f.endswith(".sc"))
        if quick:
            files = files[::4]
        files += pipeline.repo_programs() + pipeline.corpus_programs("sem") + pipeline.corpus_programs("fun2core")[:: (3 if quick else 1)]
        files += [f for f, _ in stagecheck.inputs(chk, 40 if quick else 1000) if "/gen_C01/" in f or "/shapes_C01/" in f]
        files = pipeline.corpus_programs("regress") + [f for f in files if "/corpus/regress/" not in f]
        drivers = {}
        links = {}
        tags = {}
        link_fail = []
        e2e_n = 0
        for path in files:
            if "/corpus/regress/" in path:
                lad.h.close()
                lad.h = common.harness()  # minimised past failures: replayed in a fresh compiler process
            st = lad.stages(path)
            if st is None or "S7x" not in st or st["S7x"][0] != "OK":
                continue
            np_ = stagecheck.main_params(st)
            if np_ is None or np_ > 5:
                continue
            # --- tie of the COMPOSED model (Scc/Pipeline.lean, the object of C01_composition) with the real compiler:
            #     S1 dump -> x86-64 routine text must be the implementation's text (labels canonicalised)
            mo = lad.ask("pipeline %s 1 0" % lad.dump(st, "S1"))
            chk.corr["compared"] += 1
            tn = common.mangled_type_names(st["S5"][1]) if "S5" in st and st["S5"][0] == "OK" else set()
            mod_text = mo.split("\n", 1)[1] if mo and mo.startswith("OK ") and "\n" in mo else (mo or "")
            if common.strip_comments(common.canon_labels(st["S7x"][1], tn)) != common.strip_comments(common.canon_labels(mod_text, tn)):
                if lad.ask("typ labelsafe %s" % lad.dump(st, "S5")) != "OK false":
                    chk.corr["disagreements"] += 1
                    chk.model_disagreements.append({"file": path, "pass": "pipeline(S1->x86 text)", "model": (mo or "")[:200]})
            # --- decidable content of the hypotheses of C01_composition (links) on this program
            ln = lad.ask("links %s" % path)
            links["OK" if ln and ln.startswith("OK") else (ln or "none").split(" ")[0]] = links.get("OK" if ln and ln.startswith("OK") else (ln or "none").split(" ")[0], 0) + 1
            for tag_ in (ln or "").split()[1:] if ln and ln.startswith("OK") else []:
                tags[tag_] = tags.get(tag_, 0) + 1
            if ln and ln.startswith("FAIL") and not ('(call "main"' in st["S1"][1] and lad.ask("typ nomaincall %s" % lad.dump(st, "S1")) == "OK false"):
                link_fail.append({"file": path, "links": ln[:200]})
            okA, msg, obj = native.assemble_x86(st["S7x"][1], d)
            if not okA:
                found = True
                unsafe = ("already defined" in msg or "redefin" in msg) and "S5" in st and lad.ask("typ labelsafe %s" % lad.dump(st, "S5")) == "OK false"
                chk.violation("asm:label-collision:unsafe-names" if unsafe else "C01:as-rejects", "GNU as rejects the x86-64 text of %s: %s" % (os.path.basename(path), msg[:200]), "as_%s.txt" % os.path.basename(path), "file=%s\nassembler:\n%s\n" % (path, msg))
                continue
            if np_ not in drivers:
                drivers[np_] = native.real_driver(lad.h, np_, common.WORK)
            okL, msgL, exe = native.link_x86(obj, drivers[np_], d)
            if not okL:
                found = True
                chk.violation("C01:link", "linking %s fails: %s" % (os.path.basename(path), msgL[:200]), "link_%s.txt" % os.path.basename(path), msgL)
                continue
            seq = lad.sequenced(st)
            for args in stagecheck.args_for(path, np_, chk.rng):
                ref_stage, ref_mach = ("S1", "fun") if seq else ("S2", "core")
                rungs = lad.run_rungs(st, args, rungs=[(ref_stage, ref_mach)], asm=[])
                if not rungs or rungs[0][1] is None:
                    continue
                out, res = rungs[0][1]
                if not res.startswith("done:"):
                    continue  # source semantics undefined (stuck) or out of fuel: outside the property
                chk.count((path, tuple(args)))
                exp_out = native.render_trace(out)
                exp_status = int(res[5:]) % 256
                got_out, got_status = native.run(exe, args)
                if got_out != exp_out or got_status != exp_status:
                    found = True
                    chk.impl_oracle_failures.append({"file": path, "args": args, "expected": [exp_out.decode(errors="replace")[:80], exp_status], "got": [got_out.decode(errors="replace")[:80], got_status]})
                    mc = '(call "main"' in st["S1"][1] and lad.ask("typ nomaincall %s" % lad.dump(st, "S1")) == "OK false"
                    chk.violation("fun2core:main-called" if mc else "C01:native-differs", "%s args %s: native stdout/status %r/%s, source semantics (%s machine) %r/%s" % (os.path.basename(path), args, got_out[:60], got_status, ref_mach, exp_out[:60], exp_status),
                                  "native_%s.txt" % os.path.basename(path), "file=%s\nargs=%s\nreference=%s\nexpected_stdout=%r\nexpected_status=%d\nnative_stdout=%r\nnative_status=%s\nsource:\n%s\n" % (path, args, ref_mach, exp_out, exp_status, got_out, got_status, open(path).read()))
                # --- model-only instance of C01_statement on a sample: source run = x86 machine run = native rendering
                mc_ = '(call "main"' in st["S1"][1] and lad.ask("typ nomaincall %s" % lad.dump(st, "S1")) == "OK false"
                if not mc_ and (e2e_n < (25 if quick else 400) and "/gen_C01/" not in path or e2e_n < 5):
                    e2e_n += 1
                    el = lad.ask("e2e %s %s %d %d" % (path, ",".join(str(x) for x in args) if args else "-", lad.fuel, lad.asm_fuel))
                    mm = __import__("re").match(r"SRC (.*) X86 (.*) NATIVE (.*)$", el or "", __import__("re").S)
                    chk.corr["compared"] += 1
                    if not mm or mm.group(1).strip() != mm.group(2).strip():
                        if not (mm and "outOfFuel" in mm.group(2)):
                            chk.corr["disagreements"] += 1
                            chk.model_disagreements.append({"file": path, "args": args, "pass": "e2e(model only)", "model": (el or "")[:300]})
                chk.sample({"file": os.path.basename(path), "args": args, "stdout": exp_out.decode(errors="replace")[:60], "status": exp_status}, limit=4)
        lad.close()
        shutil.rmtree(os.path.join(common.WORK, "target_scc"), ignore_errors=True)
    if ok_h and okm:
        chk.notes["links_histogram"] = links
        chk.notes["links_tags"] = tags  # frag = inside the fragment where the fun2core simulation is a THEOREM; int = the x86 link is a theorem too
        chk.obligation("links:hypotheses of C01_composition hold on every accepted program of the run (decidable content)", "correspondence", not link_fail, json.dumps(link_fail[:3])[:400])
        chk.obligation("corr:composed model (Scc.Pipeline) vs real compiler, S1 -> x86-64 text; model-only end-to-end instances", "correspondence", chk.corr["disagreements"] == 0, "%d compared, %d disagreements" % (chk.corr["compared"], chk.corr["disagreements"]))
        if link_fail or chk.corr["disagreements"]:
            proofs_ok = False
            plog += json.dumps(link_fail[:5]) + json.dumps(chk.model_disagreements[:5])
    if not proofs_ok and not chk.has_failing_input():
        what = [("%s (%s): %s" % (n, r, dd)) for n, r, ok, dd in chk.obligations if not ok]
        chk.violation("C01:unproved", "proof obligations, links or correspondence broken, no failing run found: " + "; ".join(what)[:600], "unproved.txt", "\n".join(what) + "\n" + plog[-3000:], found_input=False)
    return chk.finish()


if __name__ == "__main__":
    raise SystemExit(main())
