"""C01 — the compiled x86-64 executable behaves exactly like the source program (end to end)."""
import json
import os
import shutil
import subprocess

import common
import ladder
import native
import pipeline
import stagecheck
from common import Check, WORK


def main():
    chk = Check("C01", level="proof")
    obl = json.load(open(os.path.join(common.VERIF, "obligations.json"))).get("C01", [])
    chk.checker_cmd = "lake build " + " ".join(sorted({m for o in obl for m in o["modules"]})) + " sccmodel; lake env lean Scc/Audit/*.lean"
    chk.trusted = [
        "Lean 4.33 kernel; axioms propext, Classical.choice, Quot.sound only",
        "the composition is as strong as its links: C02 (hygiene proved, semantics by oracle), C03 (uniqueness proved; focusing semantics by oracle), C04 (no-panic/lifting proved; semantics by oracle), C05 (full), C06 (per-method contracts + generic simulation of heap-free statements; rest by oracle), C20 (full)",
        "GNU as, gcc, glibc, the Linux kernel (exit status) for the native runs; the NASM->GAS transliteration (syntax only; `jmp near` kept as 5-byte e9)",
        "Fun reference semantics Scc/Fun/Sem.lean (spec) on the effect-sequenced fragment; the Core sigma-machine otherwise",
    ]
    chk.assumptions = ["enough heap (32 MiB driver default)", "programs terminate within the fuel of the abstract machines"]
    chk.rule = (
        "every program is compiled by the REAL compiler to x86-64, assembled (GNU as), linked with the REAL io.c and the "
        "REAL generated C driver and run natively with decimal command-line arguments; stdout bytes and exit status "
        "must equal the rendering of the source semantics (Fun abstract machine for effect-sequenced programs, Core "
        "machine otherwise) through the decimal spec of C20 and `result mod 256`; inputs: repository examples and "
        "end-to-end tests with their expected outputs, corpus, boundary family, seeded generated programs; "
        "non-trivial = distinct (program, argument tuple) that terminates"
    )
    ok_h, herr = common.build_harness()
    chk.obligation("build:harness", "build", ok_h, herr[-300:])
    okm, outm = common.lake_build(["sccmodel"])
    chk.obligation("build:sccmodel", "build", okm, outm[-400:])
    proofs_ok = True
    plog = ""
    for o in obl:
        okp, _, out = common.prove(chk, "C01", o["modules"], o["theorems"])
        proofs_ok = proofs_ok and okp
        plog += out[-1500:]
    found = False
    if ok_h and okm:
        quick = chk.tier == "quick"
        lad = ladder.Ladder("C01")
        d = os.path.join(WORK, "c01")
        shutil.rmtree(d, ignore_errors=True)
        os.makedirs(d)
        bdir = os.path.join(WORK, "boundary_C01")
        subprocess.run(["python3", os.path.join(common.VERIF, "gen", "gen_boundary.py"), bdir], check=True, capture_output=True)
        files = sorted(os.path.join(bdir, f) for f in os.listdir(bdir) if f.endswith(".sc"))
        if quick:
            files = files[::4]
        files += pipeline.repo_programs() + pipeline.corpus_programs("sem") + pipeline.corpus_programs("fun2core")[:: (3 if quick else 1)]
        files += [f for f, _ in stagecheck.inputs(chk, 40 if quick else 1000) if "/gen_C01/" in f]
        drivers = {}
        for path in files:
            st = lad.stages(path)
            if st is None or "S7x" not in st or st["S7x"][0] != "OK":
                continue
            np_ = stagecheck.main_params(st)
            if np_ is None or np_ > 5:
                continue
            okA, msg, obj = native.assemble_x86(st["S7x"][1], d)
            if not okA:
                found = True
                chk.violation("C01:as-rejects", "GNU as rejects the x86-64 text of %s: %s" % (os.path.basename(path), msg[:200]), "as_%s.txt" % os.path.basename(path), "file=%s\nassembler:\n%s\n" % (path, msg))
                continue
            if np_ not in drivers:
                drivers[np_] = native.real_driver(lad.h, np_, common.WORK)
            okL, msgL, exe = native.link_x86(obj, drivers[np_], d)
            if not okL:
                found = True
                chk.violation("C01:link", "linking %s fails: %s" % (os.path.basename(path), msgL[:200]), "link_%s.txt" % os.path.basename(path), msgL)
                continue
            seq = lad.sequenced(st)
            for args in stagecheck.args_for(path, np_, chk.rng):
                ref_stage, ref_mach = ("S1", "fun") if seq else ("S2", "core")
                rungs = lad.run_rungs(st, args, rungs=[(ref_stage, ref_mach)], asm=[])
                if not rungs or rungs[0][1] is None:
                    continue
                out, res = rungs[0][1]
                if not res.startswith("done:"):
                    continue  # source semantics undefined (stuck) or out of fuel: outside the property
                chk.count((path, tuple(args)))
                exp_out = native.render_trace(out)
                exp_status = int(res[5:]) % 256
                got_out, got_status = native.run(exe, args)
                if got_out != exp_out or got_status != exp_status:
                    found = True
                    chk.impl_oracle_failures.append({"file": path, "args": args, "expected": [exp_out.decode(errors="replace")[:80], exp_status], "got": [got_out.decode(errors="replace")[:80], got_status]})
                    chk.violation("C01:native-differs", "%s args %s: native stdout/status %r/%s, source semantics (%s machine) %r/%s" % (os.path.basename(path), args, got_out[:60], got_status, ref_mach, exp_out[:60], exp_status),
                                  "native_%s.txt" % os.path.basename(path), "file=%s\nargs=%s\nreference=%s\nexpected_stdout=%r\nexpected_status=%d\nnative_stdout=%r\nnative_status=%s\nsource:\n%s\n" % (path, args, ref_mach, exp_out, exp_status, got_out, got_status, open(path).read()))
                chk.sample({"file": os.path.basename(path), "args": args, "stdout": exp_out.decode(errors="replace")[:60], "status": exp_status}, limit=4)
        lad.close()
        shutil.rmtree(os.path.join(common.WORK, "target_scc"), ignore_errors=True)
    if not proofs_ok and not found:
        what = [("%s (%s): %s" % (n, r, dd)) for n, r, ok, dd in chk.obligations if not ok]
        chk.violation("C01:unproved", "proof obligations broken, no failing run found: " + "; ".join(what)[:600], "unproved.txt", "\n".join(what) + "\n" + plog[-3000:], found_input=False)
    return chk.finish()


if __name__ == "__main__":
    raise SystemExit(main())
