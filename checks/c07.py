import axcheck


def main():
    return axcheck.run("C07")
