"""C20 — runtime contract: print primitives, argument conversion, argc check, exit status."""
import os
import shutil
import subprocess

import common
from common import Check, REPO, WORK, log
import regen

THEOREMS_ALWAYS = [
    "Scc.Props.C20_print_partial",
    "Scc.Props.C20_print_any_cap",
    "Scc.Props.C20_cap_iff",
    "Scc.Props.C20_cap19_insufficient",
    "Scc.Props.C20_print_fixed_full",
    "Scc.Props.C20_arg_partial",
    "Scc.Props.C20_strtoll_full",
    "Scc.Props.C20_wrong_argc",
    "Scc.Props.C20_exit_status",
    "Scc.Props.C20_exit_status_lt",
    "Scc.Props.C20_driver_roundtrip",
]
THEOREMS_CUR = ["Scc.Props.C20_cap_sufficient", "Scc.Props.C20_current_partial"]
THEOREMS_FULL = [
    "Scc.Props.C20_neg_style_safe",
    "Scc.Props.C20_arg_conv_wide",
    "Scc.Props.C20_current_full",
]

TEST_MAIN = r"""
#include <stdint.h>
#include <stdio.h>
#include <stdlib.h>
#include <string.h>
#include <unistd.h>
void print_i64(int64_t value) asm("print_i64");
void println_i64(int64_t value) asm("println_i64");
int main(void) {
  char line[128];
  while (fgets(line, sizeof line, stdin)) {
    int nl = line[0] == 'L';
    int64_t v = (int64_t)strtoull(line + 2, NULL, 10); /* value given as unsigned bit pattern */
    int fds[2];
    if (pipe(fds)) return 2;
    fflush(stdout);
    int saved = dup(1);
    dup2(fds[1], 1);
    if (nl) println_i64(v); else print_i64(v);
    dup2(saved, 1);
    close(saved);
    close(fds[1]);
    unsigned char buf[256];
    ssize_t n = read(fds[0], buf, sizeof buf);
    close(fds[0]);
    for (ssize_t i = 0; i < n; i++) printf("%02x", buf[i]);
    printf("\n");
  }
  return 0;
}
"""


def stub_asm_main(n):
    params = "".join(", int64_t a%d" % i for i in range(1, n + 1))
    body = "".join("  println_i64(a%d);\n" % i for i in range(1, n + 1))
    ret = "a%d" % n if n else "42"
    return (
        "#include <stdint.h>\nvoid println_i64(int64_t value) asm(\"println_i64\");\n"
        "int asm_main(void *heap%s) asm(\"asm_main\");\n"
        "int asm_main(void *heap%s) {\n  (void)heap;\n%s  return (int)%s;\n}\n" % (params, params, body, ret)
    )


def to_signed(u):
    return u - (1 << 64) if u >= (1 << 63) else u


def value_set(chk):
    vals = set()
    for k in range(0, 20):
        p = 10**k
        for d in (-1, 0, 1):
            for s in (1, -1):
                v = s * (p + d)
                if -(1 << 63) <= v < (1 << 63):
                    vals.add(v)
    for k in range(0, 64):
        p = 1 << k
        for d in (-1, 0, 1):
            for s in (1, -1):
                v = s * (p + d)
                if -(1 << 63) <= v < (1 << 63):
                    vals.add(v)
    vals.update([0, -(1 << 63), (1 << 63) - 1, -(1 << 63) + 1, -9, 9, -10, 10])
    n_random = 300 if chk.tier == "quick" else 20000
    for _ in range(n_random):
        bits = chk.rng.choice([8, 16, 31, 32, 33, 40, 48, 56, 62, 63, 64])
        u = chk.rng.getrandbits(bits)
        v = to_signed(u) if bits == 64 else u * chk.rng.choice([1, -1])
        vals.add(v)
    return sorted(vals)


def hexs(b):
    return b.hex()


def dec(v):
    return str(v).encode()


def main():
    chk = Check("C20", level="proof")
    chk.checker_cmd = "lake build Scc.Props.C20 Scc.Props.C20Cur Scc.Props.C20Full sccmodel; lake env lean Scc/Audit/*.lean"
    chk.trusted = [
        "Lean 4.33 kernel; axioms propext, Classical.choice, Quot.sound only",
        "bin/regen (regex extraction of MAX_DIGITS_INT, negation style of io.c, argv conversion in generate_c_driver)",
        "gcc + glibc (strtoll/atoi, write) used to run io.c and the generated driver natively; OS exit-status truncation",
        "hand-written Lean model of io.c / driver-template.c, tied by differential execution on boundary + random values",
    ]
    chk.assumptions = [
        "C semantics: signed overflow is undefined behaviour (model outcome `ub`)",
        "the register shuffle move_arguments is exercised through the real prologue: x86-64 natively for 0..5 parameters, AArch64 on the machine model for 0..7",
    ]
    chk.rule = (
        "values: all 10^k+-1, 2^k+-1 with both signs, i64 extremes, plus seeded random bit patterns of "
        "8..64 bits; each through print_i64 and println_i64 of the real io.c (native) and the Lean model; "
        "argument strings: decimal renderings of the same values through the real generated driver for "
        "0..5 parameters; non-trivial = distinct (function,value) or (n,args) tuple"
    )
    work = os.path.join(WORK, "c20")
    shutil.rmtree(work, ignore_errors=True)
    os.makedirs(work)

    # 1 translator
    facts, errors = regen.regen(["runtime"])
    chk.notes["generated_facts"] = facts
    chk.obligation("regen:runtime", "translator", not errors, str(errors))

    # 2 build + theorems
    ok_h, herr = common.build_harness()
    chk.obligation("build:harness", "build", ok_h, herr[-300:])
    okm, outm = common.lake_build(["sccmodel"])
    chk.obligation("build:sccmodel", "build", okm, outm[-300:])
    ok1, _, out1 = common.prove(chk, "C20", ["Scc.Runtime.Model", "Scc.Runtime.Proofs", "Scc.Props.C20"], THEOREMS_ALWAYS)
    ok2, _, out2 = common.prove(chk, "C20", ["Scc.Runtime.Current", "Scc.Props.C20Cur"], THEOREMS_CUR)
    ok3, _, out3 = common.prove(chk, "C20", ["Scc.Props.C20Full"], THEOREMS_FULL, role="full-theorem")
    # every decimal SPELLING of an argument (sign, leading zeros, leading blanks) reaches the parameter: Props/C20Spelling.lean
    import mk_obligations

    sp_file = os.path.join(common.LEAN, "Scc", "Props", "C20Spelling.lean")
    if os.path.exists(sp_file):
        ok4, _, out4 = common.prove(chk, "C20", ["Scc.Props.C20Spelling"], mk_obligations.theorems(sp_file))
        ok3 = ok3 and ok4
        out3 += out4
    proofs_ok = ok1 and ok2 and ok3 and not errors

    # 3 correspondence + oracle: io.c natively
    found_failing = False
    io_c = os.path.join(REPO, "lang/driver/infrastructure/io.c")
    open(os.path.join(work, "test_main.c"), "w").write(TEST_MAIN)
    rc, out, err = common.run(["gcc", "-O0", "-o", "io_test", "test_main.c", io_c], cwd=work)
    chk.obligation("build:io.c", "build", rc == 0, err[-300:])
    vals = value_set(chk)
    if rc == 0 and okm:
        req = "".join("%s %d\n" % (k, v & ((1 << 64) - 1)) for v in vals for k in ("P", "L"))
        p = subprocess.run([os.path.join(work, "io_test")], input=req, capture_output=True, text=True, timeout=600)
        impl = p.stdout.split("\n")
        m = common.model()
        i = 0
        for v in vals:
            for k, cmd, tail in (("P", "printcur", b""), ("L", "printlncur", b"\n")):
                got = impl[i] if i < len(impl) else "<no output>"
                i += 1
                chk.count((k, v))
                spec = hexs(dec(v) + tail)
                mod = (m.ask("rt %s %d" % (cmd, v)) or ["<model died>"])[0]
                chk.corr["compared"] += 1
                if got != spec:
                    found_failing = True
                    chk.impl_oracle_failures.append({"fn": cmd, "value": v, "impl": got, "spec": spec})
                    key = "io.c:print:INT64_MIN" if v == -(1 << 63) else "io.c:print:wrong-bytes"
                    chk.violation(
                        key,
                        "%s(%d) writes %s, decimal spec is %s" % ("println_i64" if k == "L" else "print_i64", v, got, spec),
                        "print_%s_%d.txt" % (k, v & ((1 << 64) - 1)),
                        "value=%d\nfunction=%s\nimpl_bytes_hex=%s\nspec_bytes_hex=%s\nmodel=%s\nreplay: compile lang/driver/infrastructure/io.c with a main calling the function on the value\n"
                        % (v, "println_i64" if k == "L" else "print_i64", got, spec, mod),
                    )
                if not mod.startswith("UB") and mod != got:
                    chk.corr["disagreements"] += 1
                    chk.model_disagreements.append({"fn": cmd, "value": v, "impl": got, "model": mod})
        chk.sample({"fn": "println_i64", "value": vals[len(vals) // 2], "spec_hex": hexs(dec(vals[len(vals) // 2]) + b"\n")})
        m.close()

    # 4 the generated driver, natively, with a stub asm_main
    if ok_h and okm:
        h = common.harness(cwd=work)
        m = common.model()
        arg_vals = [v for v in vals if chk.rng.random() < (0.15 if chk.tier == "quick" else 0.5)]
        arg_vals += [0, 1, -1, (1 << 31) - 1, 1 << 31, -(1 << 31), -(1 << 31) - 1, (1 << 32) + 5, (1 << 63) - 1, -(1 << 63)]
        for n in range(0, 6):
            shutil.rmtree(os.path.join(work, "target_scc"), ignore_errors=True)
            rep = h.ask("cdriver %d" % n)
            if not rep or not rep[0].startswith("CDRIVER "):
                chk.obligation("driver:%d" % n, "build", False, str(rep)[:200])
                continue
            text = common.sx_parse(rep[0][len("CDRIVER "):])[1]
            open(os.path.join(work, "driver%d.c" % n), "w").write(text)
            open(os.path.join(work, "stub%d.c" % n), "w").write(stub_asm_main(n))
            rc, out, err = common.run(["gcc", "-O0", "-o", "drv%d" % n, "driver%d.c" % n, "stub%d.c" % n, io_c], cwd=work)
            chk.obligation("build:driver%d" % n, "build", rc == 0, err[-300:])
            if rc != 0:
                continue
            exe = os.path.join(work, "drv%d" % n)
            # wrong argument counts
            for k in range(0, 8):
                if k == n:
                    continue
                p = subprocess.run([exe] + ["7"] * k, capture_output=True, timeout=60)
                chk.count(("argc", n, k))
                if p.returncode != 1 or p.stdout != b"wrong number of arguments\n\x00":
                    found_failing = True
                    chk.violation("driver:argc", "driver for %d parameters run with %d arguments: status %d stdout %r" % (n, k, p.returncode, p.stdout[:60]),
                                  "argc_%d_%d.txt" % (n, k), "params=%d\nargs=%d\nstatus=%d\nstdout=%r\n" % (n, k, p.returncode, p.stdout))
            tuples = [[chk.rng.choice(arg_vals) for _ in range(n)] for _ in range(12 if chk.tier == "quick" else 200)] if n else [[]]
            for tup in tuples:
                p = subprocess.run([exe] + [str(v) for v in tup], capture_output=True, timeout=60)
                chk.count(("args", n, tuple(tup)))
                exp_out = b"".join(dec(v) + b"\n" for v in tup)
                last = tup[-1] if tup else 42
                exp_status = last % 256
                got_vals = p.stdout.decode(errors="replace").split("\n")[:-1]
                # model correspondence: what does the model say each argument becomes?
                for idx, v in enumerate(tup):
                    mv = (m.ask("rt argcur %s" % dec(v).hex()) or ["<died>"])[0]
                    chk.corr["compared"] += 1
                    if idx < len(got_vals) and mv != got_vals[idx]:
                        chk.corr["disagreements"] += 1
                        chk.model_disagreements.append({"arg": v, "impl": got_vals[idx], "model": mv})
                if p.stdout != exp_out or p.returncode != exp_status:
                    found_failing = True
                    bad = [v for idx, v in enumerate(tup) if idx >= len(got_vals) or got_vals[idx] != str(v)]
                    key = "driver:arg:beyond-i32" if bad and all(not (-(1 << 31) <= v < (1 << 31)) for v in bad) else "driver:arg-or-status"
                    chk.violation(key, "driver(%d params) args %s: main received %s, exit status %d (expected %d)" % (n, tup, got_vals, p.returncode, exp_status),
                                  "args_%d_%s.txt" % (n, "_".join(str(v & ((1 << 64) - 1)) for v in tup)),
                                  "params=%d\nargs=%s\nreceived=%s\nstatus=%d\nexpected_status=%d\nreplay: generate_c_driver(%d) + stub asm_main printing its arguments and returning the last one\n" % (n, tup, got_vals, p.returncode, exp_status, n))
            chk.sample({"driver_params": n, "args": tuples[0]})
        h.close()
        m.close()
        shutil.rmtree(os.path.join(work, "target_scc"), ignore_errors=True)

    # 5 arguments reach main's parameters unchanged and in order, through the REAL generated prologue
    #   x86-64: 0..5 parameters, run natively (real driver, real io.c); AArch64: 0..7 parameters on the machine model
    if ok_h and okm:
        import native
        import pipeline

        h = common.harness(cwd=work)
        m = common.model()
        for n in range(0, 8):
            params = ", ".join("p%d: i64" % i for i in range(1, n + 1))
            body = " ".join("println_i64(p%d);" % i for i in range(1, n + 1))
            src = "def main(%s): i64 { %s %s }\n" % (params, body, "p1" if n else "42")
            sp = os.path.join(work, "args%d.sc" % n)
            open(sp, "w").write(src)
            st = pipeline.parse_stages(h.ask("stages %s 6" % sp) or [])
            tuples = [[chk.rng.choice([0, 1, -1, 7, (1 << 31), -(1 << 31) - 1, (1 << 63) - 1, -(1 << 63), 10**18, -(10**18)]) for _ in range(n)] for _ in range(4 if chk.tier == "quick" else 40)] if n else [[]]
            tuples.append(list(range(1, n + 1)))
            # non-canonical DECIMAL spellings of the arguments (leading zeros, explicit plus sign): "given in
            # decimal" does not mean "canonically formatted"
            spelled = []
            if 1 <= n <= 3:
                for sp in (["010", "-0020", "+7"], ["0000000000000000001", "-01000", "+0777"], ["08", "-09", "+0"], ["00", "-0", "009"]):
                    spelled.append(sp[:n])
            if n <= 5 and "S7x" in st and st["S7x"][0] == "OK":
                okA, msg, obj = native.assemble_x86(st["S7x"][1], work, "args%d" % n)
                drv = native.real_driver(h, n, work)
                okL, msgL, exe = native.link_x86(obj, drv, work, "argsexe%d" % n) if okA and drv else (False, msg, None)
                chk.obligation("build:x86-args%d" % n, "build", okL, (msgL or "")[:200])
                for sp in spelled if okL else []:
                    out, status = native.run(exe, sp)
                    vals = [int(x) for x in sp]
                    chk.count(("x86-args-spelled", n, tuple(sp)))
                    exp = b"".join(dec(v) + b"\n" for v in vals)
                    if out != exp or status != vals[0] % 256:
                        found_failing = True
                        chk.impl_oracle_failures.append({"arch": "x86", "n": n, "argv": sp, "stdout": out.decode(errors="replace")[:120], "status": status})
                        chk.violation("args:x86:decimal-spelling", "x86-64 main with %d parameters run with argv %s prints %r, exit %s (decimal values %s)" % (n, sp, out[:80], status, vals),
                                      "args_spelled_%d.txt" % n, "params=%d\nargv=%s\nstdout=%r\nstatus=%s\nexpected stdout=%r status=%d\nsource:\n%s\n" % (n, sp, out, status, exp, vals[0] % 256, src))
                        break
                for tup in tuples if okL else []:
                    out, status = native.run(exe, tup)
                    chk.count(("x86-args", n, tuple(tup)))
                    exp = b"".join(dec(v) + b"\n" for v in tup)
                    exp_status = (tup[0] if n else 42) % 256
                    if out != exp or status != exp_status:
                        found_failing = True
                        chk.impl_oracle_failures.append({"arch": "x86", "n": n, "args": tup, "stdout": out.decode(errors="replace")[:120], "status": status})
                        chk.violation("args:x86:wrong-parameter", "x86-64 main with %d parameters run with %s prints %r, exit %s" % (n, tup, out[:80], status),
                                      "args_x86_%d.txt" % n, "params=%d\nargs=%s\nstdout=%r\nstatus=%s\nexpected stdout=%r status=%d\nsource:\n%s" % (n, tup, out, status, exp, exp_status, src))
                        break
            if "S7a" in st and st["S7a"][0] == "OK":
                ap = os.path.join(work, "args%d.a64.asm" % n)
                open(ap, "w").write(st["S7a"][1])
                for tup in tuples:
                    a = ",".join(str(v) for v in tup) if tup else "-"
                    line = (m.ask("asm a64 %s %s 100000 none" % (ap, a)) or ["DIED"])[0]
                    chk.count(("a64-args", n, tuple(tup)))
                    exp_out = ",".join("1:%d" % v for v in tup)
                    exp_res = "done:%d" % (tup[0] if n else 42)
                    if ("out=[%s]" % exp_out) not in line or ("res=%s " % exp_res) not in line + " ":
                        found_failing = True
                        chk.impl_oracle_failures.append({"arch": "a64", "n": n, "args": tup, "machine": line[:200]})
                        chk.violation("args:a64:wrong-parameter", "AArch64 main with %d parameters run with %s on the machine model: %s" % (n, tup, line[:160]),
                                      "args_a64_%d.txt" % n, "params=%d\nargs=%s\nmachine=%s\nexpected out=[%s] res=%s\nsource:\n%s" % (n, tup, line, exp_out, exp_res, src))
                        break
            elif n <= 7:
                chk.obligation("codegen:a64-args%d" % n, "build", False, str(st.get("S7a"))[:200])
        h.close()
        m.close()
        shutil.rmtree(os.path.join(work, "target_scc"), ignore_errors=True)

    chk.obligation("corr:runtime-model-vs-native", "correspondence", chk.corr["disagreements"] == 0,
                   "%d compared, %d disagreements" % (chk.corr["compared"], chk.corr["disagreements"]))
    if (not proofs_ok or chk.corr["disagreements"]) and not chk.has_failing_input():
        what = []
        if errors:
            what.append("translator: %s" % errors)
        for name, role, ok, detail in chk.obligations:
            if not ok:
                what.append("%s (%s): %s" % (name, role, detail))
        chk.violation("C20:unproved", "proof obligations or correspondence broken, no failing value found: " + "; ".join(what)[:500],
                      "unproved.txt", "\n".join(what) + "\n\n" + (out1 + out2 + out3)[-3000:], found_input=False)
    return chk.finish()


if __name__ == "__main__":
    raise SystemExit(main())
