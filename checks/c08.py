import axcheck


def main():
    return axcheck.run("C08")
