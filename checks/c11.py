"""C11 — explicit substitutions are compiled as simultaneous assignments."""
import itertools
import os
import re

import common
from common import Check, WORK

THEOREMS = [
    "Scc.Props.C11.C11_parallelMoves_correct",
    "Scc.Props.C11.C11_fuel_suffices",
    "Scc.Props.C11.C11_each_target_written_once",
    "Scc.Props.C11.C11_x86_correct",
    "Scc.Props.C11.C11_aarch64_correct",
    "Scc.Props.C11.C11_rv64_correct",
    "Scc.Props.C11.C11_x86_containsSpillEdge_complete",
    "Scc.Props.C11.C11_checkers_true",
    "Scc.Props.C11.C11_refcount_ops",
    "Scc.Props.C11.C11_refcount_temporaries",
    "Scc.Props.C11.C11_connections_wellformed",
    "Scc.Props.C11.C11_substitution_correct",
    "Scc.Props.C11.C11_substitution_x86",
    "Scc.Props.C11.C11_substitution_aarch64",
    "Scc.Props.C11.C11_substitution_rv64",
]

# the reference-count clause on an abstract count store (Props/C11Counts.lean)
THEOREMS_COUNTS = [
    "Scc.Props.C11.C11_counts",
    "Scc.Props.C11.C11_counts_untouched",
    "Scc.Props.C11.C11_erase_once",
    "Scc.Props.C11.C11_no_erase_of_kept",
    "Scc.Props.C11.C11_share_ops",
    "Scc.Props.C11.C11_counts_balance",
    "Scc.Props.C11.C11_new_variable_holds",
    "Scc.Props.C11.C11_erase_once_backends",
]

X86_REGS = ["rsp", "rcx", "rbx", "rbp", "rax", "rdx", "rsi", "rdi", "r8", "r9", "r10", "r11", "r12", "r13", "r14", "r15"]
SPILL_SPACE = 2048  # cross-checked against the generated constants by C06/C13 (config.rs SPILL_NUM * 8)


def slot_of(off):
    return (SPILL_SPACE - int(off)) // 8 - 1


def conv_x86(text):
    """real printed x86 instructions -> the model's notation"""
    out = []
    for ins in text.split("|"):
        ins = ins.strip()
        if not ins:
            continue
        m = re.fullmatch(r"; (.*)", ins)
        if m:
            out.append("COMMENT " + m.group(1))
            continue
        m = re.fullmatch(r"mov (\w+), (\w+)", ins)
        if m and m.group(1) in X86_REGS and m.group(2) in X86_REGS:
            out.append("MOV %d %d" % (X86_REGS.index(m.group(1)), X86_REGS.index(m.group(2))))
            continue
        m = re.fullmatch(r"mov (\w+), \[rsp \+ (\d+)\]", ins)
        if m and m.group(1) in X86_REGS:
            out.append("MOVL %d %d" % (X86_REGS.index(m.group(1)), slot_of(m.group(2))))
            continue
        m = re.fullmatch(r"mov \[rsp \+ (\d+)\], (\w+)", ins)
        if m and m.group(2) in X86_REGS:
            out.append("MOVS %d %d" % (X86_REGS.index(m.group(2)), slot_of(m.group(1))))
            continue
        out.append("?" + ins)
    return "|".join(out)


def a64_reg(name):
    n = int(name[1:])
    return n if n < 18 else n - 1  # X18 is skipped by the backend's register naming


def conv_a64(text):
    out = []
    for ins in text.split("|"):
        ins = ins.strip()
        if not ins:
            continue
        m = re.fullmatch(r"// (.*)", ins)
        if m:
            out.append("COMMENT " + m.group(1))
            continue
        m = re.fullmatch(r"MOV (X\d+), (X\d+)", ins)
        if m:
            out.append("MOVR %d %d" % (a64_reg(m.group(1)), a64_reg(m.group(2))))
            continue
        m = re.fullmatch(r"(LDR|STR) (X\d+), \[ SP, (\d+) \]", ins)
        if m:
            out.append("%s %d %d" % (m.group(1), a64_reg(m.group(2)), slot_of(m.group(3))))
            continue
        out.append("?" + ins)
    return "|".join(out)


def conv_rv(text):
    out = []
    for ins in text.split("|"):
        ins = ins.strip()
        if not ins:
            continue
        m = re.fullmatch(r"// (.*)", ins)
        if m:
            out.append("COMMENT " + m.group(1))
            continue
        m = re.fullmatch(r"MV X(\d+) X(\d+)", ins)
        if m:
            out.append("MV %s %s" % (m.group(1), m.group(2)))
            continue
        out.append("?" + ins)
    return "|".join(out)


BACKENDS = {
    # name: (harness name, model cmd, register count of the model's location code, converter, scratch locations)
    "x86": ("x86", "pmx86", 16, conv_x86),
    "a64": ("a64", "pma64", 30, conv_a64),
    "rv": ("rv", "pmrv64", None, conv_rv),
}


def simulate(code, pm, regnum):
    """independent oracle: run converted instructions on distinct values; compare with the simultaneous
    assignment on every target (location codes as in the model: n < regnum register, else spill)."""
    regs, slots = {}, {}

    def rd_r(n):
        return regs.get(n, ("r", n))

    def rd_s(p):
        return slots.get(p, ("s", p))

    for ins in code.split("|"):
        p = ins.split()
        if not p or p[0] == "COMMENT":
            continue
        if p[0] in ("MOV", "MOVR", "MV"):
            regs[int(p[1])] = rd_r(int(p[2]))
        elif p[0] in ("MOVL", "LDR"):
            regs[int(p[1])] = rd_s(int(p[2]))
        elif p[0] in ("MOVS", "STR"):
            slots[int(p[2])] = rd_r(int(p[1]))
        else:
            return "unknown instruction " + ins

    def loc(code_):
        if regnum is None or code_ < regnum:
            return ("r", code_)
        return ("s", code_ - regnum)

    def cur(l):
        return rd_r(l[1]) if l[0] == "r" else rd_s(l[1])

    targets = set()
    for s, ts in pm:
        for t in ts:
            targets.add(t)
            if cur(loc(t)) != loc(s):
                return "target %d should hold the old value of %d, holds %s" % (t, s, cur(loc(t)))
    for s, ts in pm:
        if s not in targets and cur(loc(s)) != loc(s):
            return "source %d (not a target) was clobbered" % s
    return None


def spec_of(pm):
    return ";".join("%d:%s" % (s, ",".join(str(t) for t in ts)) for s, ts in pm)


def to_harness_codes(pm, regnum):
    """model location code -> harness numbering (n < 1000 register, 1000+p spill)"""
    def f(c):
        if regnum is None or c < regnum:
            return c
        return 1000 + (c - regnum)
    return [(f(s), [f(t) for t in ts]) for s, ts in pm]


def functional_maps(nodes, max_edges):
    """all maps target -> source over the given nodes with up to max_edges targets (in-degree <= 1)"""
    res = []
    for k in range(0, max_edges + 1):
        for targets in itertools.combinations(nodes, k):
            for srcs in itertools.product(nodes, repeat=k):
                m = {}
                for t, s in zip(targets, srcs):
                    m.setdefault(s, []).append(t)
                res.append(sorted((s, sorted(ts)) for s, ts in m.items()))
    return res


def subst_oracle(ops, kinds, srcs):
    """abstract execution of the mock operations of one substitution; returns a failure description or None"""
    n = len(kinds)
    temps = {}
    for i in range(n):
        temps[2 * i] = ("ptr", i)
        temps[2 * i + 1] = ("word", i)
    erased = {}
    shared = {}
    saved = {}
    for op in ops.split("|"):
        f = op.split()
        if not f or f[0] == "comment":
            continue
        if f[0] == "mov" and len(f) == 3:
            temps[int(f[1])] = temps.get(int(f[2]), ("undef", int(f[2])))
        elif f[0] == "save" and len(f) == 3:
            saved[int(f[2])] = temps.get(int(f[1]), ("undef", int(f[1])))
        elif f[0] == "restore" and len(f) == 3:
            temps[int(f[1])] = saved.get(int(f[2]), ("undef-slot", int(f[2])))
        elif f[0] == "erase" and len(f) == 2:
            v = temps.get(int(f[1]))
            erased[v] = erased.get(v, 0) + 1
        elif f[0] == "share" and len(f) == 3:
            v = temps.get(int(f[1]))
            shared[v] = shared.get(v, 0) + int(f[2])
        else:
            return "unknown-op: " + op
    for j, s_ in enumerate(srcs):
        if temps.get(2 * j + 1) != ("word", s_):
            return "wrong-assignment: new variable %d should hold old variable %d, its word temporary holds %s" % (j + 1, s_ + 1, temps.get(2 * j + 1))
        if kinds[s_] != "e" and temps.get(2 * j) != ("ptr", s_):
            return "wrong-assignment: new variable %d should hold object of old variable %d, its pointer temporary holds %s" % (j + 1, s_ + 1, temps.get(2 * j))
    for i in range(n):
        copies = sum(1 for s_ in srcs if s_ == i)
        v = ("ptr", i)
        if kinds[i] == "e":
            if erased.get(v) or shared.get(v):
                return "refcount: integer variable %d is erased/shared" % (i + 1)
            continue
        want_erase = 1 if copies == 0 else 0
        want_share = max(0, copies - 1)
        if erased.get(v, 0) != want_erase:
            return "refcount: object of old variable %d (%d copies) released %d times, expected %d" % (i + 1, copies, erased.get(v, 0), want_erase)
        if shared.get(v, 0) != want_share:
            return "refcount: object of old variable %d (%d copies): count raised by %d, expected %d" % (i + 1, copies, shared.get(v, 0), want_share)
    for v in list(erased) + list(shared):
        if v is None or v[0] != "ptr":
            return "refcount: erase/share of a temporary that holds %s" % (v,)
    return None


def main():
    chk = Check("C11", level="proof")
    chk.checker_cmd = "lake build Scc.Props.C11 Scc.Props.C11Balance sccmodel; lake env lean Scc/Audit/Audit_C11_C11.lean; lake env lean Scc/Audit/Audit_C11_C11Balance.lean"
    chk.trusted = [
        "Lean 4.33 kernel; axioms propext, Classical.choice, Quot.sound only",
        "hand-written Lean model of parallel_moves.rs / substitution.rs and the three backends' mov/store_temporary/restore_temporary, tied by exact comparison of emitted move sequences with the real code (mock backend for the generic layer, real backends for the concrete instructions)",
        "the converter from printed assembly to the model's instruction notation (checks/c11.py)",
    ]
    chk.assumptions = [
        "which erase/share operation on which temporary with which n, and that it precedes the moves: C11_refcount_ops; their effect on an abstract count store (erase = one release of the object in the temporary, share n = n more references): C11_counts, C11_counts_balance, C11_counts_untouched, C11_erase_once; that erase_block/share_block_n realise this on the heap is the memory contract decided under C09/C10",
    ]
    chk.rule = (
        "exhaustive: every functional move graph (each target has one source) with up to 4 targets over a "
        "window of 5 locations, the window placed at every offset across the register/spill boundary, on "
        "x86-64, AArch64, RV64 and the mock backend; plus seeded random larger graphs; non-trivial = graph "
        "with at least one non-identity move"
    )
    ok_h, herr = common.build_harness()
    chk.obligation("build:harness", "build", ok_h, herr[-300:])
    okm, outm = common.lake_build(["sccmodel"])
    chk.obligation("build:sccmodel", "build", okm, outm[-300:])
    mods = ["Scc.PMoves.Model", "Scc.PMoves.Backends", "Scc.PMoves.Proofs", "Scc.PMoves.ProofsBackends",
            "Scc.PMoves.ProofsX86", "Scc.PMoves.ProofsA64RV", "Scc.PMoves.ProofsOnce", "Scc.PMoves.ProofsSubst",
            "Scc.PMoves.ProofsSubstBackends", "Scc.PMoves.ProofsCheck", "Scc.Props.C11"]
    okp, _, outp = common.prove(chk, "C11", mods, THEOREMS)
    okp2, _, outp2 = common.prove(chk, "C11", ["Scc.PMoves.ProofsSubst", "Scc.Props.C11Counts", "Scc.Props.C11Balance"], THEOREMS_COUNTS)
    okp = okp and okp2
    outp = outp + outp2
    # translator tie: the reference-count arms of substitution.rs, regenerated from the Rust text on every run,
    # against the model's updateReferenceCount / codeWeakeningContraction (Props/Tables.lean T_subst_refcount)
    import regen
    _, terr = regen.regen(["tables"])
    chk.obligation("regen:tables", "translator", not terr, "; ".join("%s: %s" % kv for kv in terr.items())[-300:])
    okt, _, outt = common.prove(chk, "C11", regen.TABLE_MODULES, regen.TABLE_THEOREMS["C11"])
    okp = okp and okt and not terr
    outp = outp + outt + "".join(terr.values())
    found = False
    if ok_h and okm:
        h = common.harness()
        m = common.model()
        cases = []  # (backend, pm in model codes)
        quick = chk.tier == "quick"
        # windows of 5 consecutive location codes at offsets across the register/spill boundary
        for be, (hn, cmd, regnum, conv) in BACKENDS.items():
            if regnum is None:
                offsets = [4, 20]
            else:
                offsets = [4, regnum - 3, regnum - 2, regnum - 1, regnum + 1] if quick else list(range(4, regnum + 4))
            for off in offsets:
                nodes = list(range(off, off + (4 if quick else 5)))
                if regnum is not None:
                    # skip the reserved scratch spill slot 0 (SPILL_TEMP): location code regnum
                    nodes = [n if n < regnum else n + 1 for n in nodes]
                for pm in functional_maps(nodes, 3 if quick else 4):
                    cases.append((be, pm))
        n_rand = 300 if quick else 20000
        for _ in range(n_rand):
            be = chk.rng.choice(list(BACKENDS))
            regnum = BACKENDS[be][2]
            lo = 4
            hi = 30 if regnum is None else regnum + 14
            nodes = [n for n in chk.rng.sample(range(lo, hi), chk.rng.randint(2, 12)) if regnum is None or n != regnum]
            mm = {}
            for t in nodes:
                if chk.rng.random() < 0.8:
                    mm.setdefault(chk.rng.choice(nodes), []).append(t)
            cases.append((be, sorted((s, sorted(ts)) for s, ts in mm.items())))
        for be, pm in cases:
            hn, cmd, regnum, conv = BACKENDS[be]
            spec = spec_of(pm)
            nontrivial = any(t != s for s, ts in pm for t in ts)
            chk.count((be, spec), nontrivial)
            rep = h.ask("pm %s %s" % (hn, spec_of(to_harness_codes(pm, regnum))))
            if rep is None:
                h = common.harness()
                impl = "DIED"
            else:
                impl = rep[0][len("PM OK "):] if rep[0].startswith("PM OK") else rep[0]
            real = conv(impl) if impl not in ("DIED", "PM PANIC") else impl
            mod = (m.ask("pmoves %s %s" % (cmd, spec)) or ["DIED"])[0]
            chk.corr["compared"] += 1
            if real != mod:
                chk.corr["disagreements"] += 1
                chk.model_disagreements.append({"backend": be, "pm": spec, "impl": real, "model": mod})
            # independent oracle on the implementation's own instruction sequence
            err = simulate(real, pm, regnum) if "?" not in real and real not in ("DIED", "PM PANIC") else "unparsable / crashed: " + impl[:200]
            if err:
                found = True
                chk.impl_oracle_failures.append({"backend": be, "pm": spec, "error": err})
                chk.violation("pmoves:%s:wrong-assignment" % be, "%s moves for {%s}: %s" % (be, spec, err),
                              "pm_%s_%s.txt" % (be, spec.replace(";", "_").replace(":", "-").replace(",", ".")[:80]),
                              "backend=%s\nmoves(source:targets, location codes)=%s\nimplementation=%s\nmodel=%s\nerror=%s\nreplay: echo 'pm %s %s' | harness/target/debug/scc-harness\n"
                              % (be, spec, impl, mod, err, hn, spec_of(to_harness_codes(pm, regnum))))
        # generic layer through the mock backend
        for be, pm in cases[:: (7 if quick else 1)]:
            spec = spec_of(pm)
            rep = h.ask("pm mock %s" % spec)
            impl = rep[0][len("PM OK "):] if rep and rep[0].startswith("PM OK") else str(rep)
            mod = (m.ask("pmoves pm %s" % spec) or ["DIED"])[0]
            chk.corr["compared"] += 1
            if impl != mod:
                chk.corr["disagreements"] += 1
                chk.model_disagreements.append({"backend": "mock", "pm": spec, "impl": impl, "model": mod})
        # whole substitutions (refcount operations + moves) through the real generic code and the mock backend
        sdir = os.path.join(WORK, "c11_subst")
        os.makedirs(sdir, exist_ok=True)
        nmax = 3 if quick else 4
        scases = []
        for n in range(0, nmax + 1):
            for kinds in itertools.product("pce", repeat=n):
                for mcount in range(0, nmax + 1):
                    for srcs in itertools.product(range(n), repeat=mcount):
                        scases.append((kinds, srcs))
        if quick:
            scases = scases[:: max(1, len(scases) // 400)]
        for kinds, srcs in scases:
            n = len(kinds)
            ty = {"p": '(ty (id "T" 0))', "c": '(ty (id "T" 0))', "e": "i64"}
            ch = {"p": "prd", "c": "cns", "e": "ext"}
            ctx = " ".join('(b (id "v" %d) %s %s)' % (i + 1, ch[k], ty[k]) for i, k in enumerate(kinds))
            pairs = " ".join('(pair (b (id "v" %d) %s %s) (id "v" %d))' % (n + 1 + j, ch[kinds[s_]], ty[kinds[s_]], s_ + 1) for j, s_ in enumerate(srcs))
            prog = '(axprog 99 (types (type (id "T" 0) (xtor (id "K" 0) (ctx)))) (defs (def (id "main" 0) (ctx %s) (subst (pairs %s) (lit (id "z" 90) 0 (exit (id "z" 90)) none)))))' % (ctx, pairs)
            pth = os.path.join(sdir, "s.sexp")
            open(pth, "w").write(prog)
            rep = h.ask("axcutlin %s nocode mock" % pth)
            line = next((l for l in (rep or []) if l.startswith("S6m OK ")), None)
            chk.count(("subst", kinds, srcs), nontrivial=len(srcs) > 0)
            chk.corr["compared"] += 1
            mreq = "pmoves subst %s -> %s" % (",".join("%d:%s" % (i + 1, k) for i, k in enumerate(kinds)),
                                               ",".join("%d:%s=%d" % (n + 1 + j, kinds[s_], s_ + 1) for j, s_ in enumerate(srcs)))
            mod = (m.ask(mreq) or ["DIED"])[0]
            if line is None:
                impl = "NO-S6m " + str(rep)[:200]
            else:
                text = common.sx_parse(line[len("S6m OK "):])[1].split("\n")
                a = next(i for i, l in enumerate(text) if l.startswith("comment substitute"))
                b_ = next(i for i, l in enumerate(text) if i > a and l.startswith("comment #ctx"))
                impl = "|".join(re.sub(r"v_(\d+)", r"\1", l) if l.startswith("comment #") else l for l in text[a + 1:b_])
            if impl != mod:
                chk.corr["disagreements"] += 1
                chk.model_disagreements.append({"subst": mreq, "impl": impl, "model": mod})
            # ORACLE on the REAL operation list (independent of the model): one simultaneous assignment, each
            # object's count raised by its number of extra copies, each dropped object released exactly once
            if line is not None:
                bad = subst_oracle(impl, kinds, srcs)
                if bad:
                    chk.impl_oracle_failures.append({"subst": mreq, "ops": impl[:300], "what": bad})
                    chk.violation("subst:mock:" + bad.split(":")[0], "substitution %s: %s (operations: %s)" % (mreq, bad, impl[:200]),
                                  "subst_%s_%s.txt" % ("".join(kinds), "".join(str(x) for x in srcs)),
                                  "substitution (old context -> new := old): %s\nemitted abstract operations:\n%s\nfailure: %s\nAxCut program:\n%s\n" % (mreq, impl.replace("|", "\n"), bad, prog))
        # --- substitutions of OBJECT variables on the three machine models (placement across the register / spill
        #     boundary, null pointers, balanced drop/duplicate): moves AND reference counts as executed
        import ladder
        import stagecheck

        lad = ladder.Ladder("C11")
        for f in stagecheck.shape_programs(chk, only=("dsp", "bal", "dup")):
            st = lad.stages(f)
            if not st or "S5" not in st or st["S5"][0] != "OK":
                continue
            for args in ([3], [0]):
                rungs = lad.run_rungs(st, args, rungs=[("S5", "pos")], asm=ladder.ASM, mon="heap")
                pos = next((b for l, b, _ in rungs if l == "S5:pos"), None)
                if not pos or not pos[1].startswith("done"):
                    continue
                chk.count(("machine-subst", os.path.basename(f), tuple(args)))
                for l, b, raw in rungs:
                    if not l.startswith("S7") or b is None or b[1] == "outOfFuel":
                        continue
                    if b != pos:
                        chk.impl_oracle_failures.append({"file": f, "args": args, "machine": l, "got": b, "expected": pos})
                        chk.violation("subst:machine:" + l.split(":")[1], "%s on %s args %s: %s, AxCut machine %s" % (l, os.path.basename(f), args, (raw or "")[:160], pos),
                                      "substm_%s_%s.txt" % (l.split(":")[1], os.path.basename(f)), "file=%s\nargs=%s\nmachine=%s\nresult=%s\nexpected=%s\nsource:\n%s\n" % (f, args, l, raw, pos, open(f).read()))
                        break
        lad.close()
        chk.sample({"substitution": mreq, "ops": mod})
        chk.sample({"backend": cases[len(cases) // 2][0], "moves": spec_of(cases[len(cases) // 2][1])})
        chk.sample({"backend": cases[-1][0], "moves": spec_of(cases[-1][1])})
        h.close()
        m.close()
    chk.obligation("corr:parallel-moves-model-vs-code", "correspondence", chk.corr["disagreements"] == 0,
                   "%d compared, %d disagreements" % (chk.corr["compared"], chk.corr["disagreements"]))
    if (not okp or chk.corr["disagreements"]) and not chk.has_failing_input():
        what = [("%s (%s): %s" % (n, r, d)) for n, r, ok, d in chk.obligations if not ok]
        what += [str(d) for d in chk.model_disagreements[:5]]
        chk.violation("C11:unproved", "proof obligations or correspondence broken, no failing substitution found: " + "; ".join(what)[:600],
                      "unproved.txt", "\n".join(what) + "\n" + outp[-3000:], found_input=False)
    return chk.finish()


if __name__ == "__main__":
    raise SystemExit(main())
