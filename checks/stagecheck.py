"""Generic check for the properties about compiler passes (C02, C03, C04, C05, C12):
  1 regenerate / build (harness from the working tree, sccmodel, theorem modules)
  2 theorems: lake build + axiom audit of the modules listed in obligations.json
  3 correspondence: the Lean pass model reproduces the implementation's dump for every input
  4 oracles on the implementation's own output: semantic ladder between the stages the property
    owns, typing/scoping checkers; panics of the real stages
  5 verdict: violation with the program as replay, or `no-failing-input-found` naming what broke."""
import json
import os
import subprocess

import common
import ladder
import pipeline
import regen
from common import Check, WORK

SPEC = {
    "C02": dict(passes=["fun2core"], owners={"C02"}, stages=("S2",),
                rungs=[("S1", "fun"), ("S2", "core")], types=[("S2", "core", "C02")]),
    "C03": dict(passes=["uniquify", "focus"], owners={"C03"}, stages=("S2u", "S3"),
                rungs=[("S2", "core"), ("S2u", "core"), ("S3", "fs")],
                types=[("S2u", "core", "C03"), ("S3", "fs", "C03"), ("S3", "unique", "C03")]),
    "C04": dict(passes=["shrink"], owners={"C04"}, stages=("S4",),
                rungs=[("S3", "fs"), ("S4", "named")], types=[("S4", "ax", "C04")]),
    "C05": dict(passes=["linearize"], owners={"C05"}, stages=("S5",),
                rungs=[("S4", "named"), ("S5", "namedlin"), ("S5", "pos")], types=[("S5", "lin", "C05")]),
    "C12": dict(passes=["fun2core", "uniquify", "focus", "shrink", "linearize"], owners=None,
                stages=("S2", "S2u", "S3", "S4", "S5", "S6x", "S6a"),
                rungs=ladder.RUNGS, types=ladder.TYPECHECKS),
}


def load_obligations(prop):
    path = os.path.join(common.VERIF, "obligations.json")
    try:
        return json.load(open(path)).get(prop, [])
    except FileNotFoundError:
        return []


def inputs(chk, n_gen, profiles=None):
    files = [(f, None) for f in pipeline.corpus_programs("regress") + pipeline.repo_programs() + [c for c in pipeline.corpus_programs() if "/corpus/regress/" not in c]]
    gdir = os.path.join(WORK, "gen_%s" % chk.id)
    subprocess.run(["rm", "-rf", gdir])
    cmd = ["python3", os.path.join(common.VERIF, "gen", "gen_fun.py"), str(chk.seed), str(n_gen), gdir]
    subprocess.run(cmd, check=True)
    for f in sorted(os.listdir(gdir)):
        if f.endswith(".sc"):
            files.append((os.path.join(gdir, f), None))
    files += [(f, None) for f in wide_types(chk)]
    files += [(f, None) for f in shape_programs(chk)]
    return files


def shape_programs(chk, only=None):
    """deterministic shape families (gen/gen_shapes.py): binder-carrying operands, duplicated arguments /
    self-application, multi-destructor print-free programs, pointer-first environments, nested generic types"""
    sdir = os.path.join(WORK, "shapes_%s" % chk.id)
    subprocess.run(["rm", "-rf", sdir])
    subprocess.run(["python3", os.path.join(common.VERIF, "gen", "gen_shapes.py"), sdir], check=True, capture_output=True)
    fs = sorted(os.path.join(sdir, f) for f in os.listdir(sdir) if f.endswith(".sc"))
    if only:
        fs = [f for f in fs if os.path.basename(f).split("_")[0] in only]
    if chk.tier == "quick":
        opnd = [f for f in fs if os.path.basename(f).startswith("opnd_")]
        fs = [f for f in fs if not os.path.basename(f).startswith("opnd_")] + opnd[:: (2 if chk.id in ("C03", "C02") else 4)]
    return fs


def wide_types(chk):
    """programs whose type-instance names sweep every printed width around the line width (gen/gen_widetypes.py)"""
    wdir = os.path.join(WORK, "wide_%s" % chk.id)
    subprocess.run(["rm", "-rf", wdir])
    subprocess.run(["python3", os.path.join(common.VERIF, "gen", "gen_widetypes.py"), wdir], check=True, capture_output=True)
    fs = sorted(os.path.join(wdir, f) for f in os.listdir(wdir) if f.endswith(".sc"))
    return fs[::2] if chk.tier == "quick" else fs


def args_for(path, nparams, rng):
    """argument tuples: the sibling .args file if any, plus small values"""
    tuples = []
    a = path[:-3] + ".args"
    if os.path.exists(a):
        first = open(a).read().split("\n")[0].split()
        try:
            vals = [int(x) for x in first]
            if len(vals) == nparams and all(abs(v) <= 1000 or abs(v) >= 2**31 for v in vals):
                tuples.append(vals)
        except ValueError:
            pass
    tuples.append([rng.choice([0, 1, 2, 3, 5, -1, 7]) for _ in range(nparams)])
    if nparams:
        tuples.append([rng.choice([0, 1, 4, 100, -7]) for _ in range(nparams)])
    return tuples[:2]


def main_params(st):
    """number of parameters of main, read off the S1 dump"""
    import re

    if "S1" not in st or st["S1"][0] != "OK":
        return None
    m = re.search(r'\(def "main" \(ctx((?: \(b "[^"]*" prd i64\))*)\) i64 ', st["S1"][1])
    if not m:
        return None
    return m.group(1).count("(b ")


def run(prop):
    spec = SPEC[prop]
    chk = Check(prop, level="proof")
    obl = load_obligations(prop)
    chk.checker_cmd = "lake build " + " ".join(sorted({m for o in obl for m in o["modules"]})) + " sccmodel; lake env lean Scc/Audit/*.lean"
    chk.trusted = [
        "Lean 4.33 kernel; axioms propext, Classical.choice, Quot.sound only",
        "hand-written Lean models of the passes (" + ", ".join(spec["passes"]) + "), tied by exact equality of the stage dumps with the real passes on every input of the run",
        "the harness' dump code and the Lean S-expression readers (round-trip validated)",
        "spec layer: the abstract machines and typing checkers in Lean (Scc/*/Sem*.lean, *Typing*.lean)",
    ]
    chk.assumptions = ["fuel-bounded runs: programs that exhaust the fuel are compared on typing and dumps only"]
    chk.rule = (
        "inputs: the repository's examples/testsuite programs, the committed corpus of hand-written stress "
        "programs (gen/corpus), and seeded type-directed generated programs (gen/gen_fun.py: all constructs, "
        "shadowing, labels, many live variables, big constructors), 1-2 argument tuples each; non-trivial = "
        "program accepted by the checker and reaching the stage the property is about"
    )
    ok_h, herr = common.build_harness()
    chk.obligation("build:harness", "build", ok_h, herr[-300:])
    okm, outm = common.lake_build(["sccmodel"])
    chk.obligation("build:sccmodel", "build", okm, outm[-400:])
    proofs_ok = True
    plog = ""
    if prop in regen.TABLE_THEOREMS:
        # translator tie: the tables of the pass (match arms on enum variants) are re-extracted from the working
        # tree and the model is proved to BE them (lean/Scc/Props/Tables.lean); no test input needed
        _, terr = regen.regen(["tables"])
        chk.obligation("regen:tables", "translator", not terr, str(terr)[:400])
        okt, _, outt = common.prove(chk, prop, regen.TABLE_MODULES, regen.TABLE_THEOREMS[prop])
        proofs_ok = proofs_ok and okt and not terr
        plog += str(terr or "") + outt[-1500:]
    if prop in regen.TRAVERSAL_THEOREMS:
        # translator tie for the per-node traversal code (UsedBinders, Uniquify / Subst / Bind, FreeVars / Subst /
        # Linearizing, fresh_identifier): the fields every impl visits are re-extracted from the working tree and the
        # models are proved to visit exactly them (lean/Scc/Props/Traversals.lean); no test input needed
        _, verr = regen.regen(["traversals"])
        chk.obligation("regen:traversals", "translator", not verr, str(verr)[:400])
        okv, _, outv = common.prove(chk, prop, regen.TRAVERSAL_MODULES, regen.TRAVERSAL_THEOREMS[prop])
        proofs_ok = proofs_ok and okv and not verr
        plog += str(verr or "") + outv[-1500:]
    for o in obl:
        okp, _, out = common.prove(chk, prop, o["modules"], o["theorems"], role=o.get("role", "theorem"))
        proofs_ok = proofs_ok and okp
        plog += out[-1500:]
    found = False
    if ok_h and okm:
        n_gen = 60 if chk.tier == "quick" else 1500
        files = inputs(chk, n_gen)
        corr = pipeline.Corr(chk, prop)
        lad = ladder.Ladder(prop)
        corr.h.close()
        corr.h = lad.h  # share one harness process
        links = {}
        tags = {}
        link_fail = []
        for path, _ in files:
            if "/corpus/regress/" in path:
                # minimised past failures are replayed in a FRESH compiler process (label counter 0)
                lad.h.close()
                lad.h = common.harness()
                corr.h = lad.h
            st = lad.stages(path)
            if st is None:
                found = True
                chk.violation("%s:harness-abort" % prop, "the compiler aborted (not a panic) on %s" % path,
                              "abort_%s.txt" % os.path.basename(path), "file=%s\nreplay: echo 'stages %s' | harness/target/debug/scc-harness\n" % (path, path))
                continue
            reached = all(s in st and st[s][0] == "OK" for s in spec["stages"] if not s.startswith("S6"))
            chk.count(path, nontrivial=reached)
            np_ = main_params(st)
            valid_main = np_ is not None and np_ <= 5
            # panics of the real stages the property owns (claimed for programs with a valid entry point)
            for s in spec["stages"]:
                if s in st and st[s][0] == "PANIC" and valid_main:
                    if "Out of temporaries" in st[s][1] or "Out of registers" in st[s][1]:
                        continue  # documented capacity assertion
                    found = True
                    chk.impl_oracle_failures.append({"file": path, "stage": s, "panic": st[s][1][:200]})
                    chk.violation("%s:panic:%s" % (prop, s), "stage %s panics on an accepted program: %s" % (s, st[s][1][:160]),
                                  "panic_%s_%s.txt" % (s, os.path.basename(path)),
                                  "file=%s\nstage=%s\npanic=%s\nsource:\n%s\n" % (path, s, st[s][1], open(path).read()))
            # correspondence model vs code
            for p in spec["passes"]:
                r = corr.compare(p, st)
                if r is None:
                    continue
                chk.corr["compared"] += 1
                if not r[0]:
                    chk.corr["disagreements"] += 1
                    chk.model_disagreements.append({"file": path, "pass": p, "detail": r[1][:400]})
            if not valid_main:
                # no valid entry point (C18: main takes at most five integers and returns an integer):
                # outside the domain of the semantic / typing oracles; dumps were still compared
                chk.notes["skipped_invalid_main"] = chk.notes.get("skipped_invalid_main", 0) + 1
                continue
            # known finding D13 (a program that CALLS main): recognised by the decidable hypothesis noMainCall
            main_called = "S1" in st and st["S1"][0] == "OK" and '(call "main"' in st["S1"][1] and lad.ask("typ nomaincall %s" % lad.dump(st, "S1")) == "OK false"
            # C12: decidable content of the link hypotheses of C12_chain (Scc/Props/C12.lean) on this program
            if prop == "C12" and "S1" in st and st["S1"][0] == "OK":
                ln = lad.ask("links %s" % path)
                key_ = "OK" if ln and ln.startswith("OK") else (ln or "none").split(" ")[0]
                links[key_] = links.get(key_, 0) + 1
                for tag_ in (ln or "").split()[1:] if ln and ln.startswith("OK") else []:
                    tags[tag_] = tags.get(tag_, 0) + 1
                if ln and ln.startswith("FAIL") and not main_called:
                    link_fail.append({"file": path, "links": ln[:200]})
            # typing / scoping oracles on the implementation's output: the FIRST ill-typed stage is to blame
            # (a pass is not responsible for the typing of its output when its input was ill-typed already)
            mine = {(a, b) for a, b, _ in spec["types"]}
            for stage, checker, owner, ok, line in lad.typechecks(st, ladder.TYPECHECKS):
                if ok:
                    continue
                if (stage, checker) not in mine:
                    break  # an EARLIER stage (another property's) is ill-typed already: nothing to blame here
                if spec["owners"] is None or owner in spec["owners"]:
                    found = True
                    chk.impl_oracle_failures.append({"file": path, "stage": stage, "checker": checker, "line": (line or "")[:200]})
                    chk.violation("fun2core:main-called" if main_called and stage == "S2" else "%s:ill-typed:%s:%s" % (prop, stage, checker),
                                  "implementation output of stage %s fails the %s checker: %s" % (stage, checker, (line or "")[:160]),
                                  "illtyped_%s_%s.txt" % (stage, os.path.basename(path)),
                                  "file=%s\nstage=%s\nchecker=%s\nverdict=%s\nsource:\n%s\n" % (path, stage, checker, line, open(path).read()))
                break
            # semantic ladder
            if reached:
                seq = lad.sequenced(st)
                # duplicate labels (user names imitating generated labels; C14's known finding): the text is not
                # a program an assembler accepts, it has no execution
                label_safe = prop != "C12" or "S5" not in st or st["S5"][0] != "OK" or lad.ask("typ labelsafe %s" % lad.dump(st, "S5")) != "OK false"
                for args in args_for(path, np_, chk.rng):
                    rungs = lad.run_rungs(st, args, rungs=spec["rungs"], asm=[] if prop != "C12" or not label_safe else ladder.ASM, mon="none")
                    for owner, la, lb, ba, bb in ladder.disagreements(rungs, seq):
                        if spec["owners"] is not None and owner not in spec["owners"]:
                            continue
                        found = True
                        chk.impl_oracle_failures.append({"file": path, "args": args, "between": [la, lb], "a": ba, "b": bb})
                        key = "%s:sem:%s->%s" % (prop, la.split(":")[0], lb.split(":")[0])
                        src = open(path).read()
                        if la == "S1:fun" and shadow_capture_shape(src):
                            key = "fun2core:capture:binder-in-continuation"
                        if main_called and la.startswith("S1") and lb.startswith("S2"):
                            key = "fun2core:main-called"
                        chk.violation(key, "behaviour changes between %s and %s on %s args %s: %s vs %s" % (la, lb, os.path.basename(path), args, ba, bb),
                                      "sem_%s_%s.txt" % (la.split(":")[0], os.path.basename(path)),
                                      "file=%s\nargs=%s\n%s=%s\n%s=%s\nsource:\n%s\n" % (path, args, la, ba, lb, bb, src))
                chk.sample({"file": path, "args": args, "rungs": [(l, b) for l, b, _ in rungs][:4]}, limit=3)
        chk.notes["pass_outcomes"] = corr.stats
        if prop == "C12":
            chk.notes["links_histogram"] = links
            chk.notes["links_tags"] = tags
            chk.obligation("links:hypotheses of C12_chain hold on every accepted program with a valid main (decidable content)", "correspondence", not link_fail, json.dumps(link_fail[:3])[:400])
            if link_fail:
                proofs_ok = False
                plog += json.dumps(link_fail[:5])
        lad.close()
        corr.m.close()
    chk.obligation("corr:%s" % "+".join(spec["passes"]), "correspondence", chk.corr["disagreements"] == 0,
                   "%d compared, %d disagreements" % (chk.corr["compared"], chk.corr["disagreements"]))
    if (not proofs_ok or chk.corr["disagreements"]) and not chk.has_failing_input():
        what = [("%s (%s): %s" % (n, r, d)) for n, r, ok, d in chk.obligations if not ok]
        what += [json.dumps(d)[:300] for d in chk.model_disagreements[:5]]
        chk.violation("%s:unproved" % prop, "proof obligations or correspondence broken, no failing program found: " + "; ".join(what)[:600],
                      "unproved.txt", "\n".join(what) + "\n" + plog[-3000:], found_input=False)
    return chk.finish()


def shadow_capture_shape(src):
    """heuristic shape key for the known capture defect: some binder name is bound twice in a definition"""
    import re

    for d in src.split("\ndef ")[1:]:
        names = re.findall(r"\blet (\w+):", d) + re.findall(r"\blabel (\w+)", d)
        for grp in re.findall(r"=> |\b[A-Z]\w*\(([a-z0-9_, ]+)\) =>", d):
            names += [x.strip() for x in grp.split(",") if x.strip()]
        params = re.findall(r"(\w+)\s*:(?:cns)?\s*[A-Za-z]", d.split(")")[0])
        allb = names + params
        if len(allb) != len(set(allb)):
            return True
    return False
