"""C10 — heap footprint is bounded by peak live data."""
import json
import os

import common
import ladder
import pipeline
from common import Check, WORK

LOOPS = {
    "list": """data List[A] { Nil, Cons(x: A, xs: List[A]) }
def build(n: i64, acc: List[i64]): List[i64] { if n <= 0 { acc } else { build(n - 1, Cons(n, acc)) } }
def sum(l: List[i64], acc: i64): i64 { l.case[i64] { Nil => acc, Cons(x, xs) => sum(xs, acc + x) } }
def loop(n: i64, acc: i64): i64 { if n <= 0 { acc } else { let l: List[i64] = build(12, Nil); loop(n - 1, acc + sum(l, 0)) } }
def main(n: i64): i64 { println_i64(loop(n, 0)); 0 }
""",
    "tree": """data Tree { Leaf(v: i64), Node(l: Tree, r: Tree) }
def mk(d: i64): Tree { if d <= 0 { Leaf(d) } else { Node(mk(d - 1), mk(d - 1)) } }
def size(t: Tree): i64 { t.case { Leaf(v) => 1, Node(l, r) => size(l) + size(r) } }
def loop(n: i64, acc: i64): i64 { if n <= 0 { acc } else { let t: Tree = mk(4); loop(n - 1, acc + size(t)) } }
def main(n: i64): i64 { println_i64(loop(n, 0)); 0 }
""",
    "closure": """codata Fun[A, B] { apply(x: A): B }
def adder(k: i64): Fun[i64, i64] { new { apply(x) => x + k } }
def loop(n: i64, acc: i64): i64 { if n <= 0 { acc } else { let f: Fun[i64, i64] = adder(n); let g: Fun[i64, i64] = adder(acc); loop(n - 1, f.apply[i64, i64](g.apply[i64, i64](1))) } }
def main(n: i64): i64 { println_i64(loop(n, 0)); 0 }
""",
    "shared": """data List[A] { Nil, Cons(x: A, xs: List[A]) }
data Pair[A, B] { Tup(a: A, b: B) }
def build(n: i64, acc: List[i64]): List[i64] { if n <= 0 { acc } else { build(n - 1, Cons(n, acc)) } }
def len(l: List[i64], acc: i64): i64 { l.case[i64] { Nil => acc, Cons(x, xs) => len(xs, acc + 1) } }
def loop(n: i64, acc: i64): i64 { if n <= 0 { acc } else { let l: List[i64] = build(9, Nil); let p: Pair[List[i64], List[i64]] = Tup(l, l); let r: i64 = p.case[List[i64], List[i64]] { Tup(a, b) => len(a, 0) + len(b, 0) }; loop(n - 1, acc + r) } }
def main(n: i64): i64 { println_i64(loop(n, 0)); 0 }
""",
    "zerohead": """data List[A] { Nil, Cons(x: A, xs: List[A]) }
def build(n: i64, acc: List[i64]): List[i64] { if n == 0 { acc } else { build(n - 1, Cons(n, acc)) } }
def first(l: List[i64], a: i64, b: i64, c: i64, d: i64, e: i64, f: i64, g: i64, h: i64, i: i64, j: i64, k: i64, m: i64, z: i64): i64 { l.case[i64] { Nil => z, Cons(x, xs) => ((((((((((((x + a) + b) + c) + d) + e) + f) + g) + h) + i) + j) + k) + m) + z } }
def loop(n: i64, total: i64): i64 { if n <= 0 { total } else { loop(n - 1, total + first(Cons(0, build(10, Nil)), 1, 2, 3, 4, 5, 6, 7, 8, 9, 10, 11, 12, 13)) } }
def main(n: i64): i64 { println_i64(loop(n, 0)); 0 }
""",
    "peek": """data List[A] { Nil, Cons(x: A, xs: List[A]) }
def build(n: i64, acc: List[i64]): List[i64] { if n <= 0 { acc } else { build(n - 1, Cons(n, acc)) } }
def peek(n: i64, acc: i64, l: List[i64]): i64 { l.case[i64] { Nil => acc, Cons(x, xs) => loop(n, acc) } }
def loop(n: i64, acc: i64): i64 { if n <= 0 { acc } else { peek(n - 1, acc + 1, build(8, Nil)) } }
def main(n: i64): i64 { println_i64(loop(n, 0)); 0 }
""",
    "balanced": """data List[A] { Nil, Cons(x: A, xs: List[A]) }
def build(n: i64, acc: List[i64]): List[i64] { if n <= 0 { acc } else { build(n - 1, Cons(n, acc)) } }
def hd(l: List[i64]): i64 { l.case[i64] { Nil => 0, Cons(h, t) => h } }
def add(a: i64, b: i64): i64 { a + b }
def two(a: List[i64], b: List[i64]): i64 { hd(a) + hd(b) }
def step(l: List[i64], i: i64): i64 { add(i, i) }
def replace(old: List[i64], l: List[i64]): i64 { two(l, l) }
def loop(n: i64, acc: i64): i64 { if n <= 0 { acc } else { let a: i64 = step(build(10, Nil), n); let b: i64 = replace(build(7, Nil), build(3, Nil)); loop(n - 1, (acc + a) + b) } }
def main(n: i64): i64 { println_i64(loop(n, 0)); 0 }
""",
    "wide": """data Rec { Mk(a: i64, b: i64, c: i64, d: i64, e: i64, f: i64), No }
def loop(n: i64, acc: i64, p1: i64, p2: i64, p3: i64, p4: i64, p5: i64, p6: i64, p7: i64): i64 { if n <= 0 { acc + p7 } else { let o: Rec = Mk(n, p1, p2, p3, p4, p5); let r: i64 = o.case { Mk(a, b, c, d, e, f) => (((a + b) + (c + d)) + (e + f)) + (p6 + p7), No => 0 }; loop(n - 1, acc + r, p1, p2, p3, p4, p5, p6, p7) } }
def main(n: i64): i64 { println_i64(loop(n, 0, 1, 2, 3, 4, 5, 6, 7)); 0 }
""",
    "bigobj": """data Big { Mk(a: i64, b: i64, c: i64, d: i64, e: i64, f: i64, g: i64), Other }
def loop(n: i64, acc: i64): i64 { if n <= 0 { acc } else { let o: Big = Mk(n, 2, 3, 4, 5, 6, 7); let r: i64 = o.case { Mk(a, b, c, d, e, f, g) => a + g, Other => 0 }; loop(n - 1, acc + r) } }
def main(n: i64): i64 { println_i64(loop(n, 0)); 0 }
""",
}


def main():
    chk = Check("C10", level="proof")
    obl = json.load(open(os.path.join(common.VERIF, "obligations.json"))).get("C10", [])
    chk.checker_cmd = "lake build Scc.Props.C10 sccmodel; lake env lean Scc/Audit/*.lean"
    chk.trusted = [
        "Lean 4.33 kernel; axioms propext, Classical.choice, Quot.sound only",
        "Scc.Heap.Model: hand-written model of the heap operations of the three memory.rs (same algorithm), tied to the emitted code by running the real assembly on the machine models with the (proved sound) invariant monitor and by the text equality of the backend code-generator models (C06-C08)",
    ]
    chk.assumptions = ["WfOps: histories only mention held roots and load objects of the shape their kinds describe (follows from linear typing; assumed, checked dynamically)"]
    chk.rule = (
        "loop programs (lists, trees, closures, shared structures, multi-block objects) run for n, 4n and 16n "
        "iterations on the x86-64 and AArch64 machine models with the heap-invariant monitor: the highest heap "
        "address ever written and the number of blocks below the frontier must not depend on the iteration count; "
        "non-trivial = distinct (program, backend, n)"
    )
    ok_h, herr = common.build_harness()
    chk.obligation("build:harness", "build", ok_h, herr[-300:])
    okm, outm = common.lake_build(["sccmodel"])
    chk.obligation("build:sccmodel", "build", okm, outm[-400:])
    proofs_ok = True
    plog = ""
    for o in obl:
        okp, _, out = common.prove(chk, "C10", o["modules"], o["theorems"])
        proofs_ok = proofs_ok and okp
        plog += out[-1500:]
    found = False
    if ok_h and okm:
        import re

        lad = ladder.Ladder("C10", asm_fuel=3000000)
        d = os.path.join(WORK, "c10")
        os.makedirs(d, exist_ok=True)
        ns = [3, 12, 48] if chk.tier == "quick" else [5, 20, 80, 320]
        for name, src in LOOPS.items():
            p = os.path.join(d, name + ".sc")
            open(p, "w").write(src)
            st = lad.stages(p)
            if st is None or "S7x" not in st:
                found = True
                chk.violation("C10:nocompile", "loop program %s does not compile" % name, "nocompile_%s.txt" % name, src)
                continue
            for arch, stage in (("x86", "S7x"), ("a64", "S7a")):
                ap = os.path.join(d, "%s_%s.asm" % (name, arch))
                open(ap, "w").write(st[stage][1])
                foot = {}
                for n in ns:
                    line = lad.ask("asm %s %s %d %d heap" % (arch, ap, n, lad.asm_fuel)) or ""
                    chk.count((name, arch, n))
                    m = re.search(r"res=(\S+).*maxheap=(\d+)(?: blocks=(\d+))?", line)
                    if not m or not m.group(1).startswith("done"):
                        if "inv:" in line or "fault" in line:
                            found = True
                            chk.violation("C10:%s:fault" % arch, "%s on %s n=%d: %s" % (arch, name, n, line[:200]), "fault_%s_%s_%d.txt" % (name, arch, n), "program=%s\narch=%s\nn=%d\nmachine=%s\nsource:\n%s\n" % (name, arch, n, line, src))
                        continue
                    foot[n] = (int(m.group(2)), int(m.group(3) or 0))
                if len(foot) >= 2:
                    vals = [foot[n] for n in sorted(foot)]
                    # steady state from the second size on: footprint independent of n
                    if len(set(vals[1:])) > 1 or vals[-1][0] > vals[0][0] * 4 + 1024:
                        found = True
                        chk.impl_oracle_failures.append({"program": name, "arch": arch, "footprint_by_n": foot})
                        chk.violation("C10:%s:footprint-grows" % arch, "%s on %s: heap footprint depends on the iteration count: %s" % (arch, name, foot),
                                      "footprint_%s_%s.txt" % (name, arch), "program=%s\narch=%s\n(maxheap bytes, blocks below frontier) by n=%s\nsource:\n%s\n" % (name, arch, foot, src))
                    chk.sample({"program": name, "arch": arch, "maxheap_and_blocks_by_n": {str(k): v for k, v in foot.items()}}, limit=6)
        lad.close()
    if not proofs_ok and not chk.has_failing_input():
        what = [("%s (%s): %s" % (n, r, dd)) for n, r, ok, dd in chk.obligations if not ok]
        chk.violation("C10:unproved", "proof obligations broken, no growing footprint found: " + "; ".join(what)[:600], "unproved.txt", "\n".join(what) + "\n" + plog[-3000:], found_input=False)
    return chk.finish()


if __name__ == "__main__":
    raise SystemExit(main())
