import frontcheck


def main():
    return frontcheck.c15()
