"""Front-end properties: C15 (checker accepts exactly the well-typed programs), C16 (formatting
never changes a program), C18 (any input yields a result or a diagnostic, never a crash)."""
import json
import os
import re
import subprocess

import common
import pipeline
import regen
from common import Check, WORK


def load_obligations(prop):
    try:
        return json.load(open(os.path.join(common.VERIF, "obligations.json"))).get(prop, [])
    except FileNotFoundError:
        return []


def base(chk, prop, passes_note):
    obl = load_obligations(prop)
    chk.checker_cmd = "lake build " + " ".join(sorted({m for o in obl for m in o["modules"]})) + " sccmodel; lake env lean Scc/Audit/*.lean"
    chk.trusted = [
        "Lean 4.33 kernel; axioms propext, Classical.choice, Quot.sound only",
        passes_note,
        "the harness' dump code and the Lean S-expression readers (round-trip validated)",
    ]
    ok_h, herr = common.build_harness()
    chk.obligation("build:harness", "build", ok_h, herr[-300:])
    okm, outm = common.lake_build(["sccmodel"])
    chk.obligation("build:sccmodel", "build", okm, outm[-400:])
    proofs_ok = True
    plog = ""
    for o in obl:
        okp, _, out = common.prove(chk, prop, o["modules"], o["theorems"])
        proofs_ok = proofs_ok and okp
        plog += out[-1500:]
    return ok_h and okm, proofs_ok, plog


def finish(chk, prop, proofs_ok, plog, found):
    if (not proofs_ok or chk.corr["disagreements"]) and not chk.has_failing_input():
        what = [("%s (%s): %s" % (n, r, d)) for n, r, ok, d in chk.obligations if not ok]
        what += [json.dumps(d)[:300] for d in chk.model_disagreements[:5]]
        chk.violation("%s:unproved" % prop, "proof obligations or correspondence broken, no failing input found: " + "; ".join(what)[:600],
                      "unproved.txt", "\n".join(what) + "\n" + plog[-3000:], found_input=False)
    return chk.finish()


def gen_programs(chk, n):
    gdir = os.path.join(WORK, "gen_%s" % chk.id)
    subprocess.run(["rm", "-rf", gdir])
    subprocess.run(["python3", os.path.join(common.VERIF, "gen", "gen_fun.py"), str(chk.seed), str(n), gdir], check=True)
    return sorted(os.path.join(gdir, f) for f in os.listdir(gdir) if f.endswith(".sc"))


# ------------------------------------------------------------------------------------------- C15


def c15():
    chk = Check("C15", level="proof")
    chk.rule = (
        "well-typed-by-construction programs (corpus gen/corpus/check p*.sc and f*.sc, seeded gen_fun.py programs: "
        "all constructs, polymorphic declarations at several instances, shadowing, covariable parameters) must be "
        "accepted; every applicable single edit of the 16 certainly-ill-typed classes (gen/mutate_typed.py) must be "
        "rejected with a diagnostic; the Lean checker model (proved to decide the declarative typing relation WT: "
        "C15_wtCheck_iff_WT) must give the same verdict, diagnostic code and annotated tree; non-trivial = distinct program or mutant"
    )
    chk.assumptions = ["names are identifiers (programNamesOk, guaranteed by the parser)",
                       "when several errors are present, which one is reported may depend on HashMap order (only the diagnostic code differs; accept/reject is compared)"]
    ready, proofs_ok, plog = base(chk, "C15", "hand-written Lean model of the type checker (Scc/Fun/Check.lean), tied by exact equality of verdict, diagnostic code and annotated tree with the real checker on every input of the run")
    found = False
    if ready:
        h = common.harness()
        m = common.model()
        quick = chk.tier == "quick"
        corpus = pipeline.corpus_programs("check")
        progs = pipeline.repo_programs() + corpus + pipeline.corpus_programs("sem") + gen_programs(chk, 60 if quick else 600)
        # mutants of the corpus programs
        mdir = os.path.join(WORK, "c15_mut")
        subprocess.run(["rm", "-rf", mdir])
        cdir = os.path.join(common.VERIF, "gen", "corpus", "check")
        cmd = ["python3", os.path.join(common.VERIF, "gen", "mutate_typed.py"), cdir, mdir, "--harness", common.HARNESS_BIN]
        if quick:
            cmd += ["--limit", "12"]
        subprocess.run(cmd, capture_output=True, timeout=3000)
        mutants = sorted(os.path.join(mdir, f) for f in os.listdir(mdir) if f.endswith(".sc")) if os.path.isdir(mdir) else []
        chk.notes["programs"] = len(progs)
        chk.notes["mutants"] = len(mutants)
        classes = {}
        d = os.path.join(WORK, "c15")
        os.makedirs(d, exist_ok=True)
        for path in progs + mutants:
            is_mut = path.startswith(mdir)
            cls = os.path.basename(path).split("__")[1] if is_mut and "__" in path else ("mutant" if is_mut else "program")
            rep = h.ask("stages %s 1" % path)
            if rep is None:
                h = common.harness()
                found = True
                chk.violation("C15:abort", "the checker aborted on %s" % path, "abort_%s.txt" % os.path.basename(path), open(path).read())
                continue
            st = pipeline.parse_stages(rep)
            if "S0" not in st or st["S0"][0] != "OK":
                continue
            chk.count(path)
            classes[cls] = classes.get(cls, 0) + 1
            p = os.path.join(d, "s0.sexp")
            open(p, "w").write(st["S0"][1])
            mr = m.ask("stage check %s" % p)
            if mr is None:
                m = common.model()
                mr = ["DIED"]
            mod = mr[0]
            impl = st.get("S1", ("MISSING", ""))
            chk.corr["compared"] += 1
            impl_acc = impl[0] == "OK"
            mod_acc = mod.startswith("OK ")
            if impl[0] == "PANIC":
                found = True
                chk.violation("C15:panic", "the checker panics on %s: %s" % (os.path.basename(path), impl[1][:120]), "panic_%s.txt" % os.path.basename(path), open(path).read())
                continue
            agree = impl_acc == mod_acc and (not impl_acc or mod[3:] == impl[1])
            if not agree:
                chk.corr["disagreements"] += 1
                chk.model_disagreements.append({"file": path, "impl": impl[0] + " " + impl[1][:80], "model": mod[:80]})
                # the model decides WT (theorem): the implementation's verdict is the one that is wrong
                if impl_acc != mod_acc:
                    found = True
                    key = "checker:accepts-ill-typed" if impl_acc else "checker:rejects-well-typed"
                    chk.impl_oracle_failures.append({"file": path, "impl": impl[0], "model_WT": mod_acc})
                    chk.violation(key, "checker %s %s which is %s by the typing relation (%s)" % ("accepts" if impl_acc else "rejects", os.path.basename(path), "ill-typed" if impl_acc else "well-typed", impl[1][:100]),
                                  "verdict_%s.txt" % os.path.basename(path), "file=%s\nimpl=%s %s\nmodel=%s\nsource:\n%s\n" % (path, impl[0], impl[1][:300], mod[:300], open(path).read()))
            elif not impl_acc:
                # both reject: compare diagnostic codes (informational)
                ic = impl[1].split(" ")[0] if impl[0] == "DIAG" else impl[0]
                mc = mod.split(" ")[1] if mod.startswith("DIAG ") and " " in mod else mod
                if ic != mc:
                    chk.notes["diag_code_differences"] = chk.notes.get("diag_code_differences", 0) + 1
            # the expectation of the property itself
            if not is_mut and path in corpus and os.path.basename(path)[0] in "pf" and not os.path.basename(path).startswith("f06") and not impl_acc:
                found = True
                chk.violation("checker:rejects-well-typed", "well-typed corpus program %s is rejected: %s" % (os.path.basename(path), impl[1][:100]),
                              "rejected_%s.txt" % os.path.basename(path), open(path).read())
            if is_mut and cls != "orig" and impl_acc:
                found = True
                chk.violation("checker:accepts-ill-typed", "ill-typed mutant %s is accepted" % os.path.basename(path), "accepted_%s.txt" % os.path.basename(path), open(path).read())
        chk.notes["classes"] = classes
        chk.sample({"mutant_classes": classes})
        h.close()
        m.close()
    chk.obligation("corr:check", "correspondence", chk.corr["disagreements"] == 0, "%d compared, %d disagreements" % (chk.corr["compared"], chk.corr["disagreements"]))
    return finish(chk, "C15", proofs_ok, plog, found)


# ------------------------------------------------------------------------------------------- C16


def c16():
    chk = Check("C16", level="proof")
    chk.rule = (
        "every parseable program of the repository, the corpus (gen/corpus/parse: every term form in every operand "
        "position, negative literals, zero comparisons in all spellings, empty clause lists, type arguments, comments) "
        "and seeded generated programs is printed by the REAL formatter at widths x indents and must re-parse to the "
        "same tree and print again to the same text; the Lean printer model must produce byte-identical text "
        "(renderPretty) and the same token stream; non-trivial = distinct (program, width, indent)"
    )
    chk.assumptions = ["terminal width detection (no --width) is outside the check: every CLI run passes --width"]
    ready, proofs_ok, plog = base(chk, "C16", "hand-written Lean models of lexer, parser and printer (incl. the layout algorithm of the pretty crate, proved to be one of the admissible layout choices), tied by byte equality of the formatted text and tree equality of the parse on every input of the run")
    found = False
    if ready:
        h = common.harness()
        m = common.model()
        quick = chk.tier == "quick"
        progs = pipeline.repo_programs() + pipeline.corpus_programs() + gen_programs(chk, 40 if quick else 400)
        widths = [1, 8, 20, 40, 80, 100, 200] if quick else list(range(1, 201, 3))
        indents = [0, 2, 4] if quick else list(range(0, 9))
        d = os.path.join(WORK, "c16")
        os.makedirs(d, exist_ok=True)
        for path in progs:
            rep = h.ask("stages %s 0" % path)
            if rep is None:
                h = common.harness()
                continue
            st = pipeline.parse_stages(rep)
            if "S0" not in st or st["S0"][0] != "OK":
                continue
            s0 = os.path.join(d, "s0.sexp")
            open(s0, "w").write(st["S0"][1])
            cfgs = [(w, i) for w in widths for i in indents]
            if quick:
                cfgs = chk.rng.sample(cfgs, 6)
            for w, i in cfgs:
                rep = h.ask("fmt %s %d %d" % (path, w, i))
                if not rep:
                    h = common.harness()
                    continue
                line = rep[0]
                chk.count((path, w, i))
                if not line.startswith("FMT OK "):
                    continue
                text, verdict = split_quoted(line[len("FMT OK "):])
                if not verdict.startswith("SAME"):
                    found = True
                    src = open(path).read()
                    ze = (m.ask("typ zeroedge %s" % s0) or ["?"])[0]
                    # `OK false`: the program violates the zero-edge side condition of theorem C16_fmt
                    key = "fmt:zero-comparison-token" if ze == "OK false" else "fmt:" + verdict.split()[0]
                    chk.impl_oracle_failures.append({"file": path, "width": w, "indent": i, "verdict": verdict[:100]})
                    chk.violation(key, "formatting %s at width %d indent %d: %s" % (os.path.basename(path), w, i, verdict[:120]),
                                  "fmt_%s_%d_%d.txt" % (os.path.basename(path), w, i), "file=%s\nwidth=%d\nindent=%d\nverdict=%s\nformatted:\n%s\nsource:\n%s\n" % (path, w, i, verdict, text, src))
                    break
                # model: same token stream as the real text
                tf = os.path.join(d, "fmt.txt")
                open(tf, "w").write(text)
                mr = m.ask("fmttok %s %s" % (s0, tf))
                chk.corr["compared"] += 1
                if mr is None:
                    m = common.model()
                    mr = ["DIED"]
                if not mr[0].startswith("SAME"):
                    # the token-stream tie (like theorem C16_fmt) is claimed under the decidable zero-edge condition:
                    # `if 0 == 0 {..}` re-lexes as `0 ==`,`0` instead of `0`,`== 0` although the tree comes out equal
                    if (m.ask("typ zeroedge %s" % s0) or ["?"])[0] == "OK false":
                        chk.notes["zero_edge_token_diffs"] = chk.notes.get("zero_edge_token_diffs", 0) + 1
                        continue
                    chk.corr["disagreements"] += 1
                    chk.model_disagreements.append({"file": path, "width": w, "indent": i, "model": mr[0][:200]})
            # parser model = real parser on this file
            mr = m.ask("stage parsefixed %s" % path)
            chk.corr["compared"] += 1
            if mr is None:
                m = common.model()
                mr = ["DIED"]
            if mr[0] != "OK " + st["S0"][1]:
                chk.corr["disagreements"] += 1
                chk.model_disagreements.append({"file": path, "pass": "parse", "model": mr[0][:200]})
        # --- the command-line formatter's FILE modes (`--inplace`, `-o FILE`), as histories: whatever the
        #     destination held before, afterwards it holds exactly the printed text (spec: write = replace)
        okc, cerr = common.build_cli()
        chk.obligation("build:scc-cli", "build", okc, cerr[-300:])
        if okc:
            import shutil

            cd = os.path.join(WORK, "c16_cli")
            shutil.rmtree(cd, ignore_errors=True)
            os.makedirs(cd)
            sample = [p_ for p_ in progs if "/corpus/parse/" in p_][:: (6 if quick else 1)] + pipeline.repo_programs()[:: (5 if quick else 1)]
            n_hist = 0
            for path in sample:
                src = open(path).read()
                if h.ask("stages %s 0" % path) is None:
                    h = common.harness()
                    continue
                for (w, i) in ([(100, 4), (20, 2)] if quick else [(100, 4), (20, 2), (1, 0), (200, 8), (40, 3)]):
                    rep = h.ask("fmt %s %d %d" % (path, w, i))
                    if not rep or not rep[0].startswith("FMT OK "):
                        continue
                    text, verdict = split_quoted(rep[0][len("FMT OK "):])
                    if not verdict.startswith("SAME"):
                        continue  # reported above (known finding or violation)
                    st0, out0, err0 = common.run_cli(["fmt", "--width", str(w), "--indent", str(i), path])
                    expected = out0.decode(errors="replace")
                    chk.corr["compared"] += 1
                    if st0 != 0 or expected.strip() != text.strip():
                        chk.corr["disagreements"] += 1
                        chk.model_disagreements.append({"file": path, "pass": "cli-stdout-vs-library", "status": st0, "stderr": err0[:200]})
                        continue
                    # history 1: in place over a LONGER previous content (banner comment + trailing comments)
                    f1 = os.path.join(cd, "inplace.sc")
                    open(f1, "w").write("// " + "banner " * 40 + "\n" + src + "\n// trailing comment one\n// trailing comment two " + "x" * 300 + "\n")
                    s1, _, e1 = common.run_cli(["fmt", "--width", str(w), "--indent", str(i), "--inplace", f1])
                    got1 = open(f1, errors="replace").read()
                    # history 2: -o onto a file that holds an earlier, longer rendering (narrow width), then again (same)
                    f2 = os.path.join(cd, "out.sc")
                    if os.path.exists(f2):
                        os.remove(f2)
                    common.run_cli(["fmt", "--width", "1", "--indent", "8", "-o", f2, path])
                    s2, _, e2 = common.run_cli(["fmt", "--width", str(w), "--indent", str(i), "-o", f2, path])
                    got2 = open(f2, errors="replace").read() if os.path.exists(f2) else "<no file>"
                    # history 3: formatting the formatted file in place again changes nothing
                    s3, _, e3 = common.run_cli(["fmt", "--width", str(w), "--indent", str(i), "--inplace", f1])
                    got3 = open(f1, errors="replace").read()
                    n_hist += 3
                    chk.count((path, w, i, "cli"))
                    for name, stx, got, err in (("inplace-over-longer-file", s1, got1, e1), ("output-over-earlier-rendering", s2, got2, e2), ("inplace-twice", s3, got3, e3)):
                        if stx != 0 or got != expected:
                            found = True
                            chk.impl_oracle_failures.append({"file": path, "width": w, "indent": i, "history": name, "status": stx})
                            chk.violation("fmt:cli:" + name, "scc fmt (%s) on %s width %d indent %d leaves a file that differs from the printed text (status %s)" % (name, os.path.basename(path), w, i, stx),
                                          "fmtcli_%s_%s.txt" % (name, os.path.basename(path)),
                                          "file=%s\nwidth=%d indent=%d\nhistory=%s\nstatus=%s\nstderr=%s\n--- file content afterwards:\n%s\n--- printed text (scc fmt to stdout):\n%s\n" % (path, w, i, name, stx, err[:500], got[:6000], expected[:6000]))
                            break
            chk.notes["cli_histories"] = n_hist
        chk.sample({"widths": widths[:8], "indents": indents, "programs": len(progs)})
        h.close()
        m.close()
    chk.obligation("corr:parse+print", "correspondence", chk.corr["disagreements"] == 0, "%d compared, %d disagreements" % (chk.corr["compared"], chk.corr["disagreements"]))
    return finish(chk, "C16", proofs_ok, plog, found)


def nesting_depth(text):
    d = m = 0
    for ch in text:
        if ch in "([{":
            d += 1
            m = max(m, d)
        elif ch in ")]}":
            d = max(0, d - 1)
    return m


def split_quoted(s):
    """`"<escaped text>" <rest>` -> (text, rest)"""
    assert s[0] == '"'
    i = 1
    while s[i] != '"':
        i += 2 if s[i] == "\\" else 1
    return common.sx_parse(s[: i + 1])[1], s[i + 1:].strip()


def zero_edge(src):
    """shape of the known finding: a comparison whose operand next to the operator is the literal 0
    written so that it does not fuse with the operator token (e.g. `== -0`, `0 < 0`, `== (0)`...)"""
    s = re.sub(r"//[^\n]*", "", src)
    return bool(re.search(r"(==|!=|<=|>=|<|>)\s*-\s*0\b", s) or re.search(r"\b0\s*(==|!=|<=|>=|<|>)\s*0\b", s) or re.search(r"-\s*0\s*(==|!=|<=|>=|<|>)", s))


# ------------------------------------------------------------------------------------------- C18


def c18():
    chk = Check("C18", level="proof")
    chk.rule = (
        "inputs: seeded token-level and byte-level mutations of valid programs (gen/mutate_text.py: deletions, "
        "duplications, swaps, replacements, truncations, awkward characters, extreme literals), deep nesting, "
        "missing / oversized main, and valid programs through all later stages; the real parser/checker/stages run under "
        "catch_unwind; outcome class (result | diagnostic | panic) must equal the Lean parser model's, which is proved "
        "never to panic for the repaired literal action; non-trivial = distinct input text"
    )
    chk.assumptions = ["input is a String (invalid UTF-8 is rejected by read_to_string before parsing)", "stack depth is outside the model (nesting up to 3000 tested)"]
    facts, errors = regen.regen(["parser"]) if "parser" in regen.GENERATORS else ({}, {})
    chk.notes["generated_facts"] = facts
    ready, proofs_ok, plog = base(chk, "C18", "hand-written Lean model of lexer and parser (Scc/Fun/Lex.lean, Parse.lean) with explicit panic outcome, tied by equality of outcome class and tree on every input of the run; later stages: see C12")
    if errors:
        chk.obligation("regen:parser", "translator", False, str(errors))
        proofs_ok = False
    found = False
    if ready:
        h = common.harness()
        m = common.model()
        quick = chk.tier == "quick"
        seeds = pipeline.repo_programs() + pipeline.corpus_programs("parse")
        mdir = os.path.join(WORK, "c18_mut")
        subprocess.run(["rm", "-rf", mdir])
        n = 1500 if quick else 60000
        subprocess.run(["python3", os.path.join(common.VERIF, "gen", "mutate_text.py"), str(chk.seed), str(n), mdir] + seeds, check=True, capture_output=True)
        inputs = sorted(os.path.join(mdir, f) for f in os.listdir(mdir))
        # hand-made extremes
        ext = os.path.join(WORK, "c18_ext")
        os.makedirs(ext, exist_ok=True)
        extremes = {
            "biglit.sc": "def main():i64{9223372036854775808}",
            "minlit.sc": "def main():i64{-9223372036854775808}",
            "hugelit.sc": "def main():i64{" + "9" * 400 + "}",
            "deep.sc": "def main():i64{" + "(" * 1500 + "1" + ")" * 1500 + "}",
            "deepop.sc": "def main():i64{" + "(1 + " * 800 + "1" + ")" * 800 + "}",
            "nomain.sc": "def f():i64{1}",
            "main6.sc": "def main(a:i64,b:i64,c:i64,d:i64,e:i64,f:i64):i64{a}",
            "contname.sc": "data _Cont { K }\ndef main():i64{1}",
            "empty.sc": "",
            "nul.sc": "def main():i64{\x00}",
        }
        for k, v in extremes.items():
            open(os.path.join(ext, k), "w").write(v)
            inputs.append(os.path.join(ext, k))
        import stagecheck as _sc

        inputs += _sc.wide_types(chk)
        inputs += _sc.shape_programs(chk, only=("argn", "nest", "dup"))
        # every hand-written corpus program (valid programs through all later stages: "never panics")
        inputs += [f for f in pipeline.corpus_programs() if f not in set(inputs)]
        outcome_hist = {}
        cli_expect = {}
        for path in inputs:
            rep = h.ask("stages %s 6" % path)
            if rep is None:
                h = common.harness()
                found = True
                chk.impl_oracle_failures.append({"file": path, "abort": True})
                chk.violation("C18:abort", "the compiler ABORTED (stack overflow / abort, not a diagnostic) on %s" % os.path.basename(path), "abort_%s.txt" % os.path.basename(path), open(path, errors="replace").read()[:5000])
                continue
            st = pipeline.parse_stages(rep)
            chk.count(path)
            s0 = st.get("S0", ("MISSING", ""))
            outcome_hist[s0[0]] = outcome_hist.get(s0[0], 0) + 1
            s1_ = st.get("S1", ("MISSING", ""))
            if s0[0] == "DIAG" or (s0[0] == "OK" and s1_[0] == "DIAG"):
                cli_expect[path] = "DIAG-parse" if s0[0] == "DIAG" else "DIAG-check"
            elif s0[0] == "OK" and s1_[0] == "OK":
                cli_expect[path] = "OK"
            valid_main = False
            if "S1" in st and st["S1"][0] == "OK":
                import stagecheck

                np_ = stagecheck.main_params(st)
                valid_main = np_ is not None and np_ <= 5
            for stage, (status, payload) in st.items():
                if status != "PANIC":
                    continue
                if stage in ("S6x", "S6a", "S7r") and ("Out of temporaries" in payload or "Out of registers" in payload or "not implemented in RISC-V" in payload):
                    continue  # documented capacity assertions / unimplemented print of the RV backend
                if stage not in ("S0", "S1") and not valid_main:
                    continue  # later stages are only claimed for programs with a valid entry point
                found = True
                chk.impl_oracle_failures.append({"file": path, "stage": stage, "panic": payload[:200]})
                key = "parser:literal-overflow-panic" if stage == "S0" and "ParseIntError" in payload else "C18:panic:%s" % stage
                chk.violation(key, "stage %s PANICS on %s: %s" % (stage, os.path.basename(path), payload[:160]), "panic_%s_%s.txt" % (stage, os.path.basename(path)),
                              "file=%s\nstage=%s\npanic=%s\ninput:\n%s\n" % (path, stage, payload, open(path, errors="replace").read()[:5000]))
            # model vs code: outcome class + tree of the parser
            mr = m.ask("stage parsefixed %s" % path)
            chk.corr["compared"] += 1
            if mr is None:
                m = common.model()
                mr = ["DIED"]
            mod = mr[0]
            same = (s0[0] == "OK" and mod == "OK " + s0[1]) or (s0[0] == "DIAG" and mod.startswith("DIAG")) or (s0[0] == "PANIC" and mod.startswith("PANIC")) or (s0[0] == "IOERR")
            if not same:
                chk.corr["disagreements"] += 1
                chk.model_disagreements.append({"file": path, "impl": s0[0] + " " + s0[1][:60], "model": mod[:80]})
        # --- the REAL command-line binary on the same inputs: "a program or a REPORTED error" — the report
        #     itself (diagnostic rendering, lang/fun/src/parser/result.rs, driver/src/result.rs, app/src/cli)
        #     must not panic either; exit status 0 (accepted) / 1 (diagnostic), never 101 / a signal
        okc, cerr = common.build_cli()
        chk.obligation("build:scc-cli", "build", okc, cerr[-300:])
        if okc:
            by_class = {}
            for path in inputs:
                oc = cli_expect.get(path)
                if oc is not None:
                    by_class.setdefault(oc, []).append(path)
            cli_n = 0
            cli_hist = {}
            for oc, paths in sorted(by_class.items()):
                nonascii = [p_ for p_ in paths if any(ord(ch) > 127 for ch in open(p_, errors="replace").read())]
                rest = [p_ for p_ in paths if p_ not in set(nonascii)]
                pick = nonascii[: (60 if quick else 3000)] + rest[:: max(1, len(rest) // (80 if quick else 4000))]
                for path in pick:
                    if nesting_depth(open(path, errors="replace").read()) > 200:
                        continue  # the property is claimed "within stack limits": the CLI's main thread has the default 8 MiB stack
                    stc, outc, errc = common.run_cli(["check", path])
                    cli_n += 1
                    chk.count((path, "cli"))
                    cli_hist[str(stc)] = cli_hist.get(str(stc), 0) + 1
                    expect = 0 if oc == "OK" else 1
                    if stc != expect or "panicked" in errc:
                        bad_kind = "panic" if (stc == 101 or "panicked" in errc or str(stc).startswith("signal")) else "status"
                        if bad_kind == "status":
                            chk.corr["disagreements"] += 1
                            chk.model_disagreements.append({"file": path, "pass": "cli-exit-status", "expected": expect, "got": stc, "stderr": errc[:200]})
                            continue
                        found = True
                        chk.impl_oracle_failures.append({"file": path, "cli_status": stc, "stderr": errc[:200]})
                        chk.violation("C18:cli-panic", "`scc check` on %s: exit status %s (%s) instead of %s" % (os.path.basename(path), stc, errc.strip().split("\n")[0][:120], "a reported diagnostic" if expect else "success"),
                                      "cli_%s.txt" % os.path.basename(path), "file=%s\nexit status=%s\nexpected=%d\nstderr:\n%s\ninput:\n%s\n" % (path, stc, expect, errc[:3000], open(path, errors="replace").read()[:5000]))
            chk.notes["cli_runs"] = cli_n
            chk.notes["cli_exit_status_histogram"] = cli_hist
        chk.notes["parse_outcomes"] = outcome_hist
        chk.sample({"inputs": len(inputs), "parse_outcomes": outcome_hist})
        h.close()
        m.close()
    chk.obligation("corr:parse-outcome", "correspondence", chk.corr["disagreements"] == 0, "%d compared, %d disagreements" % (chk.corr["compared"], chk.corr["disagreements"]))
    return finish(chk, "C18", proofs_ok, plog, found)
