"""Stage-by-stage correspondence between the real passes (harness) and the Lean pass models.

For every input program the harness dumps all stages; each Lean pass model is fed the
IMPLEMENTATION's dump of stage k and must reproduce the implementation's dump of stage k+1
(errors therefore do not cascade).  Canonicalisation: the lists under datas / codatas / types are
sorted by declared name on both sides (their order comes out of a Rust HashMap; that order is the
business of C17) — nothing else."""
import glob
import os

import common
from common import WORK, sx_parse, sx_str

# pass name -> (input stage, output stage)
PASSES = {
    "fun2core": ("S1", "S2"),
    "uniquify": ("S2", "S2u"),
    "focus": ("S2", "S3"),
    "shrink": ("S3", "S4"),
    "linearize": ("S4", "S5"),
}


def repo_programs():
    fs = glob.glob("/repo/examples/*/*.sc") + glob.glob("/repo/testsuite/**/*.sc", recursive=True)
    fs += glob.glob("/repo/benchmarks/**/*.sc", recursive=True)
    return sorted(fs)


def corpus_programs(sub=None):
    base = os.path.join(common.VERIF, "gen", "corpus")
    pat = os.path.join(base, sub or "*", "*.sc")
    return sorted(glob.glob(pat))


def decl_name(d):
    # (type (id "N" k) ...) | (data "N" ...) | (codata "N" ...)
    h = d[1]
    if isinstance(h, list):
        return (h[1][1], int(h[2]))
    return (h[1], 0)


def canon(dump):
    """sort type declaration lists by name"""
    try:
        t = sx_parse(dump)
    except Exception:
        return dump
    for i, item in enumerate(t):
        if isinstance(item, list) and item and item[0] in ("datas", "codatas", "types"):
            t[i] = [item[0]] + sorted(item[1:], key=decl_name)
    return sx_str(t)


def parse_stages(rep):
    """reply lines of `stages` -> dict stage -> (status, payload)"""
    out = {}
    for l in rep or []:
        parts = l.split(" ", 2)
        if len(parts) < 2:
            continue
        payload = parts[2] if len(parts) > 2 else ""
        if parts[1] == "OK" and parts[0][:2] in ("S6", "S7") and '"' in payload:
            # `<nargs> "<escaped text>"` or `"<escaped text>"` -> plain text (nargs kept in front)
            k = payload.index('"')
            try:
                payload = payload[:k] + sx_parse(payload[k:])[1]
            except Exception:
                pass
        out[parts[0]] = (parts[1], payload)
    return out


class Corr:
    def __init__(self, chk, tag):
        self.chk = chk
        self.h = common.harness()
        self.m = common.model()
        self.dir = os.path.join(WORK, "corr_" + tag)
        os.makedirs(self.dir, exist_ok=True)
        self.n = 0
        self.stats = {}

    def stages(self, path, upto=6):
        rep = self.h.ask("stages %s %d" % (path, upto))
        if rep is None:
            # the harness process died (abort / stack overflow): restart, report
            self.h = common.harness()
            return None
        return parse_stages(rep)

    def model_pass(self, name, input_dump):
        self.n += 1
        p = os.path.join(self.dir, "in_%s.sexp" % name)
        with open(p, "w") as f:
            f.write(input_dump)
        rep = self.m.ask("stage %s %s" % (name, p))
        if rep is None:
            self.m = common.model()
            return "DIED", ""
        parts = rep[0].split(" ", 1)
        return parts[0], parts[1] if len(parts) > 1 else ""

    def compare(self, name, st):
        """returns None if not applicable, else (agree: bool, detail)"""
        i, o = PASSES[name]
        if i not in st or st[i][0] != "OK":
            return None
        status, out = self.model_pass(name, st[i][1])
        impl = st.get(o)
        key = "%s:%s/%s" % (name, status, impl[0] if impl else "missing")
        self.stats[key] = self.stats.get(key, 0) + 1
        if impl is None:
            return (False, "implementation produced no %s" % o)
        if impl[0] == "OK" and status == "OK":
            if out == impl[1] or canon(out) == canon(impl[1]):
                return (True, "")
            a, b = canon(out), canon(impl[1])
            k = next((k for k in range(min(len(a), len(b))) if a[k] != b[k]), min(len(a), len(b)))
            return (False, "dumps differ at %d: model …%s… impl …%s…" % (k, a[max(0, k - 80):k + 80], b[max(0, k - 80):k + 80]))
        if impl[0] == "PANIC" and status == "PANIC":
            return (True, "both panic")
        return (False, "outcome class differs: model %s %s, impl %s %s" % (status, out[:120], impl[0], impl[1][:120]))

    def close(self):
        self.h.close()
        self.m.close()
