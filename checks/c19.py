"""C19 — output size is polynomial: continuations are shared, not duplicated."""
import json
import math
import os
import sys

import common
import pipeline
from common import Check, WORK

sys.path.insert(0, os.path.join(common.VERIF, "gen"))
import gen_family  # noqa: E402

SIZE_STAGES = ["S1", "S2", "S3", "S4", "S5", "S6x", "S6a"]


def size_of(stage, payload):
    if stage.startswith("S6"):
        return payload.count("\n") + 1
    return payload.count("(")


def main():
    chk = Check("C19", level="proof")
    obl = json.load(open(os.path.join(common.VERIF, "obligations.json"))).get("C19", [])
    chk.checker_cmd = "lake build " + " ".join(sorted({m for o in obl for m in o["modules"]})) + " sccmodel; lake env lean Scc/Audit/*.lean"
    chk.trusted = [
        "Lean 4.33 kernel; axioms propext, Classical.choice, Quot.sound only",
        "Lean models of fun2core and core2axcut (the two passes that can duplicate continuations), tied by exact dump equality on every program of the run incl. the scalable families",
        "size = number of S-expression nodes of the stage dump / number of emitted lines",
    ]
    chk.assumptions = ["the pipeline size theorem C19_pipeline_size bounds the number of x86-64 INSTRUCTIONS of the routine by an explicit polynomial of the source size (Props/C19Rest.lean: uniquify exact, focus <= 4x, linearize <= 2x nodes and linear contexts, code generation <= 485(1+M) per node); 'printCode emits no newline' (instructions = text lines) is not proved: the check measures text lines on the families"]
    chk.rule = (
        "scalable families (gen/gen_family.py: sequenced / nested conditionals and matches, matches on a "
        "4-constructor type, lets over matches, codata with conditionals, mixed) at depth k = 1..K with source "
        "size linear in k; the size of every stage is measured on the real compiler's dumps; violation = growth "
        "exponent between k = K/2 and k = K above 3 (2^k would give >= K/2); non-trivial = distinct (family, k)"
    )
    ok_h, herr = common.build_harness()
    chk.obligation("build:harness", "build", ok_h, herr[-300:])
    okm, outm = common.lake_build(["sccmodel"])
    chk.obligation("build:sccmodel", "build", okm, outm[-400:])
    proofs_ok = True
    plog = ""
    for o in obl:
        okp, _, out = common.prove(chk, "C19", o["modules"], o["theorems"])
        proofs_ok = proofs_ok and okp
        plog += out[-1500:]
    found = False
    if ok_h and okm:
        K = 12 if chk.tier == "quick" else 16
        corr = pipeline.Corr(chk, "C19")
        d = os.path.join(WORK, "c19")
        os.makedirs(d, exist_ok=True)
        table = {}
        for fam in gen_family.FAMILIES:
            sizes = {}
            for k in range(1, K + 1):
                p = os.path.join(d, "%s_%d.sc" % (fam, k))
                src = gen_family.program(fam, k)
                open(p, "w").write(src)
                st = corr.stages(p)
                chk.count((fam, k))
                if st is None or "S5" not in st or st["S5"][0] != "OK":
                    found = True
                    chk.violation("C19:family-does-not-compile", "family %s depth %d does not compile: %s" % (fam, k, str(st)[:200]), "nocompile_%s_%d.txt" % (fam, k), src)
                    continue
                for ps in ("fun2core", "shrink"):
                    r = corr.compare(ps, st)
                    if r is not None:
                        chk.corr["compared"] += 1
                        if not r[0]:
                            chk.corr["disagreements"] += 1
                            chk.model_disagreements.append({"family": fam, "k": k, "pass": ps, "detail": r[1][:300]})
                sizes[k] = {"src": len(src)}
                for s in SIZE_STAGES:
                    if s in st and st[s][0] == "OK":
                        sizes[k][s] = size_of(s, st[s][1])
                # progressive test: stop deepening a family as soon as the growth is super-cubic (an exponential
                # family would otherwise exhaust memory before depth K is reached)
                if k >= 4 and k < K and (k // 2) in sizes:
                    if any(s in sizes[k] and s in sizes[k // 2] and sizes[k // 2][s] > 0 and math.log(sizes[k][s] / sizes[k // 2][s]) / math.log(k / (k // 2)) > 3.0 for s in SIZE_STAGES):
                        break
            table[fam] = sizes
            hi = max(sizes) if sizes else K
            lo = hi // 2
            if lo in sizes and hi in sizes:
                for s in ["src"] + SIZE_STAGES:
                    if s in sizes[lo] and s in sizes[hi] and sizes[lo][s] > 0:
                        expo = math.log(sizes[hi][s] / sizes[lo][s]) / math.log(hi / lo)
                        limit = 1.3 if s == "src" else 3.0
                        if expo > limit:
                            found = True
                            chk.impl_oracle_failures.append({"family": fam, "stage": s, "exponent": round(expo, 2), "sizes": [sizes[k].get(s) for k in sorted(sizes)]})
                            chk.violation("C19:blowup:%s" % s, "family %s: size of %s grows with exponent %.2f between depth %d and %d (%s)" % (fam, s, expo, lo, hi, [sizes[k].get(s) for k in sorted(sizes)]),
                                          "blowup_%s_%s.txt" % (fam, s), "family=%s\nstage=%s\nsizes by depth=%s\nprogram at depth %d:\n%s\n" % (fam, s, [(k, sizes[k].get(s)) for k in sorted(sizes)], hi, gen_family.program(fam, hi)))
        chk.notes["sizes_at_K"] = {fam: table[fam].get(K) for fam in table}
        chk.sample({"family": "seqcase3", "sizes_by_depth": {k: v.get("S2") for k, v in table.get("seqcase3", {}).items()}})
        corr.close()
    chk.obligation("corr:fun2core+shrink on families", "correspondence", chk.corr["disagreements"] == 0, "%d compared, %d disagreements" % (chk.corr["compared"], chk.corr["disagreements"]))
    if (not proofs_ok or chk.corr["disagreements"]) and not chk.has_failing_input():
        what = [("%s (%s): %s" % (n, r, dd)) for n, r, ok, dd in chk.obligations if not ok]
        what += [json.dumps(x)[:300] for x in chk.model_disagreements[:5]]
        chk.violation("C19:unproved", "proof obligations or correspondence broken, no blow-up found: " + "; ".join(what)[:600], "unproved.txt", "\n".join(what) + "\n" + plog[-3000:], found_input=False)
    return chk.finish()


if __name__ == "__main__":
    raise SystemExit(main())
