import stagecheck


def main():
    return stagecheck.run("C12")
