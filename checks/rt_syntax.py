"""dev tool: reader/writer round trip of the Lean syntax files against real harness dumps"""
import glob, os, sys
sys.path.insert(0, os.path.dirname(os.path.abspath(__file__)))
import common
files = sorted(glob.glob('/repo/examples/*/*.sc') + glob.glob('/repo/testsuite/**/*.sc', recursive=True) + glob.glob('/repo/benchmarks/**/*.sc', recursive=True))
h = common.harness(); m = common.model()
kinds = {'S0': 'fun', 'S1': 'checked', 'S2': 'core', 'S2u': 'core', 'S3': 'fscore', 'S4': 'axcut', 'S5': 'axcut'}
bad = 0; n = 0
os.makedirs(common.WORK + '/rt', exist_ok=True)
for f in files:
    rep = h.ask('stages %s 5' % f)
    for l in rep:
        st, status, *rest = l.split(' ', 2)
        if status != 'OK' or st not in kinds: continue
        p = common.WORK + '/rt/dump.sexp'
        open(p, 'w').write(rest[0])
        r = m.ask('sx %s %s' % (kinds[st], p))
        n += 1
        if not r or r[0] != 'OK ' + rest[0]:
            bad += 1
            print('MISMATCH', f, st, (r or ['dead'])[0][:200])
            if r and r[0].startswith('OK'):
                a, b = r[0][3:], rest[0]
                i = next((i for i in range(min(len(a), len(b))) if a[i] != b[i]), 0)
                print('  model:', a[max(0,i-60):i+60]); print('  impl :', b[max(0,i-60):i+60])
print('roundtrips', n, 'bad', bad, 'files', len(files))
