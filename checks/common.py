"""Shared machinery of all checks: building, regeneration, Lean builds and audits, process
drivers for the Rust harness and the Lean model, evidence files, VIOLATION / KNOWN-FINDING
protocol.  Python 3 standard library only."""
import fcntl
import hashlib
import json
import os
import random
import re
import subprocess
import sys
import time

VERIF = os.path.dirname(os.path.dirname(os.path.abspath(__file__)))
REPO = os.environ.get("VERIF_REPO", "/repo")
LEAN = os.path.join(VERIF, "lean")
HARNESS_DIR = os.path.join(VERIF, "harness")
HARNESS_BIN = os.path.join(HARNESS_DIR, "target", "debug", "scc-harness")
MODEL_BIN = os.path.join(LEAN, ".lake", "build", "bin", "sccmodel")
WORK = os.path.join(VERIF, "work")
EVIDENCE = os.path.join(VERIF, "evidence")
REPLAYS = os.path.join(VERIF, "replays")
KNOWN = os.path.join(VERIF, "known_findings.json")
ALLOWED_AXIOMS = {"propext", "Classical.choice", "Quot.sound"}
BV_DECIDE_OK = {"C07"}  # properties whose theorems may depend on bv_decide natives (stated in DESIGN.md §3)
FORBIDDEN = re.compile(
    r"\b(sorry|admit|native_decide|implemented_by|unsafe)\b|^\s*axiom\s|maxHeartbeats\s+0\b"
)

ENV = dict(os.environ)
ENV["CARGO_NET_OFFLINE"] = "true"
ENV.setdefault("CARGO_TERM_COLOR", "never")


def log(*a):
    print(*a, file=sys.stderr, flush=True)


class Lock:
    """Cross-process lock (checks may run in parallel in the thorough tier)."""

    def __init__(self, name):
        os.makedirs(WORK, exist_ok=True)
        self.path = os.path.join(WORK, name + ".lock")

    def __enter__(self):
        self.f = open(self.path, "w")
        fcntl.flock(self.f, fcntl.LOCK_EX)
        return self

    def __exit__(self, *a):
        fcntl.flock(self.f, fcntl.LOCK_UN)
        self.f.close()


def run(cmd, cwd=None, timeout=3600, input=None, env=None):
    p = subprocess.run(
        cmd, cwd=cwd, env=env or ENV, input=input, capture_output=True, text=True, timeout=timeout
    )
    return p.returncode, p.stdout, p.stderr


# ----------------------------------------------------------------------------- builds


def build_harness():
    """cargo build of the harness against /repo's current working tree, hooks enabled."""
    with Lock("cargo"):
        lock = os.path.join(HARNESS_DIR, "Cargo.lock")
        src = os.path.join(REPO, "Cargo.lock")
        if os.path.exists(src) and not os.path.exists(lock):
            import shutil

            shutil.copy(src, lock)
        rc, out, err = run(
            ["cargo", "build", "--offline", "--features", "verif_hooks"], cwd=HARNESS_DIR
        )
        if rc != 0:
            return False, (out + err)[-4000:]
        return True, ""


CLI_TARGET = os.path.join(WORK, "target_cli")
CLI_BIN = os.path.join(CLI_TARGET, "debug", "scc")


def build_cli():
    """cargo build of the REAL command-line binary `scc` from /repo's current working tree (own target dir
    under /verif/work, /repo is not written)."""
    with Lock("cargo-cli"):
        env = dict(ENV)
        env["CARGO_TARGET_DIR"] = CLI_TARGET
        env["CARGO_NET_OFFLINE"] = "true"
        p = subprocess.run(["cargo", "build", "--offline", "-q", "-p", "scc"], cwd=REPO, env=env, capture_output=True, text=True)
        if p.returncode != 0:
            return False, (p.stdout + p.stderr)[-3000:]
        return os.path.exists(CLI_BIN), ""


def run_cli(args, cwd=None, timeout=60):
    """-> (exit status or 'signal:<n>' / 'timeout', stdout bytes, stderr text)"""
    try:
        p = subprocess.run([CLI_BIN, "--no-color"] + args, cwd=cwd or WORK, capture_output=True, timeout=timeout, env=ENV)
    except subprocess.TimeoutExpired:
        return "timeout", b"", ""
    st = p.returncode if p.returncode >= 0 else "signal:%d" % (-p.returncode)
    return st, p.stdout, p.stderr.decode(errors="replace")


def write_if_changed(path, text):
    os.makedirs(os.path.dirname(path), exist_ok=True)
    try:
        if open(path).read() == text:
            return False
    except FileNotFoundError:
        pass
    with open(path, "w") as f:
        f.write(text)
    return True


def lake_build(targets, timeout=3600):
    """Build Lean targets; returns (ok, log).  Serialised: one lake at a time."""
    with Lock("lake"):
        rc, out, err = run(["lake", "build"] + list(targets), cwd=LEAN, timeout=timeout)
    return rc == 0, out + err


def lean_run(relpath, timeout=1800):
    """`lake env lean <file>` (no olean written): used for the axiom audits."""
    rc, out, err = run(["lake", "env", "lean", relpath], cwd=LEAN, timeout=timeout)
    return rc == 0, out + err


def audit_axioms(prop_id, module, theorems):
    """#print axioms for every theorem; returns (ok, {thm: [axioms]}, log)."""
    text = "import %s\n" % module + "".join("#print axioms %s\n" % t for t in theorems)
    rel = os.path.join("Scc", "Audit", "Audit_%s.lean" % prop_id)
    write_if_changed(os.path.join(LEAN, rel), text)
    ok, out = lean_run(rel)
    res = {}
    # messages may wrap over several lines
    flat = re.sub(r"\n\s+", " ", out)
    # names may end in primes: `'foo'' depends on axioms: [...]`
    for m in re.finditer(r"'(\S+?)' depends on axioms: \[([^\]]*)\]", flat):
        res[m.group(1)] = [a.strip() for a in m.group(2).split(",") if a.strip()]
    for m in re.finditer(r"'(\S+?)' does not depend on any axioms", flat):
        res[m.group(1)] = []
    return ok, res, out


def lean_imports_outside_core():
    res = set()
    for root, _, files in os.walk(os.path.join(LEAN, "Scc")):
        for f in files:
            if f.endswith(".lean"):
                for l in open(os.path.join(root, f), errors="replace"):
                    m = re.match(r"^import\s+(\S+)", l)
                    if m and m.group(1).split(".")[0] not in ("Scc", "Std", "Init", "Lean"):
                        res.add("%s: %s" % (os.path.relpath(os.path.join(root, f), LEAN), m.group(1)))
    return sorted(res)


def grep_forbidden(files):
    hits = []
    for f in files:
        try:
            lines = open(f).read().split("\n")
        except FileNotFoundError:
            continue
        incomment = 0
        for i, l in enumerate(lines):
            # strip block comments crudely (nesting tracked by count) and line comments
            s = l
            out = ""
            j = 0
            while j < len(s):
                if s.startswith("/-", j):
                    incomment += 1
                    j += 2
                elif s.startswith("-/", j) and incomment:
                    incomment -= 1
                    j += 2
                else:
                    if not incomment:
                        out += s[j]
                    j += 1
            out = out.split("--")[0]
            if FORBIDDEN.search(out):
                hits.append("%s:%d: %s" % (f, i + 1, l.strip()))
    return hits


def lean_files_of(modules):
    return [os.path.join(LEAN, m.replace(".", "/") + ".lean") for m in modules]


# ----------------------------------------------------------------------------- line-protocol peers


class Peer:
    """line-protocol child process; replies are read with a per-request timeout"""

    def __init__(self, argv, cwd=None):
        os.makedirs(WORK, exist_ok=True)
        self.p = subprocess.Popen(
            argv,
            cwd=cwd or WORK,
            stdin=subprocess.PIPE,
            stdout=subprocess.PIPE,
            stderr=subprocess.DEVNULL,
            env=ENV,
        )
        self.argv = argv
        self.buf = b""
        self.timed_out = None

    def _readline(self, deadline):
        import select

        fd = self.p.stdout.fileno()
        while b"\n" not in self.buf:
            r, _, _ = select.select([fd], [], [], max(0.0, deadline - time.time()))
            if not r:
                return None
            chunk = os.read(fd, 1 << 16)
            if not chunk:
                return b""
            self.buf += chunk
        line, self.buf = self.buf.split(b"\n", 1)
        return line + b"\n"

    def ask(self, line, timeout=120):
        """send one request, return the reply lines (without the END marker); None if the peer died
        or did not answer within `timeout` seconds (it is killed then; the caller restarts it)"""
        try:
            self.p.stdin.write((line + "\n").encode())
            self.p.stdin.flush()
        except (BrokenPipeError, ValueError):
            return None
        out = []
        deadline = time.time() + timeout
        while True:
            l = self._readline(deadline)
            if l is None:
                log("peer timeout on request: %s" % line[:200])
                self.timed_out = line
                self.p.kill()
                return None
            if l == b"":
                return None
            l = l.decode("utf-8", errors="replace").rstrip("\n")
            if l == "END":
                return out
            out.append(l)

    def close(self):
        try:
            self.p.stdin.close()
            self.p.wait(timeout=10)
        except Exception:
            self.p.kill()


def harness(cwd=None):
    return Peer([HARNESS_BIN], cwd=cwd)


def model():
    return Peer([MODEL_BIN])


# ----------------------------------------------------------------------------- S-expressions (reader, for canonicalisation)


def sx_parse(src):
    pos = 0
    n = len(src)

    def ws():
        nonlocal pos
        while pos < n and src[pos].isspace():
            pos += 1

    def parse():
        nonlocal pos
        ws()
        c = src[pos]
        if c == "(":
            pos += 1
            items = []
            while True:
                ws()
                if src[pos] == ")":
                    pos += 1
                    return items
                items.append(parse())
        if c == '"':
            pos += 1
            s = []
            while src[pos] != '"':
                if src[pos] == "\\":
                    pos += 1
                    s.append({"n": "\n", "r": "\r", "t": "\t"}.get(src[pos], src[pos]))
                else:
                    s.append(src[pos])
                pos += 1
            pos += 1
            return ("s", "".join(s))
        st = pos
        while pos < n and not src[pos].isspace() and src[pos] not in "()":
            pos += 1
        return src[st:pos]

    return parse()


def sx_str(x):
    if isinstance(x, list):
        return "(" + " ".join(sx_str(i) for i in x) + ")"
    if isinstance(x, tuple):
        s = x[1].replace("\\", "\\\\").replace('"', '\\"').replace("\n", "\\n")
        s = s.replace("\r", "\\r").replace("\t", "\\t")
        return '"' + s + '"'
    return x


# ----------------------------------------------------------------------------- findings, evidence, verdict


def load_known():
    try:
        return json.load(open(KNOWN))
    except FileNotFoundError:
        return {"findings": []}


class Check:
    """Collects what one run of one property check did and renders the verdict."""

    def __init__(self, prop_id, level="proof"):
        self.id = prop_id
        self.level = level
        self.t0 = time.time()
        self.tier = os.environ.get("VERIF_TIER", "quick")
        self.seed = int(os.environ.get("VERIF_SEED", "20250925"))
        self.rng = random.Random(self.seed)
        self.obligations = []  # (name, role, ok, detail)
        self.violations = []  # (key, what, replay_path)
        self.known_hits = []
        self.evaluations = 0
        self.distinct = set()
        self.samples = []
        self.notes = {}
        self.assumptions = []
        self.trusted = []
        self.checker_cmd = ""
        self.rule = ""
        self.corr = {"compared": 0, "disagreements": 0}
        self.impl_oracle_failures = []
        self.model_disagreements = []
        self.known = load_known()
        os.makedirs(os.path.join(REPLAYS, prop_id), exist_ok=True)

    # --- obligations (theorems, generated facts, correspondences)
    def obligation(self, name, role, ok, detail=""):
        self.obligations.append((name, role, bool(ok), detail))
        return ok

    def count(self, case_key, nontrivial=True):
        self.evaluations += 1
        if nontrivial:
            self.distinct.add(hashlib.sha1(str(case_key).encode()).hexdigest()[:16])

    def sample(self, s, limit=8):
        if len(self.samples) < limit:
            self.samples.append(s)

    # --- violations
    def replay_path(self, name):
        return os.path.join(REPLAYS, self.id, name)

    def violation(self, key, what, replay_name, replay_text, found_input=True):
        """key: shape key matched against known_findings.json"""
        path = self.replay_path(replay_name)
        with open(path, "w") as f:
            f.write(replay_text)
        for k in self.known.get("findings", []):
            if k.get("status") == "known" and k.get("property") == self.id and k.get("key") == key:
                self.known_hits.append((key, what))
                return
        self.violations.append((key, what, path, found_input))

    def has_failing_input(self):
        """a NEW violation (not a listed known finding) with a concrete failing input was reported"""
        return any(v[3] for v in self.violations)

    def finish(self):
        wall = time.time() - self.t0
        n_obl = len(self.obligations)
        n_ok = sum(1 for o in self.obligations if o[2])
        cov = {
            "obligations": n_obl,
            "discharged": n_ok,
            "checker_cmd": self.checker_cmd,
            "trusted_base": self.trusted,
            "obligation_list": [
                {"name": n, "role": r, "ok": ok, "detail": d} for (n, r, ok, d) in self.obligations
            ],
            "evaluations": self.evaluations,
            "distinct_nontrivial": len(self.distinct),
            "rule": self.rule,
            "samples": self.samples or ["(no sampled case)"],
            "correspondence": self.corr,
            "impl_oracle_failures": self.impl_oracle_failures[:20],
            "model_disagreements": self.model_disagreements[:20],
            "known_findings_hit": [k for k, _ in self.known_hits],
        }
        cov.update(self.notes)
        # informational (no verdict): imports of the Lean project that are not core/Std/own modules, so the
        # "core + Std only" line of the trusted base is measured on every run rather than asserted
        try:
            cov["lean_imports_outside_core"] = lean_imports_outside_core()
        except Exception as e:  # never let a note break a check
            cov["lean_imports_outside_core"] = ["(scan failed: %s)" % e]
        ev = {
            "property_id": self.id,
            "tier": self.tier if self.tier in ("quick", "thorough") else "quick",
            "seed": self.seed,
            "level": self.level,
            "coverage": cov,
            "assumptions": self.assumptions,
            "wall_s": round(wall, 2),
            "violations": len(self.violations),
        }
        os.makedirs(EVIDENCE, exist_ok=True)
        with open(os.path.join(EVIDENCE, self.id + ".json"), "w") as f:
            json.dump(ev, f, indent=1)
        seen = set()
        for key, what in self.known_hits:
            if key in seen:
                continue
            seen.add(key)
            print("KNOWN-FINDING: property=%s %s [%s]" % (self.id, what, key))
        if self.violations:
            seen = set()
            for key, what, path, found in self.violations:
                if key in seen:
                    continue
                seen.add(key)
                log("violation [%s]: %s" % (key, what))
                tail = "" if found else " no-failing-input-found"
                print("VIOLATION property=%s replay=%s%s" % (self.id, path, tail))
            sys.stdout.flush()
            return 1
        print(
            "OK property=%s tier=%s obligations=%d/%d cases=%d wall=%.1fs"
            % (self.id, self.tier, n_ok, n_obl, self.evaluations, wall)
        )
        return 0


def prove(chk, prop_id, modules, theorems, role="theorem"):
    """Build the given Lean modules, audit the axioms of the given theorems, grep for forbidden
    constructs.  Registers one obligation per theorem.  Returns (all_ok, failing list, log)."""
    ok, out = lake_build(modules)
    failing = []
    if not ok:
        # which modules failed?
        bad = re.findall(r"^- (\S+)$", out, flags=re.M)
        for t in theorems:
            chk.obligation(t, role, False, "module does not build: %s" % ",".join(bad))
        return False, bad or modules, out
    hits = grep_forbidden(lean_files_of(modules))
    if hits:
        for t in theorems:
            chk.obligation(t, role, False, "forbidden construct: %s" % hits[0])
        return False, hits, "\n".join(hits)
    aok, axioms, aout = audit_axioms(prop_id + "_" + modules[-1].split(".")[-1], modules[-1], theorems)
    allok = True
    if os.environ.get("VERIF_TIER") == "thorough":
        # independent re-check of the compiled Props module by the toolchain's `leanchecker` (replays the
        # declarations of the .olean in a fresh kernel)
        rc, lo, le = run(["lake", "env", "leanchecker", modules[-1]], cwd=LEAN, timeout=3600)
        chk.obligation("leanchecker:" + modules[-1], "recheck", rc == 0, (lo + le)[-300:])
        if rc != 0:
            allok = False
            failing.append("leanchecker:" + modules[-1])
    for t in theorems:
        short = t.split(".")[-1]
        ax = axioms.get(t, axioms.get("Scc.Props." + short))
        if ax is None:
            chk.obligation(t, role, False, "theorem not found by audit")
            failing.append(t)
            allok = False
            continue
        extra = [a for a in ax if a not in ALLOWED_AXIOMS]
        natives = [a for a in extra if "_native.bv_decide.ax" in a]
        if natives and prop_id.split("_")[0] in BV_DECIDE_OK:
            # declared use of bv_decide (AArch64 halfword identities): each call adds one native axiom
            chk.notes.setdefault("bv_decide_axioms", [])
            for a in natives:
                if a not in chk.notes["bv_decide_axioms"]:
                    chk.notes["bv_decide_axioms"].append(a)
            extra = [a for a in extra if a not in natives]
        if extra:
            chk.obligation(t, role, False, "axioms: %s" % extra)
            failing.append(t)
            allok = False
        else:
            chk.obligation(t, role, True, "axioms: %s" % ",".join(ax))
    return allok, failing, aout


# ----------------------------------------------------------------------------- label canonicalisation

_LABEL_RE = re.compile(r"(?<![\w])(?:lab(\d+)(?![\w(])|([A-Za-z_]\w*?)_(\d+)(?=(?:_\w+)?(?!\w)))")


def canon_labels(text, type_names):
    """Renumber the labels drawn from the process-global fresh_label() counter (`lab<N>`,
    `<MangledType>_<N>`, `<MangledType>_<N>_<xtor>`) by order of first occurrence, so that texts
    produced with different counter starts can be compared.  Only prefixes that are mangled names of
    declared types are touched, so user identifiers containing digits are left alone."""
    order = {}

    def repl(m):
        if m.group(1) is not None:
            n = m.group(1)
            pre = "lab"
        else:
            if m.group(2) not in type_names:
                return m.group(0)
            n = m.group(3)
            pre = m.group(2) + "_"
        if n not in order:
            order[n] = str(len(order) + 1)
        return pre + "#" + order[n]

    return _LABEL_RE.sub(repl, text)


def strip_comments(text):
    """drop comment-only lines of emitted assembly (`;` NASM, `//` AArch64 / RISC-V) except the `#ctx`
    hook lines the monitors read: comment wording has no bearing on any property, so a rewording in /repo
    must not break the text correspondence (C17 still compares bytes)"""
    out = []
    for l in text.split("\n"):
        t = l.strip()
        if (t.startswith(";") or t.startswith("//")) and "#ctx" not in t:
            continue
        out.append(l)
    return "\n".join(out)


def mangled_type_names(*dumps):
    names = set()
    for d in dumps:
        for m in re.finditer(r'\(type \(id "([^"]+)" \d+\)', d):
            names.add(m.group(1).replace("[", "_").replace(", ", "_").replace("]", ""))
    return names
