"""Generic check for the back-end properties (C06, C07, C08, C09, C10, C13, C14): inputs are
AxCut programs — generated directly (gen/gen_axcut.py: non-linear, well-typed, controlled context
sizes / field counts) and obtained from Fun programs through the real front end.  For each:

  correspondence   Lean linearize / generic (mock) / backend code generator models reproduce the real
                   S5 dump, mock op list and assembly text (labels renumbered by first occurrence)
  oracles          the emitted text of each backend is executed on the Lean machine model with
                   monitors (heap invariant at every statement boundary, calling convention,
                   undefined-value tracking, well-formedness) and compared with the AxCut
                   positional machine on the linearized program
Each property reports only the failure classes it owns."""
import json
import os
import re
import subprocess

import common
import ladder
import pipeline
import regen
from common import Check, WORK

ARCH_STAGE = {"x86": "S7x", "a64": "S7a", "rv": "S7r"}
BODY_STAGE = {"x86": "S6x", "a64": "S6a"}

SPEC = {
    "C06": dict(archs=["x86"], classes={"sem", "fault", "parse"}, gen=["default", "spill", "bigobj"]),
    "C07": dict(archs=["a64"], classes={"sem", "fault", "parse"}, gen=["default", "spill", "bigobj"]),
    "C08": dict(archs=["rv", "x86", "a64"], classes={"sem", "fault", "parse", "cross"}, gen=["rv"]),
    # C09 also counts machine faults (read of an undefined register / slot, wild jump, unaligned or out-of-area
    # access) of a well-typed program: the execution never reaches the next statement boundary, where the
    # invariant would have to hold ("touches no memory outside its heap, its spill area and what it pushed")
    "C09": dict(archs=["x86", "a64", "rv"], classes={"inv", "oob", "undef", "fault", "align"}, gen=["default", "bigobj", "spill", "rv"]),
    "C10": dict(archs=["x86", "a64"], classes={"inv", "footprint"}, gen=["default"]),
    # "sem": "the result is in the return register" and the entry arguments reach the parameters (0..5 / 0..7)
    "C13": dict(archs=["x86", "a64"], classes={"cc", "align", "undef", "sem"}, gen=["default", "spill", "live"]),
    "C14": dict(archs=["x86", "a64", "rv"], classes={"wf", "parse", "asm"}, gen=["default", "spill", "bigobj", "rv"]),
}

GEN_OPTS = {
    "default": [],
    "spill": ["--max-live", "34", "--size", "40"],
    "bigobj": ["--max-fields", "8"],
    "rv": ["--no-print", "--max-live", "14"],
    "live": ["--max-live", "24", "--size", "30"],
}


def classify(res):
    """machine outcome string -> failure class or None"""
    if res is None:
        return "parse"
    if res.startswith("PARSE-ERROR"):
        return "parse"
    if res.startswith("WF-ERROR"):
        return "wf"
    m = re.search(r"res=(\S+)", res)
    if not m:
        return "parse"
    r = m.group(1)
    if r.startswith("inv:"):
        return "inv"
    if r.startswith("cc:"):
        return "cc"
    if r.startswith("fault:"):
        if "oob" in r or "unaligned" in r:
            return "oob"
        if "misaligned" in r:
            return "align"
        if "read-undefined" in r:
            return "undef"
        if "div-" in r:
            return None
        return "fault"
    return None


def load_obligations(prop):
    try:
        return json.load(open(os.path.join(common.VERIF, "obligations.json"))).get(prop, [])
    except FileNotFoundError:
        return []


def gen_axcut(chk, kinds, n):
    out = []
    for i, kind in enumerate(kinds):
        d = os.path.join(WORK, "ax_%s_%s" % (chk.id, kind))
        subprocess.run(["rm", "-rf", d])
        cmd = ["python3", os.path.join(common.VERIF, "gen", "gen_axcut.py"), str(chk.seed + i), str(n), d] + GEN_OPTS[kind]
        subprocess.run(cmd, check=True, capture_output=True)
        idx = [l.split() for l in open(os.path.join(d, "index_%d.txt" % (chk.seed + i))).read().split("\n") if l.strip()]
        for row in idx:
            f = row[0] if os.path.isabs(row[0]) else os.path.join(d, row[0])
            out.append((f, int(row[1]), kind))
    return out


class Runner:
    def __init__(self, chk, prop):
        self.chk = chk
        self.prop = prop
        self.lad = ladder.Ladder(prop)
        self.dir = self.lad.dir
        self.has_codegen = {}

    def harness_axcut(self, path, mock=True):
        rep = self.lad.h.ask("axcut %s %s" % (path, "mock" if mock else ""))
        if rep is None:
            self.lad.h = common.harness()
            return None
        return pipeline.parse_stages(rep)

    def model_line(self, req):
        return self.lad.ask(req)

    def write(self, name, text):
        p = os.path.join(self.dir, name)
        with open(p, "w") as f:
            f.write(text)
        return p


def run(prop):
    spec = SPEC[prop]
    chk = Check(prop, level="proof")
    obl = load_obligations(prop)
    chk.checker_cmd = "lake build " + " ".join(sorted({m for o in obl for m in o["modules"]})) + " sccmodel; lake env lean Scc/Audit/*.lean"
    chk.trusted = [
        "Lean 4.33 kernel; axioms propext, Classical.choice, Quot.sound only (plus listed bv_decide natives, if any)",
        "spec layer: AxCut positional machine, machine models of the instruction subsets emitted (x86-64 cross-validated against native execution; AArch64/RV64 written from the ISA manuals, cross-checked against each other), heap invariant monitor (proved sound)",
        "hand-written Lean models of linearize / generic code generator / backends, tied by exact equality with the real output on every input of the run",
        "bin/regen for the backend constants",
    ]
    chk.assumptions = ["fuel-bounded runs", "external print functions modelled as clobbering all caller-saved state"]
    chk.rule = (
        "inputs: seeded well-typed non-linear AxCut programs (gen/gen_axcut.py; contexts up to 34 variables so "
        "that values spill on x86-64 (from position 6) and AArch64 (from 13), objects/closures with 0..8 "
        "fields, shared and dropped values, all operators/comparisons, literals of every magnitude) plus "
        "the AxCut programs obtained from the repository, corpus and generated Fun programs; 1-2 argument "
        "tuples; non-trivial = program whose linearized form contains a substitution and a let/create"
    )
    ok_h, herr = common.build_harness()
    chk.obligation("build:harness", "build", ok_h, herr[-300:])
    okm, outm = common.lake_build(["sccmodel"])
    chk.obligation("build:sccmodel", "build", okm, outm[-400:])
    proofs_ok = True
    plog = ""
    if prop in regen.TABLE_THEOREMS:
        # translator tie: dispatch of the generic code generator, decision tables of the backend's instruction
        # methods, config.rs constants, parameter moves, capacity assertions are re-extracted from the working tree
        # and the models are proved to BE them (lean/Scc/Props/Tables.lean); no test input needed
        _, terr = regen.regen(["tables"])
        chk.obligation("regen:tables", "translator", not terr, str(terr)[:400])
        okt, _, outt = common.prove(chk, prop, regen.TABLE_MODULES, regen.TABLE_THEOREMS[prop])
        proofs_ok = proofs_ok and okt and not terr
        plog += str(terr or "") + outt[-1500:]
    for o in obl:
        okp, _, out = common.prove(chk, prop, o["modules"], o["theorems"], role=o.get("role", "theorem"))
        proofs_ok = proofs_ok and okp
        plog += out[-1500:]
    found = False
    if ok_h and okm:
        quick = chk.tier == "quick"
        R = Runner(chk, prop)
        inputs = gen_axcut(chk, spec["gen"], 25 if quick else 600)
        # AxCut programs from the Fun pipeline: S4 dumps
        funs = pipeline.repo_programs() + pipeline.corpus_programs()
        if quick:
            funs = funs[:: max(1, len(funs) // 40)]
        # deterministic boundary family: N live variables across every placement-dependent statement
        bdir = os.path.join(WORK, "boundary_%s" % prop)
        subprocess.run(["python3", os.path.join(common.VERIF, "gen", "gen_boundary.py"), bdir], check=True, capture_output=True)
        funs = sorted(os.path.join(bdir, f) for f in os.listdir(bdir) if f.endswith(".sc")) + funs
        import stagecheck as _sc

        funs = _sc.shape_programs(chk, only=("dup", "rvd", "objp", "nest", "argn", "bal", "rvc", "rvl", "pfx", "dsp", "cap", "capp", "gname", "lzs", "zhd")) + funs
        # regression corpus (minimised past failures): always, never sampled away
        funs = pipeline.corpus_programs("regress") + [f for f in funs if "/corpus/regress/" not in f]
        for f in funs:
            st = R.lad.stages(f)
            if st and "S4" in st and st["S4"][0] == "OK":
                import stagecheck

                np_ = stagecheck.main_params(st)
                if np_ is None or np_ > (7 if "a64" in spec["archs"] else 5):
                    continue
                p = R.write("fun_%s.sexp" % os.path.basename(f), st["S4"][1])
                if "/corpus/regress/" in f:
                    inputs.insert(0, (p, np_, "regress"))
                else:
                    inputs.append((p, np_, "fun"))
        sp_checked = set()
        for path, nargs, kind in inputs:
            if kind == "regress":
                # minimised past failures may depend on the label numbers: replay them in a FRESH compiler
                # process (label counter 0), as a user running the compiler on that file would
                R.lad.h.close()
                R.lad.h = common.harness()
            st = R.harness_axcut(path)
            if st is None:
                found = True
                chk.violation("%s:harness-abort" % prop, "the compiler aborted on %s" % path, "abort_%s.txt" % os.path.basename(path), "file=%s\n" % path)
                continue
            s5 = st.get("S5")
            if not s5 or s5[0] != "OK":
                continue
            nontrivial = "(subst " in s5[1] and ("(let " in s5[1] or "(create " in s5[1])
            chk.count(path, nontrivial)
            tnames = common.mangled_type_names(s5[1])
            s5p = R.write("S5.sexp", s5[1])
            # --- correspondence: linearize, generic (mock) code generator, backend text
            mo = R.model_line("stage linearize %s" % path)
            chk.corr["compared"] += 1
            if mo is None or not mo.startswith("OK ") or mo[3:] != s5[1]:
                chk.corr["disagreements"] += 1
                chk.model_disagreements.append({"file": path, "pass": "linearize", "model": (mo or "")[:200]})
            # label canonicalisation is ill-defined when user names imitate generated labels: the text
            # correspondence is only claimed for programs satisfying the decidable LabelSafe condition
            label_safe = R.model_line("typ labelsafe %s" % s5p) != "OK false"
            if not label_safe:
                chk.notes["label_unsafe_programs"] = chk.notes.get("label_unsafe_programs", 0) + 1
            if label_safe and "S6m" in st and st["S6m"][0] == "OK":
                mm = R.model_line("mock %s 1 0" % s5p)
                chk.corr["compared"] += 1
                a = common.canon_labels(st["S6m"][1].lstrip('"'), tnames)
                b = common.canon_labels((mm or "")[3:], tnames) if mm and mm.startswith("OK ") else mm
                if a != b:
                    chk.corr["disagreements"] += 1
                    chk.model_disagreements.append({"file": path, "pass": "generic-codegen(mock)", "model": (mm or "")[:200]})
            for arch in spec["archs"]:
                stage = ARCH_STAGE[arch]
                if arch not in R.has_codegen:
                    probe = R.model_line("codegen %s %s 1 0" % (arch, s5p))
                    R.has_codegen[arch] = bool(probe) and not probe.startswith("ERR unknown")
                if label_safe and R.has_codegen[arch] and stage in st:
                    mm = R.model_line("codegen %s %s 1 0" % (arch, s5p))
                    chk.corr["compared"] += 1
                    if st[stage][0] == "OK":
                        impl_text = st[stage][1]
                        if arch == "rv":
                            # harness payload: `<nargs> <text>`; model: `OK <nargs>\n<text>`
                            impl_text = impl_text.split(" ", 1)[1] if " " in impl_text else impl_text
                            mod_text = mm.split("\n", 1)[1] if mm and mm.startswith("OK ") and "\n" in mm else mm
                        else:
                            mod_text = mm.split("\n---\n", 1)[1] if mm and mm.startswith("OK ") and "\n---\n" in mm else mm
                        a = common.strip_comments(common.canon_labels(impl_text, tnames))
                        b = common.strip_comments(common.canon_labels(mod_text or "", tnames))
                        same = a == b
                    else:
                        same = bool(mm) and mm.startswith("PANIC")
                    if not same:
                        chk.corr["disagreements"] += 1
                        chk.model_disagreements.append({"file": path, "pass": "codegen-" + arch, "model": (mm or "")[:200]})
            # --- C14: the system assemblers must accept the text
            if prop == "C14":
                import native

                for arch, stage, asm in (("x86", "S7x", native.assemble_x86), ("a64", "S7a", native.assemble_a64)):
                    if stage in st and st[stage][0] == "OK":
                        okA, msg, _ = asm(st[stage][1], R.dir)
                        chk.corr["compared"] += 0
                        if not okA:
                            found = True
                            ls = R.model_line("typ labelsafe %s" % s5p)
                            key = "asm:label-collision:unsafe-names" if ls == "OK false" and "already defined" in msg or ls == "OK false" and "redefin" in msg else "C14:%s:assembler-rejects" % arch
                            chk.impl_oracle_failures.append({"file": path, "arch": arch, "assembler": msg[:200], "labelsafe": ls})
                            chk.violation(key, "%s assembler rejects the text of %s: %s" % (arch, os.path.basename(path), msg.strip().split("\n")[-1][:160]),
                                          "asm_%s_%s.txt" % (arch, os.path.basename(path)), "file=%s\narch=%s\nassembler message:\n%s\nLabelSafe=%s\n" % (path, arch, msg, ls))
            # --- oracles on the implementation's text
            if prop != "C14" and R.model_line("typ lin %s" % s5p) not in ("OK", "OK true"):
                # not linearly well-typed (an ill-typed program handed down by an earlier stage, e.g. the
                # main-called finding): outside the domain of the backend properties
                chk.notes["not_lintyped_programs"] = chk.notes.get("not_lintyped_programs", 0) + 1
                continue
            if not label_safe and prop != "C14":
                # duplicate labels: the text is not a program any assembler accepts (C14's business, known
                # finding asm:label-collision:unsafe-names); it has no execution to speak about
                continue
            tuples = [[chk.rng.choice([0, 1, 2, 3, 5, 7]) for _ in range(nargs)]]
            if nargs:
                tuples.append([chk.rng.choice([0, 1, 4, 10, 6]) for _ in range(nargs)])
            for args in tuples:
                a = ",".join(str(x) for x in args) if args else "-"
                pos = ladder.norm_behaviour(R.model_line("sem pos %s %s %d" % (s5p, a, R.lad.fuel)))
                results = {}
                for arch in spec["archs"]:
                    stage = ARCH_STAGE[arch]
                    if stage not in st or st[stage][0] != "OK":
                        continue
                    text = st[stage][1]
                    if arch == "rv" and " " in text.split("\n", 1)[0]:
                        text = text.split(" ", 1)[1]  # harness payload of S7r: `<nargs> <text>`
                    # static oracle on the implementation's text: every stack-pointer-relative operand lies inside the
                    # reserved spill area (never below the stack pointer, where the next push / call writes)
                    if prop in ("C09", "C13") and arch in ("x86", "a64") and (path, arch) not in sp_checked:
                        sp_checked.add((path, arch))
                        bad_sp = sp_operands_outside(text, arch)
                        if bad_sp:
                            found = True
                            chk.impl_oracle_failures.append({"file": path, "arch": arch, "sp_operand": bad_sp})
                            chk.violation("%s:%s:sp-operand-outside-spill-area" % (prop, arch), "%s text of %s addresses the stack outside the spill area: %s" % (arch, os.path.basename(path), bad_sp),
                                          "spoperand_%s_%s.txt" % (arch, os.path.basename(path)), "file=%s\narch=%s\ninstruction=%s\nprogram:\n%s\n" % (path, arch, bad_sp, open(path).read()[:20000]))
                    ap = R.write("%s.asm" % stage, text)
                    line = R.model_line("asm %s %s %s %d %s" % (arch, ap, a, R.lad.asm_fuel, "heap,wf" if prop == "C14" else ("heap" if spec["classes"] & {"inv", "oob", "cc", "align", "undef"} else "none")))
                    if line is not None and line.startswith("ERR unknown"):
                        continue
                    if not (line or "").strip():
                        # the machine model did not answer in time (long run): no verdict
                        chk.notes["machine_no_verdict"] = chk.notes.get("machine_no_verdict", 0) + 1
                        continue
                    results[arch] = line
                    cls = classify(line)
                    beh = ladder.norm_behaviour(line)
                    if cls is None and pos and beh and pos[1] != "outOfFuel" and beh[1] != "outOfFuel" and beh != pos:
                        cls = "sem"
                    if cls and cls not in spec["classes"] and "sem" in spec["classes"] and pos and pos[1].startswith("done") and beh != pos and not (beh and beh[1] == "outOfFuel"):
                        cls = "sem"  # any abnormal end of the machine where the AxCut program terminates normally is a behavioural difference
                    if cls == "wf" and arch == "rv" and "jump table" in (line or "") and R.model_line("typ rvplainnames %s" % s5p) == "OK false":
                        # the RV validator finds a table's clause labels by string prefix: with names containing
                        # `_<digit>` (types `T` and `T_1`) it rejects well-formed text (kernel-checked witness
                        # `C14RV_falseAlarm`); its table test is claimed for plain names only
                        chk.notes["rv_table_test_skipped_unplain_names"] = chk.notes.get("rv_table_test_skipped_unplain_names", 0) + 1
                        cls = None
                    if cls == "fault" and pos and pos[1].startswith("stuck"):
                        cls = None
                    if cls and cls in spec["classes"]:
                        found = True
                        chk.impl_oracle_failures.append({"file": path, "arch": arch, "args": args, "class": cls, "machine": (line or "")[:200], "pos": pos})
                        key = known_key(prop, arch, cls, line, st[stage][1])
                        if cls == "wf" and "more than once" in (line or ""):
                            if R.model_line("typ labelsafe %s" % s5p) == "OK false":
                                key = "asm:label-collision:unsafe-names"
                        chk.violation(key, "%s %s on %s args %s: %s (positional machine: %s)" % (arch, cls, os.path.basename(path), args, (line or "")[:160], pos),
                                      "%s_%s_%s.txt" % (arch, cls, os.path.basename(path)),
                                      "file=%s\narch=%s\nargs=%s\nclass=%s\nmachine=%s\npositional=%s\nprogram:\n%s\n" % (path, arch, args, cls, line, pos, open(path).read()[:20000]))
                if "cross" in spec["classes"]:
                    behs = {a_: ladder.norm_behaviour(l) for a_, l in results.items()}
                    vals = {b for b in behs.values() if b and b[1] != "outOfFuel"}
                    if len(vals) > 1:
                        found = True
                        chk.violation("%s:cross-backend" % prop, "backends disagree on %s args %s: %s" % (os.path.basename(path), args, behs),
                                      "cross_%s.txt" % os.path.basename(path), "file=%s\nargs=%s\nresults=%s\n" % (path, args, behs))
            chk.sample({"file": os.path.basename(path), "kind": kind, "nargs": nargs}, limit=4)
        R.lad.close()
    chk.obligation("corr:linearize+codegen", "correspondence", chk.corr["disagreements"] == 0,
                   "%d compared, %d disagreements" % (chk.corr["compared"], chk.corr["disagreements"]))
    if (not proofs_ok or chk.corr["disagreements"]) and not chk.has_failing_input():
        what = [("%s (%s): %s" % (n, r, d)) for n, r, ok, d in chk.obligations if not ok]
        what += [json.dumps(d)[:300] for d in chk.model_disagreements[:5]]
        chk.violation("%s:unproved" % prop, "proof obligations or correspondence broken, no failing program found: " + "; ".join(what)[:600],
                      "unproved.txt", "\n".join(what) + "\n" + plog[-3000:], found_input=False)
    return chk.finish()


def sp_operands_outside(text, arch):
    """first instruction with a stack-pointer-relative memory operand outside [0, spill area) — None if all are inside.
    x86-64: `[rsp + N]` with 0 <= N < 2048; AArch64: `[SP, N]` with 0 <= N (pre/post-indexed pairs of the
    prologue/epilogue and the print sites move SP themselves and are not plain operands)"""
    for l in text.split("\n"):
        t = l.strip()
        if not t or t.startswith(";") or t.startswith("//"):
            continue
        if arch == "x86":
            for m in re.finditer(r"\[rsp\s*([+-])\s*(-?\d+)\]", t):
                off = int(m.group(2)) * (1 if m.group(1) == "+" else -1)
                if off < 0 or off >= 2048:
                    return t
        else:
            for m in re.finditer(r"\[\s*SP\s*,\s*#?(-?\d+)\s*\](?!!)", t):
                if int(m.group(1)) < 0:
                    return t
    return None


def known_key(prop, arch, cls, line, text):
    """shape key of a failure (matched against known_findings.json)"""
    return "%s:%s:%s" % (prop, arch, cls)
