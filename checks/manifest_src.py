#!/usr/bin/env python3
"""Source of /verif/MANIFEST.json: edit CLAIMS below, run this file, commit."""
import json
import os

VERIF = os.path.dirname(os.path.dirname(os.path.abspath(__file__)))

CLAIMS = {
    "C20": dict(
        level="proof",
        design="DESIGN.md §5 C20",
        text="Lean theorems for all 2^64 values: the digit loop of io.c (modelled with explicit UB and buffer bounds, capacity and negation style taken from the source on every run) writes exactly the decimal representation (C20_current_full via C20_print_fixed_full), every decimal argument in the i64 range round-trips through the conversion the generated driver uses (C20_strtoll_full), wrong argc gives the message and status 1, exit status is the low byte. Tied to the code by regenerating the model's constants/variants from io.c and lib.rs and by running the real io.c and the real generated driver natively on boundary+random values against the model.",
        note="Trusted: Lean kernel; regex extractor bin/regen; gcc/glibc/OS for the native runs; the hand-written model of 40 lines of C. The register shuffle move_arguments is decided under C13/C01.",
        technique="Lean 4 theorems over a hand model of io.c/driver + source-regenerated constants + native differential execution",
    ),
    "C11": dict(
        level="proof",
        design="DESIGN.md §5 C11, appendix B.1",
        text="Lean theorems, unbounded: for every sorted functional move graph the model of spanning_forest/tree_moves/root_moves emits a sequence implementing the simultaneous assignment and changing nothing else (C11_parallelMoves_correct), terminates (fuel lemma), writes each target once; the concrete x86-64 / AArch64 / RV64 instruction sequences (incl. the TEMP / SPILL_TEMP scratch discipline, containsSpillEdge completeness) realise it on machine states (C11_x86_correct, C11_aarch64_correct, C11_rv64_correct); whole substitutions emit erase for 0 copies, share k-1 for k copies, nothing for ext, all before the moves (C11_refcount_ops, C11_substitution_*). Tied to the code by exact equality of the emitted instruction sequences on an exhaustive enumeration of small move graphs at every offset across the register/spill boundary for all three real backends and the mock backend, plus random larger graphs and exhaustive small substitutions; an independent simulator checks the implementation's own sequences.",
        note="Trusted: Lean kernel; hand-written model of parallel_moves.rs/substitution.rs + three backends' mov/save/restore (tied by text equality); converter from printed assembly to model notation. The heap effect of erase/share is C09's.",
        technique="Lean 4 proof of the parallel-move algorithm + exhaustive differential comparison of emitted move sequences",
    ),
    "C17": dict(
        level="proof",
        design="DESIGN.md §5 C17",
        text="Hidden inputs of the implementation are made explicit: (1) hash iteration order — every place where the Rust iterates a HashMap/HashSet is inventoried from the source on every run and a Lean theorem (decide) shows all of them are in a reviewed whitelist of order-insensitive uses, so a new order-dependent iteration breaks the proof; (2) the process-global label counter — theorem C17_label_counter_independent (generic code generator model) once delivered. The Lean models are functions, hence deterministic by construction; their equality with the code is the stage correspondence. Oracle/search: each program is compiled in several fresh processes (fresh hash seeds, different environments, different earlier compilations) and all printable stages must be byte-identical (assembly up to label numbering).",
        note="Trusted: Lean kernel; the regex-based hash-iteration scanner (over-approximates by identifier name); Rust's per-process RandomState as the source of seed variation.",
        technique="source-regenerated inventory + Lean decide theorem + multi-process byte comparison",
    ),
}

PENDING_REASON = "check not built yet (work in progress, see DESIGN.md section 9)"


def main():
    ids = [json.loads(l)["id"] for l in open(os.path.join(VERIF, "properties.jsonl"))]
    old = json.load(open(os.path.join(VERIF, "MANIFEST.json")))
    m = {
        "version": 1,
        "setup_cmd": "bin/setup",
        "hooks": old["hooks"],
        "engines": [
            {"name": "lean-scc", "path": "lean", "serves_properties": sorted(CLAIMS), "kind_free_text": "Lean 4 project Scc: spec machines, pass models, theorems, sccmodel line-protocol driver"},
            {"name": "harness", "path": "harness", "serves_properties": sorted(CLAIMS), "kind_free_text": "Rust crate with path deps on /repo: runs the real passes in-process, dumps every stage, mock backend"},
            {"name": "checks", "path": "checks", "serves_properties": sorted(CLAIMS), "kind_free_text": "Python orchestration: regen (source->Lean translator for tables), lake build + axiom audit, correspondence, failing-input search, evidence"},
        ],
        "checks": [],
        "notes": "See DESIGN.md. known_findings.json lists fixed/known findings.",
        "not_applicable": [],
    }
    for i in ids:
        if i in CLAIMS:
            c = CLAIMS[i]
            m["checks"].append({
                "property_id": i,
                "quick_cmd": "bin/check %s --tier quick" % i,
                "thorough_cmd": "bin/check %s --tier thorough" % i,
                "evidence_file": "evidence/%s.json" % i,
                "replay_cmd_template": "cat {path}",
                "engine": "lean-scc",
                "level_claimed": {"category": c["level"], "text": c["text"], "design_ref": c["design"]},
                "level_note": c["note"],
                "technique": c["technique"],
            })
        else:
            m["not_applicable"].append({"property_id": i, "reason": PENDING_REASON})
    json.dump(m, open(os.path.join(VERIF, "MANIFEST.json"), "w"), indent=1)
    print("claimed:", sorted(CLAIMS))


if __name__ == "__main__":
    main()
