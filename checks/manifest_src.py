#!/usr/bin/env python3
"""Source of /verif/MANIFEST.json: edit CLAIMS below, run this file, commit."""
import json
import os

VERIF = os.path.dirname(os.path.dirname(os.path.abspath(__file__)))

CLAIMS = {
    "C20": dict(
        level="proof",
        design="DESIGN.md §5 C20",
        text="Lean theorems for all 2^64 values: the digit loop of io.c (modelled with explicit UB and buffer bounds, capacity and negation style taken from the source on every run) writes exactly the decimal representation (C20_current_full via C20_print_fixed_full), every decimal argument in the i64 range round-trips through the conversion the generated driver uses (C20_strtoll_full), wrong argc gives the message and status 1, exit status is the low byte. Tied to the code by regenerating the model's constants/variants from io.c and lib.rs and by running the real io.c and the real generated driver natively on boundary+random values against the model.",
        note="Trusted: Lean kernel; regex extractor bin/regen; gcc/glibc/OS for the native runs; the hand-written model of 40 lines of C. The register shuffle move_arguments is decided under C13/C01.",
        technique="Lean 4 theorems over a hand model of io.c/driver + source-regenerated constants + native differential execution",
    ),
    "C11": dict(
        level="proof",
        design="DESIGN.md §5 C11, appendix B.1",
        text="Lean theorems, unbounded: for every sorted functional move graph the model of spanning_forest/tree_moves/root_moves emits a sequence implementing the simultaneous assignment and changing nothing else (C11_parallelMoves_correct), terminates (fuel lemma), writes each target once; the concrete x86-64 / AArch64 / RV64 instruction sequences (incl. the TEMP / SPILL_TEMP scratch discipline, containsSpillEdge completeness) realise it on machine states (C11_x86_correct, C11_aarch64_correct, C11_rv64_correct); whole substitutions emit erase for 0 copies, share k-1 for k copies, nothing for ext, all before the moves (C11_refcount_ops, C11_substitution_*), and on an abstract count store these operations change each object's count by (new references - old references), erase a dropped object variable exactly once and leave every other count alone (C11_counts, C11_counts_balance, C11_new_variable_holds, C11_counts_untouched, C11_erase_once, C11_no_erase_of_kept, C11_share_ops, C11_erase_once_backends). The refcount arms of substitution.rs are re-extracted from the Rust text on every run and proved to be the model's (T_subst_refcount). Tied to the code by exact equality of the emitted instruction sequences on an exhaustive enumeration of small move graphs at every offset across the register/spill boundary for all three real backends and the mock backend, plus random larger graphs and exhaustive small substitutions; an independent simulator checks the implementation's own sequences.",
        note="Trusted: Lean kernel; hand-written model of parallel_moves.rs/substitution.rs + three backends' mov/save/restore (tied by text equality); converter from printed assembly to model notation. The heap effect of erase/share is C09's.",
        technique="Lean 4 proof of the parallel-move algorithm + exhaustive differential comparison of emitted move sequences",
    ),
    "C17": dict(
        level="proof",
        design="DESIGN.md §5 C17",
        text="Hidden inputs of the implementation are made explicit: (1) hash iteration order — every place where the Rust iterates a HashMap/HashSet is inventoried from the source on every run and a Lean theorem (decide) shows all of them are in a reviewed whitelist of order-insensitive uses, so a new order-dependent iteration breaks the proof; (2) the process-global label counter — theorem C17_label_counter_independent (generic code generator model) once delivered. The Lean models are functions, hence deterministic by construction; their equality with the code is the stage correspondence. Oracle/search: each program is compiled in several fresh processes (fresh hash seeds, different environments, different earlier compilations) and all printable stages must be byte-identical (assembly up to label numbering).",
        note="Trusted: Lean kernel; the regex-based hash-iteration scanner (over-approximates by identifier name); Rust's per-process RandomState as the source of seed variation.",
        technique="source-regenerated inventory + Lean decide theorem + multi-process byte comparison",
    ),
}


TIE = " Tied to the code on every run: the Lean pass model must reproduce the real pass' output dump exactly on all inputs of the run (repository programs, committed corpus, seeded generated programs); the implementation's own outputs are additionally checked by the spec-layer oracles (abstract machines, typing/scoping checkers) in Lean."
CLAIMS.update({
    "C01": dict(level="proof", design="DESIGN.md §5 C01",
        text="End-to-end statement over the Lean models of ALL passes (C01_statement) with the composition theorem C01_composition once delivered: links that are theorems are used directly (C05 full incl. semantics, C20 full, C15 soundness/annotation, C03 binder uniqueness and machine consistency, C04 no-panic/lifting, per-method backend contracts), the remaining semantic links are explicit hypotheses, never axioms. Decided per run by the strongest oracle available: every program is compiled by the real compiler, assembled with GNU as, linked with the real io.c and the real generated driver, run natively, and stdout bytes + exit status are compared with the Fun abstract machine (effect-sequenced programs) or the Core machine rendered through the decimal spec.",
        note="Trusted: Lean kernel; GNU as/gcc/glibc/kernel; the syntax-only NASM->GAS transliteration; the Fun/Core reference machines (spec). Not every link of the chain is a theorem yet (see evidence obligation list).",
        technique="composition of per-pass Lean theorems + native differential execution against the Lean reference semantics"),
    "C02": dict(level="proof", design="DESIGN.md §5 C02",
        text="Lean theorems for all programs: generated variables/covariables/labels are fresh and pairwise distinct and never equal a user name of the definition or a user definition name (C02_fresh_names_disjoint, C02_lifted_names_distinct); the repaired translation never places a continuation under a binder occurring free in it (C02_no_capture for all terms/continuations/states, C02_no_capture_prog). Semantic preservation Fun machine = Core machine is decided by oracle on every run (not yet a theorem)." + TIE,
        note="Trusted: Lean kernel; model of fun2core tied by exact S2 dump equality; Fun and Core abstract machines (spec). Programs without a valid entry point are outside the semantic oracle.",
        technique="Lean hygiene/freshness theorems + dump-equality tie + Fun-vs-Core machine oracle"),
    "C03": dict(level="proof", design="DESIGN.md §5 C03",
        text="Lean theorems for all programs produced by the translation (all ids 0): after uniquify+focus all binders and parameters of a definition are pairwise distinct, above the old maximum, and distinct from free ids (C03_unique_binders, _global), the executable uniqueness checker is sound; static focusing lifts exactly the argument the sigma-rule lifts with the same residual statement (C03_focus_follows_sigma), the focused machine and the sigma-machine agree on focused programs (C03_machines_agree), mu is evaluated once at data/int types and suspended by name at codata types (C03_bind_mu_*). Whole-program semantic preservation is decided by oracle (sigma-machine on S2/S2u vs focused machine on S3)." + TIE,
        note="Trusted: Lean kernel; models of uniquify/focus tied by exact dump equality; Core abstract machine (spec).",
        technique="Lean uniqueness theorem + focusing/sigma correspondence lemmas + dump-equality tie + machine oracle"),
    "C04": dict(level="proof", design="DESIGN.md §5 C04",
        text="Lean theorems: on shape-typed focused Core the shrinking model never reaches one of its panic sites (C04_no_panic); every lifted definition's parameters are exactly the typed free variables of the lifted statement, duplicate-free, passed in the same order (C04_lift_free_vars); the AxCut type checker used as oracle is sound (C04_wtAxCheck_sound). Semantic preservation (focused Core machine = AxCut named machine) is decided by oracle on every run." + TIE,
        note="Trusted: Lean kernel; model of core2axcut tied by exact S4 dump equality; Core and AxCut named machines (spec).",
        technique="Lean no-panic/lifting theorems + dump-equality tie + machine and typing oracles"),
    "C05": dict(level="proof", design="DESIGN.md §5 C05",
        text="FULL Lean proof (C05_full): for every well-formed non-linear AxCut program the linearization model succeeds, its output is typed under the ordered linear discipline (every statement meets exactly the environment it expects; operands of op/ifc/print remain available), the positional machine is type-safe on it, and named and positional machines have the same finished behaviours (C05_T4). filter_by_set / freshen lemmas (permutation, duplicate-freeness, positions kept)." + TIE + " Also on directly generated non-linear AxCut programs; the proved-sound linear type checker runs on the implementation's S5.",
        note="Trusted: Lean kernel; model of linearize tied by exact S5 dump equality; AxCut machines and LinTyped (spec).",
        technique="full Lean proof over the linearize model + dump-equality tie + sound checker on implementation output"),
    "C06": dict(level="proof", design="DESIGN.md §5 C06-C08",
        text="Lean theorems: generic code generator (Theorem A) simulated on the abstract backend machine for lit/op/print/ifc/exit/call/integer substitutions, let and create, and whole runs of integer programs; x86-64 per-method contracts (Theorem B) for ALL operand values and placements: add/sub/mul/div/rem incl. the rax/rdx/TEMP dance, moves, load_immediate (all 64-bit values, register or spill), compares and conditional jumps, label/table jumps with stride 5, skip_if_zero/if_zero_then_else, erase/share against the heap model. switch/invoke/load/store contracts are not theorems yet. Tie: linearize, generic (through the real generic code with a mock backend) and x86 backend models reproduce the real text byte for byte; oracle: the emitted text runs on the Lean x86-64 machine model (validated against native execution) and must behave like the AxCut positional machine, on generated AxCut programs (contexts to 34 variables, objects to 8 fields), the boundary family (N = 0..22 live variables across every placement-dependent statement) and pipeline outputs.",
        note="Trusted: Lean kernel; x86-64 machine model (spec; cross-validated natively); backend/generic models tied by text equality.",
        technique="Lean per-method contracts + partial generic simulation + text-equality tie + machine-model execution oracle"),
    "C07": dict(level="proof", design="DESIGN.md §5 C06-C08",
        text="As C06 for AArch64: literal synthesis correct for every 64-bit value and target (C07_load_immediate_correct), 5 operators x 8 placements incl. rem via SDIV+MSUB, compares/branches, moves, table jumps (stride 4) incl. the spilled-tag placement; generic Theorem A part shared with C06. Tie: AArch64 backend model reproduces the real text exactly; oracle: the text runs on the Lean AArch64 machine model (cross-checked against llvm-mc encodings with an independent emulator, the x86-64 model and the positional machine).",
        note="Trusted: Lean kernel; AArch64 machine model written from the ISA (no hardware here; llvm-mc accepts the text). Some halfword identities may use bv_decide natives (listed in evidence if present).",
        technique="Lean per-method contracts + text-equality tie + machine-model execution oracle"),
    "C08": dict(level="proof", design="DESIGN.md §5 C06-C08",
        text="RV64: capacity theorem (temporaries exist iff position <= 13), every operator / comparison / literal / move / exit / table jump (stride 4) correct for all values, skip/if-zero combinators, erase/share; backend model reproduces the real text exactly; on print-free programs with <= 14 live variables the RV64, AArch64 and x86-64 machine models and the positional machine must all agree (cross-backend oracle).",
        note="Trusted: Lean kernel; RV64 machine model (LW/SW read as 64-bit as the property states; no toolchain here).",
        technique="Lean per-method contracts + text-equality tie + cross-backend machine oracle"),
    "C09": dict(level="proof", design="DESIGN.md §5 C09, appendix B.2",
        text="FULL Lean proof for the heap-operation model (same algorithm in the three memory.rs): for every well-formed history of acquire/erase/share/store/load (chains, shared children, deferred erasure) the invariant of the property holds at every operation boundary and no access leaves the heap (C09_inv_all_histories, C09_inv_every_boundary); the run-time invariant checker is proved sound. Bridge to executions: the proved-sound monitor runs at every statement boundary of the emitted x86-64 / AArch64 / RV64 text on the machine models (roots from the hook comment), and x86 erase/share code is proved against the heap model; the backend models that emit the heap code are tied by text equality.",
        note="Trusted: Lean kernel; WfOps (ops mention held roots and load objects of their shape) is assumed from linear typing and checked dynamically; machine models.",
        technique="full Lean invariant proof over operation histories + sound run-time monitor on emulated real code"),
    "C10": dict(level="proof", design="DESIGN.md §5 C10",
        text="Lean theorems: acquire moves the frontier only if the linear list has exactly the block handed out and the deferred list is empty (C10_bump_only_when_empty, and conversely); along every well-formed history blocks below the frontier <= peak live blocks + 1, tight (C10_frontier_bound, C10_constant_tight); space independent of history length. Oracle: loop programs run n, 4n, 16n iterations on the machine models: highest heap address written and blocks below the frontier do not depend on n.",
        note="Trusted: as C09.",
        technique="Lean frontier-bound theorems + footprint measurement on emulated real code"),
    "C12": dict(level="proof", design="DESIGN.md §5 C12",
        text="Chain of theorems: checker output is fully annotated (C15_annotated) and well-typed (C15_sound); focus output has unique binders; shrinking never panics on shape-typed input; linearization output is linearly typed (C05 full); plus the composition file C12 once delivered. Links not yet theorems (typing preservation of fun2core/focus/shrink) are decided per program: proved-sound decidable checkers run on every IMPLEMENTATION dump (Core typing on S2/S2u, focused typing + unique binders on S3, AxCut typing on S4, linear typing on S5) and every real stage runs under catch_unwind." + TIE,
        note="Trusted: Lean kernel; checkers are spec; programs without a valid entry point (C18) are outside the typing claim.",
        technique="preservation theorems where proved + sound checkers on every implementation dump + panic capture"),
    "C13": dict(level="proof", design="DESIGN.md §5 C13",
        text="Lean theorems for x86-64 and AArch64: prologue/epilogue restore all callee-saved registers and the stack pointer for every body keeping its frame (C13_prologue_epilogue), stack alignment at the print call for EVERY context (C13_print_alignment / sp_moves_aligned), and on the undefined-value machine the print sequence preserves every live temporary, HEAP, FREE and the heap and reads nothing undefined, for EVERY context length and kind assignment (C13_print_preserves; AArch64 without the former length restriction). Oracle: the emitted text runs on the machine models with calling-convention checks (callee-saved sentinels, alignment faults, undefined reads after the call clobbers) on generated programs and the boundary family 0..22 live variables.",
        note="Trusted: Lean kernel; machine models' rendering of the ABI (clobber sets).",
        technique="Lean calling-convention theorems for all contexts + poison-machine oracle on real text"),
    "C14": dict(level="proof", design="DESIGN.md §5 C14",
        text="Lean theorems: every referenced label is defined (labels_defined, full), labels unique under the decidable name condition LabelSafe with six machine-checked collision witnesses showing each condition is necessary, jump tables have one fixed-size entry per clause directly after the label and tags are jump_length(position) (table_stride), operand ranges of every instruction any x86-64 program can contain (C14_program_operand_ranges) and of every AArch64 / RV64 method. Oracle: well-formedness checker on the real text of all three backends, GNU as must accept x86-64, llvm-mc must accept AArch64.",
        note="Trusted: Lean kernel; assemblers as oracles; label collisions for adversarial user names are a documented finding class (see known_findings).",
        technique="Lean label/operand/stride theorems + assembler acceptance oracle"),
    "C15": dict(level="proof", design="DESIGN.md §5 C15",
        text="FULL Lean proof (C15_full): the checker model accepts exactly the programs well-typed under the declarative relation WT and every rejection is a diagnostic; soundness also gives erasure and full annotation; 30 mutation lemmas show each of the 16 edit classes leaves WT. Tie: verdict, diagnostic code and annotated tree of the model equal the real checker's on programs and thousands of mutants; a disagreement in accept/reject is reported with the program.",
        note="Trusted: Lean kernel; WT (spec); model of the checker tied by exact S1 equality.",
        technique="full Lean soundness+completeness proof + differential testing on programs and mutants"),
    "C16": dict(level="proof", design="DESIGN.md §5 C16",
        text="Lean proof for the whole language: for every program the parser model accepts that satisfies the decidable zero-edge condition, printing with ANY layout (the pretty algorithm is proved to be one) at any width/indent re-parses to the same tree and printing is idempotent (C16_restricted, C16_fmt); the condition is necessary (machine-checked witnesses = the recorded known finding). Tie: the printer model's text is byte-identical to the real formatter, the parser model equals the real parser; the real formatter is run at many widths x indents and re-parsed.",
        note="Trusted: Lean kernel; lalrpop/pretty are modelled (models tied by differential testing); the token table is regenerated from fun.lalrpop and compared by a theorem.",
        technique="Lean round-trip proof under a decidable side condition + differential testing of parser/printer models"),
    "C18": dict(level="proof", design="DESIGN.md §5 C18",
        text="Lean theorem: the parser model never returns the panic outcome on any input for the literal action found in the source now (C18_parse_current via C18_parse_statement_fixed; the action variant and the token table are regenerated from fun.lalrpop on every run), the checker model never panics (C15_no_panic). Oracle: real parse/check and every later stage under catch_unwind on thousands of token/byte mutants, extreme literals, deep nesting; outcome class must equal the model's.",
        note="Trusted: Lean kernel; stack depth is outside the model; later stages only for valid entry points; capacity assertions excepted as the property says.",
        technique="Lean totality-without-panic theorem + catch_unwind differential fuzzing"),
    "C19": dict(level="proof", design="DESIGN.md §5 C19",
        text="Lean theorems: fun2core output size <= 3 n (2n+4) for source size n, unconditionally (C19_fun2core_full), a non-leaf continuation is inserted at most once (C19_compile_cont_inserted_once); shrinking output <= (maxXtors+1) * input size (C19_shrink_size). Oracle: scalable families at depth 1..K: every stage's measured size must grow polynomially (exponent <= 3).",
        note="Trusted: Lean kernel; focus/linearize/codegen size bounds are measured, not proved.",
        technique="Lean size-bound theorems + growth measurement on scalable families"),
})

PENDING_REASON = "check not built yet (work in progress, see DESIGN.md section 9)"


def main():
    ids = [json.loads(l)["id"] for l in open(os.path.join(VERIF, "properties.jsonl"))]
    old = json.load(open(os.path.join(VERIF, "MANIFEST.json")))
    m = {
        "version": 1,
        "setup_cmd": "bin/setup",
        "hooks": old["hooks"],
        "engines": [
            {"name": "lean-scc", "path": "lean", "serves_properties": sorted(CLAIMS), "kind_free_text": "Lean 4 project Scc: spec machines, pass models, theorems, sccmodel line-protocol driver"},
            {"name": "harness", "path": "harness", "serves_properties": sorted(CLAIMS), "kind_free_text": "Rust crate with path deps on /repo: runs the real passes in-process, dumps every stage, mock backend"},
            {"name": "checks", "path": "checks", "serves_properties": sorted(CLAIMS), "kind_free_text": "Python orchestration: regen (source->Lean translator for tables), lake build + axiom audit, correspondence, failing-input search, evidence"},
        ],
        "checks": [],
        "notes": "See DESIGN.md. known_findings.json lists fixed/known findings.",
        "not_applicable": [],
    }
    for i in ids:
        if i in CLAIMS:
            c = CLAIMS[i]
            m["checks"].append({
                "property_id": i,
                "quick_cmd": "bin/check %s --tier quick" % i,
                "thorough_cmd": "bin/check %s --tier thorough" % i,
                "evidence_file": "evidence/%s.json" % i,
                "replay_cmd_template": "cat {path}",
                "engine": "lean-scc",
                "level_claimed": {"category": c["level"], "text": c["text"], "design_ref": c["design"]},
                "level_note": c["note"],
                "technique": c["technique"],
            })
        else:
            m["not_applicable"].append({"property_id": i, "reason": PENDING_REASON})
    json.dump(m, open(os.path.join(VERIF, "MANIFEST.json"), "w"), indent=1)
    print("claimed:", sorted(CLAIMS))


if __name__ == "__main__":
    main()
