#!/usr/bin/env python3
"""semcmp.py [--fuel N] [--no-native] [--dir DIR] <file.sc>[:a,b,..] ...

Differential run for C01/C02: the Lean reference machine of Fun (Scc/Fun/Sem.lean, `runLine` /
`sequencedLine`) against the natively executed x86-64 code of the real compiler (x86run.py).
`--dir DIR` takes every DIR/*.sc with the arguments in the sibling .args file (one line, space
separated integers).  Compared: print trace rendered as bytes = stdout, result mod 256 = exit status.
Prints AGREE/DISAGREE per pair with `seq=` (is the program in the fragment `Sequenced`).

Needs a runner binary (env SEMRUN) built from this Lean main (add a `lean_exe` with root SemMain):

    import Scc.Fun.Sem
    open Scc.Fun
    def main (argv : List String) : IO Unit := do
      match argv with
      | [file, args, fuel] =>
        let text := (← IO.FS.readFile file).trimAscii.toString
        IO.println (sequencedLine text)
        IO.println (runLine text (if args == "-" then "" else args) fuel.toNat!)
      | _ => IO.println "usage"
"""
import os, re, subprocess, sys, tempfile
sys.path.insert(0, "/verif/bin")
import x86run

SEMRUN = os.environ.get("SEMRUN", "/verif/lean/.lake/build/bin/semrun")


def lean_run(src, args, fuel):
    st = x86run.stages(os.path.abspath(src))
    if not st.get("S1", "").startswith("OK "):
        return None, "S1 " + st.get("S1", st.get("S0", "?"))[:200]
    with tempfile.NamedTemporaryFile("w", suffix=".s1", delete=False) as f:
        f.write(st["S1"][3:])
        name = f.name
    try:
        r = subprocess.run([SEMRUN, name, ",".join(args) if args else "-", str(fuel)],
                           capture_output=True, text=True)
    finally:
        os.unlink(name)
    lines = [l for l in r.stdout.splitlines() if l.startswith("OK") or l.startswith("ERR")]
    if len(lines) != 2:
        return None, "semrun: " + r.stdout + r.stderr
    seq = lines[0] == "OK true"
    m = re.match(r"OK out=\[(.*)\] res=(.*)$", lines[1])
    if not m:
        return None, lines[1]
    out = b""
    if m.group(1):
        for item in m.group(1).split(","):
            nl, v = item.split(":")
            out += v.encode() + (b"\n" if nl == "1" else b"")
    return (seq, out, m.group(2)), None


def main(argv):
    fuel, native, jobs = 20000000, True, []
    rest = argv[1:]
    while rest and rest[0].startswith("--"):
        if rest[0] == "--fuel":
            fuel, rest = int(rest[1]), rest[2:]
        elif rest[0] == "--no-native":
            native, rest = False, rest[1:]
        elif rest[0] == "--dir":
            d = rest[1]
            for f in sorted(os.listdir(d)):
                if f.endswith(".sc"):
                    a = os.path.join(d, f[:-3] + ".args")
                    line = open(a).read().splitlines()[0] if os.path.exists(a) and open(a).read().strip() else ""
                    jobs.append((os.path.join(d, f), line.split()))
            rest = rest[2:]
    for j in rest:
        f, _, a = j.partition(":")
        jobs.append((f, [x for x in a.split(",") if x]))
    agree = disagree = 0
    for src, args in jobs:
        lr, err = lean_run(src, args, fuel)
        tag = "%s %s" % (src, ",".join(args))
        if lr is None:
            print("LEANFAIL", tag, err)
            continue
        seq, out, res = lr
        if not native:
            print("LEAN", tag, "seq=%s" % seq, "out=%r" % out, "res=" + res)
            continue
        try:
            nout, nst = x86run.x86run(src, args, timeout=120)
        except Exception as e:
            print("NATIVEFAIL", tag, "seq=%s" % seq, "lean: out=%r res=%s" % (out, res), "err=%s" % str(e)[:300])
            continue
        m = re.match(r"done:(-?\d+)$", res)
        ok = m is not None and out == nout and (int(m.group(1)) % 256) == nst
        if ok:
            agree += 1
        else:
            disagree += 1
        print("AGREE" if ok else "DISAGREE", tag, "seq=%s" % seq,
              "lean: out=%r res=%s" % (out, res), "" if ok else "native: out=%r status=%s" % (nout, nst))
    print("TOTAL agree=%d disagree=%d" % (agree, disagree))


if __name__ == "__main__":
    main(sys.argv)
