#!/usr/bin/env python3
"""x86run.py <file.sc> [--heap MiB] [--timeout SEC] [--keep] [args...]

Compile a Fun program through the REAL x86-64 path of /repo (the harness runs the real passes
and prints the routine in NASM syntax, stage S7x), transliterate the text to GNU as syntax
(syntax only), assemble with `as`, link with the repository's own io.c and its C driver template
instantiated for the number of parameters of main, run it natively and print

    stdout=<hex of the bytes written to stdout>
    status=<exit status, or -<signal> if killed by a signal, or `timeout`>

Everything is built in a temporary directory that is removed afterwards (unless --keep).
python3 standard library only.  Exit code 0 if the program could be built and run, 2 otherwise.
"""
import os
import re
import shutil
import subprocess
import sys
import tempfile

HARNESS = "/verif/harness/target/debug/scc-harness"
INFRA = "/repo/lang/driver/infrastructure"


def unquote(s):
    """inverse of the harness' string quoting: \\n \\t \\r \\" \\\\"""
    assert s[0] == '"' and s[-1] == '"', "not a quoted string"
    out, i, s = [], 0, s[1:-1]
    while i < len(s):
        c = s[i]
        if c == "\\":
            i += 1
            c = {"n": "\n", "t": "\t", "r": "\r", '"': '"', "\\": "\\"}[s[i]]
        out.append(c)
        i += 1
    return "".join(out)


def stages(path):
    """-> dict stage -> rest of the reply line"""
    r = subprocess.run([HARNESS], input="stages %s\n" % path, capture_output=True, text=True)
    res = {}
    for line in r.stdout.splitlines():
        if line == "END":
            break
        m = re.match(r"(S\w+) (.*)$", line)
        if m:
            res[m.group(1)] = m.group(2)
    return res


def nasm_to_gas(text):
    """syntax-only transliteration NASM -> GNU as (.intel_syntax noprefix)"""
    out = [".intel_syntax noprefix"]
    for line in text.split("\n"):
        code, sep, comment = line.partition(";")
        s = code.strip()
        if s.startswith("section .note.GNU-stack"):
            code = '.section .note.GNU-stack,"",@progbits'
        elif s == "section .text":
            code = ".text"
        elif s.startswith("global "):
            code = ".globl " + s[len("global "):]
        elif s.startswith("extern "):
            code = ""
        else:
            m = re.match(r"(\s*)jmp near (\S+)\s*$", code)
            if m:  # keep the 5-byte stride of jump tables: E9 rel32
                code = "%s.byte 0xe9\n%s.long %s-.-4" % (m.group(1), m.group(1), m.group(2))
            else:
                code = re.sub(r"\[rel ([^\]]+)\]", r"[rip+\1]", code)
                code = code.replace("qword [", "qword ptr [")
        out.append(code + ("#" + comment if sep else ""))
    return "\n".join(out) + "\n"


def c_driver(nargs):
    """lang/driver/src/lib.rs generate_c_driver on infrastructure/driver-template.c"""
    t = open(os.path.join(INFRA, "driver-template.c")).read()
    proto = "asm_main(void *heap" + "".join(", int64_t input%d" % i for i in range(1, nargs + 1)) + ")"
    call = "asm_main(heap" + "".join(", strtoll(argv[%d], NULL, 10)" % i for i in range(1, nargs + 1)) + ")"
    t = t.replace("asm_main(void *heap)", proto)
    t = t.replace("(argc != 1 + 0)", "(argc != 1 + %d)" % nargs)
    t = t.replace("asm_main(heap)", call)
    return t


def build(src, tmp, heap=None):
    """-> (path of executable, number of parameters of main)"""
    st = stages(os.path.abspath(src))
    if "S7x" not in st or not st["S7x"].startswith("OK "):
        bad = [k + " " + v[:200] for k, v in st.items() if not v.startswith("OK")]
        raise RuntimeError("no x86-64 code: " + "; ".join(bad))
    nargs = int(st["S6x"].split(" ", 2)[1])
    asm = unquote(st["S7x"][3:].strip())
    with open(os.path.join(tmp, "prog.s"), "w") as f:
        f.write(nasm_to_gas(asm))
    drv = c_driver(nargs)
    if heap is not None:
        drv = drv.replace("heapsize = UINT64_C(1024 * 1024) * 32",
                          "heapsize = UINT64_C(1024 * 1024) * %d" % heap)
    with open(os.path.join(tmp, "driver.c"), "w") as f:
        f.write(drv)
    subprocess.run(["as", "-o", "prog.o", "prog.s"], cwd=tmp, check=True, capture_output=True)
    subprocess.run(["gcc", "-o", "prog", "prog.o", os.path.join(INFRA, "io.c"), "driver.c"],
                   cwd=tmp, check=True, capture_output=True)
    return os.path.join(tmp, "prog"), nargs


def run(exe, args, timeout=60):
    try:
        r = subprocess.run([exe] + [str(a) for a in args], capture_output=True, timeout=timeout)
        return r.stdout, r.returncode
    except subprocess.TimeoutExpired as e:
        return (e.stdout or b""), "timeout"


def x86run(src, args, heap=None, timeout=60, keep=False):
    """-> (stdout bytes, exit status)"""
    tmp = tempfile.mkdtemp(prefix="x86run_")
    try:
        exe, _ = build(src, tmp, heap)
        return run(exe, args, timeout)
    finally:
        if keep:
            sys.stderr.write("kept " + tmp + "\n")
        else:
            shutil.rmtree(tmp, ignore_errors=True)


def main(argv):
    heap, timeout, keep = None, 60, False
    rest = argv[1:]
    while rest and rest[0] in ("--heap", "--timeout", "--keep"):
        if rest[0] == "--keep":
            keep, rest = True, rest[1:]
        elif rest[0] == "--heap":
            heap, rest = int(rest[1]), rest[2:]
        else:
            timeout, rest = float(rest[1]), rest[2:]
    if not rest:
        sys.stderr.write(__doc__)
        return 2
    try:
        out, status = x86run(rest[0], rest[1:], heap, timeout, keep)
    except subprocess.CalledProcessError as e:
        sys.stderr.write("build failed: %s\n%s\n" % (e, (e.stderr or b"").decode(errors="replace")))
        return 2
    except (RuntimeError, AssertionError, KeyError) as e:
        sys.stderr.write("error: %s\n" % e)
        return 2
    print("stdout=" + out.hex())
    print("status=%s" % status)
    return 0


if __name__ == "__main__":
    sys.exit(main(sys.argv))
