//! Canonical S-expression dump of Core and focused Core.
use crate::sx::{l, lv, q};
use core_lang::syntax::arguments::{Argument, Arguments};
use core_lang::syntax::context::{Chirality, ContextBinding, TypingContext};
use core_lang::syntax::declaration::{Polarity, TypeDeclaration};
use core_lang::syntax::names::Identifier;
use core_lang::syntax::program::{FsProg, Prog};
use core_lang::syntax::statements::{FsStatement, IfSort, Statement};
use core_lang::syntax::terms::{BinOp, Chi, Clause, FsTerm, Term};
use core_lang::syntax::types::Ty;

pub fn id(i: &Identifier) -> String {
    l("id", &[q(&i.name), i.id.to_string()])
}

pub fn ty(t: &Ty) -> String {
    match t {
        Ty::I64 => "i64".to_string(),
        Ty::Decl(name) => l("ty", &[id(name)]),
    }
}

fn chi(c: &Chirality) -> &'static str {
    match c {
        Chirality::Prd => "prd",
        Chirality::Cns => "cns",
    }
}

fn binding(b: &ContextBinding) -> String {
    l("b", &[id(&b.var), chi(&b.chi).to_string(), ty(&b.ty)])
}

pub fn ctx(c: &TypingContext) -> String {
    lv("ctx", c.bindings.iter().map(binding).collect())
}

fn binop(o: &BinOp) -> &'static str {
    match o {
        BinOp::Div => "/",
        BinOp::Prod => "*",
        BinOp::Rem => "%",
        BinOp::Sum => "+",
        BinOp::Sub => "-",
    }
}

fn ifsort(s: &IfSort) -> &'static str {
    match s {
        IfSort::Equal => "eq",
        IfSort::NotEqual => "ne",
        IfSort::Less => "lt",
        IfSort::LessOrEqual => "le",
        IfSort::Greater => "gt",
        IfSort::GreaterOrEqual => "ge",
    }
}

fn decl<P: Polarity>(d: &TypeDeclaration<P>) -> String {
    let mut items = vec![id(&d.name)];
    items.extend(
        d.xtors
            .iter()
            .map(|x| l("xtor", &[id(&x.name), ctx(&x.args)])),
    );
    lv("type", items)
}

// ---------- unfocused ----------

fn args(a: &Arguments) -> String {
    lv(
        "args",
        a.entries
            .iter()
            .map(|e| match e {
                Argument::Producer(p) => l("prd", &[term(p)]),
                Argument::Consumer(c) => l("cns", &[term(c)]),
            })
            .collect(),
    )
}

fn clause<C: Chi>(c: &Clause<C, Statement>) -> String {
    l("clause", &[id(&c.xtor), ctx(&c.context), stmt(&c.body)])
}

pub fn term<C: Chi>(t: &Term<C>) -> String {
    match t {
        Term::XVar(v) => l("var", &[id(&v.var), ty(&v.ty)]),
        Term::Literal(x) => l("lit", &[x.lit.to_string()]),
        Term::Op(o) => l(
            "op",
            &[binop(&o.op).to_string(), term(&*o.fst), term(&*o.snd)],
        ),
        Term::Mu(m) => l("mu", &[id(&m.variable), ty(&m.ty), stmt(&m.statement)]),
        Term::Xtor(x) => l("xtor", &[id(&x.name), args(&x.args), ty(&x.ty)]),
        Term::XCase(x) => {
            let mut items = vec![ty(&x.ty)];
            items.extend(x.clauses.iter().map(clause));
            lv("xcase", items)
        }
    }
}

pub fn stmt(s: &Statement) -> String {
    match s {
        Statement::Cut(c) => l("cut", &[ty(&c.ty), term(&*c.producer), term(&*c.consumer)]),
        Statement::IfC(i) => l(
            "ifc",
            &[
                ifsort(&i.sort).to_string(),
                term(&*i.fst),
                match &i.snd {
                    None => "none".to_string(),
                    Some(s) => term(&**s),
                },
                stmt(&i.thenc),
                stmt(&i.elsec),
            ],
        ),
        Statement::PrintI64(p) => l(
            "print",
            &[
                if p.newline { "nl" } else { "nonl" }.to_string(),
                term(&*p.arg),
                stmt(&p.next),
            ],
        ),
        Statement::Call(c) => l("call", &[id(&c.name), args(&c.args), ty(&c.ty)]),
        Statement::Exit(e) => l("exit", &[term(&*e.arg), ty(&e.ty)]),
    }
}

pub fn prog(p: &Prog) -> String {
    l(
        "prog",
        &[
            p.max_id.to_string(),
            lv("datas", p.data_types.iter().map(decl).collect()),
            lv("codatas", p.codata_types.iter().map(decl).collect()),
            lv(
                "defs",
                p.defs
                    .iter()
                    .map(|d| l("def", &[id(&d.name), ctx(&d.context), stmt(&d.body)]))
                    .collect(),
            ),
        ],
    )
}

// ---------- focused ----------

fn fs_clause<C: Chi>(c: &Clause<C, FsStatement>) -> String {
    l("clause", &[id(&c.xtor), ctx(&c.context), fs_stmt(&c.body)])
}

pub fn fs_term<C: Chi>(t: &FsTerm<C>) -> String {
    match t {
        FsTerm::XVar(v) => l("var", &[id(&v.var), ty(&v.ty)]),
        FsTerm::Literal(x) => l("lit", &[x.lit.to_string()]),
        FsTerm::Op(o) => l("op", &[binop(&o.op).to_string(), id(&o.fst), id(&o.snd)]),
        FsTerm::Mu(m) => l(
            "mu",
            &[id(&m.variable), ty(&m.ty), fs_stmt(&m.statement)],
        ),
        FsTerm::Xtor(x) => l("xtor", &[id(&x.name), ctx(&x.args), ty(&x.ty)]),
        FsTerm::XCase(x) => {
            let mut items = vec![ty(&x.ty)];
            items.extend(x.clauses.iter().map(fs_clause));
            lv("xcase", items)
        }
    }
}

pub fn fs_stmt(s: &FsStatement) -> String {
    match s {
        FsStatement::Cut(c) => l(
            "cut",
            &[ty(&c.ty), fs_term(&*c.producer), fs_term(&*c.consumer)],
        ),
        FsStatement::IfC(i) => l(
            "ifc",
            &[
                ifsort(&i.sort).to_string(),
                id(&i.fst),
                match &i.snd {
                    None => "none".to_string(),
                    Some(s) => id(s),
                },
                fs_stmt(&i.thenc),
                fs_stmt(&i.elsec),
            ],
        ),
        FsStatement::PrintI64(p) => l(
            "print",
            &[
                if p.newline { "nl" } else { "nonl" }.to_string(),
                id(&p.arg),
                fs_stmt(&p.next),
            ],
        ),
        FsStatement::Call(c) => l("call", &[id(&c.name), ctx(&c.args)]),
        FsStatement::Exit(e) => l("exit", &[id(&e.var)]),
    }
}

pub fn fs_prog(p: &FsProg) -> String {
    l(
        "fsprog",
        &[
            p.max_id.to_string(),
            lv("datas", p.data_types.iter().map(decl).collect()),
            lv("codatas", p.codata_types.iter().map(decl).collect()),
            lv(
                "defs",
                p.defs
                    .iter()
                    .map(|d| l("def", &[id(&d.name), ctx(&d.context), fs_stmt(&d.body)]))
                    .collect(),
            ),
        ],
    )
}
