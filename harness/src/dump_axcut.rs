//! Canonical S-expression dump and reader of AxCut programs.
use crate::sx::{Sx, l, lv, q};
use axcut::syntax::statements::ifc::IfSort;
use axcut::syntax::statements::{
    Call, Clause, Create, Exit, IfC, Invoke, Let, Literal, Op, PrintI64, Substitute, Switch,
};
use axcut::syntax::{
    BinOp, Chirality, ContextBinding, Def, Identifier, Prog, Statement, Ty, TypeDeclaration,
    TypingContext, XtorSig,
};
use std::collections::HashSet;
use std::rc::Rc;

pub fn id(i: &Identifier) -> String {
    l("id", &[q(&i.name), i.id.to_string()])
}

pub fn ty(t: &Ty) -> String {
    match t {
        Ty::I64 => "i64".to_string(),
        Ty::Decl(name) => l("ty", &[id(name)]),
    }
}

fn chi(c: &Chirality) -> &'static str {
    match c {
        Chirality::Prd => "prd",
        Chirality::Cns => "cns",
        Chirality::Ext => "ext",
    }
}

pub fn binding(b: &ContextBinding) -> String {
    l("b", &[id(&b.var), chi(&b.chi).to_string(), ty(&b.ty)])
}

pub fn ctx(c: &TypingContext) -> String {
    lv("ctx", c.bindings.iter().map(binding).collect())
}

fn binop(o: &BinOp) -> &'static str {
    match o {
        BinOp::Div => "/",
        BinOp::Prod => "*",
        BinOp::Rem => "%",
        BinOp::Sum => "+",
        BinOp::Sub => "-",
    }
}

fn ifsort(s: &IfSort) -> &'static str {
    match s {
        IfSort::Equal => "eq",
        IfSort::NotEqual => "ne",
        IfSort::Less => "lt",
        IfSort::LessOrEqual => "le",
        IfSort::Greater => "gt",
        IfSort::GreaterOrEqual => "ge",
    }
}

fn fv(s: &Option<HashSet<usize>>) -> String {
    match s {
        None => "none".to_string(),
        Some(set) => {
            let mut v: Vec<usize> = set.iter().copied().collect();
            v.sort_unstable();
            lv("fv", v.iter().map(|n| n.to_string()).collect())
        }
    }
}

fn clause(c: &Clause) -> String {
    l("clause", &[id(&c.xtor), ctx(&c.context), stmt(&c.body)])
}

fn clauses(cs: &[Clause]) -> String {
    lv("clauses", cs.iter().map(clause).collect())
}

pub fn stmt(s: &Statement) -> String {
    match s {
        Statement::Substitute(x) => l(
            "subst",
            &[
                lv(
                    "pairs",
                    x.rearrange
                        .iter()
                        .map(|(new, old)| l("pair", &[binding(new), id(old)]))
                        .collect(),
                ),
                stmt(&x.next),
            ],
        ),
        Statement::Call(x) => l("call", &[id(&x.label), ctx(&x.args)]),
        Statement::Let(x) => l(
            "let",
            &[
                id(&x.var),
                ty(&x.ty),
                id(&x.tag),
                ctx(&x.args),
                stmt(&x.next),
                fv(&x.free_vars_next),
            ],
        ),
        Statement::Switch(x) => l(
            "switch",
            &[
                id(&x.var),
                ty(&x.ty),
                clauses(&x.clauses),
                fv(&x.free_vars_clauses),
            ],
        ),
        Statement::Create(x) => l(
            "create",
            &[
                id(&x.var),
                ty(&x.ty),
                match &x.context {
                    None => "none".to_string(),
                    Some(c) => ctx(c),
                },
                clauses(&x.clauses),
                stmt(&x.next),
                fv(&x.free_vars_clauses),
                fv(&x.free_vars_next),
            ],
        ),
        Statement::Invoke(x) => l("invoke", &[id(&x.var), id(&x.tag), ty(&x.ty), ctx(&x.args)]),
        Statement::Literal(x) => l(
            "lit",
            &[
                id(&x.var),
                x.lit.to_string(),
                stmt(&x.next),
                fv(&x.free_vars_next),
            ],
        ),
        Statement::Op(x) => l(
            "op",
            &[
                id(&x.var),
                id(&x.fst),
                binop(&x.op).to_string(),
                id(&x.snd),
                stmt(&x.next),
                fv(&x.free_vars_next),
            ],
        ),
        Statement::PrintI64(x) => l(
            "print",
            &[
                if x.newline { "nl" } else { "nonl" }.to_string(),
                id(&x.var),
                stmt(&x.next),
                fv(&x.free_vars_next),
            ],
        ),
        Statement::IfC(x) => l(
            "ifc",
            &[
                ifsort(&x.sort).to_string(),
                id(&x.fst),
                match &x.snd {
                    None => "none".to_string(),
                    Some(s) => id(s),
                },
                stmt(&x.thenc),
                stmt(&x.elsec),
            ],
        ),
        Statement::Exit(x) => l("exit", &[id(&x.var)]),
    }
}

fn decl(d: &TypeDeclaration) -> String {
    let mut items = vec![id(&d.name)];
    items.extend(
        d.xtors
            .iter()
            .map(|x| l("xtor", &[id(&x.name), ctx(&x.args)])),
    );
    lv("type", items)
}

pub fn prog(p: &Prog) -> String {
    l(
        "axprog",
        &[
            p.max_id.to_string(),
            lv("types", p.types.iter().map(decl).collect()),
            lv(
                "defs",
                p.defs
                    .iter()
                    .map(|d| l("def", &[id(&d.name), ctx(&d.context), stmt(&d.body)]))
                    .collect(),
            ),
        ],
    )
}

// ------------------------------------------------------------------ reader

type R<T> = Result<T, String>;

fn r_num(s: &Sx) -> R<usize> {
    s.atom()?.parse::<usize>().map_err(|e| format!("{e}: {s:?}"))
}

fn r_id(s: &Sx) -> R<Identifier> {
    let it = s.tagged("id")?;
    if it.len() != 2 {
        return Err(format!("bad id {s:?}"));
    }
    Ok(Identifier {
        name: it[0].string()?.to_string(),
        id: r_num(&it[1])?,
    })
}

fn r_ty(s: &Sx) -> R<Ty> {
    match s {
        Sx::Atom(a) if a == "i64" => Ok(Ty::I64),
        _ => {
            let it = s.tagged("ty")?;
            Ok(Ty::Decl(r_id(&it[0])?))
        }
    }
}

fn r_chi(s: &Sx) -> R<Chirality> {
    match s.atom()? {
        "prd" => Ok(Chirality::Prd),
        "cns" => Ok(Chirality::Cns),
        "ext" => Ok(Chirality::Ext),
        x => Err(format!("bad chirality {x}")),
    }
}

fn r_binding(s: &Sx) -> R<ContextBinding> {
    let it = s.tagged("b")?;
    if it.len() != 3 {
        return Err(format!("bad binding {s:?}"));
    }
    Ok(ContextBinding {
        var: r_id(&it[0])?,
        chi: r_chi(&it[1])?,
        ty: r_ty(&it[2])?,
    })
}

fn r_ctx(s: &Sx) -> R<TypingContext> {
    let it = s.tagged("ctx")?;
    Ok(TypingContext {
        bindings: it.iter().map(r_binding).collect::<R<Vec<_>>>()?,
    })
}

fn r_fv(s: &Sx) -> R<Option<HashSet<usize>>> {
    match s {
        Sx::Atom(a) if a == "none" => Ok(None),
        _ => {
            let it = s.tagged("fv")?;
            Ok(Some(it.iter().map(r_num).collect::<R<HashSet<_>>>()?))
        }
    }
}

fn r_binop(s: &Sx) -> R<BinOp> {
    match s.atom()? {
        "/" => Ok(BinOp::Div),
        "*" => Ok(BinOp::Prod),
        "%" => Ok(BinOp::Rem),
        "+" => Ok(BinOp::Sum),
        "-" => Ok(BinOp::Sub),
        x => Err(format!("bad binop {x}")),
    }
}

fn r_ifsort(s: &Sx) -> R<IfSort> {
    match s.atom()? {
        "eq" => Ok(IfSort::Equal),
        "ne" => Ok(IfSort::NotEqual),
        "lt" => Ok(IfSort::Less),
        "le" => Ok(IfSort::LessOrEqual),
        "gt" => Ok(IfSort::Greater),
        "ge" => Ok(IfSort::GreaterOrEqual),
        x => Err(format!("bad ifsort {x}")),
    }
}

fn r_clauses(s: &Sx) -> R<Vec<Clause>> {
    s.tagged("clauses")?
        .iter()
        .map(|c| {
            let it = c.tagged("clause")?;
            Ok(Clause {
                xtor: r_id(&it[0])?,
                context: r_ctx(&it[1])?,
                body: Rc::new(r_stmt(&it[2])?),
            })
        })
        .collect()
}

fn need(it: &[Sx], n: usize, what: &str) -> R<()> {
    if it.len() < n {
        Err(format!("{what}: expected {n} fields, got {}", it.len()))
    } else {
        Ok(())
    }
}

fn opt_fv(it: &[Sx], i: usize) -> R<Option<HashSet<usize>>> {
    match it.get(i) {
        None => Ok(None),
        Some(s) => r_fv(s),
    }
}

pub fn r_stmt(s: &Sx) -> R<Statement> {
    let head = s.head()?.to_string();
    let it = &s.list()?[1..];
    Ok(match head.as_str() {
        "subst" => {
            need(it, 2, "subst")?;
            let rearrange = it[0]
                .tagged("pairs")?
                .iter()
                .map(|p| {
                    let pi = p.tagged("pair")?;
                    Ok((r_binding(&pi[0])?, r_id(&pi[1])?))
                })
                .collect::<R<Vec<_>>>()?;
            Statement::Substitute(Substitute {
                rearrange,
                next: Rc::new(r_stmt(&it[1])?),
            })
        }
        "call" => {
            need(it, 2, "call")?;
            Statement::Call(Call {
                label: r_id(&it[0])?,
                args: r_ctx(&it[1])?,
            })
        }
        "let" => {
            need(it, 5, "let")?;
            Statement::Let(Let {
                var: r_id(&it[0])?,
                ty: r_ty(&it[1])?,
                tag: r_id(&it[2])?,
                args: r_ctx(&it[3])?,
                next: Rc::new(r_stmt(&it[4])?),
                free_vars_next: opt_fv(it, 5)?,
            })
        }
        "switch" => {
            need(it, 3, "switch")?;
            Statement::Switch(Switch {
                var: r_id(&it[0])?,
                ty: r_ty(&it[1])?,
                clauses: r_clauses(&it[2])?,
                free_vars_clauses: opt_fv(it, 3)?,
            })
        }
        "create" => {
            need(it, 5, "create")?;
            Statement::Create(Create {
                var: r_id(&it[0])?,
                ty: r_ty(&it[1])?,
                context: match &it[2] {
                    Sx::Atom(a) if a == "none" => None,
                    c => Some(r_ctx(c)?),
                },
                clauses: r_clauses(&it[3])?,
                next: Rc::new(r_stmt(&it[4])?),
                free_vars_clauses: opt_fv(it, 5)?,
                free_vars_next: opt_fv(it, 6)?,
            })
        }
        "invoke" => {
            need(it, 4, "invoke")?;
            Statement::Invoke(Invoke {
                var: r_id(&it[0])?,
                tag: r_id(&it[1])?,
                ty: r_ty(&it[2])?,
                args: r_ctx(&it[3])?,
            })
        }
        "lit" => {
            need(it, 3, "lit")?;
            Statement::Literal(Literal {
                var: r_id(&it[0])?,
                lit: it[1]
                    .atom()?
                    .parse::<i64>()
                    .map_err(|e| format!("{e}: {:?}", it[1]))?,
                next: Rc::new(r_stmt(&it[2])?),
                free_vars_next: opt_fv(it, 3)?,
            })
        }
        "op" => {
            need(it, 5, "op")?;
            Statement::Op(Op {
                var: r_id(&it[0])?,
                fst: r_id(&it[1])?,
                op: r_binop(&it[2])?,
                snd: r_id(&it[3])?,
                next: Rc::new(r_stmt(&it[4])?),
                free_vars_next: opt_fv(it, 5)?,
            })
        }
        "print" => {
            need(it, 3, "print")?;
            Statement::PrintI64(PrintI64 {
                newline: it[0].atom()? == "nl",
                var: r_id(&it[1])?,
                next: Rc::new(r_stmt(&it[2])?),
                free_vars_next: opt_fv(it, 3)?,
            })
        }
        "ifc" => {
            need(it, 5, "ifc")?;
            Statement::IfC(IfC {
                sort: r_ifsort(&it[0])?,
                fst: r_id(&it[1])?,
                snd: match &it[2] {
                    Sx::Atom(a) if a == "none" => None,
                    x => Some(r_id(x)?),
                },
                thenc: Rc::new(r_stmt(&it[3])?),
                elsec: Rc::new(r_stmt(&it[4])?),
            })
        }
        "exit" => {
            need(it, 1, "exit")?;
            Statement::Exit(Exit {
                var: r_id(&it[0])?,
            })
        }
        x => return Err(format!("unknown statement {x}")),
    })
}

pub fn r_prog(s: &Sx) -> R<Prog> {
    let it = s.tagged("axprog")?;
    need(it, 3, "axprog")?;
    let types = it[1]
        .tagged("types")?
        .iter()
        .map(|t| {
            let ti = t.tagged("type")?;
            Ok(TypeDeclaration {
                name: r_id(&ti[0])?,
                xtors: ti[1..]
                    .iter()
                    .map(|x| {
                        let xi = x.tagged("xtor")?;
                        Ok(XtorSig {
                            name: r_id(&xi[0])?,
                            args: r_ctx(&xi[1])?,
                        })
                    })
                    .collect::<R<Vec<_>>>()?,
            })
        })
        .collect::<R<Vec<_>>>()?;
    let defs = it[2]
        .tagged("defs")?
        .iter()
        .map(|d| {
            let di = d.tagged("def")?;
            Ok(Def {
                name: r_id(&di[0])?,
                context: r_ctx(&di[1])?,
                body: r_stmt(&di[2])?,
            })
        })
        .collect::<R<Vec<_>>>()?;
    Ok(Prog {
        defs,
        types,
        max_id: r_num(&it[0])?,
    })
}
