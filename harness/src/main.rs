//! Correspondence harness: runs the REAL compiler passes of /repo in-process and dumps every stage
//! in the canonical S-expression format (DESIGN.md appendix A). One request per stdin line.
mod dump_axcut;
mod dump_core;
mod dump_fun;
mod mock;
mod sx;

use std::cell::RefCell;
use std::io::{BufRead, Write};
use std::panic::{AssertUnwindSafe, catch_unwind};

use miette::Diagnostic;
use printer::{Print, PrintCfg};

thread_local! {
    static LAST_PANIC: RefCell<String> = const { RefCell::new(String::new()) };
}

fn guarded<T>(f: impl FnOnce() -> T) -> Result<T, String> {
    match catch_unwind(AssertUnwindSafe(f)) {
        Ok(v) => Ok(v),
        Err(_) => Err(LAST_PANIC.with(|p| p.borrow().clone())),
    }
}

fn oneline(s: &str) -> String {
    s.replace('\\', "\\\\").replace('\n', "\\n").replace('\r', "\\r")
}

fn out(w: &mut impl Write, s: &str) {
    writeln!(w, "{s}").unwrap();
}

/// x86-64 / aarch64 / rv64 text, before and after into_*_routine
fn asm_all(w: &mut impl Write, linearized: &axcut::syntax::Prog) {
    use axcut2backend::coder::compile;
    // x86-64
    match guarded(|| {
        let code = compile::<axcut2x86_64::Backend, _, _, _>(linearized.clone());
        let n = code.number_of_arguments;
        let body = code.print_to_string(None);
        let routine =
            axcut2x86_64::into_routine::into_x86_64_routine(code).print_to_string(None);
        (n, body, routine)
    }) {
        Ok((n, body, routine)) => {
            out(w, &format!("S6x OK {n} {}", sx::q(&body)));
            out(w, &format!("S7x OK {}", sx::q(&routine)));
        }
        Err(p) => out(w, &format!("S6x PANIC {}", oneline(&p))),
    }
    match guarded(|| {
        let code = compile::<axcut2aarch64::Backend, _, _, _>(linearized.clone());
        let n = code.number_of_arguments;
        let body = code.print_to_string(None);
        let routine =
            axcut2aarch64::into_routine::into_aarch64_routine(code).print_to_string(None);
        (n, body, routine)
    }) {
        Ok((n, body, routine)) => {
            out(w, &format!("S6a OK {n} {}", sx::q(&body)));
            out(w, &format!("S7a OK {}", sx::q(&routine)));
        }
        Err(p) => out(w, &format!("S6a PANIC {}", oneline(&p))),
    }
    match guarded(|| {
        let code = compile::<axcut2rv64::Backend, _, _, _>(linearized.clone());
        let n = code.number_of_arguments;
        let routine = axcut2rv64::into_routine::into_rv64_routine(code);
        (n, routine)
    }) {
        Ok((n, routine)) => {
            out(w, &format!("S7r OK {n} {}", sx::q(&routine)));
        }
        Err(p) => out(w, &format!("S7r PANIC {}", oneline(&p))),
    }
}

fn stages_from_source(w: &mut impl Write, src: &str, upto: u32) {
    // S0 parse
    let parsed = match guarded(|| fun::parser::parse_module(src)) {
        Err(p) => {
            out(w, &format!("S0 PANIC {}", oneline(&p)));
            return;
        }
        Ok(Err(e)) => {
            let code = e.code().map(|c| c.to_string()).unwrap_or_default();
            out(w, &format!("S0 DIAG {code} {}", oneline(&e.to_string())));
            return;
        }
        Ok(Ok(p)) => p,
    };
    out(w, &format!("S0 OK {}", dump_fun::program(&parsed)));
    if upto < 1 {
        return;
    }
    // S1 check
    let checked = match guarded(|| parsed.clone().check()) {
        Err(p) => {
            out(w, &format!("S1 PANIC {}", oneline(&p)));
            return;
        }
        Ok(Err(e)) => {
            let code = e.code().map(|c| c.to_string()).unwrap_or_default();
            out(w, &format!("S1 DIAG {code} {}", oneline(&e.to_string())));
            return;
        }
        Ok(Ok(p)) => p,
    };
    out(w, &format!("S1 OK {}", dump_fun::checked(&checked)));
    if upto < 2 {
        return;
    }
    // S2 fun2core
    let core = match guarded(|| fun2core::program::compile_prog(checked.clone())) {
        Err(p) => {
            out(w, &format!("S2 PANIC {}", oneline(&p)));
            return;
        }
        Ok(c) => c,
    };
    out(w, &format!("S2 OK {}", dump_core::prog(&core)));
    if upto < 3 {
        return;
    }
    // S2u uniquify (separately observable), S3 focus (= uniquify + focus)
    match guarded(|| {
        let mut u = core.clone();
        u.uniquify();
        u
    }) {
        Err(p) => {
            out(w, &format!("S2u PANIC {}", oneline(&p)));
            return;
        }
        Ok(u) => out(w, &format!("S2u OK {}", dump_core::prog(&u))),
    }
    let focused = match guarded(|| core.clone().focus()) {
        Err(p) => {
            out(w, &format!("S3 PANIC {}", oneline(&p)));
            return;
        }
        Ok(f) => f,
    };
    out(w, &format!("S3 OK {}", dump_core::fs_prog(&focused)));
    if upto < 4 {
        return;
    }
    let shrunk = match guarded(|| core2axcut::program::shrink_prog(focused.clone())) {
        Err(p) => {
            out(w, &format!("S4 PANIC {}", oneline(&p)));
            return;
        }
        Ok(f) => f,
    };
    out(w, &format!("S4 OK {}", dump_axcut::prog(&shrunk)));
    if upto < 5 {
        return;
    }
    let linearized = match guarded(|| {
        let mut l = shrunk.clone();
        l.linearize();
        l
    }) {
        Err(p) => {
            out(w, &format!("S5 PANIC {}", oneline(&p)));
            return;
        }
        Ok(f) => f,
    };
    out(w, &format!("S5 OK {}", dump_axcut::prog(&linearized)));
    if upto < 6 {
        return;
    }
    asm_all(w, &linearized);
}

fn read_file(path: &str) -> Result<String, String> {
    std::fs::read(path)
        .map_err(|e| format!("{e}"))
        .and_then(|b| String::from_utf8(b).map_err(|_| "invalid-utf8".to_string()))
}

fn handle(w: &mut impl Write, line: &str) {
    let parts: Vec<&str> = line.split_whitespace().collect();
    if parts.is_empty() {
        return;
    }
    match parts[0] {
        // stages <path> [upto]
        "stages" => {
            let upto = parts.get(2).and_then(|s| s.parse().ok()).unwrap_or(6);
            match read_file(parts[1]) {
                Ok(src) => stages_from_source(w, &src, upto),
                Err(e) => out(w, &format!("S0 IOERR {e}")),
            }
        }
        // axcut <path.sexp> : read a (non-linear) AxCut program, linearize it, emit code
        "axcut" | "axcutlin" => match read_file(parts[1])
            .and_then(|s| sx::parse(&s))
            .and_then(|s| dump_axcut::r_prog(&s))
        {
            Err(e) => out(w, &format!("S4 IOERR {}", oneline(&e))),
            Ok(prog) => {
                let linearized = if parts[0] == "axcutlin" {
                    prog
                } else {
                    match guarded(|| {
                        let mut l = prog.clone();
                        l.linearize();
                        l
                    }) {
                        Err(p) => {
                            out(w, &format!("S5 PANIC {}", oneline(&p)));
                            out(w, "END");
                            return;
                        }
                        Ok(l) => l,
                    }
                };
                out(w, &format!("S5 OK {}", dump_axcut::prog(&linearized)));
                if parts.get(2).copied() != Some("nocode") {
                    asm_all(w, &linearized);
                }
                if parts.get(2).copied() == Some("mock") || parts.get(3).copied() == Some("mock") {
                    match guarded(|| mock::compile_mock(linearized.clone())) {
                        Ok(t) => out(w, &format!("S6m OK {}", sx::q(&t))),
                        Err(p) => out(w, &format!("S6m PANIC {}", oneline(&p))),
                    }
                }
            }
        },
        // fmt <path> <width> <indent>: parse, print, reparse, compare, print again
        "fmt" => {
            let width: usize = parts[2].parse().unwrap();
            let indent: isize = parts[3].parse().unwrap();
            match read_file(parts[1]) {
                Err(e) => out(w, &format!("FMT IOERR {e}")),
                Ok(src) => match guarded(|| fun::parser::parse_module(&src)) {
                    Err(p) => out(w, &format!("FMT PANIC {}", oneline(&p))),
                    Ok(Err(_)) => out(w, "FMT NOPARSE"),
                    Ok(Ok(parsed)) => {
                        let cfg = PrintCfg {
                            width,
                            allow_linebreaks: true,
                            latex: false,
                            omit_decl_sep: false,
                            indent,
                        };
                        let text = parsed.print_to_string(Some(&cfg));
                        let verdict = match guarded(|| fun::parser::parse_module(&text)) {
                            Err(p) => format!("REPARSE-PANIC {}", oneline(&p)),
                            Ok(Err(e)) => format!("REPARSE-FAIL {}", oneline(&e.to_string())),
                            Ok(Ok(again)) => {
                                if again != parsed {
                                    "TREE-DIFF".to_string()
                                } else if again.print_to_string(Some(&cfg)) != text {
                                    "NOT-IDEMPOTENT".to_string()
                                } else {
                                    "SAME".to_string()
                                }
                            }
                        };
                        out(w, &format!("FMT OK {} {verdict}", sx::q(&text)));
                    }
                },
            }
        }
        // subst <backend> ... : see mock.rs
        "pm" => mock::handle_pm(w, &parts[1..]),
        "counter" => out(
            w,
            &format!("COUNTER {}", axcut2backend::fresh_labels::fresh_label()),
        ),
        "cdriver" => {
            // cdriver <n>: text of the generated C driver for n parameters
            let n: usize = parts[1].parse().unwrap();
            let p = driver::generate_c_driver(n, None);
            out(
                w,
                &format!("CDRIVER {}", sx::q(&std::fs::read_to_string(p).unwrap())),
            );
        }
        other => out(w, &format!("ERR unknown request {other}")),
    }
    out(w, "END");
}

fn main() {
    std::panic::set_hook(Box::new(|info| {
        let msg = if let Some(s) = info.payload().downcast_ref::<&str>() {
            (*s).to_string()
        } else if let Some(s) = info.payload().downcast_ref::<String>() {
            s.clone()
        } else {
            "panic".to_string()
        };
        let loc = info
            .location()
            .map(|l| format!("{}:{}", l.file(), l.line()))
            .unwrap_or_default();
        LAST_PANIC.with(|p| *p.borrow_mut() = format!("{loc} {msg}"));
    }));
    let stdin = std::io::stdin();
    let stdout = std::io::stdout();
    let mut w = std::io::BufWriter::new(stdout.lock());
    for line in stdin.lock().lines() {
        let line = line.unwrap();
        handle(&mut w, &line);
        w.flush().unwrap();
    }
}
