//! A mock backend: implements the five backend traits of `axcut2backend` with ABSTRACT
//! instructions, so that the real, generic code generator (statements, substitution,
//! parallel moves, tables, labels) can be run and compared with the Lean model of the generic
//! layer, independently of any concrete architecture.
use axcut::syntax::{Chirality, ContextBinding, ID, TypingContext};
use axcut2backend::code::Instructions;
use axcut2backend::config::{Config, TemporaryNumber};
use axcut2backend::memory::Memory;
use axcut2backend::parallel_moves::{ParallelMoves, Root, SpillMove, parallel_moves};
use axcut2backend::utils::Utils;
use std::collections::{BTreeMap, BTreeSet};
use std::io::Write;

pub struct Mock;

pub const T_TEMP: usize = 1_000_001;
pub const T_HEAP: usize = 1_000_002;
pub const T_FREE: usize = 1_000_003;
pub const T_RET1: usize = 1_000_004;
pub const T_RET2: usize = 1_000_005;

fn kinds(c: &[ContextBinding]) -> String {
    let s: String = c
        .iter()
        .map(|b| match b.chi {
            Chirality::Prd => 'p',
            Chirality::Cns => 'c',
            Chirality::Ext => 'e',
        })
        .collect();
    if s.is_empty() { "-".to_string() } else { s }
}

impl Config<usize, i64> for Mock {
    fn i64_to_immediate(number: i64) -> i64 {
        number
    }
    fn temp() -> usize {
        T_TEMP
    }
    fn heap() -> usize {
        T_HEAP
    }
    fn free() -> usize {
        T_FREE
    }
    fn return1() -> usize {
        T_RET1
    }
    fn return2() -> usize {
        T_RET2
    }
    fn jump_length(n: usize) -> i64 {
        n as i64
    }
}

impl Utils<usize> for Mock {
    fn variable_temporary(number: TemporaryNumber, context: &TypingContext, variable_id: ID) -> usize {
        let pos = context
            .bindings
            .iter()
            .position(|b| b.var.id == variable_id)
            .unwrap_or_else(|| panic!("Variable {variable_id} not found in context"));
        2 * pos + number as usize
    }
    fn fresh_temporary(number: TemporaryNumber, context: &TypingContext) -> usize {
        2 * context.bindings.len() + number as usize
    }
}

impl Instructions<String, usize, i64> for Mock {
    fn comment(msg: String) -> String {
        format!("comment {msg}")
    }
    fn label(name: String) -> String {
        format!("label {name}")
    }
    fn jump(t: usize, is: &mut Vec<String>) {
        is.push(format!("jump {t}"));
    }
    fn jump_label(name: String, is: &mut Vec<String>) {
        is.push(format!("jumplabel {name}"));
    }
    fn jump_label_fixed(name: String, is: &mut Vec<String>) {
        is.push(format!("jumpfixed {name}"));
    }
    fn jump_label_if_equal(a: usize, b: usize, name: String, is: &mut Vec<String>) {
        is.push(format!("jif eq {a} {b} {name}"));
    }
    fn jump_label_if_not_equal(a: usize, b: usize, name: String, is: &mut Vec<String>) {
        is.push(format!("jif ne {a} {b} {name}"));
    }
    fn jump_label_if_less(a: usize, b: usize, name: String, is: &mut Vec<String>) {
        is.push(format!("jif lt {a} {b} {name}"));
    }
    fn jump_label_if_less_or_equal(a: usize, b: usize, name: String, is: &mut Vec<String>) {
        is.push(format!("jif le {a} {b} {name}"));
    }
    fn jump_label_if_greater(a: usize, b: usize, name: String, is: &mut Vec<String>) {
        is.push(format!("jif gt {a} {b} {name}"));
    }
    fn jump_label_if_greater_or_equal(a: usize, b: usize, name: String, is: &mut Vec<String>) {
        is.push(format!("jif ge {a} {b} {name}"));
    }
    fn jump_label_if_zero(a: usize, name: String, is: &mut Vec<String>) {
        is.push(format!("jifz eq {a} {name}"));
    }
    fn jump_label_if_not_zero(a: usize, name: String, is: &mut Vec<String>) {
        is.push(format!("jifz ne {a} {name}"));
    }
    fn jump_label_if_less_zero(a: usize, name: String, is: &mut Vec<String>) {
        is.push(format!("jifz lt {a} {name}"));
    }
    fn jump_label_if_less_or_equal_zero(a: usize, name: String, is: &mut Vec<String>) {
        is.push(format!("jifz le {a} {name}"));
    }
    fn jump_label_if_greater_zero(a: usize, name: String, is: &mut Vec<String>) {
        is.push(format!("jifz gt {a} {name}"));
    }
    fn jump_label_if_greater_or_equal_zero(a: usize, name: String, is: &mut Vec<String>) {
        is.push(format!("jifz ge {a} {name}"));
    }
    fn load_immediate(t: usize, imm: i64, is: &mut Vec<String>) {
        is.push(format!("li {t} {imm}"));
    }
    fn load_label(t: usize, name: String, is: &mut Vec<String>) {
        is.push(format!("ll {t} {name}"));
    }
    fn add_and_jump(t: usize, imm: i64, is: &mut Vec<String>) {
        is.push(format!("addjump {t} {imm}"));
    }
    fn add(t: usize, a: usize, b: usize, is: &mut Vec<String>) {
        is.push(format!("add {t} {a} {b}"));
    }
    fn sub(t: usize, a: usize, b: usize, is: &mut Vec<String>) {
        is.push(format!("sub {t} {a} {b}"));
    }
    fn mul(t: usize, a: usize, b: usize, is: &mut Vec<String>) {
        is.push(format!("mul {t} {a} {b}"));
    }
    fn div(t: usize, a: usize, b: usize, is: &mut Vec<String>) {
        is.push(format!("div {t} {a} {b}"));
    }
    fn rem(t: usize, a: usize, b: usize, is: &mut Vec<String>) {
        is.push(format!("rem {t} {a} {b}"));
    }
    fn mov(t: usize, s: usize, is: &mut Vec<String>) {
        is.push(format!("mov {t} {s}"));
    }
    fn print_i64(newline: bool, s: usize, context: &[ContextBinding], is: &mut Vec<String>) {
        is.push(format!(
            "print {} {s} {}",
            if newline { "nl" } else { "nonl" },
            kinds(context)
        ));
    }
}

impl Memory<String, usize> for Mock {
    fn erase_block(t: usize, is: &mut Vec<String>) {
        is.push(format!("erase {t}"));
    }
    fn share_block_n(t: usize, n: usize, is: &mut Vec<String>) {
        is.push(format!("share {t} {n}"));
    }
    fn store(to_store: TypingContext, remaining: &TypingContext, is: &mut Vec<String>) {
        is.push(format!(
            "store {} {}",
            kinds(&to_store.bindings),
            remaining.bindings.len()
        ));
    }
    fn load(to_load: TypingContext, existing: &TypingContext, is: &mut Vec<String>) {
        is.push(format!(
            "load {} {}",
            kinds(&to_load.bindings),
            existing.bindings.len()
        ));
    }
}

impl ParallelMoves<String, usize> for Mock {
    fn contains_spill_edge(_root: &Root<usize>) -> SpillMove {
        false
    }
    fn store_temporary(t: usize, spill: SpillMove, is: &mut Vec<String>) {
        is.push(format!("save {t} {}", spill as u8));
    }
    fn restore_temporary(t: usize, spill: SpillMove, is: &mut Vec<String>) {
        is.push(format!("restore {t} {}", spill as u8));
    }
}

pub fn compile_mock(prog: axcut::syntax::Prog) -> String {
    let code = axcut2backend::coder::compile::<Mock, String, usize, i64>(prog);
    code.instructions.join("\n")
}

fn parse_pm(spec: &str) -> BTreeMap<usize, BTreeSet<usize>> {
    let mut m = BTreeMap::new();
    for item in spec.split(';') {
        if item.is_empty() {
            continue;
        }
        let (s, ts) = item.split_once(':').expect("src:targets");
        let set: BTreeSet<usize> = ts
            .split(',')
            .filter(|x| !x.is_empty())
            .map(|x| x.parse().unwrap())
            .collect();
        m.insert(s.parse().unwrap(), set);
    }
    m
}

/// `pm <backend> <src>:<t>,<t>;<src>:...`  numbers n: for x86/a64 n < 1000 is register n (a64: X(n)),
/// n >= 1000 is spill slot n - 1000; rv: register n; mock: abstract temporary n.
pub fn handle_pm(w: &mut impl Write, parts: &[&str]) {
    use printer::Print;
    let backend = parts[0];
    let spec = parts.get(1).copied().unwrap_or("");
    let m = parse_pm(spec);
    let res = std::panic::catch_unwind(|| match backend {
        "mock" => {
            let mut is: Vec<String> = Vec::new();
            parallel_moves::<Mock, String, usize, i64>(m, &mut is);
            is.join("|")
        }
        "x86" => {
            use axcut2x86_64::config::{Register, Spill, Temporary};
            let conv = |n: usize| {
                if n < 1000 {
                    Temporary::Register(Register(n))
                } else {
                    Temporary::Spill(Spill(n - 1000))
                }
            };
            let mm: BTreeMap<Temporary, BTreeSet<Temporary>> = m
                .into_iter()
                .map(|(k, v)| (conv(k), v.into_iter().map(conv).collect()))
                .collect();
            let mut is = Vec::new();
            parallel_moves::<axcut2x86_64::Backend, _, _, _>(mm, &mut is);
            is.iter()
                .map(|c| c.print_to_string(None).trim().to_string())
                .collect::<Vec<_>>()
                .join("|")
        }
        "a64" => {
            use axcut2aarch64::config::{Register, Spill, Temporary};
            let conv = |n: usize| {
                if n < 1000 {
                    Temporary::Register(Register::X(n))
                } else {
                    Temporary::Spill(Spill(n - 1000))
                }
            };
            let mm: BTreeMap<Temporary, BTreeSet<Temporary>> = m
                .into_iter()
                .map(|(k, v)| (conv(k), v.into_iter().map(conv).collect()))
                .collect();
            let mut is = Vec::new();
            parallel_moves::<axcut2aarch64::Backend, _, _, _>(mm, &mut is);
            is.iter()
                .map(|c| c.print_to_string(None).trim().to_string())
                .collect::<Vec<_>>()
                .join("|")
        }
        "rv" => {
            use axcut2rv64::config::Register;
            let mm: BTreeMap<Register, BTreeSet<Register>> = m
                .into_iter()
                .map(|(k, v)| (Register(k), v.into_iter().map(Register).collect()))
                .collect();
            let mut is = Vec::new();
            parallel_moves::<axcut2rv64::Backend, _, _, _>(mm, &mut is);
            is.iter()
                .map(|c| format!("{c}").trim().to_string())
                .collect::<Vec<_>>()
                .join("|")
        }
        other => format!("ERR unknown backend {other}"),
    });
    match res {
        Ok(t) => writeln!(w, "PM OK {t}").unwrap(),
        Err(_) => writeln!(w, "PM PANIC").unwrap(),
    }
}
