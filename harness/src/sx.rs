//! Minimal S-expression writer and reader (format: DESIGN.md appendix A).

pub fn q(s: &str) -> String {
    let mut out = String::with_capacity(s.len() + 2);
    out.push('"');
    for c in s.chars() {
        match c {
            '\\' => out.push_str("\\\\"),
            '"' => out.push_str("\\\""),
            '\n' => out.push_str("\\n"),
            '\r' => out.push_str("\\r"),
            '\t' => out.push_str("\\t"),
            c => out.push(c),
        }
    }
    out.push('"');
    out
}

pub fn l(head: &str, items: &[String]) -> String {
    let mut out = String::new();
    out.push('(');
    out.push_str(head);
    for i in items {
        out.push(' ');
        out.push_str(i);
    }
    out.push(')');
    out
}

pub fn lv(head: &str, items: Vec<String>) -> String {
    l(head, &items)
}

#[derive(Debug, Clone, PartialEq)]
pub enum Sx {
    Atom(String),
    Str(String),
    List(Vec<Sx>),
}

impl Sx {
    pub fn atom(&self) -> Result<&str, String> {
        match self {
            Sx::Atom(a) => Ok(a),
            _ => Err(format!("expected atom, got {self:?}")),
        }
    }
    pub fn string(&self) -> Result<&str, String> {
        match self {
            Sx::Str(a) => Ok(a),
            _ => Err(format!("expected string, got {self:?}")),
        }
    }
    pub fn list(&self) -> Result<&[Sx], String> {
        match self {
            Sx::List(a) => Ok(a),
            _ => Err(format!("expected list, got {self:?}")),
        }
    }
    /// `(head item...)` -> items
    pub fn tagged(&self, head: &str) -> Result<&[Sx], String> {
        let items = self.list()?;
        match items.first() {
            Some(Sx::Atom(h)) if h == head => Ok(&items[1..]),
            _ => Err(format!("expected ({head} ...), got {self:?}")),
        }
    }
    pub fn head(&self) -> Result<&str, String> {
        let items = self.list()?;
        match items.first() {
            Some(Sx::Atom(h)) => Ok(h),
            _ => Err(format!("expected (head ...), got {self:?}")),
        }
    }
}

pub fn parse(src: &str) -> Result<Sx, String> {
    let chars: Vec<char> = src.chars().collect();
    let mut pos = 0;
    let v = parse_at(&chars, &mut pos)?;
    skip_ws(&chars, &mut pos);
    if pos != chars.len() {
        return Err(format!("trailing input at {pos}"));
    }
    Ok(v)
}

fn skip_ws(c: &[char], pos: &mut usize) {
    while *pos < c.len() && c[*pos].is_whitespace() {
        *pos += 1;
    }
}

fn parse_at(c: &[char], pos: &mut usize) -> Result<Sx, String> {
    skip_ws(c, pos);
    if *pos >= c.len() {
        return Err("unexpected end".to_string());
    }
    match c[*pos] {
        '(' => {
            *pos += 1;
            let mut items = Vec::new();
            loop {
                skip_ws(c, pos);
                if *pos >= c.len() {
                    return Err("unclosed (".to_string());
                }
                if c[*pos] == ')' {
                    *pos += 1;
                    return Ok(Sx::List(items));
                }
                items.push(parse_at(c, pos)?);
            }
        }
        ')' => Err(format!("unexpected ) at {pos}")),
        '"' => {
            *pos += 1;
            let mut s = String::new();
            loop {
                if *pos >= c.len() {
                    return Err("unclosed string".to_string());
                }
                match c[*pos] {
                    '"' => {
                        *pos += 1;
                        return Ok(Sx::Str(s));
                    }
                    '\\' => {
                        *pos += 1;
                        if *pos >= c.len() {
                            return Err("bad escape".to_string());
                        }
                        s.push(match c[*pos] {
                            'n' => '\n',
                            'r' => '\r',
                            't' => '\t',
                            x => x,
                        });
                        *pos += 1;
                    }
                    x => {
                        s.push(x);
                        *pos += 1;
                    }
                }
            }
        }
        _ => {
            let start = *pos;
            while *pos < c.len() && !c[*pos].is_whitespace() && c[*pos] != '(' && c[*pos] != ')' {
                *pos += 1;
            }
            Ok(Sx::Atom(c[start..*pos].iter().collect()))
        }
    }
}
