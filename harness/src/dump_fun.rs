//! Canonical S-expression dump of Fun syntax trees (spans dropped).
use crate::sx::{l, lv, q};
use fun::syntax::context::{Chirality, ContextBinding, TypingContext};
use fun::syntax::declarations::{Codata, Data, Declaration, Def, Polarity};
use fun::syntax::program::{CheckedProgram, Program};
use fun::syntax::terms::{BinOp, Clause, IfSort, Term};
use fun::syntax::types::{Ty, TypeArgs};

pub fn ty(t: &Ty) -> String {
    match t {
        Ty::I64 { .. } => "i64".to_string(),
        Ty::Decl {
            name, type_args, ..
        } => {
            let mut items = vec![q(name)];
            items.extend(type_args.args.iter().map(ty));
            lv("ty", items)
        }
    }
}

fn oty(t: &Option<Ty>) -> String {
    match t {
        None => "none".to_string(),
        Some(t) => ty(t),
    }
}

fn tyargs(t: &TypeArgs) -> String {
    lv("tyargs", t.args.iter().map(ty).collect())
}

fn chi(c: &Chirality) -> &'static str {
    match c {
        Chirality::Prd => "prd",
        Chirality::Cns => "cns",
    }
}

fn binding(b: &ContextBinding) -> String {
    l("b", &[q(&b.var), chi(&b.chi).to_string(), ty(&b.ty)])
}

pub fn ctx(c: &TypingContext) -> String {
    lv("ctx", c.bindings.iter().map(binding).collect())
}

pub fn binop(o: &BinOp) -> &'static str {
    match o {
        BinOp::Div => "/",
        BinOp::Prod => "*",
        BinOp::Rem => "%",
        BinOp::Sum => "+",
        BinOp::Sub => "-",
    }
}

pub fn ifsort(s: &IfSort) -> &'static str {
    match s {
        IfSort::Equal => "eq",
        IfSort::NotEqual => "ne",
        IfSort::Less => "lt",
        IfSort::LessOrEqual => "le",
        IfSort::Greater => "gt",
        IfSort::GreaterOrEqual => "ge",
    }
}

fn clause(c: &Clause) -> String {
    l(
        "clause",
        &[
            match c.pol {
                Polarity::Data => "data".to_string(),
                Polarity::Codata => "codata".to_string(),
            },
            q(&c.xtor),
            lv(
                "names",
                c.context_names.bindings.iter().map(|n| q(n)).collect(),
            ),
            ctx(&c.context),
            term(&c.body),
        ],
    )
}

fn args(a: &fun::syntax::arguments::Arguments) -> String {
    lv("args", a.entries.iter().map(term).collect())
}

pub fn term(t: &Term) -> String {
    match t {
        Term::XVar(v) => l(
            "var",
            &[
                q(&v.var),
                oty(&v.ty),
                match &v.chi {
                    None => "none".to_string(),
                    Some(c) => chi(c).to_string(),
                },
            ],
        ),
        Term::Lit(x) => l("lit", &[x.lit.to_string()]),
        Term::Op(o) => l(
            "op",
            &[binop(&o.op).to_string(), term(&o.fst), term(&o.snd)],
        ),
        Term::IfC(i) => l(
            "ifc",
            &[
                ifsort(&i.sort).to_string(),
                term(&i.fst),
                match &i.snd {
                    None => "none".to_string(),
                    Some(s) => term(s),
                },
                term(&i.thenc),
                term(&i.elsec),
                oty(&i.ty),
            ],
        ),
        Term::PrintI64(p) => l(
            "print",
            &[
                if p.newline { "nl" } else { "nonl" }.to_string(),
                term(&p.arg),
                term(&p.next),
                oty(&p.ty),
            ],
        ),
        Term::Let(x) => l(
            "let",
            &[
                q(&x.variable),
                ty(&x.var_ty),
                term(&x.bound_term),
                term(&x.in_term),
                oty(&x.ty),
            ],
        ),
        Term::Call(c) => l("call", &[q(&c.name), args(&c.args), oty(&c.ret_ty)]),
        Term::Constructor(c) => l("ctor", &[q(&c.id), args(&c.args), oty(&c.ty)]),
        Term::Destructor(d) => l(
            "dtor",
            &[
                term(&d.scrutinee),
                q(&d.id),
                tyargs(&d.type_args),
                args(&d.args),
                oty(&d.ty),
            ],
        ),
        Term::Case(c) => l(
            "case",
            &[
                term(&c.scrutinee),
                tyargs(&c.type_args),
                lv("clauses", c.clauses.iter().map(clause).collect()),
                oty(&c.ty),
            ],
        ),
        Term::New(n) => l(
            "new",
            &[
                lv("clauses", n.clauses.iter().map(clause).collect()),
                oty(&n.ty),
            ],
        ),
        Term::Label(x) => l("label", &[q(&x.label), term(&x.term), oty(&x.ty)]),
        Term::Goto(x) => l("goto", &[q(&x.target), term(&x.term), oty(&x.ty)]),
        Term::Exit(x) => l("exit", &[term(&x.arg), oty(&x.ty)]),
        Term::Paren(p) => l("paren", &[term(&p.inner)]),
    }
}

fn data(d: &Data) -> String {
    let mut items = vec![
        q(&d.name),
        lv(
            "tparams",
            d.type_params.bindings.iter().map(|n| q(n)).collect(),
        ),
    ];
    items.extend(
        d.ctors
            .iter()
            .map(|c| l("ctor", &[q(&c.name), ctx(&c.args)])),
    );
    lv("data", items)
}

fn codata(d: &Codata) -> String {
    let mut items = vec![
        q(&d.name),
        lv(
            "tparams",
            d.type_params.bindings.iter().map(|n| q(n)).collect(),
        ),
    ];
    items.extend(
        d.dtors
            .iter()
            .map(|c| l("dtor", &[q(&c.name), ctx(&c.args), ty(&c.cont_ty)])),
    );
    lv("codata", items)
}

fn def(d: &Def) -> String {
    l(
        "def",
        &[q(&d.name), ctx(&d.context), ty(&d.ret_ty), term(&d.body)],
    )
}

pub fn program(p: &Program) -> String {
    lv(
        "prog",
        p.declarations
            .iter()
            .map(|d| match d {
                Declaration::Data(d) => data(d),
                Declaration::Codata(d) => codata(d),
                Declaration::Def(d) => def(d),
            })
            .collect(),
    )
}

/// Type declarations are emitted in the implementation's order (raw); consumers that compare
/// with the model sort them by name (the order is the business of property C17).
pub fn checked(p: &CheckedProgram) -> String {
    l(
        "checked",
        &[
            lv("datas", p.data_types.iter().map(data).collect()),
            lv("codatas", p.codata_types.iter().map(codata).collect()),
            lv("defs", p.defs.iter().map(def).collect()),
        ],
    )
}
