#!/usr/bin/env python3
"""cross_backend.py — cross-backend agreement driver for property C08 (and C06/C07).

For every `(axprog ...)` program `<name>.sexp` in a directory (print-free, linear-typable, at most
14 live variables) and every argument tuple in `<name>.args` (one comma-separated tuple per line; no
file = one empty tuple) it
  1. asks the harness (`axcut <file>`, or `axcutlin` with --lin) for S5 and the three routine texts
     S7x / S7a / S7r  (a program whose S7r is PANIC — prints, > 14 variables — is out of scope: counted);
  2. computes the reference result with the AxCut positional semantics: the built-in python
     interpreter below (`ref`) and, if the model driver answers it, the Lean positional machine
     (`sempos <s5file> <fuel> <args>`);
  3. runs the Lean machines through the model driver: `mach rv|x86|a64 <asmfile> <fuel> <mon> <args|->`
     (reply line `OK out=[..] res=.. steps=.. maxheap=..`; a driver that does not know a machine
     replies `ERR ...` and that machine is reported as n/a);
  4. compares the `out=` and `res=` fields of all available results; all must be equal.
Prints one line per disagreement and a summary table; exit status 1 if there is any disagreement.

usage: cross_backend.py DIR [--harness PATH] [--model "CMD"] [--fuel N] [--mon heap,wf] [--lin]
                            [--machines rv,x86,a64] [--tmp DIR] [-v]
python3 stdlib only."""

# ----------------------------------------------------------------------------- reference interpreter (linearized AxCut, positional)
import sys
sys.setrecursionlimit(100000)

def parse_sexp(s):
    i = 0; n = len(s)
    def ws():
        nonlocal i
        while i < n and s[i] in ' \n\t\r': i += 1
    def one():
        nonlocal i
        ws()
        if s[i] == '(':
            i += 1; items = []
            while True:
                ws()
                if s[i] == ')': i += 1; return items
                items.append(one())
        if s[i] == '"':
            i += 1; out = []
            while s[i] != '"':
                if s[i] == '\\':
                    out.append({'n': '\n', 'r': '\r', 't': '\t'}.get(s[i + 1], s[i + 1])); i += 2
                else: out.append(s[i]); i += 1
            i += 1; return ('str', ''.join(out))
        j = i
        while i < n and s[i] not in ' \n\t\r()': i += 1
        return s[j:i]
    return one()

def vid(x): return (x[1][1], int(x[2]))        # (id "name" n)
def ctx(x): return [(vid(b[1]), b[2]) for b in x[1:]]   # (ctx (b id chi ty) ...)
def tyname(t): return None if t == 'i64' else vid(t[1])

M = 1 << 64
def wrap(v):
    v &= M - 1
    return v - M if v >= (1 << 63) else v

class Fault(Exception): pass

def run(prog, args, fuel=1000000):
    types = {}
    for t in prog[2][1:]:
        types[vid(t[1])] = [vid(x[1]) for x in t[2:]]
    defs = {}
    order = []
    for d in prog[3][1:]:
        defs[vid(d[1])] = (ctx(d[2]), d[3]); order.append(vid(d[1]))
    c0, body = defs[order[0]]
    if len(c0) != len(args): return 'res=fault:arity'
    names = [v for v, _ in c0]; env = [wrap(a) for a in args]; st = body
    def pos(v):
        return names.index(v)
    try:
        while True:
            fuel -= 1
            if fuel < 0: return 'res=outOfFuel'
            assert len(names) == len(env)
            h = st[0]
            if h == 'subst':
                pairs = [(vid(p[1][1]), vid(p[2])) for p in st[1][1:]]
                env = [env[pos(old)] for new, old in pairs]; names = [new for new, old in pairs]; st = st[2]
            elif h == 'call':
                c, b = defs[vid(st[1])]
                if len(c) != len(names): raise Fault('call-arity')
                names = [v for v, _ in c]; st = b
            elif h == 'let':
                n = len(st[4]) - 1
                a = ctx(st[4])
                if n: assert [v for v, _ in a] == names[-n:], ('let args', a, names)
                tag = types[tyname(st[2])].index(vid(st[3]))
                fields = env[len(env) - n:]
                env = env[:len(env) - n] + [('obj', tag, fields)]; names = names[:len(names) - n] + [vid(st[1])]
                st = st[5]
            elif h == 'switch':
                assert names[-1] == vid(st[1]), ('switch var not last', names, st[1])
                o = env[-1]
                cl = st[3][1:][o[1]]
                cc = ctx(cl[2])
                if len(cc) != len(o[2]): raise Fault('switch-arity')
                env = env[:-1] + list(o[2]); names = names[:-1] + [v for v, _ in cc]; st = cl[3]
            elif h == 'create':
                ec = ctx(st[3]); n = len(ec)
                if n: assert [v for v, _ in ec] == names[-n:], ('create env', ec, names)
                cap = env[len(env) - n:]
                clo = ('clo', st[4][1:], cap, [v for v, _ in ec], tyname(st[2]))
                env = env[:len(env) - n] + [clo]; names = names[:len(names) - n] + [vid(st[1])]; st = st[5]
            elif h == 'invoke':
                assert names[-1] == vid(st[1]), ('invoke var not last', names, st[1])
                clo = env[-1]
                tag = types[tyname(st[3])].index(vid(st[2]))
                cl = clo[1][tag]
                cc = ctx(cl[2])
                if len(cc) != len(env) - 1: raise Fault('invoke-arity')
                env = env[:-1] + list(clo[2]); names = [v for v, _ in cc] + clo[3]; st = cl[3]
            elif h == 'lit':
                env = env + [wrap(int(st[2]))]; names = names + [vid(st[1])]; st = st[3]
            elif h == 'op':
                a = env[pos(vid(st[2]))]; b = env[pos(vid(st[4]))]; o = st[3]
                if o == '+': v = a + b
                elif o == '-': v = a - b
                elif o == '*': v = a * b
                else:
                    if b == 0: raise Fault('div-by-zero')
                    if a == -(1 << 63) and b == -1: raise Fault('div-overflow')
                    qq = abs(a) // abs(b)
                    if (a < 0) != (b < 0): qq = -qq
                    v = qq if o == '/' else a - qq * b
                env = env + [wrap(v)]; names = names + [vid(st[1])]; st = st[5]
            elif h == 'ifc':
                a = env[pos(vid(st[2]))]; b = 0 if st[3] == 'none' else env[pos(vid(st[3]))]
                c = {'eq': a == b, 'ne': a != b, 'lt': a < b, 'le': a <= b, 'gt': a > b, 'ge': a >= b}[st[1]]
                st = st[4] if c else st[5]
            elif h == 'exit':
                return f'res=done:{env[pos(vid(st[1]))]}'
            elif h == 'print':
                raise Fault('print')
            else:
                raise Fault('unknown-stmt ' + str(h))
    except Fault as f:
        return 'res=fault:' + f.args[0]


# ----------------------------------------------------------------------------- driver
import subprocess, re, os, argparse, glob, tempfile

def unq(s):
    out = []; i = 1
    while i < len(s) - 1:
        c = s[i]
        if c == '\\':
            d = s[i + 1]; out.append({'n': '\n', 'r': '\r', 't': '\t'}.get(d, d)); i += 2
        else:
            out.append(c); i += 1
    return ''.join(out)

class Proc:
    def __init__(self, cmd):
        self.cmd = cmd
        self.p = subprocess.Popen(cmd, shell=isinstance(cmd, str), stdin=subprocess.PIPE, stdout=subprocess.PIPE,
                                  stderr=subprocess.DEVNULL, text=True, bufsize=1)
    def ask(self, line):
        self.p.stdin.write(line + '\n'); self.p.stdin.flush()
        res = []
        while True:
            l = self.p.stdout.readline()
            if l == '': raise RuntimeError(f'EOF from {self.cmd} on request {line[:80]}')
            l = l.rstrip('\n')
            if l == 'END': return res
            res.append(l)

def stage_lines(lines):
    d = {}
    for l in lines:
        m = re.match(r'^(S\w+) (OK|PANIC|DIAG|IOERR) ?(.*)$', l, re.S)
        if m: d[m.group(1)] = (m.group(2), m.group(3))
    return d

def fields(reply):
    """(out, res) of a machine reply line, or the whole line if it is not an OK line"""
    m = re.match(r'^OK out=(\[[^\]]*\]) res=(.*?)( steps=.*)?$', reply)
    if not m: return reply
    res = m.group(2)
    res = re.sub(r'@\d+$', '', res)          # line numbers differ between backends
    res = {'stuck:divByZero': 'fault:div-by-zero', 'stuck:overflow': 'fault:div-overflow'}.get(res, res)
    return f'out={m.group(1)} res={res}'

def main():
    ap = argparse.ArgumentParser()
    ap.add_argument('dir')
    ap.add_argument('--harness', default='/verif/harness/target/debug/scc-harness')
    ap.add_argument('--model', default='/verif/lean/.lake/build/bin/sccmodel')
    ap.add_argument('--fuel', type=int, default=2000000)
    ap.add_argument('--mon', default='heap,wf')
    ap.add_argument('--lin', action='store_true', help='inputs are already linearized (axcutlin)')
    ap.add_argument('--machines', default='rv,x86,a64')
    ap.add_argument('--tmp', default=None)
    ap.add_argument('-v', action='store_true')
    a = ap.parse_args()
    tmp = a.tmp or tempfile.mkdtemp(prefix='crossbe_')
    os.makedirs(tmp, exist_ok=True)
    h = Proc([a.harness]); m = Proc(a.model)
    machines = [x for x in a.machines.split(',') if x]
    stage_of = {'rv': 'S7r', 'x86': 'S7x', 'a64': 'S7a'}
    stats = {'programs': 0, 'out-of-scope': 0, 'runs': 0, 'agree': 0, 'disagree': 0, 'harness-fail': 0}
    avail = {k: 0 for k in machines + ['sempos']}
    disagreements = []
    for f in sorted(glob.glob(os.path.join(a.dir, '*.sexp'))):
        d = stage_lines(h.ask(('axcutlin ' if a.lin else 'axcut ') + f))
        if d.get('S5', ('', ''))[0] != 'OK' or 'S7r' not in d:
            stats['harness-fail'] += 1
            if a.v: print('HARNESS-FAIL', f, {k: v[0] for k, v in d.items()})
            continue
        if d['S7r'][0] != 'OK':
            stats['out-of-scope'] += 1
            if a.v: print('OUT-OF-SCOPE', f, d['S7r'][1][:80])
            continue
        stats['programs'] += 1
        s5 = d['S5'][1]
        s5file = os.path.join(tmp, 'cur.s5'); open(s5file, 'w').write(s5 + '\n')
        prog = parse_sexp(s5)
        texts = {}
        for k in machines:
            st = d.get(stage_of[k])
            if st and st[0] == 'OK':
                q = st[1]
                if k == 'rv': q = q.split(' ', 1)[1]       # S7r OK <nargs> "<text>"
                p = os.path.join(tmp, 'cur.' + k); open(p, 'w').write(unq(q)); texts[k] = p
        argf = f[:-5] + '.args'
        tuples = [l.strip() for l in open(argf)] if os.path.exists(argf) else ['']
        if not tuples: tuples = ['']
        for t in tuples:
            stats['runs'] += 1
            args = [int(x) for x in t.split(',') if x]
            results = {'ref': 'out=[] ' + run(prog, args, a.fuel)}
            rep = m.ask(f'sempos {s5file} {a.fuel} {t or "-"}')
            if rep and rep[0].startswith('OK'):
                results['sempos'] = fields(rep[0]); avail['sempos'] += 1
            for k, p in texts.items():
                rep = m.ask(f'mach {k} {p} {a.fuel} {a.mon} {t or "-"}')
                if rep and not rep[0].startswith('ERR'):
                    results[k] = fields(rep[0]); avail[k] += 1
            vals = set(results.values())
            if len(vals) == 1: stats['agree'] += 1
            else:
                stats['disagree'] += 1
                disagreements.append((f, t, results))
            if a.v: print('RUN', os.path.basename(f), t, results)
    print('=== disagreements ===')
    if not disagreements: print('(none)')
    for f, t, results in disagreements:
        print(f'{f} args=({t})')
        for k, v in results.items(): print(f'    {k:7s} {v}')
    print('=== summary ===')
    for k, v in stats.items(): print(f'{k:14s} {v}')
    print('results obtained per machine:', ' '.join(f'{k}={v}' for k, v in avail.items()), f'ref={stats["runs"]}')
    sys.exit(1 if disagreements else 0)

if __name__ == '__main__':
    main()
