// the label k is shadowed by the variable k: `goto k` has no covariable k in scope (rejected)
def f(n: i64): i64 { label k { let k: i64 = n + 1; goto k (k) } }
def main(n: i64): i64 { f(n) }
