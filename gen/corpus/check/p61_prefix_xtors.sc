// constructor / destructor names that are proper prefixes of names of another type, instances with equal arguments
data Shape { Sq, Rect }
data Answer { S, N }
data Opt[A] { No, Nope(x: A) }
data Lst[A] { Ni, Nil2, Co(x: A, xs: Lst[A]) }
codata Cell[A] { get(): A, getter(): Cell[A] }
codata Cel[A] { ge(): A }
def area(s: Shape): i64 { s.case { Sq => 4, Rect => 6 } }
def yes(a: Answer): i64 { a.case { S => 1, N => 0 } }
def main(n: i64): i64 { let o: Opt[i64] = Nope(n); let l: Lst[i64] = Co(n, Nil2); let c: Cel[i64] = new { ge() => n }; let d: Cell[i64] = new { get() => n, getter() => new { get() => 1, getter() => new { get() => 2, getter() => exit 0 } } }; println_i64((area(Sq) + yes(S)) + (o.case[i64] { No => 0, Nope(x) => x })); println_i64((l.case[i64] { Ni => 0, Nil2 => 1, Co(x, xs) => x }) + ((c.ge[i64]()) + (d.getter[i64]().get[i64]()))); 0 }
