data Expr { Num(n: i64), Add(a: Expr, b: Expr), Mul(a: Expr, b: Expr), Neg(a: Expr) }
def eval(e: Expr): i64 {
  e.case { Num(n) => n, Add(a, b) => eval(a) + eval(b), Mul(a, b) => eval(a) * eval(b), Neg(a) => 0 - eval(a) }
}
def main(): i64 { println_i64(eval(Add(Num(2), Mul(Num(3), Neg(Num(4)))))); 0 }
