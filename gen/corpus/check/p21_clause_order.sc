data Color { Red, Green, Blue }
def code(c: Color): i64 { c.case { Blue => 3, Red => 1, Green => 2 } }
def next(c: Color): Color { c.case { Green => Blue, Blue => Red, Red => Green } }
def main(): i64 { println_i64(code(next(next(Red)))); 0 }
