def add3(x: i64, y: i64, z: i64): i64 { (x + y) + z }
def poly(x: i64): i64 { ((x * x) - (3 * x)) + (7 / 2) }
def modl(x: i64, y: i64): i64 { x % y }
def main(): i64 { println_i64(add3(1, 2, poly(modl(17, 5)))); 0 }
