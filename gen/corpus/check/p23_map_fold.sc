data List[A] { Nil, Cons(x: A, xs: List[A]) }
codata Fun[A, B] { apply(x: A): B }
codata Fun2[A, B, C] { apply2(x: A, y: B): C }
def map(f: Fun[i64, i64], l: List[i64]): List[i64] {
  l.case[i64] { Nil => Nil, Cons(x, xs) => Cons(f.apply[i64, i64](x), map(f, xs)) }
}
def foldr(f: Fun2[i64, i64, i64], st: i64, l: List[i64]): i64 {
  l.case[i64] { Nil => st, Cons(y, ys) => f.apply2[i64, i64, i64](y, foldr(f, st, ys)) }
}
def main(): i64 {
  let l: List[i64] = Cons(1, Cons(2, Cons(3, Nil)));
  println_i64(foldr(new { apply2(x, y) => x + y }, 0, map(new { apply(n) => n * n }, l)));
  0
}
