def f(a:cns i64, x: i64): i64 { label a { if x == 0 { goto a (1) } else { 2 } } }
def g(x: i64): i64 { label a { (label a { goto a (x) }) + 1 } }
def h(a: i64): i64 { label a { goto a (5) } }
def main(): i64 { println_i64(((label k { f(k, 0) }) + g(1)) + h(3)); 0 }
