data Tree[A] { Leaf, Node(l: Tree[A], v: A, r: Tree[A]) }
def insert(t: Tree[i64], x: i64): Tree[i64] {
  t.case[i64] {
    Leaf => Node(Leaf, x, Leaf),
    Node(l, v, r) => if x < v { Node(insert(l, x), v, r) } else { Node(l, v, insert(r, x)) }
  }
}
def size(t: Tree[i64]): i64 { t.case[i64] { Node(l, v, r) => (size(l) + 1) + size(r), Leaf => 0 } }
def main(): i64 { println_i64(size(insert(insert(insert(Leaf, 2), 1), 3))); 0 }
