codata Fun[A, B] { apply(x: A): B }
def curry(): Fun[i64, Fun[i64, i64]] { new { apply(x) => new { apply(y) => x - y } } }
def main(): i64 { println_i64(curry().apply[i64, Fun[i64, i64]](9).apply[i64, i64](4)); 0 }
