codata Counter { inc: Counter, val: i64 }
data Cmd { Inc, Show }
def mkc(n: i64): Counter { new { inc => mkc(n + 1), val => n } }
def step(c: Counter, cmd: Cmd): Counter {
  cmd.case {
    Inc => let c2: Counter = c.inc; c2,
    Show => print_i64(c.val); c
  }
}
def main(): i64 { println_i64(step(step(mkc(0), Inc), Show).val); 0 }
