codata LPair[A, B] { fst: A, snd: B }
data Unit { MkUnit }
def mkp(x: i64): LPair[i64, Unit] { new { fst => x, snd => MkUnit } }
def mkq(x: i64): LPair[Unit, i64] { new { snd => x, fst => MkUnit } }
def main(): i64 { println_i64((mkp(3).fst[i64, Unit]) + (mkq(4).snd[Unit, i64])); 0 }
