data List[A] { Nil, Cons(x: A, xs: List[A]) }
def outer(l: List[i64], k:cns i64): i64 { inner(l, k, 0) }
def inner(l: List[i64], k:cns i64, acc: i64): i64 {
  l.case[i64] { Nil => acc, Cons(x, xs) => if x < 0 { goto k (acc) } else { inner(xs, k, acc + x) } }
}
def main(): i64 { println_i64(label top { outer(Cons(1, Cons(-1, Cons(5, Nil))), top) }); 0 }
