// REGRESSION (completeness; FORMERLY REJECTED with T-002 "Cons is undefined", accepted since the repair of
// New::check): the instance List[i64] only arises from the instantiated destructor signature of Gen[i64].
data List[A] { Nil, Cons(x: A, xs: List[A]) }
codata Gen[A] { next(seed: i64): List[A] }
def g(): Gen[i64] { new { next(seed) => Cons(seed, Cons(seed + 1, Nil)) } }
def hd(l: List[i64]): i64 { l.case[i64] { Nil => 0, Cons(x, xs) => x } }
def main(): i64 { println_i64(hd(g().next[i64](7))); 0 }
