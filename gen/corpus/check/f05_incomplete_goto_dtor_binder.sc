// REGRESSION (completeness; FORMERLY REJECTED with T-002 "Nil is undefined", accepted since the repair of
// Goto::check): as f03, the covariable binder comes from a destructor signature (clause of a `new`).
data List[A] { Nil, Cons(x: A, xs: List[A]) }
codata Sink[A] { put(k:cns List[A]): i64 }
def s(): Sink[i64] { new { put(k) => goto k (Nil) } }
def main(): i64 { 0 }
