def show(x: i64): i64 { print_i64(x); print_i64(x + 1); println_i64(x + 2); x }
def main(): i64 { let a: i64 = show(1); println_i64(a); 0 }
