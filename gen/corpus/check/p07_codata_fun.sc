codata Fun[A, B] { apply(x: A): B }
def twice(f: Fun[i64, i64], x: i64): i64 { f.apply[i64, i64](f.apply[i64, i64](x)) }
def adder(n: i64): Fun[i64, i64] { new { apply(x) => x + n } }
def main(): i64 { println_i64(twice(adder(3), 4)); 0 }
