data Unused[A] { MkU(a: A) }
codata AlsoUnused { foo: i64 }
data Empty { }
def main(): i64 { 0 }
