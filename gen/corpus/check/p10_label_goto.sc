def early(x: i64): i64 { label k { if x < 0 { goto k (0) } else { x * 2 } } }
def nested(x: i64): i64 { label a { 1 + (label b { if x == 0 { goto a (10) } else { goto b (20) } }) } }
def main(): i64 { println_i64(early(-1) + nested(0)); 0 }
