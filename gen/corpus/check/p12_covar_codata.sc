codata Fun[A, B] { apply(x: A): B }
def eta1(b:cns Fun[i64, i64]): Fun[i64, i64] {
  let x: Fun[i64, i64] = new { apply(y) => (goto b (new { apply(z) => 1 })).apply[i64, i64](y) };
  new { apply(z) => 3 }
}
def run(): i64 { (label k { eta1(k) }).apply[i64, i64](7) }
def main(): i64 { println_i64(run()); 0 }
