def cmp(x: i64, y: i64): i64 {
  if x == y { 0 } else {
    if x != y { if x < y { 1 } else { if x <= y { 2 } else { if x > y { 3 } else { if x >= y { 4 } else { 5 } } } } } else { 6 } }
}
def zero(x: i64): i64 {
  if x == 0 { 10 } else { if x != 0 { if x < 0 { 11 } else { if x <= 0 { 12 } else { if x > 0 { 13 } else { if x >= 0 { 14 } else { 15 } } } } } else { 16 } }
}
def main(): i64 { print_i64(cmp(1, 2)); println_i64(zero(-3)); 0 }
