def max(a: i64, b: i64): i64 { if a < b { b } else { a } }
def clamp(x: i64): i64 { max(0, if x > 100 { 100 } else { x }) }
def main(): i64 { println_i64(clamp(250) + clamp(-5)); 0 }
