data Pair[A, B] { MkPair(fst: A, snd: B) }
data Bool { True, False }
def swap(p: Pair[i64, Bool]): Pair[Bool, i64] { p.case[i64, Bool] { MkPair(a, b) => MkPair(b, a) } }
def first(p: Pair[i64, i64]): i64 { p.case[i64, i64] { MkPair(a, b) => a } }
def toInt(b: Bool): i64 { b.case { True => 1, False => 0 } }
def main(): i64 {
  let q: Pair[Bool, i64] = swap(MkPair(3, True));
  println_i64(q.case[Bool, i64] { MkPair(b, n) => n + toInt(b) });
  println_i64(first(MkPair(4, 5)));
  0
}
