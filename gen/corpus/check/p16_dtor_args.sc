codata Acc { add(n: i64, m: i64): Acc, get: i64 }
def mk(s: i64): Acc { new { add(n, m) => mk((s + n) + m), get => s } }
def main(): i64 { println_i64(mk(0).add(1, 2).add(3, 4).get); 0 }
