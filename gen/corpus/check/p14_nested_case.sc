data Option[A] { None, Some(v: A) }
data List[A] { Nil, Cons(x: A, xs: List[A]) }
def headOr(l: List[Option[i64]], d: i64): i64 {
  l.case[Option[i64]] {
    Nil => d,
    Cons(o, rest) => o.case[i64] { None => headOr(rest, d), Some(v) => v }
  }
}
def main(): i64 { println_i64(headOr(Cons(None, Cons(Some(4), Nil)), 9)); 0 }
