data Nat { Z, S(p: Nat) }
def toI(n: Nat): i64 { n.case { Z => 0, S(p) => 1 + toI(p) } }
def plus(a: Nat, b: Nat): Nat { a.case { Z => b, S(p) => S(plus(p, b)) } }
def main(): i64 { println_i64(toI(plus(S(S(Z)), S(Z)))); 0 }
