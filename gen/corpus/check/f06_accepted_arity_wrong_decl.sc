// FINDING (checker accepts a program the strict spec WTstrict rejects): the constructor signature mentions `List`
// without its type argument; Data::check only looks at names, the instance D is emitted with the field type `List`,
// for which no declaration exists in the checked program (all later stages carry the undeclared type).
data List[A] { Nil, Cons(x: A, xs: List[A]) }
data D { K(x: List) }
def f(d: D): i64 { d.case { K(x) => 0 } }
def main(): i64 { 0 }
