// REGRESSION (completeness; FORMERLY REJECTED with T-002 "Fun[i64, i64] is undefined", accepted since the repair
// of Goto::check): as f03 with a `new` as argument of goto.
codata Fun[A, B] { apply(x: A): B }
data Cont3[A] { MkCont3(k:cns Fun[A, A]) }
def f(c: Cont3[i64]): i64 { c.case[i64] { MkCont3(k) => goto k (new { apply(x) => x }) } }
def main(): i64 { 0 }
