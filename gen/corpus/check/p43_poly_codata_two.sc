data Bool { True, False }
codata Fun[A, B] { apply(x: A): B }
def not(): Fun[Bool, Bool] { new { apply(b) => b.case { True => False, False => True } } }
def isZero(): Fun[i64, Bool] { new { apply(n) => if n == 0 { True } else { False } } }
def compose(f: Fun[i64, Bool], g: Fun[Bool, Bool]): Fun[i64, Bool] { new { apply(x) => g.apply[Bool, Bool](f.apply[i64, Bool](x)) } }
def main(): i64 { compose(isZero(), not()).apply[i64, Bool](0).case { True => 1, False => 0 } }
