def safeDiv(x: i64, y: i64): i64 { if y == 0 { exit 1 } else { x / y } }
def main(): i64 { println_i64(safeDiv(10, 2)); exit safeDiv(1, 1) - 1 }
