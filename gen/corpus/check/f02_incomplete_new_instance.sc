// REGRESSION (completeness; FORMERLY REJECTED with T-002 "Fun[i64, i64] is undefined", accepted since the
// repair of New::check): the instance only occurs in the destructor signature of Obj.
codata Fun[A, B] { apply(x: A): B }
codata Obj { getf: Fun[i64, i64], self: Obj }
def o(n: i64): Obj { new { getf => new { apply(x) => x + n }, self => o(n + 1) } }
def main(): i64 { println_i64(o(1).self.self.getf.apply[i64, i64](10)); 0 }
