// FINDING (completeness): well-typed, but rejected with T-002 "Fun[i64, i64] is undefined" (New::check needs the
// instance to exist; it only occurs in the destructor signature of Obj). Accepted once some def mentions
// Fun[i64, i64] earlier (p39_codata_in_codata.sc).
codata Fun[A, B] { apply(x: A): B }
codata Obj { getf: Fun[i64, i64], self: Obj }
def o(n: i64): Obj { new { getf => new { apply(x) => x + n }, self => o(n + 1) } }
def main(): i64 { println_i64(o(1).self.self.getf.apply[i64, i64](10)); 0 }
