data Bool { True, False }
codata Stream[A] { head: A, tail: Stream[A] }
def ones(): Stream[i64] { new { tail => ones(), head => 1 } }
def trues(): Stream[Bool] { new { head => True, tail => trues() } }
def b2i(b: Bool): i64 { b.case { False => 0, True => 1 } }
def main(): i64 { println_i64((ones().tail[i64].head[i64]) + b2i(trues().head[Bool])); 0 }
