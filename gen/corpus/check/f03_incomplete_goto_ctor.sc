// REGRESSION (completeness; FORMERLY REJECTED with T-002 "Nil is undefined", accepted since the repair of
// Goto::check): the covariable binder k has type List[i64], which only arises from the instantiated constructor
// signature of Cont2[i64].
data List[A] { Nil, Cons(x: A, xs: List[A]) }
data Cont2[A] { MkCont2(k:cns List[A]) }
def f(c: Cont2[i64]): i64 { c.case[i64] { MkCont2(k) => goto k (Nil) } }
def main(): i64 { 0 }
