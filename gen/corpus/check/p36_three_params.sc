data Triple[A, B, C] { MkT(a: A, b: B, c: C) }
data Unit { U }
def mid(t: Triple[Unit, i64, Unit]): i64 { t.case[Unit, i64, Unit] { MkT(a, b, c) => b } }
def rot(t: Triple[i64, Unit, i64]): Triple[Unit, i64, i64] { t.case[i64, Unit, i64] { MkT(a, b, c) => MkT(b, c, a) } }
def main(): i64 { println_i64(mid(MkT(U, 5, U))); rot(MkT(1, U, 0)).case[Unit, i64, i64] { MkT(a, b, c) => b } }
