data List[A] { Nil, Cons(x: A, xs: List[A]) }
def fail(): List[i64] { exit 3 }
def hd(l: List[i64]): i64 { l.case[i64] { Nil => exit 2, Cons(x, xs) => x } }
def main(): i64 { println_i64(hd(Cons(1, fail()))); 0 }
