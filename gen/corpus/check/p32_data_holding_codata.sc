codata Fun[A, B] { apply(x: A): B }
data List[A] { Nil, Cons(x: A, xs: List[A]) }
def applyAll(fs: List[Fun[i64, i64]], v: i64): i64 {
  fs.case[Fun[i64, i64]] { Nil => v, Cons(f, rest) => applyAll(rest, f.apply[i64, i64](v)) }
}
def main(): i64 {
  println_i64(applyAll(Cons(new { apply(x) => x + 1 }, Cons(new { apply(x) => x * 2 }, Nil)), 5)); 0
}
