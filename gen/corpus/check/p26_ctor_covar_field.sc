data Cont[A] { MkCont(k:cns A) }
def throw(c: Cont[i64], v: i64): i64 { c.case[i64] { MkCont(k) => goto k (v) } }
def main(): i64 { println_i64(label r { throw(MkCont(r), 42) }); 0 }
