def id(id: i64): i64 { id }
def g(g: i64, h: i64): i64 { let g: i64 = id(g); g + h }
def main(): i64 { println_i64(g(1, 2)); 0 }
