data Bool { True, False }
def even(n: i64): Bool { if n == 0 { True } else { odd(n - 1) } }
def odd(n: i64): Bool { if n == 0 { False } else { even(n - 1) } }
def main(): i64 { even(10).case { True => 0, False => 1 } }
