// a variable and a label of the same name in nested scopes: the innermost binding of the NAME decides, whatever its
// chirality, so `a` below is the label and cannot be used as a term (rejected)
def f(n: i64): i64 { let a: i64 = n + 1; label a { a * 2 } }
def main(n: i64): i64 { f(n) }
