data IntList { INil, ICons(hd: i64, tl: IntList) }
def sum(l: IntList): i64 { l.case { INil => 0, ICons(h, t) => h + sum(t) } }
def range(n: i64): IntList { if n <= 0 { INil } else { ICons(n, range(n - 1)) } }
def main(): i64 { println_i64(sum(range(10))); 0 }
