data Either[A, B] { Left(a: A), Right(b: B) }
data Unit { Tt }
def pick(e: Either[i64, Unit]): i64 { e.case[i64, Unit] { Left(a) => a, Right(u) => 0 } }
def flip(e: Either[i64, Unit]): Either[Unit, i64] { e.case[i64, Unit] { Left(a) => Right(a), Right(u) => Left(u) } }
def main(): i64 { println_i64(pick(Left(3))); flip(Right(Tt)).case[Unit, i64] { Left(u) => 0, Right(n) => n } }
