codata Proc { run(x: i64, k:cns i64): i64 }
def p(): Proc { new { run(x, k) => if x == 0 { goto k (1) } else { x } } }
def main(): i64 { println_i64(label out { (p().run(0, out)) + 100 }); 0 }
