def f(x: i64): i64 {
  let x: i64 = x + 1;
  let y: i64 = x * 2;
  let x: i64 = y - x;
  let y: i64 = let x: i64 = 5; x + y;
  x + y
}
def main(): i64 { println_i64(f(3)); 0 }
