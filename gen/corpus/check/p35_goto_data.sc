data Option[A] { None, Some(v: A) }
def find(x: i64): Option[i64] { label r { if x == 0 { goto r (None) } else { Some(x) } } }
def main(): i64 { find(3).case[i64] { None => 1, Some(v) => 0 } }
