data List[A] { Nil, Cons(x: A, xs: List[A]) }
def len(l: List[i64]): i64 { l.case[i64] { Nil => 0, Cons(x, xs) => 1 + len(xs) } }
def lenl(l: List[List[i64]]): i64 { l.case[List[i64]] { Nil => 0, Cons(x, xs) => len(x) + lenl(xs) } }
def main(): i64 {
  let a: List[i64] = Cons(1, Cons(2, Nil));
  let b: List[List[i64]] = Cons(a, Cons(Nil, Nil));
  println_i64(lenl(b)); 0
}
