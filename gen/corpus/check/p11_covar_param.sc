data List[A] { Nil, Cons(x: A, xs: List[A]) }
def fmult(l: List[i64]): i64 { label a { mult(l, a) } }
def mult(l: List[i64], a:cns i64): i64 {
  l.case[i64] { Nil => 1, Cons(x, xs) => if x == 0 { goto a (0) } else { x * mult(xs, a) } }
}
def main(): i64 { println_i64(fmult(Cons(2, Cons(0, Cons(3, Nil))))); 0 }
