data Box[A] { MkBox(v: A) }
def unbox(b: Box[i64]): i64 { (b).case[i64] { MkBox(v) => ((v)) } }
def main(): i64 { println_i64((unbox((MkBox((1 + (2 * 3))))))); 0 }
