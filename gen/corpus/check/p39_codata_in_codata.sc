codata Fun[A, B] { apply(x: A): B }
codata Obj { getf: Fun[i64, i64], self: Obj }
def idf(f: Fun[i64, i64]): Fun[i64, i64] { f }
def o(n: i64): Obj { new { getf => new { apply(x) => x + n }, self => o(n + 1) } }
def main(): i64 { println_i64(idf(o(1).self.self.getf).apply[i64, i64](10)); 0 }
