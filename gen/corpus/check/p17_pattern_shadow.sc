data List[A] { Nil, Cons(x: A, xs: List[A]) }
def f(x: i64, l: List[i64]): i64 {
  l.case[i64] { Nil => x, Cons(x, l) => x + f(x, l) }
}
def main(): i64 { println_i64(f(100, Cons(1, Cons(2, Nil)))); 0 }
