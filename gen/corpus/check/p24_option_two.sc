data Option[A] { None, Some(v: A) }
data Bool { True, False }
def getI(o: Option[i64]): i64 { o.case[i64] { None => 0, Some(v) => v } }
def getB(o: Option[Bool]): Bool { o.case[Bool] { Some(v) => v, None => False } }
def join(o: Option[Option[i64]]): Option[i64] { o.case[Option[i64]] { None => None, Some(i) => i } }
def main(): i64 {
  println_i64(getI(join(Some(Some(5)))));
  getB(Some(True)).case { True => 0, False => 1 }
}
