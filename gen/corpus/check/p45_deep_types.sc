data List[A] { Nil, Cons(x: A, xs: List[A]) }
data Pair[A, B] { MkPair(a: A, b: B) }
def zipHead(p: Pair[List[i64], List[Pair[i64, i64]]]): i64 {
  p.case[List[i64], List[Pair[i64, i64]]] {
    MkPair(l, r) => l.case[i64] {
      Nil => 0,
      Cons(x, xs) => r.case[Pair[i64, i64]] { Nil => x, Cons(q, qs) => q.case[i64, i64] { MkPair(u, v) => (x + u) + v } }
    }
  }
}
def main(): i64 { println_i64(zipHead(MkPair(Cons(1, Nil), Cons(MkPair(2, 3), Nil)))); 0 }
