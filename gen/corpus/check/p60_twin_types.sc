// two pairs of data types with the same number of type parameters, instantiated at the same arguments
data Bool { True, False }
data Nat { Z, S(n: Nat) }
data Option[A] { None, Some(x: A) }
data List[A] { Nil, Cons(x: A, xs: List[A]) }
def not(b: Bool): Bool { b.case { True => False, False => True } }
def two(): Nat { S(S(Z)) }
def toInt(n: Nat): i64 { n.case { Z => 0, S(m) => 1 + toInt(m) } }
def head(l: List[i64]): Option[i64] { l.case[i64] { Nil => None, Cons(x, xs) => Some(x) } }
def tail(l: List[i64]): List[i64] { l.case[i64] { Nil => Nil, Cons(x, xs) => xs } }
def get(o: Option[i64]): i64 { o.case[i64] { None => 0, Some(x) => x } }
def main(a: i64): i64 { let b: Bool = not(True); println_i64(toInt(two()) + get(head(tail(Cons(a, Cons(7, Nil)))))); b.case { True => 1, False => 0 } }
