codata Fun[A, B] { apply(x: A): B }
def guard(): Fun[i64, i64] { new { apply(x) => label k { if x < 0 { goto k (0) } else { x } } } }
def main(): i64 { println_i64(guard().apply[i64, i64](-5)); 0 }
