codata Stream[A] { head: A, tail: Stream[A] }
def from(n: i64): Stream[i64] { new { head => n, tail => from(n + 1) } }
def nth(s: Stream[i64], n: i64): i64 { if n == 0 { s.head[i64] } else { nth(s.tail[i64], n - 1) } }
def main(): i64 { println_i64(nth(from(5), 3)); 0 }
