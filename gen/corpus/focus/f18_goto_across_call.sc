// a covariable passed to a call, goto from the callee's argument
data List[A] { Nil, Cons(x: A, xs: List[A]) }
def mult2(l: List[i64], a: cns i64): i64 { l.case[i64] { Nil => 1, Cons(x, xs) => if x == 0 { goto a ((println_i64(7); 0)) } else { (println_i64(x); x) * mult2(xs, a) } } }
def mult(l: List[i64]): i64 { label a { mult2(l, a) } }
def main(): i64 { println_i64(mult(Cons(2, Cons(3, Cons(0, Cons(4, Nil)))))); println_i64(mult(Cons(2, Cons(3, Nil)))); 0 }
