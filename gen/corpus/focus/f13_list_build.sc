data List[A] { Nil, Cons(x: A, xs: List[A]) }
def p(x: i64): i64 { println_i64(x); x }
def sum(l: List[i64]): i64 { l.case[i64] { Nil => 0, Cons(x, xs) => x + sum(xs) } }
def main(): i64 { println_i64(sum(Cons(p(1), Cons(p(2), Cons(p(3), Nil))))); 0 }
