// effectful operands of operators, nested
def main(): i64 { println_i64(((println_i64(1); 10) - (println_i64(2); 3)) * ((println_i64(3); 2) + (println_i64(4); 5))); 0 }
