// the same names bound repeatedly: let, case patterns, parameters
data List[A] { Nil, Cons(x: A, xs: List[A]) }
def f(x: i64, l: List[i64]): i64 { let x: i64 = x + 1; l.case[i64] { Nil => x, Cons(x, l) => let x: i64 = x * 2; x + f(x, l) } }
def main(): i64 { println_i64(f(1, Cons(10, Cons(20, Nil)))); 0 }
