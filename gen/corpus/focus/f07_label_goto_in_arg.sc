// label / goto in argument position
def add(x: i64, y: i64): i64 { x + y }
def main(): i64 { println_i64(label a { add((println_i64(1); 1), goto a ((println_i64(2); 7))) }); println_i64(add(label b { 3 }, label c { goto c (4) })); 0 }
