// cocase in argument position, closure over an effectfully computed variable
codata Fun[A, B] { apply(x: A): B }
def p(x: i64): i64 { println_i64(x); x }
def app2(f: Fun[i64, i64], g: Fun[i64, i64], v: i64): i64 { f.apply[i64, i64](g.apply[i64, i64](v)) }
def main(): i64 { let k: i64 = p(3); println_i64(app2(new { apply(x) => p(x) * k }, new { apply(y) => p(y) + k }, p(4))); 0 }
