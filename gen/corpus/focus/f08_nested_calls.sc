// nested calls as arguments (innermost first, left to right)
def p(x: i64): i64 { println_i64(x); x }
def add3(x: i64, y: i64, z: i64): i64 { ((x * 100) + (y * 10)) + z }
def main(): i64 { println_i64(add3(p(1), add3(p(2), p(3), p(4)), p(5))); 0 }
