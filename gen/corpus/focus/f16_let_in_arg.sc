// let (mu~) nested in argument position
def sub(x: i64, y: i64): i64 { x - y }
def main(): i64 { println_i64(sub((let a: i64 = (println_i64(1); 5); a * a), (let b: i64 = (println_i64(2); 6); b + 1))); 0 }
