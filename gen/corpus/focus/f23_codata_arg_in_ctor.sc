// codata-typed constructor argument with an effect
codata Fun[A, B] { apply(x: A): B }
data Box[A] { B(f: A) }
def mk(k: i64): Fun[i64, i64] { println_i64(k); new { apply(x) => x + k } }
def use(b: Box[Fun[i64, i64]]): i64 { b.case[Fun[i64, i64]] { B(f) => (f.apply[i64, i64](1)) + (f.apply[i64, i64](2)) } }
def main(): i64 { println_i64(use(B(mk(10)))); 0 }
