// two effectful arguments of a constructor
data Pair[A, B] { Tup(x: A, y: B) }
def diff(p: Pair[i64, i64]): i64 { p.case[i64, i64] { Tup(a, b) => a - b } }
def main(): i64 { println_i64(diff(Tup((println_i64(1); 10), (println_i64(2); 3)))); 0 }
