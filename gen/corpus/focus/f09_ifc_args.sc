// effectful operands of a comparison
def p(x: i64): i64 { println_i64(x); x }
def main(): i64 { if p(1) < p(2) { println_i64(p(3) + p(4)); 0 } else { println_i64(0); 1 } }
