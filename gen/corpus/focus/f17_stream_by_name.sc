// codata producer re-entered at each destructor call
codata Stream[A] { head : A, tail : Stream[A] }
def from(n: i64): Stream[i64] { println_i64(n); new { head => n, tail => from(n + 1) } }
def third(s: Stream[i64]): i64 { s.tail[i64].tail[i64].head[i64] }
def main(): i64 { println_i64(third(from(1))); 0 }
