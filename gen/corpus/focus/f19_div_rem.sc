def p(x: i64): i64 { println_i64(x); x }
def main(n: i64): i64 { println_i64((p(17) / p(5)) + (p(0 - 17) % p(5))); println_i64(p(1) / p(n)); 0 }
