// a codata-typed argument with an effect: evaluated by name (at every destructor call)
codata LazyPair[A, B] { fst : A, snd : B }
def mkp(k: i64): LazyPair[i64, i64] { println_i64(k); new { fst => k, snd => k + 1 } }
def twice(p: LazyPair[i64, i64]): i64 { ((p.fst[i64, i64]) + (p.snd[i64, i64])) + (p.fst[i64, i64]) }
def main(): i64 { println_i64(twice(mkp(5))); 0 }
