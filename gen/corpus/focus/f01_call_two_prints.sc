// two effectful arguments of a call: order of the prints is observable
def sub(x: i64, y: i64): i64 { x - y }
def main(): i64 { println_i64(sub((println_i64(1); 10), (println_i64(2); 3))); 0 }
