// effectful arguments of a destructor; scrutinee is a call
codata Fun2[A, B, C] { apply2(x: A, y: B): C }
def mk(k: i64): Fun2[i64, i64, i64] { print_i64(k); new { apply2(x, y) => (x - y) * k } }
def main(): i64 { println_i64(mk(7).apply2[i64, i64, i64]((println_i64(1); 10), (println_i64(2); 3))); 0 }
