// the argument of exit has an effect
def p(x: i64): i64 { println_i64(x); x }
def main(): i64 { println_i64(1); exit (p(2) + p(3)) }
