def p(x: i64): i64 { println_i64(x); x }
def main(n: i64): i64 { if p(n) == 0 { println_i64(10); 0 } else { if (p(n) - 1) != 0 { println_i64(20); 0 } else { println_i64(30); 0 } } }
