// a label with the name of a variable in scope
def main(x: i64): i64 { println_i64(label x { 1 + (goto x (5)) }); 0 }
