def main(): i64 { println_i64((print_i64(1); (println_i64(2); 3))); print_i64((println_i64(4); 5) + 1); 0 }
