// exit inside the second argument: the first print happens, the call does not
def add(x: i64, y: i64): i64 { println_i64(99); x + y }
def main(): i64 { println_i64(add((println_i64(1); 1), (println_i64(2); exit 42))); 0 }
