// a case expression (mu) in argument position, with effects in the scrutinee and the clauses
data List[A] { Nil, Cons(x: A, xs: List[A]) }
def p(x: i64): i64 { println_i64(x); x }
def sub(x: i64, y: i64): i64 { x - y }
def main(): i64 { println_i64(sub(Cons(p(1), Nil).case[i64] { Nil => p(2), Cons(x, xs) => p(x + 10) }, Nil.case[i64] { Nil => p(3), Cons(y, ys) => p(y) })); 0 }
