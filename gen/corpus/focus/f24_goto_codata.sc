// paper section 5.6: goto at codata type in a let
codata Fun[A, B] { apply(x: A) : B }
def criticalEta2(b: cns Fun[i64, i64]) : Fun[i64, i64] { let x : Fun[i64, i64] = goto b (new { apply(z) => (println_i64(1); 1) }); new { apply(z) => 3 } }
def main(): i64 { println_i64((label b { criticalEta2(b) }).apply[i64, i64]((println_i64(0); 0))); 0 }
