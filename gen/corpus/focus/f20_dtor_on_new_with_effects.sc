// destructor applied to a cocase directly, effects in its argument and in the clause
codata Fun[A, B] { apply(x: A): B }
def main(): i64 { println_i64(new { apply(x) => (println_i64(x); x * x) }.apply[i64, i64]((println_i64(1); 6))); 0 }
