// nested critical pairs: a lifted statement that itself contains a lifted statement
data List[A] { Nil, Cons(x: A, xs: List[A]) }
data Tri { A1, B1(n: i64), C1(n: i64, m: i64) }
def mkL(n: i64) : List[i64] { if n == 0 { Nil } else { Cons(n, mkL(n - 1)) } }
def mkT(n: i64) : Tri { if n == 0 { A1 } else { C1(n, n) } }
def len(l: List[i64]) : i64 { l.case[i64] { Nil => 0, Cons(x, xs) => 1 + len(xs) } }
def useT(t: Tri, k: i64) : i64 { t.case { A1 => k, B1(n) => n + k, C1(n, m) => (n + m) + k } }
def nest(n: i64, k: i64) : i64 {
  let l : List[i64] = mkL(n);
  let t : Tri = mkT(k);
  let m : List[i64] = mkL(k);
  println_i64(len(l)); println_i64(useT(t, k)); (len(m) + len(l)) + useT(t, n) }
def main(n: i64) : i64 { println_i64(nest(n, 2)); 0 }
