// nested conditionals in argument position; zero comparisons; prints without newline
data Tri { A1, B1(n: i64), C1(n: i64, m: i64) }
def g(a: i64, b: i64, c: i64) : i64 { ((a * 100) + (b * 10)) + c }
def h(n: i64) : i64 { g(if n == 0 { 1 } else { 2 }, if n < 5 { if n != 3 { 3 } else { 4 } } else { 5 }, if n >= 2 { 6 } else { if n <= 0 { 7 } else { 8 } }) }
def t(n: i64) : Tri { if n > 1 { C1(if n == 2 { 1 } else { 2 }, n) } else { B1(n) } }
def main(n: i64) : i64 { print_i64(h(n)); println_i64(t(n).case { A1 => 0, B1(x) => x, C1(x, y) => x + y }); 0 }
