// variable against covariable at i64; integer continuations passed on
def ret(x: i64) : i64 { x }
def jump(x: i64, a: cns i64) : i64 { goto a (x) }
def pass(x: i64, a: cns i64) : i64 { jump(x, a) }
def main(n: i64) : i64 { println_i64(ret(n)); println_i64(label a { pass(n, a) + 100 }); 0 }
