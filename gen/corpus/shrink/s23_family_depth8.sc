// scalable family (depth 8): sequenced lets of calls at a three-constructor data type and at a
// two-destructor codata type; every continuation is a non-leaf statement, so each is lifted once
data Tri { A1, B1(n: i64), C1(n: i64, m: i64) }
codata Stream[A] { head : A, tail : Stream[A] }
def mk(n: i64) : Tri { if n == 0 { A1 } else { if n == 1 { B1(n) } else { C1(n, n) } } }
def mkS(k: i64) : Stream[i64] { new { head => k, tail => mkS(k + 1) } }
def use(t: Tri, k: i64) : i64 { t.case { A1 => k, B1(n) => n + k, C1(n, m) => (n + m) + k } }
def fam(n: i64) : i64 {
  let t1 : Tri = mk(n + 1);
  let s2 : Stream[i64] = (if n == 2 { mkS(2) } else { mkS(n) });
  let t3 : Tri = mk(n + 3);
  let s4 : Stream[i64] = (if n == 4 { mkS(4) } else { mkS(n) });
  let t5 : Tri = mk(n + 5);
  let s6 : Stream[i64] = (if n == 6 { mkS(6) } else { mkS(n) });
  let t7 : Tri = mk(n + 7);
  let s8 : Stream[i64] = (if n == 8 { mkS(8) } else { mkS(n) });
  println_i64(n);
  ((((((((n) + use(t1, n)) + (s2.head[i64])) + use(t3, n)) + (s4.head[i64])) + use(t5, n)) + (s6.head[i64])) + use(t7, n)) + (s8.head[i64]) }
def main(n: i64) : i64 { println_i64(fam(n)); 0 }
