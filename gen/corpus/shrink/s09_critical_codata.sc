// critical pairs at codata types with 1, 2, 3 destructors; the producer side is expanded
codata Fun[A, B] { apply(x: A) : B }
codata Stream[A] { head : A, tail : Stream[A] }
codata Three { one : i64, two(x: i64) : i64, three(x: i64, y: i64) : i64 }
def mkF(k: i64) : Fun[i64, i64] { new { apply(x) => x + k } }
def mkS(k: i64) : Stream[i64] { new { head => k, tail => mkS(k + 1) } }
def mkT(k: i64) : Three { new { one => k, two(x) => x + k, three(x, y) => (x + y) + k } }
def cF(n: i64) : i64 { let f : Fun[i64, i64] = mkF(n); (f.apply[i64, i64](1)) + (f.apply[i64, i64](2)) }
def cS(n: i64) : i64 { let s : Stream[i64] = mkS(n); (s.head[i64]) + (s.tail[i64].head[i64]) }
def cT(n: i64) : i64 { let t : Three = mkT(n); ((t.one) + (t.two(1))) + (t.three(1, 2)) }
def cS2(n: i64) : i64 { let s : Stream[i64] = (if n == 0 { mkS(1) } else { mkS(n).tail[i64] }); s.head[i64] }
def cT2(n: i64) : i64 { let t : Three = (if n == 0 { mkT(1) } else { println_i64(n); mkT(n) }); t.two(5) }
def main(n: i64) : i64 { println_i64(cF(n)); println_i64(cS(n)); println_i64(cT(n)); println_i64(cS2(n)); println_i64(cT2(n)); 0 }
