// types with five and six xtors; critical pairs and unknown cuts on them
data Five { F0, F1(a: i64), F2(a: i64, b: i64), F3(a: i64, b: i64, c: i64), F4(a: Five) }
codata Six { s0 : i64, s1(a: i64) : i64, s2(a: i64, b: i64) : i64, s3 : Six, s4(a: Five) : i64, s5(k: cns i64) : i64 }
def mk5(n: i64) : Five { if n == 0 { F0 } else { if n == 1 { F1(n) } else { if n == 2 { F2(n, n) } else { if n == 3 { F3(n, n, n) } else { F4(mk5(n - 4)) } } } } }
def sum5(f: Five) : i64 { f.case { F0 => 0, F1(a) => a, F2(a, b) => a + b, F3(a, b, c) => (a + b) + c, F4(g) => 1 + sum5(g) } }
def mk6(z: i64) : Six { new { s0 => z, s1(a) => a + z, s2(a, b) => (a + b) + z, s3 => mk6(z + 1), s4(f) => sum5(f) + z, s5(k) => goto k (z) } }
def id5(f: Five) : Five { f }
def id6(s: Six) : Six { s }
def c5(n: i64) : i64 { let f : Five = mk5(n); println_i64(n); sum5(f) + sum5(id5(f)) }
def c6(n: i64) : i64 { let s : Six = (if n == 0 { mk6(0) } else { println_i64(n); mk6(n) }); ((((s.s0) + (s.s1(1))) + (id6(s).s3.s2(1, 2))) + (s.s4(mk5(n)))) + (label k { s.s5(k) }) }
def main(n: i64) : i64 { println_i64(c5(n)); println_i64(c6(n)); 0 }
