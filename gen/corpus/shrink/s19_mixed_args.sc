// constructors and destructors with producer and consumer arguments of data, codata and integer type
data List[A] { Nil, Cons(x: A, xs: List[A]) }
codata Fun[A, B] { apply(x: A) : B }
data Mix { M0, M1(f: Fun[i64, i64], l: List[i64], k: cns i64, j: cns List[i64], n: i64) }
codata Obj { get(f: Fun[i64, i64], l: List[i64], k: cns i64) : i64, id : Obj }
def idM(m: Mix) : Mix { m }
def idO(o: Obj) : Obj { o }
def useM(m: Mix) : i64 { m.case { M0 => 0, M1(f, l, k, j, n) => goto k (f.apply[i64, i64](n)) } }
def mkO(z: i64) : Obj { new { get(f, l, k) => f.apply[i64, i64](z), id => mkO(z + 1) } }
def len(l: List[i64]) : i64 { l.case[i64] { Nil => 0, Cons(x, xs) => 1 + len(xs) } }
def main(n: i64) : i64 {
  println_i64(label k { len(label j { Cons(useM(idM(M1(new { apply(x) => x + 1 }, Nil, k, j, n))), Nil) }) });
  println_i64(label k { idO(mkO(n)).id.get(new { apply(x) => x * 2 }, Nil, k) });
  let m : Mix = idM(M0); let o : Obj = idO(mkO(1)); println_i64(useM(m)); println_i64(label k { o.get(new { apply(x) => x }, Nil, k) }); 0 }
