// exit statements as leaves of critical pairs and clauses
data List[A] { Nil, Cons(x: A, xs: List[A]) }
data Tri { A1, B1(n: i64), C1(n: i64, m: i64) }
def mkT(n: i64) : Tri { if n == 0 { A1 } else { C1(n, n) } }
def e1(n: i64) : i64 { let t : Tri = mkT(n); exit n }
def e2(l: List[i64]) : i64 { l.case[i64] { Nil => exit 3, Cons(x, xs) => x } }
def e3(n: i64) : i64 { let x : i64 = (if n == 0 { exit 4 } else { n }); x + 1 }
def main(n: i64) : i64 { println_i64(e2(Cons(n, Nil))); println_i64(e3(n)); println_i64(e1(n)); 0 }
