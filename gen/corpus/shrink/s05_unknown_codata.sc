// variable against covariable at codata types with 1, 2 and 3 destructors
codata Fun[A, B] { apply(x: A) : B }
codata Stream[A] { head : A, tail : Stream[A] }
codata Three { one : i64, two(x: i64) : i64, three(x: i64, y: i64) : i64 }
def idF(f: Fun[i64, i64]) : Fun[i64, i64] { f }
def idS(s: Stream[i64]) : Stream[i64] { s }
def idT(t: Three) : Three { t }
def ones() : Stream[i64] { new { head => 1, tail => ones() } }
def jumpF(f: Fun[i64, i64], a: cns Fun[i64, i64]) : Fun[i64, i64] { goto a (f) }
def main() : i64 {
  println_i64(idF(new { apply(x) => x + 1 }).apply[i64, i64](1));
  println_i64(idS(ones()).tail[i64].head[i64]);
  println_i64(idT(new { one => 1, two(x) => x, three(x, y) => y }).three(1, 7));
  println_i64((label a { jumpF(new { apply(x) => x * 2 }, a) }).apply[i64, i64](21));
  0 }
