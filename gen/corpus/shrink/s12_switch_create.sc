// Switch (var/case, cocase/covar) and Create (mu/case, cocase/mu~)
data List[A] { Nil, Cons(x: A, xs: List[A]) }
data Tri { A1, B1(n: i64), C1(n: i64, m: i64) }
codata Stream[A] { head : A, tail : Stream[A] }
codata Fun[A, B] { apply(x: A) : B }
def mkL(n: i64) : List[i64] { if n == 0 { Nil } else { Cons(n, mkL(n - 1)) } }
def mkT(n: i64) : Tri { if n == 0 { A1 } else { C1(n, n) } }
def sw(l: List[i64]) : i64 { l.case[i64] { Nil => 0, Cons(x, xs) => x } }
def cr1(n: i64) : i64 { mkL(n).case[i64] { Nil => 0, Cons(x, xs) => x + n } }
def cr2(n: i64) : i64 { mkT(n).case { A1 => n, B1(a) => a, C1(a, b) => (a + b) + n } }
def cc(n: i64) : Stream[i64] { new { head => n, tail => cc(n + 1) } }
def cr3(n: i64) : i64 { let s : Stream[i64] = new { head => n, tail => cc(n) }; s.tail[i64].head[i64] }
def cr4(n: i64) : i64 { let f : Fun[i64, i64] = new { apply(x) => x + n }; (f.apply[i64, i64](1)) + (f.apply[i64, i64](2)) }
def main(n: i64) : i64 { println_i64(sw(mkL(n))); println_i64(cr1(n)); println_i64(cr2(n)); println_i64(cr3(n)); println_i64(cr4(n)); 0 }
