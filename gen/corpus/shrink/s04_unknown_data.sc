// variable against covariable at data types with 1, 2, 3 and 4 constructors
data Unit { U }
data Box { B(n: i64) }
data List[A] { Nil, Cons(x: A, xs: List[A]) }
data Tri { A1, B1(n: i64), C1(n: i64, m: i64) }
data Quad { Q0, Q1(n: i64), Q2(l: List[i64]), Q3(a: i64, b: Tri, c: i64) }
def idU(u: Unit) : Unit { u }
def idB(b: Box) : Box { b }
def idL(l: List[i64]) : List[i64] { l }
def idT(t: Tri) : Tri { t }
def idQ(q: Quad) : Quad { q }
def jumpL(l: List[i64], a: cns List[i64]) : List[i64] { goto a (l) }
def main() : i64 {
  println_i64(idB(B(3)).case { B(n) => n });
  println_i64(idL(Cons(1, Nil)).case[i64] { Nil => 0, Cons(x, xs) => x });
  println_i64(idT(B1(5)).case { A1 => 0, B1(n) => n, C1(n, m) => m });
  println_i64(idQ(Q3(1, A1, 2)).case { Q0 => 0, Q1(n) => n, Q2(l) => 2, Q3(a, b, c) => a + c });
  println_i64(idU(U).case { U => 9 });
  println_i64((label a { jumpL(Nil, a) }).case[i64] { Nil => 11, Cons(x, xs) => x });
  0 }
