// Let (ctor/mu~, mu/dtor) and Invoke (ctor/covar, var/dtor)
data List[A] { Nil, Cons(x: A, xs: List[A]) }
codata Stream[A] { head : A, tail : Stream[A] }
codata Fun[A, B] { apply(x: A) : B }
def nil() : List[i64] { Nil }
def one(x: i64) : List[i64] { Cons(x, Nil) }
def ones() : Stream[i64] { new { head => 1, tail => ones() } }
def hd(s: Stream[i64]) : i64 { s.head[i64] }
def tl(s: Stream[i64]) : Stream[i64] { s.tail[i64] }
def hd2() : i64 { ones().tail[i64].head[i64] }
def app(f: Fun[i64, i64], x: i64) : i64 { f.apply[i64, i64](x) }
def app2(x: i64) : i64 { (if x == 0 { new { apply(y) => y } } else { new { apply(y) => y + x } }).apply[i64, i64](x) }
def main(n: i64) : i64 { println_i64(hd(tl(ones()))); println_i64(hd2()); println_i64(app(new { apply(x) => x + n }, 3)); println_i64(app2(n)); 0 }
