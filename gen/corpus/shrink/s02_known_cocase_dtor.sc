// known cocase against a destructor
codata Fun[A, B] { apply(x: A) : B }
codata LazyPair[A, B] { fst : A, snd : B }
codata Three { one : i64, two(x: i64) : i64, three(x: i64, y: i64) : i64 }
def d1() : i64 { new { apply(x) => x * x }.apply[i64, i64](2) }
def d2() : i64 { new { fst => 1, snd => 2 }.snd[i64, i64] }
def d3() : i64 { new { one => 1, two(x) => x + 2, three(x, y) => x + y }.three(4, 5) }
def d4(z: i64) : i64 { new { one => z, two(x) => x + z, three(x, y) => (x + y) + z }.two(z) }
def main() : i64 { println_i64(d1()); println_i64(d2()); println_i64(d3()); println_i64(d4(10)); 0 }
