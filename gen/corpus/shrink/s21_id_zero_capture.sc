// clause binders that reuse names of outer variables; substitution is by id
data List[A] { Nil, Cons(x: A, xs: List[A]) }
data Pair[A, B] { Tup(x: A, y: B) }
def f(x: i64, l: List[i64]) : i64 { let y : i64 = l.case[i64] { Nil => 0, Cons(x, xs) => x }; y + x }
def g(x: i64, y: i64) : i64 { Tup(y, x).case[i64, i64] { Tup(x, y) => x - y } }
def k(x: i64) : i64 { Cons(x, Nil).case[i64] { Nil => x, Cons(y, x) => y } }
def main(n: i64) : i64 { println_i64(f(100, Cons(n, Nil))); println_i64(g(n, 1)); println_i64(k(n)); 0 }
