// critical pairs at i64: mu against mu-tilde
def f(x: i64) : i64 { x + 1 }
def c1(n: i64) : i64 { let x : i64 = f(n); x * x }
def c2(n: i64) : i64 { let x : i64 = (if n == 0 { 1 } else { f(n) }); x + n }
def c3(n: i64) : i64 { let x : i64 = label a { if n < 3 { goto a (5) } else { n } }; x - 1 }
def c4(n: i64) : i64 { f(f(n)) + f(n) }
def main(n: i64) : i64 { println_i64(c1(n)); println_i64(c2(n)); println_i64(c3(n)); println_i64(c4(n)); 0 }
