// renaming: variable against mu~ and mu against covariable, at i64, data and codata
data List[A] { Nil, Cons(x: A, xs: List[A]) }
codata Stream[A] { head : A, tail : Stream[A] }
def r1(x: i64) : i64 { let y : i64 = x; y + y }
def r2(l: List[i64]) : i64 { let m : List[i64] = l; m.case[i64] { Nil => 0, Cons(x, xs) => x } }
def r3(s: Stream[i64]) : i64 { let t : Stream[i64] = s; t.head[i64] }
def r4(x: i64, a: cns i64) : i64 { label b { goto a (x) } }
def r5(x: i64) : i64 { label b { x + 1 } }
def r6(l: List[i64], a: cns List[i64]) : List[i64] { label b { goto b (goto a (l)) } }
def r7(s: Stream[i64], a: cns Stream[i64]) : Stream[i64] { label b { goto a (s) } }
def ones() : Stream[i64] { new { head => 1, tail => ones() } }
def main(n: i64) : i64 { println_i64(r1(n)); println_i64(r2(Cons(n, Nil))); println_i64(r3(ones())); println_i64(label a { r4(n, a) }); println_i64(r5(n)); 0 }
