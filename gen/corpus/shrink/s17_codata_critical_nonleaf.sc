// critical pairs at codata where the expanded (producer) side is a non-leaf statement
codata Stream[A] { head : A, tail : Stream[A] }
codata Three { one : i64, two(x: i64) : i64, three(x: i64, y: i64) : i64 }
codata Fun[A, B] { apply(x: A) : B }
def mkS(k: i64) : Stream[i64] { new { head => k, tail => mkS(k + 1) } }
def mkT(k: i64) : Three { new { one => k, two(x) => x + k, three(x, y) => (x + y) + k } }
def pick(n: i64) : Stream[i64] { if n == 0 { mkS(0) } else { mkS(n).tail[i64] } }
def c1(n: i64) : i64 { let s : Stream[i64] = (if n == 0 { mkS(0) } else { println_i64(n); mkS(n) }); (s.head[i64]) + (s.tail[i64].head[i64]) }
def c2(n: i64) : i64 { let t : Three = (if n < 2 { mkT(0) } else { if n < 4 { mkT(1) } else { mkT(n) } }); t.three(t.one, t.two(n)) }
def c3(n: i64) : i64 { let f : Fun[i64, i64] = (if n == 0 { new { apply(x) => x } } else { new { apply(x) => x + n } }); f.apply[i64, i64](n) }
def c4(n: i64) : i64 { let s : Stream[i64] = label a { if n == 0 { goto a (mkS(5)) } else { mkS(n) } }; s.head[i64] }
def main(n: i64) : i64 { println_i64(c1(n)); println_i64(c2(n)); println_i64(c3(n)); println_i64(c4(n)); 0 }
