// sequenced matches / conditionals whose results are bound: growth test for sharing
data Bool { True, False }
data Tri { A1, B1(n: i64), C1(n: i64, m: i64) }
def not(b: Bool) : Bool { b.case { True => False, False => True } }
def isZ(n: i64) : Bool { if n == 0 { True } else { False } }
def toT(n: i64) : Tri { if n == 0 { A1 } else { if n == 1 { B1(n) } else { C1(n, n) } } }
def seq(n: i64) : i64 {
  let a : Bool = not(isZ(n));
  let b : Bool = a.case { True => isZ(n - 1), False => True };
  let c : Tri = b.case { True => toT(n), False => toT(0) };
  let d : Tri = c.case { A1 => toT(1), B1(x) => toT(x + 1), C1(x, y) => toT(x - y) };
  d.case { A1 => 0, B1(x) => x, C1(x, y) => x + y } }
def main(n: i64) : i64 { println_i64(seq(n)); 0 }
