#!/usr/bin/env python3
# for every lifted definition of the S4 dump: compare parameter ids with the free variable ids of the body
import subprocess, sys, re, os

H='/verif/harness/target/debug/scc-harness'
def parse(s):
    i=0; n=len(s)
    def rd():
        nonlocal i
        while s[i].isspace(): i+=1
        if s[i]=='(':
            i+=1; l=[]
            while True:
                while s[i].isspace(): i+=1
                if s[i]==')': i+=1; return l
                l.append(rd())
        if s[i]=='"':
            j=i+1; out=''
            while s[j]!='"':
                if s[j]=='\\': j+=1
                out+=s[j]; j+=1
            i=j+1; return '"'+out
        j=i
        while j<n and not s[j].isspace() and s[j] not in '()': j+=1
        t=s[i:j]; i=j; return t
    return rd()
def vid(x): return int(x[2])
def ctxids(c): return [vid(b[1]) for b in c[1:]]
def fv(s):
    h=s[0]
    if h=='call': return set(ctxids(s[2]))
    if h=='let': return set(ctxids(s[4])) | (fv(s[5])-{vid(s[1])})
    if h=='switch':
        r={vid(s[1])}
        for c in s[3][1:]: r|= fv(c[3])-set(ctxids(c[2]))
        return r
    if h=='create':
        r=fv(s[5])-{vid(s[1])}
        for c in s[4][1:]: r|= fv(c[3])-set(ctxids(c[2]))
        return r
    if h=='invoke': return {vid(s[1])}|set(ctxids(s[4]))
    if h=='lit': return fv(s[3])-{vid(s[1])}
    if h=='op': return {vid(s[2]),vid(s[4])}|(fv(s[5])-{vid(s[1])})
    if h=='print': return {vid(s[2])}|fv(s[3])
    if h=='ifc': return {vid(s[2])}|({vid(s[3])} if s[3]!='none' else set())|fv(s[4])|fv(s[5])
    if h=='exit': return {vid(s[1])}
    raise Exception(h)
tot=exact=0
for f in sys.argv[1:]:
    r=subprocess.run([H],input=f"stages {f} 4\n",capture_output=True,text=True)
    s4=[l for l in r.stdout.splitlines() if l.startswith('S4 OK ')]
    if not s4: continue
    t=parse(s4[0][6:])
    for d in t[3][1:]:
        name=d[1][1]
        if not name.startswith('"lift_'): continue
        ps=ctxids(d[2]); f_=fv(d[3]); tot+=1
        assert len(ps)==len(set(ps)), "duplicate params"
        if set(ps)==f_: exact+=1
        elif f_<=set(ps): print("SUPERSET", os.path.basename(f), name, d[1][2], "extra params:", sorted(set(ps)-f_))
        else: print("MISSING", os.path.basename(f), name, d[1][2], sorted(f_-set(ps)))
print(f"lifted defs: {tot}, params == free vars of the AxCut body: {exact}")
