#!/usr/bin/env python3
# runs wtFsCheck on S3 and wtAxCheck on S4 (harness output) of every given file
import subprocess, sys, os, re, tempfile
H='/verif/harness/target/debug/scc-harness'
M=os.environ.get('M3TEST','/verif/lean/.lake/build/bin/m3test')
def stages(f, upto=4):
    r=subprocess.run([H],input=f"stages {f} {upto}\n",capture_output=True,text=True)
    d={}
    for line in r.stdout.splitlines():
        if line=='END': break
        m=re.match(r'(S\w+) (OK|DIAG|PANIC) ?(.*)',line)
        if m: d[m.group(1)]=(m.group(2),m.group(3))
    return d
def run(mode,text):
    with tempfile.NamedTemporaryFile('w',suffix='.sexp',delete=False) as t:
        t.write(text); tn=t.name
    r=subprocess.run([M,mode,tn],capture_output=True,text=True)
    os.unlink(tn); return r.stdout.strip()
n=0
for f in sys.argv[1:]:
    d=stages(f)
    if d.get('S3',('',))[0]!='OK': continue
    a=run('wtfs',d['S3'][1])+' '+run('wtfs2',d['S3'][1]); b=run('wtax',d['S4'][1]); n+=1
    print(os.path.basename(f),'S3:',a,'S4:',b)
print(n,"programs")
