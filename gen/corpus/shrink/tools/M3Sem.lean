import Scc.Core2AxCut.Model
import Scc.AxCut.SemNamed
import Scc.Core.Sem
open Scc

/-- usage: m3sem <S3 dump file> "<args>" <fuel>: Core machine on S3 vs named AxCut machine on the model's S4 -/
def main (args : List String) : IO Unit := do
  match args with
  | [file, a, fuel] => do
    let text := (← IO.FS.readFile file).trimAscii.toString
    match (Sexp.parse text).bind (Core.readFsProg (text.length + 10)), AxCut.Named.parseArgs a with
    | some p, some vs =>
      let c := Core.fsRun p vs fuel.toNat!
      match Core2AxCut.shrinkProg p with
      | .error e => IO.println s!"SHRINK-FAIL {e}"
      | .ok q =>
        let x := AxCut.Named.run q vs fuel.toNat!
        let cs := c.render
        let xs := "OK " ++ x.render
        -- stuck reasons are named differently by the two machines except divByZero / overflow
        let norm (s : String) : String :=
          match s.splitOn " res=stuck " with
          | [pre, why] => if why == "divByZero" || why == "overflow" then s else pre ++ " res=stuck other"
          | _ => s
        if norm cs == norm xs then IO.println s!"SEM-AGREE {cs}" else IO.println s!"SEM-DIFF core: {cs} || axcut: {xs}"
    | _, _ => IO.println "ERR input"
  | _ => IO.println "usage"
