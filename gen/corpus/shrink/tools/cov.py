#!/usr/bin/env python3
# coverage of cut shapes in the S3 dumps of the given .sc files
import subprocess, sys, re, collections
H='/verif/harness/target/debug/scc-harness'
def parse(s):
    i=0; n=len(s)
    def rd():
        nonlocal i
        while s[i].isspace(): i+=1
        if s[i]=='(':
            i+=1; l=[]
            while True:
                while s[i].isspace(): i+=1
                if s[i]==')': i+=1; return l
                l.append(rd())
        if s[i]=='"':
            j=i+1; out=''
            while s[j]!='"':
                if s[j]=='\\': j+=1
                out+=s[j]; j+=1
            i=j+1; return '"'+out
        j=i
        while j<n and not s[j].isspace() and s[j] not in '()': j+=1
        t=s[i:j]; i=j; return t
    return rd()
tot=collections.Counter()
def walk(x, types, cnt):
    if not isinstance(x,list) or not x: return
    if x[0]=='cut':
        ty,p,c=x[1],x[2],x[3]
        ph,ch=p[0],c[0]
        if ty=='i64': k='i64'
        else:
            nm=ty[1][1]
            kind,nx=types[nm]
            k=f'{kind}{min(nx,3)}' + ('+' if nx>=3 else '')
        key=f'{ph}/{ch}'
        if key in ('var/var','mu/mu'):
            key+=' @'+k
        if ph=='mu' and ch=='mu' and ty!='i64':
            kind,nx=types[ty[1][1]]
            exp = p[3] if kind=='codata' else c[3]
            inl = nx<=1 or exp[0] in ('exit','call') or (exp[0]=='cut' and ((exp[2][0]=='var' and exp[3][0]=='xtor') or (exp[2][0]=='xtor' and exp[3][0]=='var')))
            key+=' inline' if inl else ' lift'
            if inl and nx>1: key+='(leaf)'
        if key.startswith('var/var') or key.startswith('mu/mu'): pass
        else:
            # distinguish data/codata for let/invoke/switch/create/known
            if ty!='i64': key+=' @'+types[ty[1][1]][0]
        cnt[key]+=1
    for y in x[1:]: walk(y,types,cnt)
for f in sys.argv[1:]:
    r=subprocess.run([H],input=f"stages {f} 3\n",capture_output=True,text=True)
    s3=[l for l in r.stdout.splitlines() if l.startswith('S3 OK ')]
    if not s3: print("NO S3",f, [l[:150] for l in r.stdout.splitlines() if ' DIAG ' in l or ' PANIC ' in l]); continue
    t=parse(s3[0][6:])
    types={}
    for d in t[2][1:]: types[d[1][1]]=('data',len(d)-2)
    for d in t[3][1:]: types[d[1][1]]=('codata',len(d)-2)
    cnt=collections.Counter(); walk(t[4],types,cnt)
    print(f.split('/')[-1], dict(cnt))
    tot.update(cnt)
print("TOTAL")
for k in sorted(tot): print(f"  {k:40s} {tot[k]}")
