#!/usr/bin/env python3
# usage: cmp.py files...   runs harness stages 4, feeds S3 to model, compares with S4
import subprocess, sys, os, re, tempfile
H='/verif/harness/target/debug/scc-harness'
M=os.environ.get('M3TEST','/verif/lean/.lake/build/bin/m3test')
def stages(f, upto=4):
    r=subprocess.run([H],input=f"stages {f} {upto}\n",capture_output=True,text=True)
    d={}
    for line in r.stdout.splitlines():
        if line=='END': break
        m=re.match(r'(S\w+) (OK|DIAG|PANIC) ?(.*)',line)
        if m: d[m.group(1)]=(m.group(2),m.group(3))
    return d
ok=bad=0
for f in sys.argv[1:]:
    d=stages(f)
    if 'S3' not in d or d['S3'][0]!='OK':
        print("NO-S3",f,d.get('S0',('',''))[0], d.get('S1',('',''))[:1], {k:v[0] for k,v in d.items()}); bad+=1; continue
    with tempfile.NamedTemporaryFile('w',suffix='.sexp',delete=False) as t:
        t.write(d['S3'][1]); tn=t.name
    r=subprocess.run([M,'shrink',tn],capture_output=True,text=True)
    os.unlink(tn)
    out=r.stdout.strip()
    exp=d.get('S4',('MISSING',''))
    if exp[0]=='OK':
        if out=='OK '+exp[1]:
            ok+=1; print("SAME",f)
        else:
            bad+=1; print("DIFF",f); 
            open('/tmp/agent_m3/last_model.txt','w').write(out); open('/tmp/agent_m3/last_rust.txt','w').write('OK '+exp[1])
    else:
        if out.startswith('PANIC') and exp[0]=='PANIC':
            ok+=1; print("SAME-PANIC",f,out,'|',exp[1][:100])
        else:
            bad+=1; print("DIFF",f,exp[0],exp[1][:200],out[:200])
print(f"ok={ok} bad={bad}")
