import Scc.Core2AxCut.Model
import Scc.Core2AxCut.FsTyping
import Scc.Core2AxCut.FreeVarsSpec
import Scc.AxCut.SemNamed
import Scc.AxCut.TypingNamed
open Scc

def main (args : List String) : IO Unit := do
  match args with
  | ["shrink", file] => do
    let text ← IO.FS.readFile file
    IO.println (Core2AxCut.runLine text.trimAscii.toString)
  | ["run", file, a, fuel] => do
    let text ← IO.FS.readFile file
    IO.println (AxCut.Named.runLineNamed text.trimAscii.toString a fuel.toNat!)
  | ["runlin", file, a, fuel] => do
    let text ← IO.FS.readFile file
    IO.println (AxCut.Named.runLineNamed text.trimAscii.toString a fuel.toNat! true)
  | ["wtax", file] => do
    let text ← IO.FS.readFile file
    IO.println (AxCut.Named.checkLine text.trimAscii.toString)
  | ["wtfs", file] => do
    let text ← IO.FS.readFile file
    IO.println (Core2AxCut.checkFsLine text.trimAscii.toString)
  | ["wtfs2", file] => do
    let text ← IO.FS.readFile file
    let text := text.trimAscii.toString
    match (Sexp.parse text).bind (Core.readFsProg (text.length + 10)) with
    | none => IO.println "ERR"
    | some p => IO.println s!"scoped={Core2AxCut.wtFsScopedCheck p} uniqueIds={Core2AxCut.uniqueIdsCheck p}"
  | _ => IO.println "usage"
