#!/usr/bin/env python3
# usage: runsem.py file.sc "args" [expected-stdout]: runs S4 and S5 dumps on the named machine
import subprocess, sys, os, re, tempfile
H='/verif/harness/target/debug/scc-harness'
M=os.environ.get('M3TEST','/verif/lean/.lake/build/bin/m3test')
def stages(f, upto=5):
    r=subprocess.run([H],input=f"stages {f} {upto}\n",capture_output=True,text=True)
    d={}
    for line in r.stdout.splitlines():
        if line=='END': break
        m=re.match(r'(S\w+) (OK|DIAG|PANIC) ?(.*)',line)
        if m: d[m.group(1)]=(m.group(2),m.group(3))
    return d
def run(mode,text,args,fuel=2000000):
    with tempfile.NamedTemporaryFile('w',suffix='.sexp',delete=False) as t:
        t.write(text); tn=t.name
    r=subprocess.run([M,mode,tn,args,str(fuel)],capture_output=True,text=True)
    os.unlink(tn); return r.stdout.strip()
def stdout_of(s):
    m=re.match(r'OK out=\[(.*)\] res=(.*)',s)
    if not m: return None
    out=''
    if m.group(1):
        for it in m.group(1).split(','):
            k,v=it.split(':'); out+=v+('\n' if k=='nl' else '')
    return out
f=sys.argv[1]; args=sys.argv[2] if len(sys.argv)>2 else ''
d=stages(f)
a=run('run',d['S4'][1],args); b=run('runlin',d['S5'][1],args)
tag='AGREE' if a==b else 'DISAGREE'
exp=''
if len(sys.argv)>3:
    exp = ' EXPECTED-OK' if stdout_of(a)==sys.argv[3] else ' EXPECTED-MISMATCH '+repr(sys.argv[3])
print(tag+exp, os.path.basename(f), '['+args+']', a[:300], '' if a==b else '|| S5: '+b[:300])
