#!/usr/bin/env python3
# O_sem: focused-Core machine on S3 vs named AxCut machine on shrink(S3), several argument vectors
import subprocess, sys, os, re, tempfile
H='/verif/harness/target/debug/scc-harness'
M=os.environ.get('M3SEM','/verif/lean/.lake/build/bin/m3sem')
bad=0; n=0
for f in sys.argv[1:]:
    r=subprocess.run([H],input=f"stages {f} 3\n",capture_output=True,text=True)
    s3=[l for l in r.stdout.splitlines() if l.startswith('S3 OK ')]
    if not s3: continue
    src=open(f).read()
    m=re.search(r'def main\s*(\(([^)]*)\))?\s*:', src)
    if not m: continue
    nparams=0 if not m.group(2) or not m.group(2).strip() else m.group(2).count(':')
    with tempfile.NamedTemporaryFile('w',suffix='.sexp',delete=False) as t:
        t.write(s3[0][6:]); tn=t.name
    vecs=[[]] if nparams==0 else [[v]*nparams for v in ('0','1','2','3','5','-1','7')]
    if 'ArithmeticExpressions' in f: vecs=[['14','5'],['0','0'],['7','0'],['-9223372036854775808','-1']]
    for v in vecs:
        out=subprocess.run([M,tn,' '.join(v),'3000000'],capture_output=True,text=True).stdout.strip()
        n+=1
        if not out.startswith('SEM-AGREE'): bad+=1
        print(os.path.basename(f),v,out[:200])
    os.unlink(tn)
print(f"runs={n} disagreements={bad}")
