// critical pairs at data types with 1, 2, 3, 4 constructors; non-leaf continuations (lift)
data Box { B(n: i64) }
data List[A] { Nil, Cons(x: A, xs: List[A]) }
data Tri { A1, B1(n: i64), C1(n: i64, m: i64) }
data Quad { Q0, Q1(n: i64), Q2(l: List[i64]), Q3(a: i64, b: Tri, c: i64) }
def mkB(n: i64) : Box { B(n) }
def mkL(n: i64) : List[i64] { if n == 0 { Nil } else { Cons(n, mkL(n - 1)) } }
def mkT(n: i64) : Tri { if n == 0 { A1 } else { if n == 1 { B1(n) } else { C1(n, n) } } }
def mkQ(n: i64) : Quad { if n == 0 { Q0 } else { Q3(n, mkT(n), n) } }
def len(l: List[i64]) : i64 { l.case[i64] { Nil => 0, Cons(x, xs) => 1 + len(xs) } }
def useB(b: Box, k: i64) : i64 { b.case { B(n) => n + k } }
def useT(t: Tri, k: i64) : i64 { t.case { A1 => k, B1(n) => n + k, C1(n, m) => (n + m) + k } }
def useQ(q: Quad, k: i64) : i64 { q.case { Q0 => k, Q1(n) => n, Q2(l) => len(l), Q3(a, b, c) => a + useT(b, c) } }
def cB(n: i64, k: i64) : i64 { let b : Box = mkB(n); println_i64(k); useB(b, k) + useB(b, n) }
def cL(n: i64, k: i64) : i64 { let l : List[i64] = mkL(n); println_i64(k); (len(l) + len(l)) + k }
def cT(n: i64, k: i64) : i64 { let t : Tri = mkT(n); println_i64(k); useT(t, k) + useT(t, n) }
def cQ(n: i64, k: i64) : i64 { let q : Quad = mkQ(n); println_i64(k); useQ(q, k) + useQ(q, n) }
def main(n: i64) : i64 { println_i64(cB(n, 1)); println_i64(cL(n, 2)); println_i64(cT(n, 3)); println_i64(cQ(n, 4)); 0 }
