// integer continuations stored in constructors, passed to destructors and to calls, invoked later
data KBox { K(k: cns i64, n: i64) }
codata Run { run(k: cns i64) : i64 }
def fire(b: KBox) : i64 { b.case { K(k, n) => goto k (n + 1) } }
def mk(n: i64) : Run { new { run(k) => if n == 0 { goto k (100) } else { n } } }
def thread(a: cns i64, b: cns i64, n: i64) : i64 { if n == 0 { goto a (1) } else { goto b (2) } }
def main(n: i64) : i64 {
  println_i64(label a { (fire(K(a, n))) + 1000 });
  println_i64(label a { (mk(n).run(a)) + 1000 });
  println_i64(label a { 10 + (label b { thread(a, b, n) + 100 }) });
  0 }
