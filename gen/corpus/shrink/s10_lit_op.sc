// literal / operation against mu-tilde and against a covariable
def l1() : i64 { 5 }
def l2() : i64 { let x : i64 = 7; x }
def o1(x: i64, y: i64) : i64 { x % y }
def o2(x: i64, y: i64) : i64 { let z : i64 = x / y; ((z * z) - x) + y }
def l3(a: cns i64) : i64 { goto a (42) }
def o3(x: i64, a: cns i64) : i64 { goto a (x + x) }
def main(n: i64) : i64 {
  println_i64(l1()); println_i64(l2()); println_i64(o1(17, 5)); println_i64(o2(20, 3));
  println_i64(label a { l3(a) }); println_i64(label b { o3(n, b) }); 0 }
