// known constructor against a case (1, 2 and 3 constructors)
data List[A] { Nil, Cons(x: A, xs: List[A]) }
data Pair[A, B] { Tup(x: A, y: B) }
data Tri { A1, B1(n: i64), C1(n: i64, m: i64) }
def k1() : i64 { Cons(1, Nil).case[i64] { Nil => 0, Cons(y, ys) => y } }
def k2() : i64 { Tup(3, 4).case[i64, i64] { Tup(a, b) => a - b } }
def k3() : i64 { C1(5, 6).case { A1 => 0, B1(n) => n, C1(n, m) => n * m } }
def k4() : i64 { Nil.case[i64] { Nil => 7, Cons(y, ys) => y } }
def main() : i64 { println_i64(k1()); println_i64(k2()); println_i64(k3()); println_i64(k4()); 0 }
