// critical pairs at data types whose expanded side is a leaf (call / exit / invoke): inlined
data List[A] { Nil, Cons(x: A, xs: List[A]) }
data Tri { A1, B1(n: i64), C1(n: i64, m: i64) }
def mkL(n: i64) : List[i64] { if n == 0 { Nil } else { Cons(n, mkL(n - 1)) } }
def mkT(n: i64) : Tri { if n == 0 { A1 } else { C1(n, n) } }
def len(l: List[i64]) : i64 { l.case[i64] { Nil => 0, Cons(x, xs) => 1 + len(xs) } }
def useT(t: Tri, k: i64) : i64 { t.case { A1 => k, B1(n) => n + k, C1(n, m) => (n + m) + k } }
def leafCallL(n: i64) : i64 { let l : List[i64] = mkL(n); len(l) }
def leafCallT(n: i64) : i64 { let t : Tri = mkT(n); useT(t, n) }
def leafRetL(n: i64) : List[i64] { let l : List[i64] = mkL(n); l }
def leafRetT(n: i64) : Tri { let t : Tri = mkT(n); t }
def leafConsL(n: i64) : List[i64] { let l : List[i64] = mkL(n); Cons(n, l) }
def main(n: i64) : i64 {
  println_i64(leafCallL(n)); println_i64(leafCallT(n)); println_i64(len(leafRetL(n)));
  println_i64(useT(leafRetT(n), 1)); println_i64(len(leafConsL(n))); 0 }
