// a continuation handed through two definitions
def inner(n: i64, k :cns i64): i64 { if n == 0 { goto k (100) } else { let r: i64 = inner(n - 1, k); r + 1 } }
def outer(n: i64, k :cns i64): i64 { let r: i64 = inner(n, k); println_i64(r); r + 1000 }
def main(n: i64): i64 { let v: i64 = label k { outer(n, k) }; println_i64(v); v }
