data List[A] { Nil, Cons(x: A, xs: List[A]) }
def mult(l: List[i64], a :cns i64): i64 {
  l.case[i64] { Nil => 1, Cons(x, xs) => print_i64(x); if x == 0 { goto a (0) } else { let r: i64 = mult(xs, a); println_i64(r); x * r } } }
def fmult(l: List[i64]): i64 { label a { mult(l, a) } }
def main(): i64 {
  let p: i64 = fmult(Cons(2, Cons(3, Cons(0, Cons(5, Nil)))));
  println_i64(p);
  let q: i64 = fmult(Cons(2, Cons(3, Cons(7, Nil))));
  println_i64(q);
  q }
