// codata-typed let of a value / a variable (aliases), used several times
codata Fun[A, B] { apply(x: A): B }
def main(n: i64): i64 {
  let f: Fun[i64, i64] = new { apply(x) => print_i64(x); x + n };
  let g: Fun[i64, i64] = f;
  let h: Fun[i64, i64] = (g);
  let a: i64 = f.apply[i64, i64](1); let b: i64 = g.apply[i64, i64](a); let c: i64 = h.apply[i64, i64](b);
  println_i64(c); c }
