// the body of a method runs at every invocation, never at construction
codata LazyPair[A, B] { fst: A, snd: B }
def use(p: LazyPair[i64, i64]): i64 { let a: i64 = p.fst[i64, i64]; let b: i64 = p.fst[i64, i64]; a + b }
def main(): i64 {
  let p: LazyPair[i64, i64] = new { fst => print_i64(1); 10, snd => print_i64(2); 20 };
  println_i64(0);
  let r: i64 = use(p);
  println_i64(r);
  r }
