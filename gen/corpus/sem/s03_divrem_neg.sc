// truncating division and remainder
def main(a: i64, b: i64): i64 {
  let q: i64 = a / b; let r: i64 = a % b;
  print_i64(q); print_i64(r); println_i64((q * b) + r);
  let q2: i64 = a / (0 - b); let r2: i64 = a % (0 - b);
  print_i64(q2); println_i64(r2);
  let q3: i64 = (0 - a) / (0 - b); let r3: i64 = (0 - a) % (0 - b);
  print_i64(q3); println_i64(r3);
  q + r }
