// an infinite stream as codata; traversal stays in evaluation position
codata Stream { head: i64, nth(k: i64): i64 }
def from(n: i64): Stream { new { head => n, nth(k) => if k == 0 { n } else { from(n + 3).nth(k - 1) } } }
def main(k: i64): i64 { let a: i64 = from(10).nth(k); println_i64(a); let b: i64 = from(a).head; println_i64(b); a - b }
