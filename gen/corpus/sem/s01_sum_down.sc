// recursion on a decreasing counter, accumulator
def sum(n: i64, acc: i64): i64 { if n == 0 { acc } else { sum(n - 1, acc + n) } }
def main(n: i64): i64 { let s: i64 = sum(n, 0); println_i64(s); s }
