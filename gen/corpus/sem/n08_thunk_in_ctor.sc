data List[A] { Nil, Cons(x: A, xs: List[A]) }
codata Fun[A, B] { apply(x: A): B }
def mk(n: i64): Fun[i64, i64] { print_i64(n); new { apply(x) => x + n } }
def use(l: List[Fun[i64, i64]]): i64 { l.case[Fun[i64, i64]] { Nil => 0, Cons(f, r) => (f.apply[i64, i64](1)) + (f.apply[i64, i64](2)) } }
def main(): i64 { let l: List[Fun[i64, i64]] = Cons(mk(5), Nil); println_i64(0); let r: i64 = use(l); println_i64(r); r }
