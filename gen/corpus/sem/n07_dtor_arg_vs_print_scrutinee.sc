codata Fun[A, B] { apply(x: A): B }
def t(x: i64): i64 { print_i64(x); x }
def main(): i64 {
  let f: Fun[i64, i64] = new { apply(x) => x + 1 };
  let r: i64 = (print_i64(1); f).apply[i64, i64](t(2)); println_i64(r); r }
