// more live variables than registers
def f(a: i64, b: i64, c: i64, d: i64, e: i64, g: i64, h: i64, i: i64, j: i64, k: i64): i64 {
  let s1: i64 = (a + (b * 2)) + ((c * 3) + (d * 4));
  let s2: i64 = (e * 5) + ((g * 6) + (h * 7));
  let s3: i64 = ((i * 8) + (j * 9)) + (k * 10);
  println_i64(s1); println_i64(s2); println_i64(s3);
  ((s1 + s2) + s3) - ((a + b) + (j + k)) }
def main(n: i64): i64 { let r: i64 = f(n, n + 1, n + 2, n + 3, n + 4, n + 5, n + 6, n + 7, n + 8, n + 9); println_i64(r); r }
