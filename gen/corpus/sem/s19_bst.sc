data Tree { Leaf, Node(l: Tree, v: i64, r: Tree) }
def insert(t: Tree, k: i64): Tree {
  t.case { Leaf => Node(Leaf, k, Leaf),
           Node(l, v, r) => if k < v { let l2: Tree = insert(l, k); Node(l2, v, r) } else { let r2: Tree = insert(r, k); Node(l, v, r2) } } }
def show(t: Tree): i64 { t.case { Leaf => 0, Node(l, v, r) => let a: i64 = show(l); println_i64(v); let b: i64 = show(r); (a + b) + 1 } }
def main(): i64 {
  let t1: Tree = insert(Leaf, 5); let t2: Tree = insert(t1, -3); let t3: Tree = insert(t2, 9);
  let t4: Tree = insert(t3, 0); let t5: Tree = insert(t4, 7); let t6: Tree = insert(t5, 5);
  show(t6) }
