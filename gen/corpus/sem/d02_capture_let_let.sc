// same defect through let.rs: the continuation `y + x` is placed under the inner binder x
def f(x: i64): i64 { let y: i64 = (let x: i64 = 1; x + 1); y + x }
def main(n: i64): i64 { let r: i64 = f(n); println_i64(r); r }
