def b(c: i64): i64 { print_i64(c); c }
def main(a: i64, z: i64): i64 {
  let r1: i64 = if a < z { 1 } else { 0 }; let r2: i64 = if a <= z { 1 } else { 0 };
  let r3: i64 = if a > z { 1 } else { 0 }; let r4: i64 = if a >= z { 1 } else { 0 };
  let r5: i64 = if a == z { 1 } else { 0 }; let r6: i64 = if a != z { 1 } else { 0 };
  let r7: i64 = if a < 0 { 1 } else { 0 }; let r8: i64 = if 0 < a { 1 } else { 0 };
  let r9: i64 = if a <= 0 { 1 } else { 0 }; let r10: i64 = if 0 >= z { 1 } else { 0 };
  print_i64(r1); print_i64(r2); print_i64(r3); print_i64(r4); print_i64(r5); print_i64(r6);
  print_i64(r7); print_i64(r8); print_i64(r9); println_i64(r10);
  ((r1 + r2) + (r3 + r4)) + ((r5 + r6) + (r7 + r8)) }
