// same defect with a one-clause case (no sharing of the continuation involved)
data Box { B(x: i64) }
def f(x: i64, b: Box): i64 { let y: i64 = b.case { B(x) => x + 1 }; y + x }
def main(n: i64): i64 { let r: i64 = f(n, B(1)); println_i64(r); r }
