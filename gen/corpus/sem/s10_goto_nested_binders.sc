// goto out of let / case / new binders; variables of the label's scope are intact afterwards
data List[A] { Nil, Cons(x: A, xs: List[A]) }
def main(n: i64): i64 {
  let base: i64 = n * 10;
  let r: i64 = label out {
    let x: i64 = n + 1;
    let l: List[i64] = Cons(x, Cons(base, Nil));
    l.case[i64] { Nil => 0, Cons(y, ys) =>
      let z: i64 = y * 2;
      ys.case[i64] { Nil => 1, Cons(w, ws) => let base: i64 = 7; goto out ((z + w) + base) } } };
  println_i64(r);
  println_i64(base);
  r + base }
