data List[A] { Nil, Cons(x: A, xs: List[A]) }
data Pair[A, B] { Tup(a: A, b: B) }
def sumP(p: Pair[List[i64], i64]): i64 { p.case[List[i64], i64] { Tup(l, k) => l.case[i64] { Nil => k, Cons(x, xs) => sumP(Tup(xs, k + x)) } } }
def main(n: i64): i64 { let r: i64 = sumP(Tup(Cons(n * 2, Cons((n + 1) * (n - 1), Cons(0 - n, Nil))), 100)); println_i64(r); r }
