// D1: lexical scoping says y + x = 1 + 100
data List[A] { Nil, Cons(x: A, xs: List[A]) }
def f(x: i64, l: List[i64]): i64 { let y: i64 = l.case[i64] { Nil => 0, Cons(x, xs) => x }; y + x }
def main(n: i64): i64 { let r: i64 = f(n, Cons(1, Nil)); println_i64(r); r }
