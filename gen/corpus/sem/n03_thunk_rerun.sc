// a codata-typed let of a call is by name: the call runs at every destructor invocation
codata Fun[A, B] { apply(x: A): B }
def mk(n: i64): Fun[i64, i64] { print_i64(n); new { apply(x) => x + n } }
def main(): i64 {
  let f: Fun[i64, i64] = mk(7);
  println_i64(0);
  let a: i64 = f.apply[i64, i64](1);
  let b: i64 = f.apply[i64, i64](2);
  println_i64(a + b);
  let g: Fun[i64, i64] = mk(8);
  a + b }
