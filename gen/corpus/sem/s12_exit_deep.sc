def g(n: i64): i64 { if n == 0 { println_i64(77); exit 3 } else { let r: i64 = g(n - 1); println_i64(r); r } }
def main(n: i64): i64 { let r: i64 = g(n); println_i64(r); 0 }
