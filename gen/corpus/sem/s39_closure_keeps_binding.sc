// a closure keeps the binding of x it was created with; later lets of the same name do not affect it
codata Fun[A, B] { apply(x: A): B }
def main(x: i64): i64 {
  let f: Fun[i64, i64] = new { apply(y) => x + y };
  let x: i64 = x * 100;
  let g: Fun[i64, i64] = new { apply(x) => x + 1 };
  let a: i64 = f.apply[i64, i64](1); let b: i64 = g.apply[i64, i64](x);
  println_i64(a); println_i64(b); println_i64(x); a + b }
