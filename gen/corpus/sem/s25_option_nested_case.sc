data Option[A] { None, Some(x: A) }
data Pair[A, B] { Tup(a: A, b: B) }
def safeDiv(a: i64, b: i64): Option[i64] { if b == 0 { None } else { let q: i64 = a / b; Some(q) } }
def both(p: Pair[Option[i64], Option[i64]]): i64 {
  p.case[Option[i64], Option[i64]] { Tup(x, y) =>
    x.case[i64] { None => -1, Some(u) => y.case[i64] { None => -2, Some(v) => u + v } } } }
def main(n: i64): i64 {
  let o1: Option[i64] = safeDiv(100, n); let o2: Option[i64] = safeDiv(7, n - 4); let o3: Option[i64] = safeDiv(9, n - 1);
  let r1: i64 = both(Tup(o1, o2)); let r2: i64 = both(Tup(o2, o1)); let r3: i64 = both(Tup(o1, o3));
  println_i64(r1); println_i64(r2); println_i64(r3); r3 }
