// exit discards the pending let-continuations and closure callers
codata Fun[A, B] { apply(x: A): B }
def call(f: Fun[i64, i64], v: i64): i64 { let r: i64 = f.apply[i64, i64](v); println_i64(r); r + 1 }
def main(n: i64): i64 {
  let a: i64 = call(new { apply(x) => x + 5 }, 1);
  let b: i64 = call(new { apply(x) => if x == n { print_i64(a); exit 300 } else { x } }, 0);
  println_i64(b);
  b }
