def even(n: i64): i64 { if n == 0 { 1 } else { odd(n - 1) } }
def odd(n: i64): i64 { if n == 0 { 0 } else { even(n - 1) } }
def main(n: i64): i64 { let e: i64 = even(n); let o: i64 = odd(n); print_i64(e); println_i64(o); (e * 2) + o }
