// nested labels with the same name: goto reaches the innermost one
def main(n: i64): i64 {
  let r: i64 = label a { let s: i64 = label a { if n == 2 { goto a (10) } else { 20 } }; s + 1 };
  println_i64(r);
  let t: i64 = label a { let s: i64 = label b { if n == 2 { goto a (10) } else { 20 } }; s + 1 };
  println_i64(t);
  r + t }
