data List[A] { Nil, Cons(x: A, xs: List[A]) }
codata Fun2[A, B, C] { apply2(x: A, y: B): C }
def range(n: i64, acc: List[i64]): List[i64] { if n == 0 { acc } else { range(n - 1, Cons(n, acc)) } }
def foldl(f: Fun2[i64, i64, i64], acc: i64, l: List[i64]): i64 { l.case[i64] { Nil => acc, Cons(x, xs) => let a: i64 = f.apply2[i64, i64, i64](acc, x); foldl(f, a, xs) } }
def main(n: i64): i64 {
  let l: List[i64] = range(n, Nil);
  let s: i64 = foldl(new { apply2(a, x) => print_i64(x); (a * 10) + x }, 0, l);
  println_i64(0); println_i64(s); s }
