// a label at a codata type: the captured continuation contains the pending destructor
codata Fun[A, B] { apply(x: A): B }
def pick(n: i64): Fun[i64, i64] { label a { if n == 0 { goto a (new { apply(x) => x + 1 }) } else { new { apply(x) => x * 2 } } } }
def main(n: i64): i64 {
  let r: i64 = pick(n).apply[i64, i64](5);
  let s: i64 = pick(n + 1).apply[i64, i64](5);
  println_i64(r); println_i64(s); r + s }
