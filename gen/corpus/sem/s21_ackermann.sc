def ack(m: i64, n: i64): i64 {
  if m == 0 { n + 1 } else { if n == 0 { ack(m - 1, 1) } else { let r: i64 = ack(m, n - 1); ack(m - 1, r) } } }
def main(m: i64, n: i64): i64 { let r: i64 = ack(m, n); println_i64(r); r }
