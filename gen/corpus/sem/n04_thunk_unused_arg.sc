// a codata-typed argument that is never used is never run
codata Fun[A, B] { apply(x: A): B }
def bad(): Fun[i64, i64] { println_i64(666); exit 9 }
def ignore(f: Fun[i64, i64], v: i64): i64 { v + 1 }
def main(): i64 { let r: i64 = ignore(bad(), 4); println_i64(r); r }
