// factorial wraps modulo 2^64; remainder of a negative number is negative
def fact(n: i64): i64 { if n <= 0 { 1 } else { let r: i64 = fact(n - 1); n * r } }
def main(n: i64): i64 { let f: i64 = fact(n); println_i64(f); let g: i64 = f % 1000; println_i64(g); g }
