// let shadows a parameter; the inner let sees the previous binding on its right-hand side
def f(x: i64): i64 { let x: i64 = x + 1; let x: i64 = x * 2; x }
def main(n: i64): i64 { let x: i64 = f(n); println_i64(x); println_i64(n); x }
