// exit while argument frames are pending
def t(x: i64): i64 { print_i64(x); x }
def three(a: i64, b: i64, c: i64): i64 { println_i64(a); (a + b) + c }
def main(): i64 { let r: i64 = three(t(1), t(2) + (exit 42), t(3)); println_i64(r); r }
