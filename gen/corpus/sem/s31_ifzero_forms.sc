def sign(x: i64): i64 { if x == 0 { 0 } else { if x < 0 { -1 } else { 1 } } }
def main(n: i64): i64 {
  let a: i64 = sign(n); let b: i64 = sign(0 - n); let c: i64 = sign(n - n);
  let d: i64 = if 0 == c { 5 } else { 6 }; let e: i64 = if n != 0 { 7 } else { 8 };
  let g: i64 = if 0 > n { 9 } else { 10 }; let h: i64 = if n >= 0 { 11 } else { 12 };
  print_i64(a); print_i64(b); print_i64(c); print_i64(d); print_i64(e); print_i64(g); println_i64(h);
  (a + b) + ((d + e) + (g + h)) }
