def main(n: i64): i64 { println_i64(n); (0 - n) - 1 }
