// a label inside an argument captures the pending argument frame; it is resumed twice
def three(a: i64, b: i64, c: i64): i64 { (a * 100) + ((b * 10) + c) }
def t(x: i64): i64 { print_i64(x); x }
def main(): i64 {
  let r: i64 = label out { three(t(1), label a { let v: i64 = goto a (2); v }, goto out (t(7))) };
  println_i64(r); r }
