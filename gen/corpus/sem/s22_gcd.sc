def gcd(a: i64, b: i64): i64 { if b == 0 { a } else { let r: i64 = a % b; gcd(b, r) } }
def main(a: i64, b: i64): i64 { let g: i64 = gcd(a, b); println_i64(g); let q: i64 = a / g; let l: i64 = q * b; println_i64(l); g }
