// a suspended label: every invocation captures its own destructor continuation
codata Fun[A, B] { apply(x: A): B }
def main(): i64 {
  let f: Fun[i64, i64] = label a { print_i64(1); goto a (new { apply(x) => x * 2 }) };
  let a: i64 = f.apply[i64, i64](10);
  let b: i64 = f.apply[i64, i64](a);
  println_i64(b); b }
