codata Fun[A, B] { apply(x: A): B }
def mkAdd(n: i64): Fun[i64, i64] { new { apply(x) => x + n } }
def main(n: i64): i64 {
  let a: i64 = mkAdd(n).apply[i64, i64](4);
  let b: i64 = mkAdd(a).apply[i64, i64](a);
  println_i64(a); println_i64(b); b }
