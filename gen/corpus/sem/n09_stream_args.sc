codata Stream[A] { head: A, tail: Stream[A] }
def from(n: i64): Stream[i64] { new { head => n, tail => from(n + 1) } }
def nth(s: Stream[i64], k: i64): i64 { if k == 0 { s.head[i64] } else { nth(s.tail[i64], k - 1) } }
def zipAdd(a: Stream[i64], b: Stream[i64]): Stream[i64] { new { head => (a.head[i64]) + (b.head[i64]), tail => zipAdd(a.tail[i64], b.tail[i64]) } }
def main(k: i64): i64 { let r: i64 = nth(zipAdd(from(0), from(100)), k); println_i64(r); r }
