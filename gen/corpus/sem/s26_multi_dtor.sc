codata Counter { get: i64, add(n: i64, m: i64): i64, next: Counter }
def counter(c: i64): Counter { new { get => c, add(n, m) => (c + n) * m, next => counter(c + 1) } }
def main(n: i64): i64 {
  let a: i64 = counter(n).next.next.get;
  let b: i64 = counter(n).add(2, 10);
  let c: i64 = counter(a).next.add(b, b - 49);
  println_i64(a); println_i64(b); println_i64(c); c }
