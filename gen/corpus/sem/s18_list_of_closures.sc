data List[A] { Nil, Cons(x: A, xs: List[A]) }
codata Fun[A, B] { apply(x: A): B }
def applyAll(fs: List[Fun[i64, i64]], v: i64): i64 {
  fs.case[Fun[i64, i64]] { Nil => v, Cons(f, rest) => let w: i64 = f.apply[i64, i64](v); println_i64(w); applyAll(rest, w) } }
def main(n: i64): i64 {
  let fs: List[Fun[i64, i64]] = Cons(new { apply(x) => x + n }, Cons(new { apply(x) => x * n }, Cons(new { apply(x) => x - 1 }, Nil)));
  applyAll(fs, 10) }
