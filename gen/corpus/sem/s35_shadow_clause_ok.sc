// pattern variables shadow a parameter only inside their clause
data List[A] { Nil, Cons(x: A, xs: List[A]) }
def hd(x: i64, l: List[i64]): i64 { l.case[i64] { Nil => x, Cons(x, xs) => x } }
def f(x: i64, l: List[i64]): i64 { let y: i64 = hd(0, l); y + x }
def main(n: i64): i64 { let r: i64 = f(n, Cons(1, Nil)); println_i64(r); let s: i64 = hd(n, Nil); println_i64(s); r }
