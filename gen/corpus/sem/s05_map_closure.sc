data List[A] { Nil, Cons(x: A, xs: List[A]) }
codata Fun[A, B] { apply(x: A): B }
def map(f: Fun[i64, i64], l: List[i64]): List[i64] {
  l.case[i64] { Nil => Nil, Cons(x, xs) => let y: i64 = f.apply[i64, i64](x); let ys: List[i64] = map(f, xs); Cons(y, ys) } }
def show(l: List[i64]): i64 { l.case[i64] { Nil => 0, Cons(x, xs) => println_i64(x); show(xs) } }
def main(k: i64): i64 {
  let l: List[i64] = Cons(1, Cons(2, Cons(3, Nil)));
  let m: List[i64] = map(new { apply(x) => (x * k) + 1 }, l);
  show(m) }
