// effects in operator / call / constructor arguments: left to right
data List[A] { Nil, Cons(x: A, xs: List[A]) }
def t(x: i64): i64 { print_i64(x); x }
def three(a: i64, b: i64, c: i64): i64 { (a * 100) + ((b * 10) + c) }
def show(l: List[i64]): i64 { l.case[i64] { Nil => 0, Cons(x, xs) => println_i64(x); show(xs) } }
def main(): i64 {
  let a: i64 = t(1) + t(2); println_i64(a);
  let b: i64 = three(t(3), t(4), t(5)); println_i64(b);
  let l: List[i64] = Cons(t(6), Cons(t(7), Nil));
  let c: i64 = if t(8) < t(9) { t(10) } else { t(11) }; println_i64(c);
  show(l) }
