// non-tail recursion 20000 deep: continuations live on the heap
def sum(n: i64): i64 { if n == 0 { 0 } else { let r: i64 = sum(n - 1); n + r } }
def main(n: i64): i64 { let s: i64 = sum(n); println_i64(s); s }
