// a continuation escapes inside a closure and is resumed after its label has returned
codata Fun[A, B] { apply(x: A): B }
data P { MkP(v: i64, f: Fun[i64, i64]) }
def main(n: i64): i64 {
  let p: P = label k { MkP(0, new { apply(x) => goto k (MkP(x, new { apply(y) => y + 1 })) }) };
  p.case { MkP(v, f) => println_i64(v); if v == 0 { f.apply[i64, i64](n) } else { let w: i64 = f.apply[i64, i64](v); println_i64(w); w } } }
