data List[A] { Nil, Cons(x: A, xs: List[A]) }
def build(n: i64, acc: List[i64]): List[i64] { if n == 0 { acc } else { build(n - 1, Cons(n * n, acc)) } }
def sum(l: List[i64]): i64 { l.case[i64] { Nil => 0, Cons(x, xs) => let r: i64 = sum(xs); x + r } }
def len(l: List[i64], acc: i64): i64 { l.case[i64] { Nil => acc, Cons(x, xs) => len(xs, acc + 1) } }
def main(n: i64): i64 { let l: List[i64] = build(n, Nil); let s: i64 = sum(l); println_i64(s); let k: i64 = len(l, 0); println_i64(k); s - k }
