def fib(n: i64): i64 { if n < 2 { n } else { fib(n - 1) + fib(n - 2) } }
def main(n: i64): i64 { println_i64(fib(n)); fib(n - 5) }
