// 2^63 wraps to the minimum integer; minimum - 1 is the maximum
def pow2(n: i64, acc: i64): i64 { if n == 0 { acc } else { pow2(n - 1, acc * 2) } }
def main(n: i64): i64 {
  let m: i64 = pow2(n, 1);
  println_i64(m);
  let x: i64 = m - 1;
  println_i64(x);
  let y: i64 = x + 1;
  println_i64(y);
  let z: i64 = m * m;
  println_i64(z);
  let q: i64 = m / 3;
  println_i64(q);
  if m < 0 { if x > 0 { 1 } else { 2 } } else { 3 } }
