codata Fun[A, B] { apply(x: A): B }
def run(f: Fun[i64, i64], n: i64): i64 { if n == 0 { 0 } else { let r: i64 = f.apply[i64, i64](n); println_i64(r); run(f, n - 1) } }
def main(n: i64): i64 {
  let r: i64 = label k { run(new { apply(x) => if x == 1 { exit 17 } else { if x == 5 { goto k (x) } else { x * x } } }, n) };
  println_i64(r); r }
