// the argument of goto is a general term: it runs with the target continuation
def main(n: i64): i64 {
  let r: i64 = label a { let u: i64 = goto a (print_i64(n); let m: i64 = n * n; if m > 5 { m } else { goto a (0 - m) }); println_i64(u); 99 };
  println_i64(r); r }
