data Tree { Leaf, Node(l: Tree, v: i64, r: Tree) }
def build(d: i64, v: i64): Tree { if d == 0 { Leaf } else { let l: Tree = build(d - 1, v * 2); let r: Tree = build(d - 1, (v * 2) + 1); Node(l, v, r) } }
def sum(t: Tree): i64 { t.case { Leaf => 0, Node(l, v, r) => let a: i64 = sum(l); let b: i64 = sum(r); (a + v) + b } }
def depth(t: Tree): i64 { t.case { Leaf => 0, Node(l, v, r) => let a: i64 = depth(l); let b: i64 = depth(r); if a < b { b + 1 } else { a + 1 } } }
def main(d: i64): i64 { let t: Tree = build(d, 1); let s: i64 = sum(t); println_i64(s); let e: i64 = depth(t); println_i64(e); s }
