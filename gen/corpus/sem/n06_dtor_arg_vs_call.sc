// effect order between a destructor argument and a called scrutinee (fixed only by the translation)
codata Fun[A, B] { apply(x: A): B }
def t(x: i64): i64 { print_i64(x); x }
def mk(n: i64): Fun[i64, i64] { print_i64(n); new { apply(x) => x + n } }
def main(): i64 { let r: i64 = mk(1).apply[i64, i64](t(2)); println_i64(r); r }
