codata Fun[A, B] { apply(x: A): B }
def main(n: i64): i64 {
  let f: Fun[i64, i64] = if n == 1 { print_i64(1); new { apply(x) => x + 1 } } else { print_i64(2); new { apply(x) => x + 2 } };
  let a: i64 = f.apply[i64, i64](10); let b: i64 = f.apply[i64, i64](20);
  println_i64(a + b); a + b }
