codata Fun[A, B] { apply(x: A): B }
def mk(n: i64): Fun[i64, i64] { print_i64(n); new { apply(x) => x + n } }
def id(f: Fun[i64, i64]): Fun[i64, i64] { f }
def main(): i64 { let r: i64 = id(id(mk(3))).apply[i64, i64](4); println_i64(r); let g: Fun[i64, i64] = id(mk(5)); let s: i64 = (g.apply[i64, i64](1)) + (g.apply[i64, i64](2)); println_i64(s); s }
