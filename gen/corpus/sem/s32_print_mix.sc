def main(n: i64): i64 {
  print_i64(n); print_i64(0 - n); println_i64(0); print_i64(-5); println_i64((n * n) - 200);
  println_i64(1000000007 * 1000000009); print_i64(7); 255 + n }
