codata Fun[A, B] { apply(x: A): B }
def compose(f: Fun[i64, i64], g: Fun[i64, i64]): Fun[i64, i64] { new { apply(x) => let y: i64 = g.apply[i64, i64](x); f.apply[i64, i64](y) } }
def twice(f: Fun[i64, i64]): Fun[i64, i64] { compose(f, f) }
def main(n: i64): i64 {
  let r: i64 = compose(new { apply(x) => x * 2 }, new { apply(x) => x + 1 }).apply[i64, i64](n);
  println_i64(r);
  let s: i64 = twice(new { apply(x) => x * x }).apply[i64, i64](n);
  println_i64(s);
  s - r }
