// continuation-passing with codata functions: factorial
codata Fun[A, B] { apply(x: A): B }
def factK(n: i64, k: Fun[i64, i64]): i64 { if n == 0 { k.apply[i64, i64](1) } else { factK(n - 1, new { apply(r) => k.apply[i64, i64](n * r) }) } }
def main(n: i64): i64 { let r: i64 = factK(n, new { apply(x) => println_i64(x); x }); r }
