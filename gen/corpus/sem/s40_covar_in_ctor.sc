// a continuation stored in a constructor and resumed from the pattern match
data K { MkK(k :cns i64, v: i64) }
def fire(b: K): i64 { b.case { MkK(j, v) => print_i64(v); goto j (v * 2) } }
def main(n: i64): i64 { let r: i64 = label k { let u: i64 = fire(MkK(k, n)); println_i64(u); u + 1000 }; println_i64(r); r }
