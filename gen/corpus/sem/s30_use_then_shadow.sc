// a shared continuation that first USES an outer variable and then SHADOWS it with a let of the same name and type
def f(x: i64): i64 { let y: i64 = x + 1; let s: i64 = if x == 0 { 10 } else { 20 }; let z: i64 = y + s; let y: i64 = z * 2; y }
data List[A] { Nil, Cons(h: A, t: List[A]) }
def g(l: List[i64], y: i64): i64 { let s: i64 = l.case[i64] { Nil => 1, Cons(h, t) => h }; let z: i64 = y + s; let y: i64 = z * 3; y + s }
def main(a: i64): i64 { println_i64(f(a)); println_i64(f(0)); println_i64(g(Cons(a, Nil), 5)); 0 }
