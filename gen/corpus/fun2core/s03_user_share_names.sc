data List[A] { Nil, Cons(x: A, xs: List[A]) }
def share_f_0(x: i64): i64 { x + 1 }
def share_main_0(x: i64): i64 { x }
def share_main_2(x: i64): i64 { x }
def f(x: i64, y: i64): i64 { let z: i64 = if x == y { 1 } else { 2 }; let w: i64 = if z < y { z } else { y }; share_f_0((z + w)) }
def main(): i64 { let r: i64 = if f(1, 2) == 0 { 1 } else { 2 }; let s: i64 = if r == 1 { share_main_0(3) } else { share_main_2(4) }; let t: i64 = if s == 1 { 5 } else { 6 }; println_i64(((r + s) + t)); 0 }
