def f(a: i64, b: i64): i64 {
  (if a == b { if a < 1 { if b > 2 { 1 } else { 2 } } else { if b == 0 { 3 } else { 4 } } } else { if a != 0 { if b <= 9 { 5 } else { 6 } } else { 7 } }) + (if a == 0 { 1 } else { if b == 0 { 2 } else { 3 } }) }
def main(): i64 { println_i64(f(1, 2)); 0 }
