data List[A] { Nil, Cons(x: A, xs: List[A]) }
data Tri { A, B, C }
def f(t: Tri, u: Tri, n: i64): i64 { let a: i64 = t.case { A => 1, B => 2, C => 3 }; let b: i64 = u.case { A => a, B => a + 1, C => a + n }; let c: i64 = t.case { A => b, B => a, C => n }; (a + b) + c }
def main(): i64 { println_i64(f(A, B, 5)); 0 }
