def f(x: i64): i64 { let x: i64 = x + 1; let x: i64 = x * 2; let y: i64 = (let x: i64 = 5; x + 1); x + y }
def main(): i64 { println_i64(f(1)); 0 }
