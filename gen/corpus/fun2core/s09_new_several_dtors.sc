codata Obj { get(): i64, add(n: i64): i64, twice(n: i64, m: i64): Obj, self(): Obj }
def mk(base: i64): Obj { new { get() => base, add(n) => base + n, twice(n, m) => mk(((n + m) + base)), self() => mk(base) } }
def main(): i64 { let o: Obj = mk(3); let p: Obj = o.twice(1, 2).self(); println_i64(p.add(o.get())); 0 }
