data List[A] { Nil, Cons(x: A, xs: List[A]) }
def share_share_f_0_0(x: i64): i64 { x }
def f(x: i64, a: i64, x0: i64, a0: i64): i64 { let x1: i64 = if x == a { x0 } else { a0 }; let a1: i64 = if x1 == 0 { 1 } else { 2 }; let x2: i64 = label a2 { if a1 == 1 { goto a2 (x1) } else { 3 } }; (x1 + a1) + x2 }
def share_f_1(y: i64): i64 { y }
def main(): i64 { println_i64((f(1, 2, 3, 4) + share_f_1(share_share_f_0_0(1)))); 0 }
